#!/usr/bin/env python3
"""setup_cmd: verify that the tools the checks need are present (nothing is built ahead of time:
every check regenerates its inputs from /repo's working tree)."""
import shutil, subprocess, sys
ok = True
for tool in ('verus', 'cargo-kani', 'cargo'):
    if not shutil.which(tool):
        print('missing tool', tool); ok = False
try:
    v = subprocess.run(['verus', '--version'], capture_output=True, text=True).stdout.strip().splitlines()[0]
    print(v)
except Exception as e:
    print('verus not runnable', e); ok = False
sys.exit(0 if ok else 1)
