#!/bin/bash
# usage: confirm_mutant.sh <worktree> <mutant-dir> <crate> [features]  -> prints a summary line; leaves the worktree clean
wt=$1; m=$2; crate=${3:-tonic}; feats=${4:---features gzip,deflate,zstd}
cd $wt || exit 9
export CARGO_TARGET_DIR=$wt/target CARGO_NET_OFFLINE=true
git checkout -q -- . ; git clean -fdq -e target
run() { cargo test --offline -p $crate --lib $feats 2>&1 | grep -E "^test result|FAILED|failed|panicked" | grep -E "^test result" | tail -1; }
# 1. patch only: existing lib tests
git apply $m/patch.diff || { echo "$m: PATCH DOES NOT APPLY"; exit 1; }
r1=$(run)
# 2. patch + demo
git apply $m/demo.diff || { echo "$m: DEMO DOES NOT APPLY on patch"; git checkout -q -- .; exit 1; }
r2=$(run)
# 3. demo only
git checkout -q -- . ; git clean -fdq -e target
git apply $m/demo.diff
r3=$(run)
git checkout -q -- . ; git clean -fdq -e target
echo "$m | patch-only: $r1 | patch+demo: $r2 | demo-only: $r3"
