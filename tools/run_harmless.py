#!/usr/bin/env python3
"""applies each semantics-preserving edit in seeded/harmless/ to /repo, runs the checks of the properties that cover the
touched file, and asserts that none raises an alarm (exit 0 or exit 2 = undecided are both acceptable; exit 1 is a false alarm)"""
import glob, os, subprocess, sys, re
ROOT = os.path.dirname(os.path.dirname(os.path.abspath(__file__)))
PROPS = {'h51': ['C09'], 'h52': ['C09', 'C14'], 'h53': ['C03'], 'h54': ['C02', 'C12'], 'h55': ['C09', 'C15'], 'h56': ['C08'], 'h57': ['C14'], 'h58': ['C14', 'C02'], 'h41': ['C15'], 'h42': ['C15'], 'h43': ['C19'], 'h44': ['C08'], 'h45': ['C20'], 'h46': ['C14'], 'h47': ['C06'], 'h48': ['C08'], 'h49': ['C08'], 'h50': ['C08'], 'h02': ['C01', 'C03'], 'h03': ['C09'], 'h04': ['C16'], 'h05': ['C19'], 'h06': ['C09'], 'h07': ['C04', 'C02'], 'h09': ['C14'],
         'h10': ['C02'], 'h11': ['C02', 'C05'], 'h12': ['C16'], 'h13': ['C02'], 'h14': ['C03', 'C05'], 'h15': ['C19'], 'h16': ['C17'], 'h17': ['C16'], 'h18': ['C01', 'C06'], 'h19': ['C04', 'C12'], 'h20': ['C01', 'C07'], 'h21': ['C09'], 'h22': ['C05'], 'h23': ['C14'], 'h24': ['C08', 'C02'], 'h25': ['C20'], 'h26': ['C20'], 'h27': ['C20'], 'h28': ['C20'], 'h29': ['C20'], 'h30': ['C20'], 'h31': ['C15'], 'h32': ['C15'], 'h33': ['C15'], 'h34': ['C09', 'C14'], 'h35': ['C19'], 'h36': ['C09', 'C02'], 'h37': ['C07'], 'h38': ['C07'], 'h39': ['C02'], 'h40': ['C01']}
bad = 0
rows = []
only = sys.argv[1:]          # e.g. h41 h42: run these only, keep the recorded outcome of the others
prev = {}
rp = os.path.join(ROOT, 'seeded', 'harmless', 'RESULTS.md')
if only and os.path.exists(rp):
    for l in open(rp):
        m = re.match(r'\| (\S+\.diff) \| (\S+) \| (.*) \|$', l.strip())
        if m:
            prev.setdefault(m.group(1), []).append((m.group(1), m.group(2), m.group(3)))
for d in sorted(glob.glob(os.path.join(ROOT, 'seeded', 'harmless', '*.diff'))):
    key = os.path.basename(d)[:3]
    if only and key not in only:
        rows.extend(prev.get(os.path.basename(d), []))
        continue
    assert subprocess.run(['git', '-C', '/repo', 'status', '--porcelain'], capture_output=True, text=True).stdout.strip() == '', '/repo not clean'
    subprocess.run(['git', '-C', '/repo', 'apply', d], check=True)
    try:
        for p in PROPS.get(key, []):
            r = subprocess.run([os.path.join(ROOT, 'bin', 'check'), p], capture_output=True, text=True, cwd=ROOT, env=dict(os.environ, VERIF_EVIDENCE_DIR='/tmp/verif-mutant-evidence'))
            verdict = {0: 'pass', 2: 'undecided (no alarm)'}.get(r.returncode, 'FALSE ALARM')
            rows.append((os.path.basename(d), p, verdict))
            print(os.path.basename(d), p, verdict)
            if r.returncode not in (0, 2) or 'VIOLATION' in r.stdout:
                bad += 1
    finally:
        subprocess.run(['git', '-C', '/repo', 'checkout', '--', '.'], check=True)
with open(os.path.join(ROOT, 'seeded', 'harmless', 'RESULTS.md'), 'w') as f:
    f.write('# Semantics-preserving edits vs. checks (none may raise an alarm)\n\n| edit | property | outcome |\n|---|---|---|\n')
    for r in rows:
        f.write('| %s | %s | %s |\n' % r)
sys.exit(1 if bad else 0)
