#!/bin/bash
# usage: try_mutant.sh <patch.diff> <prop> [<prop>...]   -- applies the patch to /repo, runs the checks, reverts
set -u
export VERIF_EVIDENCE_DIR=/tmp/verif-mutant-evidence
patch=$1; shift
cd /repo || exit 9
if [ -n "$(git status --porcelain)" ]; then echo "/repo not clean"; exit 9; fi
git apply "$patch" || { echo "patch does not apply"; exit 9; }
for p in "$@"; do
  ( cd /verif && bin/check $p > /tmp/try_$p.log 2>&1; echo "== $p rc=$? : $(grep -E '^VIOLATION' /tmp/try_$p.log | head -3 | tr '\n' ' ') $(grep -cE '^UNDECIDED' /tmp/try_$p.log) undecided; $(tail -1 /tmp/try_$p.log)" )
done
git -C /repo checkout -- .
