#!/bin/bash
# usage: full_suite_mutant.sh <worktree> <mutant-dir> : runs the whole baseline suite with the patch applied; prints pass/fail counts
wt=$1; m=$2
cd $wt || exit 9
export CARGO_TARGET_DIR=$wt/target CARGO_NET_OFFLINE=true
git checkout -q -- . ; git clean -fdq -e target
git apply $m/patch.diff || { echo "$m: PATCH DOES NOT APPLY"; exit 1; }
out=$(cargo nextest run --workspace --no-fail-fast --test-threads 6 --offline 2>&1 | grep -E "Summary|^\s+FAIL" | tr '\n' ' ')
git checkout -q -- . ; git clean -fdq -e target
echo "$m | $out"
