#!/usr/bin/env python3
"""runs every seeded mutant in /verif/seeded against the check of its property (and any extra properties listed in
meta.json 'also'), records the outcome in meta.json and writes seeded/RESULTS.md"""
import json, os, subprocess, sys, glob, re
ROOT = os.path.dirname(os.path.dirname(os.path.abspath(__file__)))
rows = []
only = sys.argv[1:]
for d in sorted(glob.glob(os.path.join(ROOT, 'seeded', '*'))):
    mp = os.path.join(d, 'meta.json')
    if not os.path.exists(mp):
        continue
    meta = json.load(open(mp))
    if only and meta['id'] not in only:
        rows.append((meta['id'], meta['property'], meta.get('check_result', '?'), meta.get('needs_to_manifest', '')))
        continue
    assert subprocess.run(['git', '-C', '/repo', 'status', '--porcelain'], capture_output=True, text=True).stdout.strip() == '', '/repo not clean'
    subprocess.run(['git', '-C', '/repo', 'apply', os.path.join(d, 'patch.diff')], check=True)
    try:
        res = {}
        for prop in [meta['property']] + meta.get('also', []):
            p = subprocess.run([os.path.join(ROOT, 'bin', 'check'), prop], capture_output=True, text=True, cwd=ROOT, env=dict(os.environ, VERIF_EVIDENCE_DIR='/tmp/verif-mutant-evidence'))
            viol = re.findall(r'VIOLATION property=\S+ replay=\S*?-([\w.]+)\.json', p.stdout)
            res[prop] = dict(rc=p.returncode, violations=viol[:6], last=p.stdout.strip().splitlines()[-1] if p.stdout.strip() else '')
    finally:
        subprocess.run(['git', '-C', '/repo', 'checkout', '--', '.'], check=True)
    main = res[meta['property']]
    verdict = {0: 'MISSED (check passes)', 1: 'DETECTED (VIOLATION: %s)' % ', '.join(main['violations'][:3]), 2: 'UNDECIDED (exit 2, no alarm)'}.get(main['rc'], 'rc=%s' % main['rc'])
    meta['check_result'] = verdict
    meta['check_runs'] = res
    json.dump(meta, open(mp, 'w'), indent=1)
    rows.append((meta['id'], meta['property'], verdict, meta.get('needs_to_manifest', '')))
    print(meta['id'], verdict)
with open(os.path.join(ROOT, 'seeded', 'RESULTS.md'), 'w') as f:
    f.write('# Seeded changes vs. checks\n\nEach change was written by an independent sub-agent that saw only the property text; it compiles, passes the 214 baseline tests, and its demonstration fails with the change and passes without (confirmed, see meta.json). Ids ending in `-revfixN` are not independent: they are the reverses of `fix:` commits, kept to show that a repaired defect is reported again if it returns.\n\n| id | property | outcome of bin/check | needs, to manifest |\n|---|---|---|---|\n')
    for r in rows:
        f.write('| %s | %s | %s | %s |\n' % r)
