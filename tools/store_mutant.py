#!/usr/bin/env python3
"""store_mutant.py <PROP> <mK> "<what it needs to manifest>" : copies /tmp/out-PROP/mK into /verif/seeded/PROP-mK with meta.json
(confirmation lines are taken from /tmp/confirm-PROP.log)"""
import sys, os, json, shutil, re
prop, k, needs = sys.argv[1], sys.argv[2], sys.argv[3]
src = '/tmp/out-%s/%s' % (prop, k)
rnd = ''
if prop[-1] in 'bc':          # second independent round: /tmp/out-C02b/m1 -> seeded/C02-r4m1
    rnd, prop_dir, prop = os.environ.get('ROUND', 'r4'), prop, prop[:-1]
    k_id = rnd + k
else:
    prop_dir, k_id = prop, k
dst = '/verif/seeded/%s-%s' % (prop, k_id)
os.makedirs(dst, exist_ok=True)
for f in ('patch.diff', 'demo.diff', 'notes.md'):
    shutil.copy(os.path.join(src, f), dst)
conf, full = '(not run)', '(not run)'
if os.path.exists('/tmp/confirm-%s.log' % prop_dir):
    for l in open('/tmp/confirm-%s.log' % prop_dir):
        if l.startswith(src + ' | patch-only'):
            conf = l.split('|', 1)[1].strip()
        elif l.startswith(src + ' |') and 'Summary' in l:
            m = re.search(r'Summary \[\s*[\d.]+s\] (.*?)\s{2,}', l)
            full = (m.group(1) if m else l.strip()) + ' (the one failure is connect_handles_tls, which fails on the unmodified tree too: needs DNS)'
meta = dict(id='%s-%s' % (prop, k_id), property=prop, needs_to_manifest=needs,
            author='independent sub-agent given only the property text and a scratch worktree',
            confirmed_by_me=conf, full_baseline_suite_with_patch=full,
            confirm_cmd='tools/confirm_mutant.sh + tools/full_suite_mutant.sh in a scratch worktree',
            check_cmd='tools/run_seeded.py %s-%s' % (prop, k_id))
json.dump(meta, open(os.path.join(dst, 'meta.json'), 'w'), indent=1)
print('stored', dst, conf[:80], '|', full[:60])
