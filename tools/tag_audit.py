#!/usr/bin/env python3
"""Audit of property tags along calls: verification is modular, so a change inside a callee is seen only at the callee's own
clauses.  If function F has a clause counted for property P and F's body calls G (also under contract in the same unit), then
G needs a clause counted for P too - otherwise a break of G that matters to P is reported only under other properties.
Prints the (unit, caller, callee, property) tuples where that is not the case.  Names are matched textually (only callee names
that are unique in the unit), so the output is a work list, not a verdict."""
import importlib, os, re, sys, collections
ROOT = os.path.dirname(os.path.dirname(os.path.abspath(__file__)))
sys.path.insert(0, os.path.join(ROOT, 'vx'))
import vxlib, registry
units = sorted({u for s in registry.PROPS.values() for u in s['units']})
claimed_for = collections.defaultdict(set)
for p, s in registry.PROPS.items():
    for u in s['units']:
        claimed_for[u].add(p)
n = 0
for name in units:
    u = importlib.import_module('units.' + name).build()
    fprops = collections.defaultdict(set)     # fn display name -> props of its clauses
    short = collections.defaultdict(list)
    for ob, d in u.obligations.items():
        if d.get('kind') == 'lemma':
            continue
        fn = d.get('fn') or ob.split('::')[-2]
        for p in d.get('props', []):
            fprops[fn].add(p)
    for (a, b, fn, ob) in u.fn_ranges:
        pass
    # function text ranges
    ranges = [(a, b, fn) for (a, b, fn, ob) in u.fn_ranges]
    byshort = collections.defaultdict(set)
    for fn in fprops:
        byshort[fn.split('::')[-1]].add(fn)
    for a, b, fn in ranges:
        if fn not in fprops:
            continue
        text = '\n'.join(u.lines[a - 1:b])
        body = text[text.find('{'):]
        for m in set(re.findall(r'\b([a-z_][a-z0-9_]*)\s*(?:::<[^>]*>)?\(', body)):
            cal = byshort.get(m)
            if not cal or len(cal) != 1:
                continue
            g = next(iter(cal))
            if g == fn:
                continue
            for p in sorted((fprops[fn] & claimed_for[name]) - fprops[g]):
                if p == 'aux':
                    continue
                print('%-12s %-45s calls %-40s : no clause of the callee counts for %s' % (name, fn, g, p))
                n += 1
print(n, 'gaps')
