#!/usr/bin/env python3
"""writes MANIFEST.json from vx/registry.py + the tables below (kept valid at all times)"""
import json, sys, os
sys.path.insert(0, os.path.join(os.path.dirname(os.path.abspath(__file__)), 'vx'))
import registry

TEXT = {
 'C02': ('PARTIAL. Deductive proof (Verus) of the status / trailers / metadata hand-off at both ends on the real code: EncodeBody::poll_frame + EncodeState::trailers (server: every handler outcome becomes exactly one trailers block that is written(status); client: never trailers), Streaming::poll_next + StreamingInner::response (buffered complete messages are yielded before the trailers status; a non-OK grpc-status in the trailers is yielded exactly once as read(trailers)), Status::{add_header,to_header_map,from_header_map} with the round-trip lemma, Request/Response/metadata conversion. The async call-shape glue and the HTTP/2 transport between the ends are NOT covered.',
         'Assumed: http/bytes shims, codec contracts, percent/base64 axioms. See evidence not_covered for the uncovered glue.'),
 'C16': ('Deductive proof (Verus) on the real tonic-web call.rs server side: encode_trailers writes one name:value CRLF row per trailer entry in iteration order (induction over the fold); make_trailers_frame lays out [0x80][be32 len][block]; poll_encode turns each inner frame into exactly its grpc-web image (DATA unchanged or base64, trailers as one 0x80 frame) and never emits HTTP trailers; the base64 request path (decode_chunk / poll_decode) decodes the largest multiple-of-four prefix, carries the rest, loses nothing under ANY chunking (ghost history) and ends cleanly only with nothing left over. service.rs: is_grpc_web == exactly the four grpc-web content types, Encoding::from_header, RequestKind::new, GrpcWebService::call (grpc-web POST reaches the inner service exactly once with request line/extensions/other headers kept, content-type application/grpc, te trailers, body behind the decoding adapter; grpc-web non-POST gives 405 and other HTTP/1 gives 400 without touching the service; other HTTP/2 passes through untouched), coerce_request / coerce_response, Case::immediate and ResponseFuture::poll (response re-labelled for the Accept flavour, body behind the encoding adapter).',
         'Partial: base64 codec assumed; encode_trailers is under contract through an assumed HeaderMap::iter / Iterator::fold model; tonic Body erasure is an uninterpreted function; CORS / layer wiring not covered.'),
 'C17': ('Deductive proof (Verus) on the real find_trailers (result == an independent recursive frame walk of the buffer), trailers_frame_len, and the client response-decoding loop of GrpcWebCall::poll_frame: for ANY chunking (ghost history of the inner body) the bytes handed out are exactly the complete message frames buffered, nothing is lost or duplicated (conservation: received == consumed trailers frames ++ data ++ still buffered), the trailers frame is decoded only when complete, a clean end / the trailers are produced only after the inner body ended with nothing left over (so truncation is an error), and the inner body is never polled after its end.',
         'Partial: the header-block parser decode_trailers_frame is outside reach (assumed); poll_decode binary path assumed. Two genuine defects found here were repaired by fix: commits.'),
 'C14': ('Deductive proof (Verus) of the real Reconnect::{poll_ready,call} and ResponseFuture::poll as a state machine, inductive over ANY history of connector/connection outcomes (loop invariant, no bound): Reconnect implements tower\'s ready/call contract (call never reaches its panic), a connect failure is returned at once only by an eager never-connected channel and otherwise parked with the state reset to Idle (so the next poll_ready starts a fresh connect), a parked error is handed to exactly one call and cleared.',
         'Partial: Buffer worker, hyper, ConnectError->UNAVAILABLE mapping and liveness are outside reach. Assumed: tower Service contract (call only after Ready(Ok)), Future one-poll contract.'),
 'C09': ('Deductive proof (Verus) on the real try_parse_grpc_timeout (exactly the spec-conformant values - 1..8 ASCII digits and a unit - are parsed, to exactly the duration they denote; everything else is an error, never a panic or overflow), duration_to_grpc_timeout (the written value is conformant, never longer than requested, loses less than one unit), GrpcTimeout::call (deadline == the shorter of header and configured timeout, malformed header ignored) and ResponseFuture::poll (a finished call wins; timeout only when the timer fired).',
         'Partial: timers/virtual time and the TimeoutExpired->CANCELLED mapping are outside reach. The Server builder (15 setters + layer()) carries the configured timeout unchanged (unit serverconfig); is_ascii_digits is decided by a complete Kani harness for its call-site domain. Assumed std contracts for str::parse::<u64>, split_at, integer Display.'),
 'C08': ('Deductive proof (Verus) on the real metadata code: into_sanitized_headers strips exactly the six reserved names and keeps every other key with its value sequence (loop invariant over the real GRPC_RESERVED_HEADERS table); Request/Response::into_http and Status::add_header emit user metadata only through it; Ascii/Binary::is_valid_key partition the keys by the -bin suffix; typed accessors (get/get_bin/remove/insert/append and their _bin variants) and Iter::next never cross the partition; Binary values are base64 on the wire and decode to the original bytes for padded and unpadded input (lemma over the b64 axioms).',
         'Assumed: http::HeaderMap multimap contract, base64 inverse axioms, repr(transparent) casts.'),
 'C05': ('Deductive proof (Verus) on the real compression.rs: from_accept_encoding_header only returns an encoding that is enabled for sending AND offered by the request; from_encoding_header accepts exactly the enabled encodings, identity/absent means none, everything else is refused with UNIMPLEMENTED carrying grpc-accept-encoding == exactly the enabled list; compress()/decompress() call the coder named by the encoding; decode_chunk rejects flag 1 without negotiated encoding with INTERNAL.',
         'The EnabledCompressionEncodings slot algebra (enable/pop/is_enabled/is_empty) is decided on the real code by complete Kani harnesses over all slot states; into_accept_encoding_header_value (intractable for CBMC) is proved in Verus: None iff nothing enabled, else exactly name,name,identity in slot order. Assumed: str split/trim as uninterpreted token list; flate2/zstd coders as uninterpreted functions with inverse axioms. Byte-string match arms are verified through rewrite R15 (first-match if-chain).'),
 'C12': ('Deductive proof (Verus) of the frame condition on the real InterceptedService::call with the real Request::{from_http,into_parts,from_parts,into_http}: on accept exactly one inner call whose uri/method/version/body are the original and whose headers are exactly the interceptor\'s metadata (no sanitising); on reject the inner service is not called and ResponseFuture::poll resolves to exactly Status::into_http (200, application/grpc, grpc-status/message/details + sanitized metadata, empty body).',
         'Assumed: tower Service seen through a ghost call log, pin-project projections, http::Request/Response records; Status::into_http contract is proved in unit status (same clause text).'),
 'C04': ('Deductive proof (Verus) on the real status.rs: Code::{from_i32,from_bytes,to_header_value} equal independent tables for ALL inputs (from_bytes total: any byte string), Status::add_header/to_header_map write exactly code/message/details/sanitized metadata and never fail, Status::from_header_map is total (no panic obligation left: every expect/unwrap discharged) and exact, lemma_status_roundtrip: write then read gives the same status; infer_grpc_status and code_from_h2 equal the mapping tables of the statement.',
         'Assumed: http::HeaderMap multimap contract, percent-encoding/base64 inverse axioms, vstd UTF-8 theory. Complete Kani harnesses on the real crate decide which bytes ENCODING_SET escapes (all 256), code_from_h2 over all 2^32 reasons on the real h2::Error, and that the h2::Reason / http::StatusCode numbers spelled out in the shims are the real ones.'),
 'C01': ('Deductive proof (Verus) that the real encoder functions (finish_encoding, encode_item, EncodedBytes::poll_next, EncodeBody::poll_frame) emit exactly frame(flag, payload) per message regardless of readiness/batching (step relation enc_step over a ghost log of the source) and that the real decoder functions hand out exactly the next frame of the concatenated input for ANY chunking (history invariant), plus spec-level lemmas parse(wire(ms)++t) == ms ++ parse(t) and parse(u++c) == parse(u) ++ parse(rest(u)++c). Unbounded in message count, sizes and chunkings.',
         'Assumed: compression inverse (FFI), codec Encoder/Decoder contracts, bytes/http-body shims, pin-project projections. Whole-trace induction not yet mechanised: the property is carried by per-call step relations.'),
 'C03': ('Deductive proof (Verus) on the real encoder: header layout [flag][be32 len][payload] against an independent wire spec, flag==1 iff an encoding is applied, trailers at most once and nothing after them, client bodies never carry trailers.',
         'Assumed: bytes shims, Status::to_header_map contract (unit status), pin-project projections. Head construction not covered in this build.'),
 'C06': ('Deductive proof (Verus): decoder refuses a declared length over the limit as soon as the prefix is read and before reserve() (ghost reserve budget == limit as a precondition of the BytesMut::reserve shim); finish_encoding errs iff over the limit with the right code; an encode failure never drops frames already produced (enc_step).',
         'Assumed: bytes shims; default limits taken from the real constants.'),
 'C07': ('Contract-based deductive proof (Verus) on the verbatim bodies of StreamingInner::{decode_chunk,poll_frame,response} and Streaming::{decode_chunk,poll_next}: no panic (every get_u8/get_u32/unwrap/panic! precondition discharged), every yielded message is the next frame of the received bytes for ANY chunking (history invariant over a ghost log of the body), the first error is final. All inputs, all iterations, no bound.',
         'Assumed: bytes::BytesMut / http_body::Frame contracts (prelude A-bytes-*, A-httpbody-*), decompress() contract (flate2/zstd FFI), the codec Decoder contract, infer_grpc_status contract (proved in unit status). Termination under an endless body is not claimed.'),
}
NA = [
 ('C10', 'dispatch is decided by axum/matchit route matching and a match emitted through quote!; tonic\'s own code is one format! and one route_service call - a contract would have to assume exactly the matcher semantics the property is about'),
 ('C11', 'a property of token streams produced by quote!/syn/prettyplease and of a byte comparison with committed files; neither verifier models proc_macro2'),
 ('C13', 'tokio::select!, watch channels, spawned connection tasks and hyper graceful_shutdown: Kani has no threads/runtime, Verus treats async fn as sequential code; the property quantifies over interleavings and includes liveness'),
 ('C15', 'decisions are made inside rustls/tokio-rustls from configuration objects tonic only assembles; not expressible without assuming the property'),
 ('C20', 'round trip is prost Message::encode/decode of google.rpc.Status/Any plus type-URL dispatch; deciding part is dependency behaviour outside both verifiers'),
]
def main():
    checks = []
    for pid in sorted(registry.PROPS):
        spec = registry.PROPS[pid]
        text, note = TEXT.get(pid, ('contract-based deductive verification (Verus/Kani) of the functions listed in the evidence file', 'see evidence trusted_base'))
        checks.append(dict(property_id=pid,
            quick_cmd='bin/check %s --tier quick' % pid,
            thorough_cmd='bin/check %s --tier thorough' % pid,
            evidence_file='/verif/evidence/%s.json' % pid,
            replay_cmd_template='bin/check --replay {path}',
            engine='verus+kani',
            level_claimed=dict(category=spec.get('level', 'proof'), text=text, design_ref='DESIGN.md section 3/' + pid),
            level_note=note,
            technique=spec.get('technique', 'contract-based deductive verification: Verus requires/ensures/invariants on the real function bodies (extracted verbatim each run)' + (', Kani complete harnesses for finite tables' if spec.get('kani') else ''))))
    claimed = set(registry.PROPS)
    import json as _j
    allp = [_j.loads(l)['id'] for l in open(os.path.join(os.path.dirname(os.path.abspath(__file__)), 'properties.jsonl'))]
    na = [dict(property_id=p, reason=r) for p, r in NA if p not in claimed]
    for p in allp:
        if p not in claimed and p not in [x['property_id'] for x in na]:
            na.append(dict(property_id=p, reason='not built yet within budget; within reach of the technique in principle (see DESIGN.md section 3)'))
    m = dict(version=1,
        setup_cmd='python3 bin/selfcheck.py',
        hooks=dict(guard='none (no hooks in /repo: harnesses and replay tests are injected into scratch copies under cfg(kani)/cfg(test); the Verus lane reads source text)',
                   enable='n/a', baseline_off_cmd='cd /repo && cargo nextest run --workspace --no-fail-fast --test-threads 8 --offline',
                   source_commits=[], add_only=True),
        engines=[dict(name='verus-lane', path='vx/', serves_properties=sorted(p for p in registry.PROPS if registry.PROPS[p].get('units')), kind_free_text='Verus 0.2026.09.13 on real function text extracted from /repo each run'),
                 dict(name='kani-lane', path='kx/', serves_properties=sorted(p for p in registry.PROPS if registry.PROPS[p].get('kani')), kind_free_text='Kani 0.68 harnesses injected into a scratch copy of the real crate')],
        checks=checks, not_applicable=na,
        notes='Exit 2 = undecided (lost anchor, unsupported construct, rlimit, vacuity guard): never an alarm. Genuine defects found while building were repaired by fix: commits in /repo (known_findings.txt).')
    json.dump(m, open(os.path.join(os.path.dirname(os.path.abspath(__file__)), 'MANIFEST.json'), 'w'), indent=1)
main()
