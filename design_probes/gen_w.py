from ex import get_fn
P='/repo/tonic-web/src/call.rs'
sig_pf,body_pf=get_fn(P,'poll_frame')
sig_pd,body_pd=get_fn(P,'poll_decode')
sig_dc,body_dc=get_fn(P,'decode_chunk')
sig_ft,body_ft=get_fn(P,'find_trailers')
sig_md,body_md=get_fn(P,'max_decodable')
pre='''use vstd::prelude::*;
macro_rules! format { ($fmt:literal $(, $a:expr)* $(,)?) => { verif_format($fmt, ($(&$a,)*)) } }
macro_rules! ready { ($e:expr $(,)?) => { match $e { Poll::Ready(t) => t, Poll::Pending => { return Poll::Pending; } } }; }
macro_rules! vtry { ($e:expr) => { match $e { Ok(v) => v, Err(e) => { return Poll::Ready(Some(Err(e))); } } } }
verus! {
global size_of usize == 8;
#[verifier::external_body]
pub fn verif_format<A>(fmt: &str, args: A) -> String { String::new() }
pub open spec fn be32_val(s: Seq<u8>) -> int recommends s.len() >= 4 {
    (s[0] as int) * 16777216 + (s[1] as int) * 65536 + (s[2] as int) * 256 + (s[3] as int)
}
pub assume_specification<T>[ Option::<T>::replace ](o: &mut Option<T>, v: T) -> (r: Option<T>)
    ensures r == *old(o), *final(o) == Some(v);
pub assume_specification<T, E, F: FnOnce(E) -> T>[ Result::<T, E>::unwrap_or_else ](res: Result<T, E>, f: F) -> (r: T)
    requires res matches Err(e) ==> f.requires((e,)),
    ensures res matches Ok(t) ==> r == t, res matches Err(e) ==> f.ensures((e,), r);
pub enum Poll<T> { Ready(T), Pending }
pub struct Context { pub x: u8 }
impl<T, E> Poll<Option<Result<T, E>>> {
    #[verifier::external_body]
    pub fn map_ok<U, F: FnOnce(T) -> U>(self, f: F) -> (r: Poll<Option<Result<U, E>>>)
        ensures self is Pending <==> r is Pending, self matches Poll::Ready(None) <==> r matches Poll::Ready(None)
    { unimplemented!() }
    #[verifier::external_body]
    pub fn map_err<U, F: FnOnce(E) -> U>(self, f: F) -> (r: Poll<Option<Result<T, U>>>)
        ensures self is Pending <==> r is Pending, self matches Poll::Ready(None) <==> r matches Poll::Ready(None)
    { unimplemented!() }
}
pub struct Status { pub code: u8 }
impl Status { #[verifier::external_body] pub fn internal<M>(m: M) -> (r: Status) ensures r.code == 13 { unimplemented!() } }
#[verifier::external_body]
pub fn internal_error<E>(e: E) -> (r: Status) ensures r.code == 13 { unimplemented!() }

pub trait Buf: Sized {
    spec fn bytes(&self) -> Seq<u8>;
    fn get_u8(&mut self) -> (r: u8) requires old(self).bytes().len() >= 1, ensures r == old(self).bytes()[0], final(self).bytes() == old(self).bytes().skip(1);
    fn get_u32(&mut self) -> (r: u32) requires old(self).bytes().len() >= 4, ensures r as int == be32_val(old(self).bytes()), final(self).bytes() == old(self).bytes().skip(4);
}
impl<'a> Buf for &'a [u8] {
    open spec fn bytes(&self) -> Seq<u8> { (*self)@ }
    #[verifier::external_body] fn get_u8(&mut self) -> (r: u8) { unimplemented!() }
    #[verifier::external_body] fn get_u32(&mut self) -> (r: u32) { unimplemented!() }
}
#[derive(Debug)]
pub struct Bytes { pub v: Vec<u8> }
impl Bytes {
    #[verifier::external_body] pub fn remaining(&self) -> (r: usize) ensures r == self@.len() { unimplemented!() }
    #[verifier::external_body] pub fn copy_to_bytes(&mut self, n: usize) -> (r: Bytes) requires n <= old(self)@.len() ensures r@ == old(self)@.take(n as int) { unimplemented!() }
    pub open spec fn view(&self) -> Seq<u8> { self.v@ }
    #[verifier::external_body] pub fn has_remaining(&self) -> (r: bool) ensures r == (self@.len() > 0) { unimplemented!() }
    #[verifier::external_body] pub fn from(v: Vec<u8>) -> (r: Bytes) ensures r@ == v@ { unimplemented!() }
}
#[derive(Debug)]
pub struct HeaderMap { pub x: u8 }
impl HeaderMap { #[verifier::external_body] pub fn extend(&mut self, o: HeaderMap) { unimplemented!() } }
pub struct BytesMut { pub v: Vec<u8> }
impl vstd::std_specs::core::IndexSpecImpl<core::ops::RangeFull> for BytesMut {
    open spec fn index_req(&self, idx: &core::ops::RangeFull) -> bool { true }
}
impl core::ops::Index<core::ops::RangeFull> for BytesMut {
    type Output = [u8];
    #[verifier::external_body] fn index(&self, r: core::ops::RangeFull) -> (o: &[u8]) { unimplemented!() }
}
impl BytesMut {
    pub open spec fn view(&self) -> Seq<u8> { self.v@ }
    #[verifier::external_body] pub fn len(&self) -> (r: usize) ensures r == self@.len() { unimplemented!() }
    #[verifier::external_body] pub fn is_empty(&self) -> (r: bool) ensures r == (self@.len() == 0) { unimplemented!() }
    #[verifier::external_body] pub fn has_remaining(&self) -> (r: bool) ensures r == (self@.len() > 0) { unimplemented!() }
    #[verifier::external_body] pub fn put(&mut self, b: Bytes) ensures final(self)@ == old(self)@ + b@ { unimplemented!() }
    #[verifier::external_body] pub fn split_to(&mut self, at: usize) -> (r: BytesMut) requires at <= old(self)@.len() ensures r@ == old(self)@.take(at as int), final(self)@ == old(self)@.skip(at as int) { unimplemented!() }
    #[verifier::external_body] pub fn split(&mut self) -> (r: BytesMut) ensures r@ == old(self)@, final(self)@.len() == 0 { unimplemented!() }
    #[verifier::external_body] pub fn copy_to_bytes(&mut self, n: usize) -> (r: Bytes) requires n <= old(self)@.len() ensures r@ == old(self)@.take(n as int), final(self)@ == old(self)@.skip(n as int) { unimplemented!() }
    #[verifier::external_body] pub fn freeze(self) -> (r: Bytes) ensures r@ == self@ { unimplemented!() }
}
#[derive(Debug)]
pub enum Frame<T> { Data(T), Trailers(HeaderMap) }
impl<T> Frame<T> {
    pub fn data(t: T) -> (r: Self) ensures r == Frame::Data(t) { Frame::Data(t) }
    pub fn trailers(t: HeaderMap) -> (r: Self) ensures r == Frame::<T>::Trailers(t) { Frame::Trailers(t) }
    #[verifier::external_body]
    pub fn map_data<U, F: FnOnce(T) -> U>(self, f: F) -> (r: Frame<U>) { unimplemented!() }
    pub fn is_data(&self) -> (r: bool) ensures r == (self is Data) { match self { Frame::Data(_) => true, _ => false } }
    pub fn is_trailers(&self) -> (r: bool) ensures r == (self is Trailers) { match self { Frame::Trailers(_) => true, _ => false } }
    pub fn into_data(self) -> (r: Result<T, Frame<T>>) ensures self is Data ==> r is Ok && r->Ok_0 == self->Data_0 { match self { Frame::Data(b) => Ok(b), f => Err(f) } }
    pub fn into_trailers(self) -> (r: Result<HeaderMap, Frame<T>>) ensures self is Trailers ==> r is Ok && r->Ok_0 == self->Trailers_0 { match self { Frame::Trailers(b) => Ok(b), f => Err(f) } }
}
#[derive(Copy, Clone, PartialEq, Debug)]
pub enum Direction { Decode, Encode, Empty }
#[derive(Copy, Clone, PartialEq, Debug)]
pub enum Encoding { Base64, None }
const GRPC_HEADER_SIZE: usize = 1 + 4;
const GRPC_WEB_TRAILERS_BIT: u8 = 0b10000000;
#[derive(Debug, PartialEq, Eq)]
pub enum FindTrailers { Trailer(usize), IncompleteBuf, Done(usize) }

// inner body with ghost "ended" flag: polling a finished body is a contract violation
pub struct InnerBody { pub ended: Ghost<bool> }
pub struct PinMut<'a, S> { pub p: &'a mut S }
impl<'a> PinMut<'a, InnerBody> {
    #[verifier::external_body]
    pub fn poll_frame(self, cx: &mut Context) -> (r: Poll<Option<Result<Frame<Bytes>, Status>>>)
        requires !old(self.p).ended@
        ensures r matches Poll::Ready(None) ==> final(self.p).ended@, !(r matches Poll::Ready(None)) ==> !final(self.p).ended@,
    { unimplemented!() }
}
pub struct GrpcWebCall {
    pub inner: InnerBody, pub buf: BytesMut, pub decoded: BytesMut, pub direction: Direction,
    pub encoding: Encoding, pub client: bool, pub trailers: Option<HeaderMap>,
}
pub struct Proj<'a> {
    pub inner: PinMut<'a, InnerBody>, pub buf: &'a mut BytesMut, pub decoded: &'a mut BytesMut, pub direction: &'a mut Direction,
    pub encoding: &'a mut Encoding, pub client: &'a mut bool, pub trailers: &'a mut Option<HeaderMap>,
}
impl GrpcWebCall {
    #[verifier::external_body]
    pub fn project(&mut self) -> (r: Proj<'_>)
        ensures *r.inner.p == old(self).inner, *final(r.inner.p) == final(self).inner,
            *r.buf == old(self).buf, *final(r.buf) == final(self).buf,
            *r.decoded == old(self).decoded, *final(r.decoded) == final(self).decoded,
            *r.direction == old(self).direction, *final(r.direction) == final(self).direction,
            *r.encoding == old(self).encoding, *final(r.encoding) == final(self).encoding,
            *r.client == old(self).client, *final(r.client) == final(self).client,
            *r.trailers == old(self).trailers, *final(r.trailers) == final(self).trailers,
    { unimplemented!() }
    #[verifier::external_body]
    fn poll_encode(&mut self, cx: &mut Context) -> (r: Poll<Option<Result<Frame<Bytes>, Status>>>) { unimplemented!() }
    #[verifier::external_body]
    fn decode_chunk(&mut self) -> (r: Result<Option<Bytes>, Status>) { unimplemented!() }
    // Pin::as_mut on Pin<&mut Self>: a reborrow
    pub fn as_mut(&mut self) -> (r: &mut Self) ensures *r == *old(self), *final(r) == *final(self) { self }
}
#[verifier::external_body]
pub fn decode_trailers_frame(buf: Bytes) -> (r: Result<Option<HeaderMap>, Status>) { unimplemented!() }
pub mod util { pub mod base64 {
    pub struct Engine { pub x: u8 }
    pub const STANDARD: Engine = Engine { x: 0 };
} }
'''
open('w_pre.rs','w').write(pre)
def fix(b): return b.replace("cx: &mut Context<'_>","cx: &mut Context")
ft="fn find_trailers(buf: &[u8]) -> (r: Result<FindTrailers, Status>)\n    requires buf@.len() <= 0x7fff_ffff_ffff_ffff\n"+body_ft.replace("    loop {","    loop\n        invariant len <= buf@.len(), temp_buf@ == buf@.skip(len as int), buf@.len() <= 0x7fff_ffff_ffff_ffff,\n        decreases buf@.len() - len\n    {",1)
pf='''impl GrpcWebCall {
    #[verifier::exec_allows_no_decreases_clause]
    fn poll_frame(&mut self, cx: &mut Context) -> (r: Poll<Option<Result<Frame<Bytes>, Status>>>)
        requires old(self).client, old(self).direction == Direction::Decode, old(self).encoding == Encoding::None, !old(self).inner.ended@
'''+body_pf.replace("find_trailers(&buf[..])?","vtry!(find_trailers(&buf[..]))")
pd='''
    #[verifier::exec_allows_no_decreases_clause]
    fn poll_decode(&mut self, cx: &mut Context) -> (r: Poll<Option<Result<Frame<Bytes>, Status>>>)
        requires old(self).encoding == Encoding::None, !old(self).inner.ended@
'''+body_pd.replace("self.as_mut().decode_chunk()?","vtry!(self.as_mut().decode_chunk())")+"\n}\n"
pf=pf.replace('|_|','|_e|'); pd=pd.replace('|_|','|_e|')
open('w.rs','w').write(pre+ft+pf+pd+'\n} // verus!\nfn main() {}\n')
