from ex import get_fn
sig_fe,body_fe=get_fn('/repo/tonic/src/codec/encode.rs','finish_encoding')
sig_ei,body_ei=get_fn('/repo/tonic/src/codec/encode.rs','encode_item')
bufmut='''
pub trait BufMut: Sized {
    spec fn cap(&self) -> int;
    #[verifier::prophetic]
    spec fn wrote(pre: &Self, post: &Self, bytes: Seq<u8>) -> bool;
    fn put_u8(&mut self, v: u8)
        requires old(self).cap() >= 1,
        ensures Self::wrote(old(self), final(self), seq![v]);
    fn put_u32(&mut self, v: u32)
        requires old(self).cap() >= 4,
        ensures Self::wrote(old(self), final(self), be32(v as int));
}
impl<'a> BufMut for &'a mut [u8] {
    open spec fn cap(&self) -> int { (**self)@.len() as int }
    #[verifier::prophetic]
    open spec fn wrote(pre: &Self, post: &Self, bytes: Seq<u8>) -> bool {
        &&& (**post)@ == (**pre)@.skip(bytes.len() as int)
        &&& (*final(*pre))@ == bytes + (*final(*post))@
    }
    #[verifier::external_body]
    fn put_u8(&mut self, v: u8) { unimplemented!() }
    #[verifier::external_body]
    fn put_u32(&mut self, v: u32) { unimplemented!() }
}
'''
c_fe='''
fn finish_encoding(
    compression_encoding: Option<CompressionEncoding>,
    max_message_size: Option<usize>,
    buf: &mut [u8],
) -> (r: Result<(), Status>)
    requires old(buf)@.len() >= 5
    ensures
        r is Err <==> (old(buf)@.len() - 5 > (match max_message_size { Some(l) => l as int, None => usize::MAX as int }) || old(buf)@.len() - 5 > u32::MAX),
        r matches Err(st) ==> final(buf)@ == old(buf)@ && (if old(buf)@.len() - 5 > (match max_message_size { Some(l) => l as int, None => usize::MAX as int }) { st.code == Code::OutOfRange } else { st.code == Code::ResourceExhausted }),
        r is Ok ==> final(buf)@ =~= frame(if compression_encoding is Some { 1u8 } else { 0u8 }, old(buf)@.skip(5)),
'''
c_ei='''
fn encode_item<T>(
    encoder: &mut T,
    buf: &mut BytesMut,
    uncompression_buf: &mut BytesMut,
    compression_encoding: Option<CompressionEncoding>,
    max_message_size: Option<usize>,
    buffer_settings: BufferSettings,
    item: T::Item,
) -> (r: Result<(), Status>)
where
    T: Encoder<Error = Status>,
    ensures
        r is Ok ==> final(buf)@ =~= old(buf)@ + frame(
            if compression_encoding is Some { 1u8 } else { 0u8 },
            match compression_encoding { Some(e) => compress_spec(e, T::ser(item)), None => T::ser(item) }),
        // whatever happens, bytes already in buf are not disturbed
        final(buf)@.len() >= old(buf)@.len() && final(buf)@.take(old(buf)@.len() as int) == old(buf)@,
'''
out=open('prelude_b.rs').read()+bufmut+c_fe+body_fe+c_ei+body_ei.replace('{','{\n    broadcast use lemma_take_all, lemma_skip_skip, lemma_add_skip, lemma_add_take;',1).replace('&mut buf[offset..]','buf.verif_index_mut_from(offset)').replace('    // now that we know length','    proof { let payload = match compression_encoding { Some(e) => compress_spec(e, T::ser(item)), None => T::ser(item) }; assert(buf@.take(offset as int) =~= old(buf)@); assert(buf@.skip(offset as int).skip(5) =~= payload); }\n    // now that we know length')+'\n} // verus!\nfn main() {}\n'
open('b.rs','w').write(out)
