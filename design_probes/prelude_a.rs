use vstd::prelude::*;
macro_rules! format { ($fmt:literal $(, $a:expr)* $(,)?) => { verif_format($fmt, ($(&$a,)*)) } }
macro_rules! trace { ($($t:tt)*) => { } }
macro_rules! debug { ($($t:tt)*) => { } }
verus! {
global size_of usize == 8;

#[verifier::external_body]
pub fn verif_format<A>(fmt: &str, args: A) -> String { String::new() }

pub open spec fn be32(n: int) -> Seq<u8> {
    seq![ ((n / 16777216) % 256) as u8, ((n / 65536) % 256) as u8, ((n / 256) % 256) as u8, (n % 256) as u8 ]
}
pub open spec fn be32_val(s: Seq<u8>) -> int
    recommends s.len() >= 4
{
    (s[0] as int) * 16777216 + (s[1] as int) * 65536 + (s[2] as int) * 256 + (s[3] as int)
}

// ---- A-bytes: assumed contracts of bytes::BytesMut (view = readable bytes) ----
pub struct BytesMut { pub v: Vec<u8>, pub reserve_bound: Ghost<nat> }
impl BytesMut {
    pub open spec fn view(&self) -> Seq<u8> { self.v@ }
    #[verifier::external_body]
    pub fn remaining(&self) -> (r: usize) ensures r == self@.len() { unimplemented!() }
    #[verifier::external_body]
    pub fn len(&self) -> (r: usize) ensures r == self@.len() { unimplemented!() }
    #[verifier::external_body]
    pub fn get_u8(&mut self) -> (r: u8)
        requires old(self)@.len() >= 1
        ensures r == old(self)@[0], final(self)@ == old(self)@.skip(1), final(self).reserve_bound == old(self).reserve_bound
    { unimplemented!() }
    #[verifier::external_body]
    pub fn get_u32(&mut self) -> (r: u32)
        requires old(self)@.len() >= 4
        ensures r as int == be32_val(old(self)@), final(self)@ == old(self)@.skip(4), final(self).reserve_bound == old(self).reserve_bound
    { unimplemented!() }
    #[verifier::external_body]
    pub fn reserve(&mut self, n: usize)
        requires n <= old(self).reserve_bound@
        ensures final(self)@ == old(self)@, final(self).reserve_bound == old(self).reserve_bound
    { unimplemented!() }
    #[verifier::external_body]
    pub fn clear(&mut self)
        ensures final(self)@ == Seq::<u8>::empty(), final(self).reserve_bound == old(self).reserve_bound
    { unimplemented!() }
}

#[derive(Clone, Copy, PartialEq, Eq)]
pub enum CompressionEncoding { Gzip, Deflate, Zstd }
#[derive(Clone, Copy)]
pub struct CompressionSettings { pub encoding: CompressionEncoding, pub buffer_growth_interval: usize }
#[derive(Clone, Copy)]
pub struct BufferSettings { pub buffer_size: usize, pub yield_threshold: usize }

pub struct IoError { pub k: u8 }
pub uninterp spec fn decompress_spec(e: CompressionEncoding, s: Seq<u8>) -> Option<Seq<u8>>;

#[verifier::external_body]
pub fn decompress(settings: CompressionSettings, compressed_buf: &mut BytesMut, out_buf: &mut BytesMut, len: usize) -> (r: Result<(), IoError>)
    requires len <= old(compressed_buf)@.len()
    ensures
        final(compressed_buf).reserve_bound == old(compressed_buf).reserve_bound,
        r is Ok ==> decompress_spec(settings.encoding, old(compressed_buf)@.take(len as int)) is Some
            && final(out_buf)@ == old(out_buf)@ + decompress_spec(settings.encoding, old(compressed_buf)@.take(len as int))->Some_0
            && final(compressed_buf)@ == old(compressed_buf)@.skip(len as int),
        r is Err ==> decompress_spec(settings.encoding, old(compressed_buf)@.take(len as int)) is None,
{ unimplemented!() }

#[derive(Clone, Copy, PartialEq, Eq)]
pub enum Code { Ok, Internal, OutOfRange, Other }
pub struct Status { pub code: Code }
impl Status {
    #[verifier::external_body]
    pub fn internal<M>(m: M) -> (r: Status) ensures r.code == Code::Internal { unimplemented!() }
    #[verifier::external_body]
    pub fn out_of_range<M>(m: M) -> (r: Status) ensures r.code == Code::OutOfRange { unimplemented!() }
}
#[derive(Clone, Copy, PartialEq, Eq)]
pub struct StatusCode { pub c: u16 }

pub const HEADER_SIZE: usize = 5;
pub const DEFAULT_MAX_RECV_MESSAGE_SIZE: usize = 4 * 1024 * 1024;

pub struct DecodeBuf<'a> { pub buf: &'a mut BytesMut, pub len: usize }
impl<'a> DecodeBuf<'a> {
    pub fn new(buf: &'a mut BytesMut, len: usize) -> (r: Self)
        ensures r.len == len, *r.buf == *old(buf), *final(r.buf) == *final(buf)
    { DecodeBuf { buf, len } }
}

pub enum State {
    ReadHeader,
    ReadBody { compression: Option<CompressionEncoding>, len: usize },
    Error(Option<Status>),
}
pub enum Direction { Request, Response(StatusCode), EmptyResponse }

pub struct StreamingInner {
    pub state: State,
    pub direction: Direction,
    pub buf: BytesMut,
    pub decompress_buf: BytesMut,
    pub encoding: Option<CompressionEncoding>,
    pub max_message_size: Option<usize>,
}

pub open spec fn hdr(f: u8, n: int) -> Seq<u8> { seq![f] + be32(n) }
pub open spec fn flag_of(c: Option<CompressionEncoding>) -> u8 { if c is Some { 1u8 } else { 0u8 } }

impl StreamingInner {
    pub open spec fn limit(&self) -> int {
        match self.max_message_size { Some(l) => l as int, None => DEFAULT_MAX_RECV_MESSAGE_SIZE as int }
    }
    pub open spec fn wf(&self) -> bool {
        &&& self.buf.reserve_bound@ == self.limit()
        &&& match self.state {
            State::ReadBody { compression, len } => len <= self.limit() && len < 0x1_0000_0000 && (compression is Some ==> compression == self.encoding),
            _ => true,
        }
    }
    pub open spec fn unparsed(&self) -> Seq<u8> {
        match self.state {
            State::ReadBody { compression, len } => hdr(flag_of(compression), len as int) + self.buf@,
            _ => self.buf@,
        }
    }
}
// what the wire says about the first frame of s (independent reading of PROTOCOL-HTTP2)
pub open spec fn hdr_flag(s: Seq<u8>) -> u8 { s[0] }
pub open spec fn hdr_len(s: Seq<u8>) -> int { be32_val(s.skip(1)) }

pub broadcast proof fn lemma_hdr_prefix(f: u8, n: int, b: Seq<u8>)
    requires 0 <= n < 0x1_0000_0000
    ensures
        (#[trigger] (hdr(f, n) + b)).len() == 5 + b.len(),
        (hdr(f, n) + b)[0] == f,
        hdr_len(hdr(f, n) + b) == n,
        (hdr(f, n) + b).skip(5) =~= b,
        forall|k: int| 0 <= k <= b.len() ==> #[trigger] (hdr(f, n) + b).subrange(5, 5 + k) =~= b.take(k),
{
    let s = hdr(f, n) + b;
    assert(s.skip(1)[0] == be32(n)[0]);
    assert(s.skip(1)[1] == be32(n)[1]);
    assert(s.skip(1)[2] == be32(n)[2]);
    assert(s.skip(1)[3] == be32(n)[3]);
}

pub broadcast proof fn lemma_hdr_rebuild(s: Seq<u8>)
    requires s.len() >= 5
    ensures
        #[trigger] hdr(s[0], be32_val(s.skip(1))) + s.skip(1).skip(4) =~= s,
        0 <= be32_val(s.skip(1)) < 0x1_0000_0000,
{
    let t = s.skip(1);
    let n = be32_val(t);
    assert(be32(n)[0] == t[0]);
    assert(be32(n)[1] == t[1]);
    assert(be32(n)[2] == t[2]);
    assert(be32(n)[3] == t[3]);
}
