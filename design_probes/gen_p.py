from ex import get_fn
sig_ih,body_ih=get_fn('/repo/tonic/src/request.rs','into_http')
sig_pr,body_pr=get_fn('/repo/tonic/src/client/grpc.rs','prepare_request')
pre='''use vstd::prelude::*;
macro_rules! format { ($fmt:literal $(, $a:expr)* $(,)?) => { verif_format($fmt, ($(&$a,)*)) } }
verus! {
global size_of usize == 8;
#[verifier::external_body]
pub fn verif_format<A>(fmt: &str, args: A) -> String { String::new() }

#[derive(PartialEq, Eq, Clone, Copy)] pub struct HeaderName { pub id: u32 }
pub struct HeaderValue { pub b: Ghost<Seq<u8>> }
impl HeaderValue {
    pub open spec fn view(&self) -> Seq<u8> { self.b@ }
    #[verifier::external_body] pub fn from_static(s: &'static str) -> (r: HeaderValue) ensures r@.len() == s@.len(), forall|i: int| 0 <= i < s@.len() ==> r@[i] == s@[i] as u8 { unimplemented!() }
}
pub struct HeaderMap { pub m: Ghost<Map<u32, Seq<Seq<u8>>>> }
impl HeaderMap {
    pub open spec fn view(&self) -> Map<u32, Seq<Seq<u8>>> { self.m@ }
    #[verifier::external_body]
    pub fn insert(&mut self, k: HeaderName, v: HeaderValue) -> (r: Option<HeaderValue>) ensures final(self)@ == old(self)@.insert(k.id, seq![v@]) { unimplemented!() }
}
pub const TE: HeaderName = HeaderName { id: 1 };
pub const CONTENT_TYPE: HeaderName = HeaderName { id: 3 };
pub struct Extensions { pub x: int }
pub mod http {
    use super::*;
    #[derive(PartialEq, Eq, Clone, Copy)] pub enum Method { POST, GET, OPTIONS, Other(u8) }
    #[derive(PartialEq, Eq, Clone, Copy)] pub enum Version { HTTP_11, HTTP_2, Other(u8) }
    pub struct Uri { pub s: Ghost<Seq<char>> }
    pub struct Request<T> { pub method: Method, pub version: Version, pub uri: Uri, pub headers: HeaderMap, pub extensions: Extensions, pub body: T }
    impl<T> Request<T> {
        #[verifier::external_body]
        pub fn new(body: T) -> (r: Request<T>) ensures r.body == body, r.method == Method::GET, r.version == Version::HTTP_11, r.headers@ == Map::<u32, Seq<Seq<u8>>>::empty() { unimplemented!() }
        pub fn version_mut(&mut self) -> (r: &mut Version) ensures *r == old(self).version, *final(r) == final(self).version,
            final(self).method == old(self).method, final(self).uri == old(self).uri, final(self).headers == old(self).headers, final(self).extensions == old(self).extensions, final(self).body == old(self).body
        { &mut self.version }
        pub fn method_mut(&mut self) -> (r: &mut Method) ensures *r == old(self).method, *final(r) == final(self).method,
            final(self).version == old(self).version, final(self).uri == old(self).uri, final(self).headers == old(self).headers, final(self).extensions == old(self).extensions, final(self).body == old(self).body
        { &mut self.method }
        pub fn uri_mut(&mut self) -> (r: &mut Uri) ensures *r == old(self).uri, *final(r) == final(self).uri,
            final(self).version == old(self).version, final(self).method == old(self).method, final(self).headers == old(self).headers, final(self).extensions == old(self).extensions, final(self).body == old(self).body
        { &mut self.uri }
        pub fn headers_mut(&mut self) -> (r: &mut HeaderMap) ensures *r == old(self).headers, *final(r) == final(self).headers,
            final(self).version == old(self).version, final(self).method == old(self).method, final(self).uri == old(self).uri, final(self).extensions == old(self).extensions, final(self).body == old(self).body
        { &mut self.headers }
        pub fn extensions_mut(&mut self) -> (r: &mut Extensions) ensures *r == old(self).extensions, *final(r) == final(self).extensions,
            final(self).version == old(self).version, final(self).method == old(self).method, final(self).uri == old(self).uri, final(self).headers == old(self).headers, final(self).body == old(self).body
        { &mut self.extensions }
    }
}
pub struct MetadataMap { pub headers: HeaderMap }
pub open spec fn reserved() -> Set<u32> { set![1u32, 2, 3, 4, 5, 6] }
impl MetadataMap {
    #[verifier::external_body]
    pub fn into_sanitized_headers(self) -> (r: HeaderMap) ensures r@ == self.headers@.remove_keys(reserved()) { unimplemented!() }
    pub fn into_headers(self) -> (r: HeaderMap) ensures r == self.headers { self.headers }
}
pub enum SanitizeHeaders { Yes, No }
pub struct Request<T> { pub metadata: MetadataMap, pub message: T, pub extensions: Extensions }

impl<T> Request<T> {
    pub(crate) fn into_http(
        self,
        uri: http::Uri,
        method: http::Method,
        version: http::Version,
        sanitize_headers: SanitizeHeaders,
    ) -> (r: http::Request<T>)
        ensures r.uri == uri, r.method == method, r.version == version, r.body == self.message, r.extensions == self.extensions,
            sanitize_headers is Yes ==> r.headers@ == self.metadata.headers@.remove_keys(reserved()),
            sanitize_headers is No ==> r.headers == self.metadata.headers,
'''
open('p.rs','w').write(pre+body_ih+'\n}\n} // verus!\nfn main() {}\n')
