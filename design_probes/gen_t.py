from ex import get_fn
P='/repo/tonic/src/transport/service/grpc_timeout.rs'
s_call,b_call=get_fn(P,'call')
s_poll,b_poll=get_fn(P,'poll')
pre='''use vstd::prelude::*;
macro_rules! ready { ($e:expr $(,)?) => { match $e { Poll::Ready(t) => t, Poll::Pending => { return Poll::Pending; } } }; }
mod tracing { macro_rules! trace { ($($t:tt)*) => { } } pub(crate) use trace; }
verus! {
global size_of usize == 8;
pub assume_specification<T, E, F: FnOnce(E) -> T>[ Result::<T, E>::unwrap_or_else ](res: Result<T, E>, f: F) -> (r: T)
    requires res matches Err(e) ==> f.requires((e,)),
    ensures res matches Ok(t) ==> r == t, res matches Err(e) ==> f.ensures((e,), r);
pub enum Poll<T> { Ready(T), Pending }
pub struct Context { pub x: u8 }
#[derive(Clone, Copy, PartialEq, Eq)]
pub struct Duration { pub nanos: u128 }
pub struct HeaderValue { pub x: u8 }
pub struct HeaderMap { pub x: u8 }
pub uninterp spec fn header_timeout(h: HeaderMap) -> Result<Option<Duration>, int>;
#[verifier::external_body]
pub fn try_parse_grpc_timeout(headers: &HeaderMap) -> (r: Result<Option<Duration>, &HeaderValue>)
    ensures r is Ok <==> header_timeout(*headers) is Ok, r matches Ok(d) ==> header_timeout(*headers) == Ok::<Option<Duration>, int>(d)
{ unimplemented!() }
pub struct Request<B> { pub headers: HeaderMap, pub body: B }
impl<B> Request<B> { pub fn headers(&self) -> (r: &HeaderMap) ensures *r == self.headers { &self.headers } }

pub mod std { pub mod cmp {
    use vstd::prelude::*;
    use crate::Duration;
    #[verifier::external_body]
    pub fn min(a: Duration, b: Duration) -> (r: Duration) ensures r == (if a.nanos <= b.nanos { a } else { b }) { unimplemented!() }
} }
pub struct Sleep { pub d: Duration, pub fired: Ghost<bool> }
pub mod tokio { pub mod time {
    use vstd::prelude::*;
    use crate::{Duration, Sleep};
    #[verifier::external_body]
    pub fn sleep(d: Duration) -> (r: Sleep) ensures r.d == d { unimplemented!() }
} }
pub trait Service<Req>: Sized {
    type Future;
    fn call(&mut self, req: Req) -> Self::Future;
}
pub struct GrpcTimeout<S> { pub inner: S, pub server_timeout: Option<Duration> }
pub struct ResponseFuture<F> { pub inner: F, pub sleep: Option<Sleep> }
pub open spec fn effective(h: Result<Option<Duration>, int>, s: Option<Duration>) -> Option<Duration> {
    let c = match h { Ok(c) => c, Err(_) => None };
    match (c, s) { (None, None) => None, (Some(d), None) => Some(d), (None, Some(d)) => Some(d), (Some(a), Some(b)) => Some(if a.nanos <= b.nanos { a } else { b }) }
}
impl<S> GrpcTimeout<S> {
    fn call<ReqBody>(&mut self, req: Request<ReqBody>) -> (r: ResponseFuture<S::Future>)
        where S: Service<Request<ReqBody>>
        ensures
            // T1: deadline is the shorter of the caller's grpc-timeout and the configured one; malformed header ignored
            match effective(header_timeout(req.headers), old(self).server_timeout) { Some(d) => r.sleep is Some && r.sleep->Some_0.d == d, None => r.sleep is None },
'''
b=b_call.replace("try_parse_grpc_timeout(req.headers()).unwrap_or_else(|e| {","try_parse_grpc_timeout(req.headers()).unwrap_or_else(|e: &HeaderValue| -> (o: Option<Duration>) ensures o is None {")
open('t.rs','w').write(pre+b+'\n}\n} // verus!\nfn main() {}\n')
print(b[:600])
