from ex import get_fn
import re
sig_fe,body_fe=get_fn('/repo/tonic/src/codec/encode.rs','finish_encoding')
sig_ei,body_ei=get_fn('/repo/tonic/src/codec/encode.rs','encode_item')
sig_pn,body_pn=get_fn('/repo/tonic/src/codec/encode.rs','poll_next',0)
b=open('b.rs').read()
b=b[:b.rindex('} // verus!')]
extra='''
pub enum Poll<T> { Ready(T), Pending }
pub struct Context { pub x: u8 }
pub struct Bytes { pub v: Vec<u8> }
impl Bytes { pub open spec fn view(&self) -> Seq<u8> { self.v@ } }
impl BytesMut {
    #[verifier::external_body]
    pub fn is_empty(&self) -> (r: bool) ensures r == (self@.len() == 0) { unimplemented!() }
    #[verifier::external_body]
    pub fn split_to(&mut self, at: usize) -> (r: BytesMut)
        requires at <= old(self)@.len()
        ensures r@ == old(self)@.take(at as int), final(self)@ == old(self)@.skip(at as int)
    { unimplemented!() }
    #[verifier::external_body]
    pub fn freeze(self) -> (r: Bytes) ensures r@ == self@ { unimplemented!() }
}
pub trait EncoderExt: Encoder { fn buffer_settings(&self) -> BufferSettings; }

// A-stream: a fused source with a ghost log of what it has yielded (history variable)
pub struct Source<I> { pub log: Ghost<Seq<I>>, pub done: Ghost<bool> }
pub struct PinMut<'a, S> { pub p: &'a mut S }
impl<'a, I> PinMut<'a, Source<I>> {
    pub fn as_mut(&mut self) -> (r: PinMut<'_, Source<I>>)
        ensures *r.p == *old(self).p, *final(r.p) == *final(self).p, *final(final(self).p) == *final(old(self).p)
    { PinMut { p: &mut *self.p } }
    #[verifier::external_body]
    pub fn poll_next(self, cx: &mut Context) -> (r: Poll<Option<I>>)
        ensures
            old(self.p).done@ ==> r == Poll::<Option<I>>::Ready(None) && *final(self.p) == *old(self.p),
            r matches Poll::Ready(Some(x)) ==> final(self.p).log@ == old(self.p).log@.push(x) && final(self.p).done@ == old(self.p).done@,
            r matches Poll::Ready(None) ==> final(self.p).log@ == old(self.p).log@ && final(self.p).done@,
            r is Pending ==> *final(self.p) == *old(self.p),
    { unimplemented!() }
}

pub open spec fn item_bytes<T: EncoderExt>(enc: Option<CompressionEncoding>, it: T::Item) -> Seq<u8> {
    frame(if enc is Some { 1u8 } else { 0u8 }, match enc { Some(e) => compress_spec(e, T::ser(it)), None => T::ser(it) })
}
pub open spec fn wire_of<T: EncoderExt>(enc: Option<CompressionEncoding>, items: Seq<Result<T::Item, Status>>) -> Seq<u8>
    decreases items.len()
{
    if items.len() == 0 { Seq::<u8>::empty() } else {
        wire_of::<T>(enc, items.drop_last()) + (match items.last() { Ok(it) => item_bytes::<T>(enc, it), Err(_) => Seq::<u8>::empty() })
    }
}
pub open spec fn all_ok<I>(items: Seq<Result<I, Status>>) -> bool { forall|i: int| 0 <= i < items.len() ==> (#[trigger] items[i]) is Ok }
pub proof fn lemma_wire_push<T: EncoderExt>(enc: Option<CompressionEncoding>, items: Seq<Result<T::Item, Status>>, x: Result<T::Item, Status>)
    ensures wire_of::<T>(enc, items.push(x)) == wire_of::<T>(enc, items) + (match x { Ok(it) => item_bytes::<T>(enc, it), Err(_) => Seq::<u8>::empty() })
{
    assert(items.push(x).drop_last() =~= items);
}
pub struct EncodedBytes<T: EncoderExt> {
    pub source: Source<Result<T::Item, Status>>,
    pub encoder: T,
    pub compression_encoding: Option<CompressionEncoding>,
    pub max_message_size: Option<usize>,
    pub buf: BytesMut,
    pub uncompression_buf: BytesMut,
    pub error: Option<Status>,
}
pub struct EncodedBytesProj<'a, T: EncoderExt> {
    pub source: PinMut<'a, Source<Result<T::Item, Status>>>,
    pub encoder: &'a mut T,
    pub compression_encoding: &'a mut Option<CompressionEncoding>,
    pub max_message_size: &'a mut Option<usize>,
    pub buf: &'a mut BytesMut,
    pub uncompression_buf: &'a mut BytesMut,
    pub error: &'a mut Option<Status>,
}
impl<T: EncoderExt> EncodedBytes<T> {
    pub open spec fn eff_enc(&self) -> Option<CompressionEncoding> { self.compression_encoding }
    // A-pinproject: pin-project's generated projection
    #[verifier::external_body]
    pub fn project(&mut self) -> (r: EncodedBytesProj<'_, T>)
        ensures
            *r.source.p == old(self).source, *final(r.source.p) == final(self).source,
            *r.encoder == old(self).encoder, *final(r.encoder) == final(self).encoder,
            *r.compression_encoding == old(self).compression_encoding, *final(r.compression_encoding) == final(self).compression_encoding,
            *r.max_message_size == old(self).max_message_size, *final(r.max_message_size) == final(self).max_message_size,
            *r.buf == old(self).buf, *final(r.buf) == final(self).buf,
            *r.uncompression_buf == old(self).uncompression_buf, *final(r.uncompression_buf) == final(self).uncompression_buf,
            *r.error == old(self).error, *final(r.error) == final(self).error,
    { unimplemented!() }
}
'''
sigc='''
impl<T> EncodedBytes<T>
where
    T: EncoderExt<Error = Status>,
{
    #[verifier::exec_allows_no_decreases_clause]
    #[verifier::loop_isolation(false)]
    fn poll_next(&mut self, cx: &mut Context) -> (r: Poll<Option<Result<Bytes, Status>>>)
        requires
            old(self).compression_encoding == old(self).eff_enc(),
        ensures
            r is Pending ==> old(self).buf@.len() == 0 && final(self).buf@.len() == 0 && final(self).source.log@ == old(self).source.log@,
            // S_ok: a chunk is everything that was pending plus the frames of everything consumed in this call
            r matches Poll::Ready(Some(Ok(bytes))) ==> bytes@.len() > 0 && final(self).buf@.len() == 0
                && old(self).source.log@.len() <= final(self).source.log@.len()
                && bytes@ == old(self).buf@ + wire_of::<T>(old(self).compression_encoding, final(self).source.log@.skip(old(self).source.log@.len() as int)),
            // S_err (C06, no collateral loss): an error is surfaced only when nothing is pending
            r matches Poll::Ready(Some(Err(st))) ==> old(self).buf@.len() == 0 || old(self).error is Some,
    '''
body=body_pn
body=body.replace("        let buffer_settings = encoder.buffer_settings();","        let ghost fut_src = *final(source.p); let ghost n0 = source.p.log@.len() as int; let ghost buf0 = buf@; let ghost enc0 = *compression_encoding;\n        let buffer_settings = encoder.buffer_settings();")
body=body.replace("            match source.as_mut().poll_next(cx) {","            let ghost log_before = source.p.log@;\n            match source.as_mut().poll_next(cx) {",1)
hint="proof { let x = source.p.log@.last(); assert(source.p.log@ =~= log_before.push(x)); assert(source.p.log@.skip(n0) =~= log_before.skip(n0).push(x)); lemma_wire_push::<T>(enc0, log_before.skip(n0), x); }"
body=body.replace("                    if buf.len() >= buffer_settings.yield_threshold {","                    "+hint+"\n                    if buf.len() >= buffer_settings.yield_threshold {",1)
body=body.replace("                    if buf.is_empty() {\n                        return Poll::Ready(Some(Err(status)));","                    "+hint+"\n                    if buf.is_empty() {\n                        return Poll::Ready(Some(Err(status)));",1)
body=body.replace("        loop {","        loop\n            invariant\n                *error is None, *compression_encoding == enc0, n0 <= source.p.log@.len(),\n                all_ok(source.p.log@.skip(n0)), buf0 == old(self).buf@, n0 == old(self).source.log@.len(), enc0 == old(self).compression_encoding, old(self).error is None,\n                source.p.log@.len() > n0 ==> buf@.len() > 0, source.p.log@.take(n0) =~= old(self).source.log@, *final(source.p) == fut_src,\n                buf@ == buf0 + wire_of::<T>(enc0, source.p.log@.skip(n0)),\n        {",1)

out=b+extra+sigc+body+'\n}\n} // verus!\nfn main() {}\n'
open('c.rs','w').write(out)
