use vstd::prelude::*;
verus! {
fn pick(v: &[u8], gz: bool) -> (r: Result<Option<u8>, u8>)
    ensures v@ =~= seq![0x67u8, 0x7a, 0x69, 0x70] && gz ==> r == Ok::<Option<u8>, u8>(Some(1u8)),
{
    match v {
        b"gzip" if gz => Ok(Some(1)),
        b"identity" => Ok(None),
        other => Err(0),
    }
}
}
fn main() {}
