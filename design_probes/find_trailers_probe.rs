use vstd::prelude::*;

macro_rules! format { ($($t:tt)*) => { verif_format() } }

verus! {
global size_of usize == 8;

#[verifier::external_body]
pub fn verif_format() -> String { String::new() }

pub open spec fn be32(s: Seq<u8>) -> int
    recommends s.len() >= 4
{
    (s[0] as int) * 16777216 + (s[1] as int) * 65536 + (s[2] as int) * 256 + (s[3] as int)
}

pub trait Buf: Sized {
    spec fn bytes(&self) -> Seq<u8>;
    fn get_u8(&mut self) -> (r: u8)
        requires old(self).bytes().len() >= 1,
        ensures r == old(self).bytes()[0], final(self).bytes() == old(self).bytes().skip(1);
    fn get_u32(&mut self) -> (r: u32)
        requires old(self).bytes().len() >= 4,
        ensures r as int == be32(old(self).bytes()), final(self).bytes() == old(self).bytes().skip(4);
}

impl<'a> Buf for &'a [u8] {
    open spec fn bytes(&self) -> Seq<u8> { (*self)@ }
    #[verifier::external_body]
    fn get_u8(&mut self) -> (r: u8) { unimplemented!() }
    #[verifier::external_body]
    fn get_u32(&mut self) -> (r: u32) { unimplemented!() }
}

pub struct Status { pub code: u8 }
impl Status {
    #[verifier::external_body]
    pub fn internal(m: String) -> (r: Status) ensures r.code == 13 { unimplemented!() }
}

const GRPC_HEADER_SIZE: usize = 1 + 4;
const GRPC_WEB_TRAILERS_BIT: u8 = 0b10000000;

#[derive(Debug, PartialEq, Eq)]
enum FindTrailers {
    Trailer(usize),
    IncompleteBuf,
    Done(usize),
}

fn find_trailers(buf: &[u8]) -> (r: Result<FindTrailers, Status>)
    requires buf@.len() <= 0x7fff_ffff_ffff_ffff
    ensures
        r matches Ok(FindTrailers::Trailer(n)) ==> n <= buf@.len() && buf@.len() - n >= 5 && buf@[n as int] == 0x80,
        r matches Ok(FindTrailers::Done(n)) ==> n <= buf@.len() && buf@.len() - n < 5,
{
    let mut len = 0;
    let mut temp_buf = buf;

    loop
        invariant len <= buf@.len(), temp_buf@ == buf@.skip(len as int), buf@.len() <= 0x7fff_ffff_ffff_ffff,
        decreases buf@.len() - len
    {
        // To check each frame, there must be at least GRPC_HEADER_SIZE
        // amount of bytes available otherwise the buffer is incomplete.
        if temp_buf.is_empty() || temp_buf.len() < GRPC_HEADER_SIZE {
            return Ok(FindTrailers::Done(len));
        }

        let header = temp_buf.get_u8();

        if header == GRPC_WEB_TRAILERS_BIT {
            return Ok(FindTrailers::Trailer(len));
        }

        if !(header == 0 || header == 1) {
            return Err(Status::internal(format!(
                "Invalid header bit {} expected 0 or 1",
                header
            )));
        }

        let msg_len = temp_buf.get_u32();

        len += msg_len as usize + 4 + 1;

        // If the msg len of a non-grpc-web trailer frame is larger than
        // the overall buffer we know within that buffer there are no trailers.
        if len > buf.len() {
            return Ok(FindTrailers::IncompleteBuf);
        }

        temp_buf = &buf[len..];
    }
}

} // verus!
fn main() {}
