from ex import get_fn
P='/repo/tonic-health/src/server.rs'
s1,b1=get_fn(P,'set_service_status')
s2,b2=get_fn(P,'clear_service_status')
s3,b3=get_fn(P,'service_health')
pre='''use vstd::prelude::*;
verus! {
global size_of usize == 8;
pub trait AsRef<T: ?Sized> { fn as_ref(&self) -> &T; }
#[derive(Clone, Copy, PartialEq, Eq)] pub enum ServingStatus { Unknown, Serving, NotServing }
pub struct SendError { pub x: u8 }
impl std::fmt::Debug for SendError { #[verifier::external_body] fn fmt(&self, f: &mut std::fmt::Formatter<'_>) -> std::fmt::Result { unimplemented!() } }
// A-tokio-watch: a channel is an id into a ghost store kept by the map guard
pub struct Sender { pub id: int }
pub struct Receiver { pub id: int }
pub struct Ref { pub v: ServingStatus }
impl std::ops::Deref for Ref { type Target = ServingStatus; #[verifier::external_body] fn deref(&self) -> (r: &ServingStatus) { unimplemented!() } }
pub struct Guard { pub m: Ghost<Map<Seq<char>, int>>, pub val: Ghost<Map<int, ServingStatus>> }
pub type StatusPair = (Sender, Receiver);
impl Guard {
    #[verifier::external_body]
    pub fn get(&self, k: &str) -> (r: Option<&StatusPair>)
        ensures r is Some <==> self.m@.contains_key(k@), r matches Some(p) ==> p.0.id == self.m@[k@] && p.1.id == self.m@[k@]
    { unimplemented!() }
    #[verifier::external_body]
    pub fn insert(&mut self, k: String, v: StatusPair) -> (r: Option<StatusPair>)
        ensures final(self).m@ == old(self).m@.insert(k@, v.0.id), final(self).val@ == old(self).val@
    { unimplemented!() }
    #[verifier::external_body]
    pub fn remove(&mut self, k: &str) -> (r: Option<StatusPair>)
        ensures final(self).m@ == old(self).m@.remove(k@), final(self).val@ == old(self).val@
    { unimplemented!() }
}
pub mod watch {
    use vstd::prelude::*;
    use crate::{Sender, Receiver, ServingStatus};
    #[verifier::external_body]
    pub fn channel(init: ServingStatus) -> (r: (Sender, Receiver)) ensures r.0.id == r.1.id { unimplemented!() }
}
impl Sender {
    #[verifier::external_body]
    pub fn send(&self, v: ServingStatus) -> (r: Result<(), SendError>) { unimplemented!() }
}
impl Receiver {
    #[verifier::external_body]
    pub fn borrow(&self) -> (r: Ref) { unimplemented!() }
}
pub struct RwLock { pub x: u8 }
impl RwLock {
    #[verifier::external_body] pub async fn write(&self) -> (g: Guard) { unimplemented!() }
    #[verifier::external_body] pub async fn read(&self) -> (g: Guard) { unimplemented!() }
}
pub struct Arc<T> { pub t: T }
impl<T> std::ops::Deref for Arc<T> { type Target = T; #[verifier::external_body] fn deref(&self) -> (r: &T) { unimplemented!() } }
pub struct HealthReporter { pub statuses: Arc<RwLock> }
pub struct HealthService { pub statuses: Arc<RwLock> }
impl HealthReporter {
    pub async fn set_service_status<S>(&self, service_name: S, status: ServingStatus)
    where
        S: AsRef<str>,
'''
open('hl.rs','w').write(pre+b1+'\n    pub async fn clear_service_status(&mut self, service_name: &str)\n'+b2+'\n}\nimpl HealthService {\n    async fn service_health(&self, service_name: &str) -> (r: Option<ServingStatus>)\n'+b3+'\n}\n} // verus!\nfn main() {}\n')
