use vstd::prelude::*;
use vstd::utf8::*;
verus! {
pub open spec fn lower_char(c: char) -> char { if 'A' <= c && c <= 'Z' { (((c as u8) + 32) as u8) as char } else { c } }
pub open spec fn lower(s: Seq<char>) -> Seq<char> { s.map_values(|c: char| lower_char(c)) }
pub open spec fn lower_byte(b: u8) -> u8 { if 65 <= b && b <= 90 { (b + 32) as u8 } else { b } }
pub open spec fn lower_bytes(s: Seq<u8>) -> Seq<u8> { s.map_values(|b: u8| lower_byte(b)) }
pub open spec fn ascii_bytes(s: Seq<char>) -> Seq<u8> { s.map_values(|c: char| c as u8) }
pub open spec fn ends_with_spec(s: Seq<char>, p: Seq<char>) -> bool { s.len() >= p.len() && s.skip(s.len() - p.len()) == p }
pub open spec fn is_ascii_word(w: Seq<char>) -> bool { forall|i: int| 0 <= i < w.len() ==> (#[trigger] w[i] as u32) < 128 }
pub open spec fn bytes_end(b: Seq<u8>, wb: Seq<u8>) -> bool { b.len() >= wb.len() && lower_bytes(b.skip(b.len() - wb.len())) == lower_bytes(wb) }

proof fn lemma_scalar_last(c: char)
    ensures
        encode_scalar(c as u32).len() >= 1,
        (c as u32) < 128 ==> encode_scalar(c as u32) =~= seq![c as u8],
        (c as u32) >= 128 ==> encode_scalar(c as u32).last() >= 128,
{
    let x = c as u32;
    let e = encode_scalar(x);
    if x < 128 {
        assert(e.len() == 1);
        assert(e[0] == (x & 0x7f) as u8);
        assert((x & 0x7f) == x) by (bit_vector) requires x < 128;
    } else if x < 0x800 {
        assert(e.len() == 2);
        assert(e[1] == 0x80u8 | ((x & 0x3f) as u8));
        let y = (x & 0x3f) as u8;
        assert((0x80u8 | y) >= 128) by (bit_vector);
    } else if x < 0x10000 {
        assert(e.len() == 3);
        assert(e[2] == 0x80u8 | ((x & 0x3f) as u8));
        let y = (x & 0x3f) as u8;
        assert((0x80u8 | y) >= 128) by (bit_vector);
    } else {
        assert(e.len() == 4);
        assert(e[3] == 0x80u8 | ((x & 0x3f) as u8));
        let y = (x & 0x3f) as u8;
        assert((0x80u8 | y) >= 128) by (bit_vector);
    }
}
// ASCII characters and their bytes lower-case alike
proof fn lemma_lower_ascii(c: char, d: char)
    requires (c as u32) < 128, (d as u32) < 128
    ensures
        lower_byte(c as u8) == lower_char(c) as u8,
        (lower_byte(c as u8) == lower_byte(d as u8)) <==> (lower_char(c) == lower_char(d)),
        (lower_char(c) as u32) < 128,
{
}
proof fn lemma_lower_char_ascii(c: char)
    ensures (lower_char(c) as u32) < 128 ==> (c as u32) < 128, lower_byte(200u8) == 200u8
{
}
proof fn lemma_empty()
    ensures encode_utf8(Seq::<char>::empty()) =~= Seq::<u8>::empty()
{
}

pub proof fn lemma_ascii_suffix_utf8(s: Seq<char>, w: Seq<char>)
    requires is_ascii_word(w)
    ensures bytes_end(encode_utf8(s), ascii_bytes(w)) <==> ends_with_spec(lower(s), lower(w))
    decreases w.len()
{
    let b = encode_utf8(s);
    let wb = ascii_bytes(w);
    let n = w.len() as int;
    if n == 0 {
        assert(b.skip(b.len() as int) =~= Seq::<u8>::empty());
        assert(lower_bytes(Seq::<u8>::empty()) =~= lower_bytes(wb));
        assert(lower(s).skip(lower(s).len() as int) =~= lower(w));
    } else if s.len() == 0 {
        lemma_empty();
        assert(s =~= Seq::<char>::empty());
    } else {
        let s1 = s.drop_last(); let cs = s.last();
        let w1 = w.drop_last(); let cw = w.last();
        assert(s =~= s1.push(cs));
        assert(w =~= w1.push(cw));
        encode_utf8_push(s1, cs);
        let b1 = encode_utf8(s1);
        let e = encode_scalar(cs as u32);
        assert(b == b1 + e);
        lemma_scalar_last(cs);
        lemma_ascii_suffix_utf8(s1, w1);
        let wb1 = ascii_bytes(w1);
        assert(wb =~= wb1.push(cw as u8));
        assert((cw as u32) < 128);
        lemma_lower_char_ascii(cs);
        // left to right
        if bytes_end(b, wb) {
            let t = b.skip(b.len() - n);
            assert(lower_bytes(t).last() == lower_bytes(wb).last());
            assert(lower_bytes(t).last() == lower_byte(t.last()));
            assert(t.last() == b.last());
            assert(b.last() == e.last());
            assert(lower_bytes(wb).last() == lower_byte(cw as u8));
            lemma_lower_ascii(cw, cw);
            assert(lower_byte(cw as u8) < 128);
            assert(lower_byte(e.last()) < 128);
            assert(e.last() < 128);
            assert((cs as u32) < 128);
            assert(e =~= seq![cs as u8]);
            assert(b =~= b1.push(cs as u8));
            assert(b1.len() >= n - 1);
            assert(b1.skip(b1.len() - (n - 1)) =~= t.drop_last());
            assert(lower_bytes(t.drop_last()) =~= lower_bytes(t).drop_last());
            assert(lower_bytes(wb1) =~= lower_bytes(wb).drop_last());
            assert(bytes_end(b1, wb1));
            assert(ends_with_spec(lower(s1), lower(w1)));
            lemma_lower_ascii(cs, cw);
            assert(lower_char(cs) == lower_char(cw));
            assert(lower(s) =~= lower(s1).push(lower_char(cs)));
            assert(lower(w) =~= lower(w1).push(lower_char(cw)));
            assert(lower(s).skip(lower(s).len() - n) =~= lower(s1).skip(lower(s1).len() - (n - 1)).push(lower_char(cs)));
            assert(ends_with_spec(lower(s), lower(w)));
        }
        // right to left
        if ends_with_spec(lower(s), lower(w)) {
            assert(lower(s) =~= lower(s1).push(lower_char(cs)));
            assert(lower(w) =~= lower(w1).push(lower_char(cw)));
            let u = lower(s).skip(lower(s).len() - n);
            assert(u.last() == lower(w).last());
            assert(u.last() == lower_char(cs));
            assert(lower(w).last() == lower_char(cw));
            lemma_lower_ascii(cw, cw);
            assert((lower_char(cs) as u32) < 128);
            assert((cs as u32) < 128);
            assert(e =~= seq![cs as u8]);
            assert(b =~= b1.push(cs as u8));
            assert(lower(s1).skip(lower(s1).len() - (n - 1)) =~= u.drop_last());
            assert(lower(w1) =~= lower(w).drop_last());
            assert(ends_with_spec(lower(s1), lower(w1)));
            assert(bytes_end(b1, wb1));
            lemma_lower_ascii(cs, cw);
            assert(lower_byte(cs as u8) == lower_byte(cw as u8));
            let t = b.skip(b.len() - n);
            assert(t =~= b1.skip(b1.len() - (n - 1)).push(cs as u8));
            assert(lower_bytes(t) =~= lower_bytes(b1.skip(b1.len() - (n - 1))).push(lower_byte(cs as u8)));
            assert(lower_bytes(wb) =~= lower_bytes(wb1).push(lower_byte(cw as u8)));
            assert(bytes_end(b, wb));
        }
    }
}
}
fn main() {}
