from ex import get_fn
sig,body=get_fn('/repo/tonic/src/codec/decode.rs','decode_chunk',0)
contract='''
    fn decode_chunk(
        &mut self,
        buffer_settings: BufferSettings,
    ) -> (r: Result<Option<DecodeBuf<'_>>, Status>)
        requires
            old(self).wf(),
            !(old(self).state is Error),
        ensures
            // N1: "need more data" changes nothing observable and the first frame is incomplete
            r matches Ok(None) ==> final(self).wf() && final(self).unparsed() == old(self).unparsed()
                && (old(self).unparsed().len() < 5 || old(self).unparsed().len() < 5 + hdr_len(old(self).unparsed())),
            // E1..E3: errors are exactly the illegal headers (or undecompressable payload)
            r matches Err(st) ==> old(self).unparsed().len() >= 5 && ({
                let u = old(self).unparsed();
                ||| (hdr_flag(u) != 0 && hdr_flag(u) != 1 && st.code == Code::Internal)
                ||| (hdr_flag(u) == 1 && old(self).encoding is None && st.code == Code::Internal)
                ||| (hdr_flag(u) <= 1 && hdr_len(u) > old(self).limit() && st.code == Code::OutOfRange)
                ||| (hdr_flag(u) == 1 && old(self).encoding is Some && hdr_len(u) <= old(self).limit() && u.len() >= 5 + hdr_len(u)
                        && decompress_spec(old(self).encoding->Some_0, u.subrange(5, 5 + hdr_len(u))) is None && st.code == Code::Internal)
            }),
            // converse: an over-limit or illegal header can never be accepted
            old(self).unparsed().len() >= 5 && (hdr_flag(old(self).unparsed()) > 1 || hdr_len(old(self).unparsed()) > old(self).limit()
                || (hdr_flag(old(self).unparsed()) == 1 && old(self).encoding is None)) ==> r is Err,
            // S1: a complete first frame is handed out as exactly its payload
            r matches Ok(Some(db)) ==> ({
                let u = old(self).unparsed();
                &&& u.len() >= 5 + hdr_len(u) && hdr_flag(u) <= 1 && hdr_len(u) <= old(self).limit()
                &&& hdr_flag(u) == 0 ==> db.len == hdr_len(u) && (*db.buf)@ == u.skip(5) && *final(db.buf) == final(self).buf
                        && db.buf.reserve_bound == old(self).buf.reserve_bound
                        && final(self).state == (State::ReadBody { compression: None, len: hdr_len(u) as usize })
                &&& final(self).encoding == old(self).encoding && final(self).max_message_size == old(self).max_message_size
                &&& hdr_flag(u) == 1 ==> old(self).encoding is Some
                        && decompress_spec(old(self).encoding->Some_0, u.subrange(5, 5 + hdr_len(u))) == Some((*db.buf)@)
                        && db.len == (*db.buf)@.len()
            }),
'''
open('a.rs','w').write(open('prelude_a.rs').read()+'\nimpl StreamingInner {\n'+contract+body.replace('{','{\n        broadcast use lemma_hdr_prefix, lemma_hdr_rebuild;',1)+'\n}\n} // verus!\nfn main() {}\n')
