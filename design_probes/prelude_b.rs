use vstd::prelude::*;
macro_rules! format { ($fmt:literal $(, $a:expr)* $(,)?) => { verif_format($fmt, ($(&$a,)*)) } }
verus! {
global size_of usize == 8;

#[verifier::external_body]
pub fn verif_format<A>(fmt: &str, args: A) -> String { String::new() }

pub open spec fn be32(n: int) -> Seq<u8> {
    seq![ ((n / 16777216) % 256) as u8, ((n / 65536) % 256) as u8, ((n / 256) % 256) as u8, (n % 256) as u8 ]
}
pub open spec fn frame(flag: u8, payload: Seq<u8>) -> Seq<u8> { seq![flag] + be32(payload.len() as int) + payload }

pub struct BytesMut { pub v: Vec<u8> }
impl BytesMut {
    pub open spec fn view(&self) -> Seq<u8> { self.v@ }
    #[verifier::external_body]
    pub fn len(&self) -> (r: usize) ensures r == self@.len() { unimplemented!() }
    #[verifier::external_body]
    pub fn reserve(&mut self, n: usize) ensures final(self)@ == old(self)@ { unimplemented!() }
    #[verifier::external_body]
    pub fn clear(&mut self) ensures final(self)@ == Seq::<u8>::empty() { unimplemented!() }
    // A-bytes-advance_mut: exposes `cnt` reserved (uninitialised) bytes; their values are arbitrary
    #[verifier::external_body]
    pub unsafe fn advance_mut(&mut self, cnt: usize)
        ensures final(self)@.len() == old(self)@.len() + cnt, final(self)@.take(old(self)@.len() as int) == old(self)@
    { unimplemented!() }
}

impl BytesMut {
    // A-bytes-indexmut: <BytesMut as IndexMut<RangeFrom<usize>>>::index_mut
    #[verifier::external_body]
    pub fn verif_index_mut_from(&mut self, from: usize) -> (r: &mut [u8])
        requires from <= old(self)@.len()
        ensures (*r)@ == old(self)@.skip(from as int),
            final(self)@ == old(self)@.take(from as int) + (*final(r))@,
            (*final(r))@.len() == (*r)@.len(),
    { unimplemented!() }
}
#[derive(Clone, Copy, PartialEq, Eq)]
pub enum CompressionEncoding { Gzip, Deflate, Zstd }
#[derive(Clone, Copy)]
pub struct CompressionSettings { pub encoding: CompressionEncoding, pub buffer_growth_interval: usize }
#[derive(Clone, Copy)]
pub struct BufferSettings { pub buffer_size: usize, pub yield_threshold: usize }
pub struct IoError { pub k: u8 }
pub uninterp spec fn compress_spec(e: CompressionEncoding, s: Seq<u8>) -> Seq<u8>;

#[verifier::external_body]
pub fn compress(settings: CompressionSettings, decompressed_buf: &mut BytesMut, out_buf: &mut BytesMut, len: usize) -> (r: Result<(), IoError>)
    requires len <= old(decompressed_buf)@.len()
    ensures
        r is Ok ==> final(out_buf)@ == old(out_buf)@ + compress_spec(settings.encoding, old(decompressed_buf)@.take(len as int)),
        final(out_buf)@.take(old(out_buf)@.len() as int) == old(out_buf)@, final(out_buf)@.len() >= old(out_buf)@.len(),
{ unimplemented!() }

#[derive(Clone, Copy, PartialEq, Eq)]
pub enum Code { Ok, Internal, OutOfRange, ResourceExhausted, Other }
pub struct Status { pub code: Code }
impl Status {
    #[verifier::external_body]
    pub fn internal<M>(m: M) -> (r: Status) ensures r.code == Code::Internal { unimplemented!() }
    #[verifier::external_body]
    pub fn out_of_range<M>(m: M) -> (r: Status) ensures r.code == Code::OutOfRange { unimplemented!() }
    #[verifier::external_body]
    pub fn resource_exhausted<M>(m: M) -> (r: Status) ensures r.code == Code::ResourceExhausted { unimplemented!() }
}

pub const HEADER_SIZE: usize = 5;
pub const DEFAULT_MAX_SEND_MESSAGE_SIZE: usize = usize::MAX;

pub struct EncodeBuf<'a> { pub buf: &'a mut BytesMut }
impl<'a> EncodeBuf<'a> {
    pub fn new(buf: &'a mut BytesMut) -> (r: Self)
        ensures *r.buf == *old(buf), *final(r.buf) == *final(buf)
    { EncodeBuf { buf } }
}

// codec-side contract (assumed about the user's Encoder): appends ser(item) or fails having only appended
pub trait Encoder {
    type Item;
    type Error;
    spec fn ser(item: Self::Item) -> Seq<u8>;
    fn encode(&mut self, item: Self::Item, dst: &mut EncodeBuf<'_>) -> (r: Result<(), Self::Error>)
        ensures
            r is Ok ==> (*final(dst).buf)@ == (*old(dst).buf)@ + Self::ser(item),
            (*final(dst).buf)@.take((*old(dst).buf)@.len() as int) == (*old(dst).buf)@, (*final(dst).buf)@.len() >= (*old(dst).buf)@.len(),
            *final(final(dst).buf) == *final(old(dst).buf);
}

pub broadcast proof fn lemma_take_all(s: Seq<u8>) ensures #[trigger] s.take(s.len() as int) =~= s {}
pub broadcast proof fn lemma_skip_skip(s: Seq<u8>, a: int, b: int)
    requires 0 <= a, 0 <= b, a + b <= s.len()
    ensures #[trigger] s.skip(a).skip(b) =~= s.skip(a + b) {}
pub broadcast proof fn lemma_add_skip(a: Seq<u8>, b: Seq<u8>) ensures #[trigger] (a + b).skip(a.len() as int) =~= b {}
pub broadcast proof fn lemma_add_take(a: Seq<u8>, b: Seq<u8>) ensures #[trigger] (a + b).take(a.len() as int) =~= a {}
