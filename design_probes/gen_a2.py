from ex import get_fn
P='/repo/tonic/src/codec/decode.rs'
a=open('a.rs').read()
a=a[:a.rindex('} // verus!')]
s_dc,b_dc=get_fn(P,'decode_chunk',1)
extra='''
impl<'a> DecodeBuf<'a> {
    pub open spec fn wf(&self) -> bool { self.len <= (*self.buf)@.len() }
    pub open spec fn payload(&self) -> Seq<u8> { (*self.buf)@.take(self.len as int) }
}
// codec-side contract (assumed about the user's Decoder): decodes the whole DecodeBuf or fails
pub trait Decoder {
    type Item;
    spec fn dec(payload: Seq<u8>) -> Option<Self::Item>;
    fn decode(&mut self, src: &mut DecodeBuf<'_>) -> (r: Result<Option<Self::Item>, Status>)
        requires old(src).wf()
        ensures
            r matches Ok(Some(m)) ==> Self::dec(old(src).payload()) == Some(m) && final(src).len == 0
                && (*final(src).buf)@ == (*old(src).buf)@.skip(old(src).len as int),
            !(r matches Ok(None)),
            r is Err ==> Self::dec(old(src).payload()) is None,
            *final(final(src).buf) == *final(old(src).buf),
            final(src).buf.reserve_bound == old(src).buf.reserve_bound;
    fn buffer_settings(&self) -> BufferSettings;
}
pub broadcast proof fn lemma_skip_take_subrange(s: Seq<u8>, a: int, n: int)
    requires 0 <= a, 0 <= n, a + n <= s.len()
    ensures #[trigger] s.skip(a).take(n) =~= s.subrange(a, a + n) {}
pub struct Streaming<D: Decoder> { pub decoder: D, pub inner: StreamingInner }
impl<D: Decoder> Streaming<D> {
    fn decode_chunk(&mut self) -> (r: Result<Option<D::Item>, Status>)
        requires old(self).inner.wf(), !(old(self).inner.state is Error), old(self).inner.encoding is None,
        ensures
            r matches Ok(None) ==> final(self).inner.wf() && final(self).inner.unparsed() == old(self).inner.unparsed()
                && (old(self).inner.unparsed().len() < 5 || old(self).inner.unparsed().len() < 5 + hdr_len(old(self).inner.unparsed())),
            r matches Ok(Some(m)) ==> ({
                let u = old(self).inner.unparsed();
                &&& u.len() >= 5 + hdr_len(u) && hdr_flag(u) == 0
                &&& D::dec(u.subrange(5, 5 + hdr_len(u))) == Some(m)
                &&& final(self).inner.state is ReadHeader
                &&& final(self).inner.unparsed() == u.skip(5 + hdr_len(u))
                &&& final(self).inner.wf()
            }),
'''
b_dc=b_dc.replace('{','{\n        broadcast use lemma_skip_take_subrange;',1)
open('a2.rs','w').write(a+extra+b_dc+'\n}\n} // verus!\nfn main() {}\n')
