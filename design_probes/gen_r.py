from ex import get_fn
P='/repo/tonic-reflection/src/server/mod.rs'
names=['process_file','process_message','process_enum','process_field','extract_name']
parts={n:get_fn(P,n) for n in names}
pre='''use vstd::prelude::*;
macro_rules! format { ($fmt:literal $(, $a:expr)* $(,)?) => { verif_format($fmt, ($(&$a,)*)) } }
verus! {
global size_of usize == 8;
#[verifier::external_body]
pub fn verif_format<A>(fmt: &str, args: A) -> String { String::new() }

pub struct EnumValueDescriptorProto { pub name: Option<String> }
pub struct EnumDescriptorProto { pub name: Option<String>, pub value: Vec<EnumValueDescriptorProto> }
pub struct FieldDescriptorProto { pub name: Option<String> }
pub struct OneofDescriptorProto { pub name: Option<String> }
pub struct DescriptorProto { pub name: Option<String>, pub field: Vec<FieldDescriptorProto>, pub nested_type: Vec<DescriptorProto>, pub enum_type: Vec<EnumDescriptorProto>, pub oneof_decl: Vec<OneofDescriptorProto> }
pub struct MethodDescriptorProto { pub name: Option<String> }
pub struct ServiceDescriptorProto { pub name: Option<String>, pub method: Vec<MethodDescriptorProto> }
pub struct FileDescriptorProto { pub name: Option<String>, pub package: Option<String>, pub message_type: Vec<DescriptorProto>, pub enum_type: Vec<EnumDescriptorProto>, pub service: Vec<ServiceDescriptorProto> }

pub struct Arc<T> { pub t: T }
impl<T> Arc<T> {
    #[verifier::external_body] pub fn clone(&self) -> (r: Arc<T>) ensures r == *self { unimplemented!() }
}
impl<T> std::ops::Deref for Arc<T> { type Target = T; #[verifier::external_body] fn deref(&self) -> (r: &T) { unimplemented!() } }

pub struct SymMap { pub m: Ghost<Map<Seq<char>, Arc<FileDescriptorProto>>> }
impl SymMap {
    #[verifier::external_body]
    pub fn insert(&mut self, k: String, v: Arc<FileDescriptorProto>) -> (r: Option<Arc<FileDescriptorProto>>)
        ensures final(self).m@ == old(self).m@.insert(k@, v)
    { unimplemented!() }
}
pub enum Error { DecodeError, InvalidFileDescriptorSet(String) }
pub struct ReflectionServiceState { pub service_names: Vec<String>, pub files: SymMap, pub symbols: SymMap }
'''
body='impl ReflectionServiceState {\n'
for n in names[:-1]:
    sig,b=parts[n]
    if n=='process_message': sig=sig.rstrip()+'\n        decreases msg\n'
    body+=sig+b+'\n'
body+='}\n'+parts['extract_name'][0]+parts['extract_name'][1]
open('rf.rs','w').write(pre+body+'\n} // verus!\nfn main() {}\n')
