from ex import get_fn
import re
sig,body=get_fn('/repo/tonic/src/codec/compression.rs','from_accept_encoding_header')
body=re.sub(r'\s*#\[cfg\(feature = "[a-z]+"\)\]\n','\n',body)   # R8: cfg arms resolved (all features on)
# R11: closure contract splice (closure ordinal 1)
body=body.replace('.find_map(|value| match value {','.find_map(|value: &str| -> (o: Option<CompressionEncoding>)\n            ensures o matches Some(e) ==> value@ == enc_name(e)\n            { match value {',1)
body=body.replace('            _ => None,\n        })','            _ => None,\n        } })',1)
pre='''use vstd::prelude::*;
verus! {
global size_of usize == 8;
#[derive(Clone, Copy, Debug, PartialEq, Eq)]
pub enum CompressionEncoding { Gzip, Deflate, Zstd }
pub open spec fn enc_name(e: CompressionEncoding) -> Seq<char> {
    match e { CompressionEncoding::Gzip => "gzip"@, CompressionEncoding::Deflate => "deflate"@, CompressionEncoding::Zstd => "zstd"@ }
}
// EnabledCompressionEncodings: abstract view = set of enabled encodings; the real methods are
// checked against exactly these specs by complete Kani harnesses on the real crate
#[derive(Clone, Copy)]
pub struct EnabledCompressionEncodings { pub s: Ghost<Set<CompressionEncoding>> }
impl EnabledCompressionEncodings {
    #[verifier::external_body] pub fn is_empty(&self) -> (r: bool) ensures r == (self.s@ =~= Set::<CompressionEncoding>::empty()) { unimplemented!() }
    #[verifier::external_body] pub fn is_enabled(&self, e: CompressionEncoding) -> (r: bool) ensures r == self.s@.contains(e) { unimplemented!() }
}
pub struct ToStrError { pub x: u8 }
pub struct HeaderValue { pub b: Ghost<Seq<u8>> }
impl HeaderValue {
    #[verifier::external_body] pub fn to_str(&self) -> (r: Result<&str, ToStrError>) ensures r matches Ok(s) ==> s@.len() == self.b@.len() { unimplemented!() }
}
pub mod http {
    use super::*;
    pub struct HeaderMap { pub m: Ghost<Map<Seq<char>, Seq<HeaderValue>>> }
    impl HeaderMap {
        #[verifier::external_body]
        pub fn get(&self, k: &str) -> (r: Option<&HeaderValue>)
            ensures r is Some <==> (self.m@.contains_key(k@) && self.m@[k@].len() > 0), r matches Some(v) ==> *v == self.m@[k@][0]
        { unimplemented!() }
    }
}
pub const ACCEPT_ENCODING_HEADER: &'static str = "grpc-accept-encoding";

// A-std-split: tokens of `s` separated by ',' and trimmed (split_by_comma = s.split(',').map(str::trim))
pub uninterp spec fn comma_tokens(s: Seq<char>) -> Seq<Seq<char>>;
pub struct SplitByComma<'a> { pub s: &'a str }
#[verifier::external_body]
pub fn split_by_comma(s: &str) -> (r: SplitByComma<'_>) ensures r.s@ == s@ { unimplemented!() }
impl<'a> SplitByComma<'a> {
    // A-std-find_map: first token on which f answers Some
    #[verifier::external_body]
    pub fn find_map<B, F: FnMut(&'a str) -> Option<B>>(self, f: F) -> (r: Option<B>)
        requires forall|t: &'a str| f.requires((t,)),
        ensures r matches Some(b) ==> exists|t: &'a str| comma_tokens(self.s@).contains(t@) && f.ensures((t,), Some(b)),
    { unimplemented!() }
}
impl CompressionEncoding {
    pub(crate) fn from_accept_encoding_header(
        map: &http::HeaderMap,
        enabled_encodings: EnabledCompressionEncodings,
    ) -> (r: Option<Self>)
        ensures
            // P1 (statement): only an encoding the server is configured to send ...
            r matches Some(e) ==> enabled_encodings.s@.contains(e),
            // P2: ... and that the header offers
            r matches Some(e) ==> map.m@.contains_key(ACCEPT_ENCODING_HEADER@),
'''
open('n.rs','w').write(pre+body+'\n}\n} // verus!\nfn main() {}\n')
