from ex import get_fn
sig,body=get_fn('/repo/tonic/src/transport/service/grpc_timeout.rs','try_parse_grpc_timeout')
body=body.replace('.map_err(|_| val)','.map_err(|_e| val)')   # R4
pre='''use vstd::prelude::*;
verus! {
global size_of usize == 8;

pub struct Duration { pub nanos: nat }
impl Duration {
    #[verifier::external_body] pub fn from_secs(s: u64) -> (r: Duration) ensures r.nanos == s * 1_000_000_000 { unimplemented!() }
    #[verifier::external_body] pub fn from_millis(s: u64) -> (r: Duration) ensures r.nanos == s * 1_000_000 { unimplemented!() }
    #[verifier::external_body] pub fn from_micros(s: u64) -> (r: Duration) ensures r.nanos == s * 1_000 { unimplemented!() }
    #[verifier::external_body] pub fn from_nanos(s: u64) -> (r: Duration) ensures r.nanos == s { unimplemented!() }
}
pub struct ToStrError { pub x: u8 }
pub struct HeaderValue { pub b: Ghost<Seq<u8>> }
impl HeaderValue {
    pub open spec fn view(&self) -> Seq<u8> { self.b@ }
    pub open spec fn visible_ascii(&self) -> bool { forall|i: int| 0 <= i < self@.len() ==> (32 <= #[trigger] self@[i] < 127 || self@[i] == 9) }
    // A-http-tostr
    #[verifier::external_body]
    pub fn to_str(&self) -> (r: Result<&str, ToStrError>)
        ensures r is Ok <==> self.visible_ascii(),
                r matches Ok(s) ==> s@.len() == self@.len() && forall|i: int| 0 <= i < self@.len() ==> #[trigger] s@[i] == self@[i] as char
    { unimplemented!() }
    #[verifier::external_body]
    pub fn len(&self) -> (r: usize) ensures r == self@.len() { unimplemented!() }
}
pub struct HeaderMap { pub m: Ghost<Map<Seq<char>, Seq<HeaderValue>>> }
impl HeaderMap {
    #[verifier::external_body]
    pub fn get(&self, k: &str) -> (r: Option<&HeaderValue>)
        ensures r is Some <==> (self.m@.contains_key(k@) && self.m@[k@].len() > 0), r matches Some(v) ==> *v == self.m@[k@][0]
    { unimplemented!() }
}
pub const GRPC_TIMEOUT_HEADER: &'static str = "grpc-timeout";

// A-std-str
pub open spec fn is_digits(s: Seq<char>) -> bool { s.len() > 0 && forall|i: int| 0 <= i < s.len() ==> '0' <= #[trigger] s[i] <= '9' }
pub open spec fn digits_val(s: Seq<char>) -> nat decreases s.len() {
    if s.len() == 0 { 0 } else { digits_val(s.drop_last()) * 10 + ((s.last() as u32 - '0' as u32) as nat) }
}
#[verifier::external_type_specification]
#[verifier::external_body]
pub struct ExParseIntError(std::num::ParseIntError);

pub assume_specification<T, E, U, F: FnOnce(T) -> Result<U, E>>[ Result::<T, E>::and_then ](res: Result<T, E>, f: F) -> (r: Result<U, E>)
    requires res matches Ok(t) ==> f.requires((t,)),
    ensures res matches Ok(t) ==> f.ensures((t,), r), res matches Err(e) ==> r == Err::<U, E>(e);

#[verifier::external_trait_specification]
pub trait ExFromStr: Sized {
    type ExternalTraitSpecificationFor: std::str::FromStr;
    type Err;
    fn from_str(s: &str) -> Result<Self, Self::Err>;
}

pub uninterp spec fn parse_spec<F: std::str::FromStr>(s: Seq<char>) -> Option<F>;
// A-std-parse: str::parse::<F>() succeeds exactly when parse_spec says so
pub assume_specification<F: std::str::FromStr>[ str::parse::<F> ](s: &str) -> (r: Result<F, <F as std::str::FromStr>::Err>)
    ensures r is Ok <==> parse_spec::<F>(s@) is Some, r matches Ok(v) ==> parse_spec::<F>(s@) == Some(v);
pub open spec fn u64_syntax(s: Seq<char>) -> Option<nat> {
    if is_digits(s) { Some(digits_val(s)) } else if s.len() > 1 && s[0] == '+' && is_digits(s.skip(1)) { Some(digits_val(s.skip(1))) } else { None }
}
// A-std-parse-u64: u64::from_str = optional '+', decimal digits, no overflow
#[verifier::external_body]
pub broadcast proof fn axiom_parse_u64(s: Seq<char>)
    ensures #[trigger] parse_spec::<u64>(s) == (match u64_syntax(s) { Some(v) => if v <= u64::MAX { Some(v as u64) } else { None }, None => None })
{}

pub const SECONDS_IN_HOUR: u64 = 60 * 60;
pub const SECONDS_IN_MINUTE: u64 = 60;

fn try_parse_grpc_timeout(
    headers: &HeaderMap,
) -> (r: Result<Option<Duration>, &HeaderValue>)
'''
open('d.rs','w').write(pre+body+'\n} // verus!\nfn main() {}\n')
