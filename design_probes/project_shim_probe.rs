use vstd::prelude::*;
verus! {
pub struct A { pub x: u32, pub y: Option<u32>, pub v: Vec<u8> }
pub struct AProj<'a> { pub x: &'a mut u32, pub y: &'a mut Option<u32>, pub v: &'a mut Vec<u8> }
impl A {
    #[verifier::external_body]
    pub fn project(&mut self) -> (r: AProj<'_>)
        ensures
            *r.x == old(self).x, *r.y == old(self).y, *r.v == old(self).v,
            final(self).x == *final(r.x), final(self).y == *final(r.y), final(self).v == *final(r.v),
    { unimplemented!() }

    fn poll(&mut self) -> (r: Option<u32>)
        ensures old(self).y is Some ==> r == old(self).y && final(self).y is None && final(self).x == old(self).x,
                old(self).y is None ==> final(self).x == 7 && final(self).v@ == old(self).v@.push(1u8),
    {
        let AProj { x, y, v } = self.project();
        if let Some(s) = y.take() {
            return Some(s);
        }
        *x = 7;
        v.push(1);
        None
    }
}
} // verus!
fn main() {}
