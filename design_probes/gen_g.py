from ex import get_fn
sig,body=get_fn('/repo/tonic/src/request.rs','duration_to_grpc_timeout')
pre='''use vstd::prelude::*;
macro_rules! format { ($fmt:literal $(, $a:expr)* $(,)?) => { verif_format($fmt, ($(&$a,)*)) } }
verus! {
global size_of usize == 8;
#[verifier::external_body]
pub fn verif_format<A>(fmt: &str, args: A) -> String { String::new() }

pub assume_specification<T, F: FnOnce() -> Option<T>>[ Option::<T>::or_else ](o: Option<T>, f: F) -> (r: Option<T>)
    requires o is None ==> f.requires(()),
    ensures o is Some ==> r == o, o is None ==> f.ensures((), r);

#[derive(Clone, Copy)]
pub struct Duration { pub secs: u64, pub nanos: u32 }
impl Duration {
    pub open spec fn total_nanos(&self) -> nat { (self.secs as nat) * 1_000_000_000 + self.nanos as nat }
    #[verifier::external_body] pub fn as_nanos(&self) -> (r: u128) ensures r == self.total_nanos() { unimplemented!() }
    #[verifier::external_body] pub fn as_micros(&self) -> (r: u128) ensures r == self.total_nanos() / 1000 { unimplemented!() }
    #[verifier::external_body] pub fn as_millis(&self) -> (r: u128) ensures r == self.total_nanos() / 1_000_000 { unimplemented!() }
    #[verifier::external_body] pub fn as_secs(&self) -> (r: u64) ensures r == self.secs { unimplemented!() }
}

fn duration_to_grpc_timeout(duration: Duration) -> (r: String)
'''
open('g.rs','w').write(pre+body+'\n} // verus!\nfn main() {}\n')
