from ex import get_fn
sig,body=get_fn('/repo/tonic/src/server/grpc.rs','map_request_unary')
pre='''use vstd::prelude::*;
macro_rules! pin { ($e:expr) => { $e } }
verus! {
global size_of usize == 8;
#[derive(Clone, Copy, PartialEq, Eq)] pub enum Code { Ok, Internal, Unimplemented, Other(u8) }
pub struct Status { pub code: Code }
impl Status { #[verifier::external_body] pub fn internal<M>(m: M) -> (r: Status) ensures r.code == Code::Internal { unimplemented!() } }
#[derive(Clone, Copy, PartialEq, Eq)] pub enum CompressionEncoding { Gzip, Deflate, Zstd }
pub struct HeaderMap { pub m: Ghost<Map<u32, Seq<Seq<u8>>>> }
pub struct Extensions { pub x: int }
pub struct MetadataMap { pub headers: HeaderMap }
impl MetadataMap {
    #[verifier::external_body] pub fn merge(&mut self, other: MetadataMap) ensures final(self).headers.m@ == old(self).headers.m@.union_prefer_right(other.headers.m@) { unimplemented!() }
}
pub mod http {
    use super::*;
    pub struct Parts { pub headers: HeaderMap, pub extensions: Extensions }
    pub struct Request<B> { pub parts: Parts, pub body: B }
    impl<B> Request<B> {
        #[verifier::external_body] pub fn into_parts(self) -> (r: (Parts, B)) ensures r.0 == self.parts, r.1 == self.body { unimplemented!() }
    }
}
pub struct Request<T> { pub metadata: MetadataMap, pub message: T, pub extensions: Extensions }
impl<T> Request<T> {
    #[verifier::external_body] pub fn from_http_parts(parts: http::Parts, message: T) -> (r: Self) ensures r.metadata.headers == parts.headers, r.message == message, r.extensions == parts.extensions { unimplemented!() }
    pub fn metadata_mut(&mut self) -> (r: &mut MetadataMap) ensures *r == old(self).metadata, *final(r) == final(self).metadata, final(self).message == old(self).message, final(self).extensions == old(self).extensions { &mut self.metadata }
}
pub trait Codec { type Decode; type Decoder; fn decoder(&mut self) -> Self::Decoder; }
// Streaming as a script: the results message()/try_next() will produce, then trailers
pub struct Streaming<M> { pub script: Ghost<Seq<Result<M, Status>>>, pub pos: Ghost<int>, pub trailers: Ghost<Option<MetadataMap>>, pub failed: Ghost<bool> }
impl<M> Streaming<M> {
    #[verifier::external_body]
    pub fn new_request<D, B>(decoder: D, body: B, enc: Option<CompressionEncoding>, max: Option<usize>) -> (r: Self)
        ensures r.pos@ == 0, !r.failed@
    { unimplemented!() }
    #[verifier::external_body]
    pub async fn try_next(&mut self) -> (r: Result<Option<M>, Status>)
        ensures
            final(self).script == old(self).script, final(self).trailers == old(self).trailers,
            old(self).pos@ < old(self).script@.len() ==> (match old(self).script@[old(self).pos@] { Ok(m) => r == Ok::<Option<M>, Status>(Some(m)), Err(s) => r == Err::<Option<M>, Status>(s) }) && final(self).pos@ == old(self).pos@ + 1,
            old(self).pos@ >= old(self).script@.len() ==> r == Ok::<Option<M>, Status>(None) && final(self).pos@ == old(self).pos@,
    { unimplemented!() }
    #[verifier::external_body]
    pub async fn trailers(&mut self) -> (r: Result<Option<MetadataMap>, Status>)
        ensures
            // drains: fails with the first Err left in the script, else returns the trailers
            (exists|k: int| old(self).pos@ <= k < old(self).script@.len() && old(self).script@[k] is Err) ==> r is Err,
            (forall|k: int| old(self).pos@ <= k < old(self).script@.len() ==> old(self).script@[k] is Ok) ==> r == Ok::<Option<MetadataMap>, Status>(old(self).trailers@),
    { unimplemented!() }
}
pub struct Grpc<T: Codec> { pub codec: T, pub max_decoding_message_size: Option<usize> }
impl<T: Codec> Grpc<T> {
    #[verifier::external_body]
    fn request_encoding_if_supported<B>(&self, request: &http::Request<B>) -> (r: Result<Option<CompressionEncoding>, Status>) { unimplemented!() }

    async fn map_request_unary<B>(
        &mut self,
        request: http::Request<B>,
    ) -> (r: Result<Request<T::Decode>, Status>)
'''
open('s.rs','w').write(pre+body+'\n}\n} // verus!\nfn main() {}\n')
