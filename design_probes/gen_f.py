from ex import get_fn
sig,body=get_fn('/repo/tonic/src/status.rs','add_header')
sig2,body2=get_fn('/repo/tonic/src/status.rs','from_header_map')
pre='''use vstd::prelude::*;
macro_rules! format { ($fmt:literal $(, $a:expr)* $(,)?) => { verif_format($fmt, ($(&$a,)*)) } }
macro_rules! warn { ($($t:tt)*) => { } }
macro_rules! debug { ($($t:tt)*) => { } }
verus! {
global size_of usize == 8;
#[verifier::external_body]
pub fn verif_format<A>(fmt: &str, args: A) -> String { String::new() }

#[derive(Clone, Copy, PartialEq, Eq)]
pub enum Code { Ok, Unknown, Internal, Other(u8) }
impl Code {
    #[verifier::external_body]
    pub fn to_header_value(self) -> (r: HeaderValue) ensures code_of_bytes(r@) == self { unimplemented!() }
    #[verifier::external_body]
    pub fn from_bytes(b: &[u8]) -> (r: Code) ensures r == code_of_bytes(b@) { unimplemented!() }
}
pub uninterp spec fn code_of_bytes(b: Seq<u8>) -> Code;

pub struct Bytes { pub v: Vec<u8> }
impl Bytes {
    pub open spec fn view(&self) -> Seq<u8> { self.v@ }
    #[verifier::external_body] pub fn new() -> (r: Bytes) ensures r@.len() == 0 { unimplemented!() }
    #[verifier::external_body] pub fn copy_from_slice(s: &[u8]) -> (r: Bytes) ensures r@ == s@ { unimplemented!() }
    #[verifier::external_body] pub fn is_empty(&self) -> (r: bool) ensures r == (self@.len() == 0) { unimplemented!() }
}
#[derive(PartialEq, Eq, Clone, Copy)]
pub struct HeaderName { pub id: u32 }
pub struct HeaderValue { pub b: Ghost<Seq<u8>> }
pub struct InvalidHeaderValue { pub x: u8 }
pub open spec fn legal_value_byte(b: u8) -> bool { (32 <= b && b != 127) || b == 9 }
impl HeaderValue {
    pub open spec fn view(&self) -> Seq<u8> { self.b@ }
    #[verifier::external_body]
    pub fn from_maybe_shared(src: Bytes) -> (r: Result<HeaderValue, InvalidHeaderValue>)
        ensures r is Ok <==> (forall|i: int| 0 <= i < src@.len() ==> legal_value_byte(#[trigger] src@[i])), r matches Ok(v) ==> v@ == src@
    { unimplemented!() }
    #[verifier::external_body]
    pub fn as_bytes(&self) -> (r: &[u8]) ensures r@ == self@ { unimplemented!() }
}
pub struct HeaderMap { pub m: Ghost<Map<u32, Seq<Seq<u8>>>> }
impl HeaderMap {
    pub open spec fn view(&self) -> Map<u32, Seq<Seq<u8>>> { self.m@ }
    #[verifier::external_body]
    pub fn insert(&mut self, k: HeaderName, v: HeaderValue) -> (r: Option<HeaderValue>)
        ensures final(self)@ == old(self)@.insert(k.id, seq![v@])
    { unimplemented!() }
    #[verifier::external_body]
    pub fn extend(&mut self, other: HeaderMap)
        ensures final(self)@ == old(self)@.union_prefer_right(other@)
    { unimplemented!() }
    #[verifier::external_body]
    pub fn get(&self, k: HeaderName) -> (r: Option<&HeaderValue>)
        ensures r is Some <==> (self@.contains_key(k.id) && self@[k.id].len() > 0), r matches Some(v) ==> v@ == self@[k.id][0]
    { unimplemented!() }
}
pub struct MetadataMap { pub headers: HeaderMap }
impl MetadataMap {
    #[verifier::external_body]
    pub fn clone(&self) -> (r: MetadataMap) ensures r.headers@ == self.headers@ { unimplemented!() }
    #[verifier::external_body]
    pub fn into_sanitized_headers(self) -> (r: HeaderMap) ensures r@ == self.headers@.remove_keys(reserved()) { unimplemented!() }
}
pub open spec fn reserved() -> Set<u32> { set![1u32, 2, 3, 4, 5, 6] }

// percent-encoding (A-pct)
pub struct AsciiSet { pub x: u8 }
pub uninterp spec fn pct_enc(s: Seq<u8>) -> Seq<u8>;
pub struct PercentEncode { pub out: Ghost<Seq<u8>> }
pub struct CowStr { pub out: Ghost<Seq<u8>> }
#[verifier::external_body]
pub fn percent_encode(input: &[u8], set: &AsciiSet) -> (r: PercentEncode) ensures r.out@ == pct_enc(input@) { unimplemented!() }
pub struct Cow {}
impl Cow {
    #[verifier::external_body]
    pub fn from(p: PercentEncode) -> (r: CowStr) ensures r.out@ == p.out@ { unimplemented!() }
}
impl CowStr {
    #[verifier::external_body]
    pub fn as_bytes(&self) -> (r: &[u8]) ensures r@ == self.out@ { unimplemented!() }
}
pub const ENCODING_SET: &'static AsciiSet = &AsciiSet { x: 0 };

pub struct Utf8Error { pub x: u8 }
pub struct PercentDecode { pub out: Ghost<Seq<u8>> }
pub uninterp spec fn pct_dec(s: Seq<u8>) -> Seq<u8>;
pub uninterp spec fn utf8_ok(s: Seq<u8>) -> bool;
pub uninterp spec fn utf8_str(s: Seq<u8>) -> Seq<char>;
#[verifier::external_body]
pub fn percent_decode(input: &[u8]) -> (r: PercentDecode) ensures r.out@ == pct_dec(input@) { unimplemented!() }
pub struct CowS { pub s: Ghost<Seq<char>> }
impl PercentDecode {
    #[verifier::external_body]
    pub fn decode_utf8(self) -> (r: Result<CowS, Utf8Error>) ensures r is Ok <==> utf8_ok(self.out@), r matches Ok(c) ==> c.s@ == utf8_str(self.out@) { unimplemented!() }
}
impl CowS {
    #[verifier::external_body]
    pub fn to_string(&self) -> (r: String) ensures r@ == self.s@ { unimplemented!() }
}
pub struct DecodeError { pub x: u8 }
pub uninterp spec fn b64_dec(s: Seq<u8>) -> Option<Seq<u8>>;
impl Engine {
    #[verifier::external_body]
    pub fn decode(&self, s: &[u8]) -> (r: Result<Vec<u8>, DecodeError>) ensures r is Ok <==> b64_dec(s@) is Some, r matches Ok(v) ==> Some(v@) == b64_dec(s@) { unimplemented!() }
}
impl HeaderMap {
    #[verifier::external_body]
    pub fn clone(&self) -> (r: HeaderMap) ensures r@ == self@ { unimplemented!() }
    #[verifier::external_body]
    pub fn remove(&mut self, k: HeaderName) -> (r: Option<HeaderValue>) ensures final(self)@ == old(self)@.remove(k.id) { unimplemented!() }
}
impl MetadataMap {
    #[verifier::external_body]
    pub fn from_headers(h: HeaderMap) -> (r: MetadataMap) ensures r.headers@ == h@ { unimplemented!() }
}
pub struct Status { pub code: Code, pub message: String, pub details: Bytes, pub metadata: MetadataMap }
#[verifier::external_body]
pub fn invalid_header_value_byte(err: InvalidHeaderValue) -> (r: Status) ensures r.code == Code::Internal { unimplemented!() }

pub uninterp spec fn b64_enc(s: Seq<u8>) -> Seq<u8>;
pub struct Engine { pub pad: bool }
impl Engine {
    #[verifier::external_body]
    pub fn encode(&self, s: &[u8]) -> (r: Bytes) ensures r@ == b64_enc(s@) { unimplemented!() }
}
pub mod util { pub mod base64 {
    pub const STANDARD_NO_PAD: crate::Engine = crate::Engine { pad: false };
    pub const STANDARD: crate::Engine = crate::Engine { pad: true };
} }
impl vstd::std_specs::core::IndexSpecImpl<core::ops::RangeFull> for Bytes {
    open spec fn index_req(&self, idx: &core::ops::RangeFull) -> bool { true }
}
impl core::ops::Index<core::ops::RangeFull> for Bytes {
    type Output = [u8];
    #[verifier::external_body]
    fn index(&self, r: core::ops::RangeFull) -> (o: &[u8]) { unimplemented!() }
}
impl Status {
    pub const GRPC_STATUS: HeaderName = HeaderName { id: 6 };
    pub const GRPC_MESSAGE: HeaderName = HeaderName { id: 4 };
    pub const GRPC_STATUS_DETAILS: HeaderName = HeaderName { id: 7 };
    #[verifier::external_body]
    pub fn message(&self) -> (r: &str) ensures r@ == self.message@ { unimplemented!() }

    pub fn add_header(&self, header_map: &mut HeaderMap) -> (r: Result<(), Status>)
'''
extra='''
    pub fn from_header_map(header_map: &HeaderMap) -> (r: Option<Status>)
'''
open('f.rs','w').write(pre+body+extra+body2+'\n}\n} // verus!\nfn main() {}\n')
