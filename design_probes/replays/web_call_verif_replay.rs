#[cfg(test)]
mod verif_replay {
    use super::*;
    use std::collections::VecDeque;

    // scripted inner body: yields the chunks, then None forever; counts polls after the end
    struct Script { chunks: VecDeque<&'static [u8]>, polls_after_end: usize }
    impl Body for Script {
        type Data = Bytes;
        type Error = Status;
        fn poll_frame(mut self: Pin<&mut Self>, _cx: &mut Context<'_>) -> Poll<Option<Result<Frame<Bytes>, Status>>> {
            match self.chunks.pop_front() {
                Some(c) => Poll::Ready(Some(Ok(Frame::data(Bytes::from_static(c))))),
                None => {
                    self.polls_after_end += 1;
                    if self.polls_after_end > 1000 { panic!("inner body polled {} times after it ended", self.polls_after_end); }
                    Poll::Ready(None)
                }
            }
        }
    }
    fn run(chunks: Vec<&'static [u8]>) -> Option<Result<&'static str, tonic::Code>> {
        let rt = tokio::runtime::Builder::new_current_thread().build().unwrap();
        rt.block_on(async {
            let mut call = Box::pin(GrpcWebCall::client_response(Script { chunks: chunks.into(), polls_after_end: 0 }));
            std::future::poll_fn(|cx| call.as_mut().poll_frame(cx)).await.map(|x| x.map(|_| "frame").map_err(|e| e.code()))
        })
    }

    // D7a: body cut inside a frame header (3 of 5 header bytes) must be an error, not a clean end
    #[test]
    fn d7a_cut_inside_header_is_clean_end() {
        let r = run(vec![&[0, 0, 0]]);
        println!("D7a result={:?}", r);
        assert!(matches!(r, Some(Err(_))), "truncated body ended as {:?}", r);
    }

    // D7b: body cut inside a payload (declares 10 bytes, delivers 2): must not spin
    #[test]
    fn d7b_cut_inside_payload_spins() {
        let r = std::panic::catch_unwind(|| run(vec![&[0, 0, 0, 0, 10, 1, 2]]));
        println!("D7b result={:?}", r.as_ref().map_err(|_| "busy loop: inner body polled >1000 times after end"));
        assert!(matches!(r, Ok(Some(Err(_)))));
    }
}
