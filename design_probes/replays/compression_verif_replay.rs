#[cfg(test)]
mod verif_replay {
    use super::*;
    // D3: never pick an encoding the server is not configured to send
    #[test]
    #[cfg(all(feature = "gzip", feature = "zstd"))]
    fn d3_accept_picks_disabled() {
        let mut enabled = EnabledCompressionEncodings::default();
        enabled.enable(CompressionEncoding::Gzip);
        let mut map = http::HeaderMap::new();
        map.insert(ACCEPT_ENCODING_HEADER, "zstd,gzip".parse().unwrap());
        let picked = CompressionEncoding::from_accept_encoding_header(&map, enabled);
        println!("D3 picked={:?}", picked);
        assert!(picked.map(|e| enabled.is_enabled(e)).unwrap_or(true), "picked {:?} which is not enabled", picked);
    }
}
