#[cfg(test)]
mod verif_replay {
    use super::*;
    use crate::codec::{EncodeBuf, Encoder};
    use http_body_util::BodyExt;

    #[derive(Default)]
    struct Raw;
    impl Encoder for Raw {
        type Item = Vec<u8>;
        type Error = Status;
        fn encode(&mut self, item: Vec<u8>, dst: &mut EncodeBuf<'_>) -> Result<(), Status> {
            dst.put_slice(&item);
            Ok(())
        }
    }

    // D2: messages produced before an oversized one must still be delivered
    #[tokio::test]
    async fn d2_collateral_loss() {
        let src = tokio_stream::iter(vec![Ok::<_, Status>(vec![1u8; 3]), Ok(vec![2u8; 100])]);
        let mut body = std::pin::pin!(EncodeBody::new_server(Raw, src, None, SingleMessageCompressionOverride::default(), Some(10)));
        let mut data = Vec::new();
        let mut trailers = None;
        while let Some(f) = body.frame().await {
            let f = f.unwrap();
            if f.is_data() { data.extend_from_slice(&f.into_data().unwrap()); } else { trailers = f.into_trailers().ok(); }
        }
        println!("D2 data={:?} status={:?}", data, trailers.as_ref().and_then(|t| t.get("grpc-status")));
        assert_eq!(trailers.unwrap().get("grpc-status").unwrap(), "11");
        assert_eq!(data, vec![0, 0, 0, 0, 3, 1, 1, 1], "first message was not delivered ahead of the status");
    }
}
