#[cfg(test)]
mod verif_replay {
    use super::*;
    use crate::codec::{DecodeBuf, Decoder};
    use bytes::{Buf, Bytes};
    use http_body_util::StreamBody;
    use tokio_stream::StreamExt;

    #[derive(Default)]
    struct Raw;
    impl Decoder for Raw {
        type Item = Vec<u8>;
        type Error = Status;
        fn decode(&mut self, buf: &mut DecodeBuf<'_>) -> Result<Option<Vec<u8>>, Status> {
            let n = buf.remaining();
            Ok(Some(buf.copy_to_bytes(n).to_vec()))
        }
    }

    fn body(chunks: Vec<&'static [u8]>) -> impl http_body::Body<Data = Bytes, Error = Status> + Send + 'static {
        StreamBody::new(tokio_stream::iter(
            chunks.into_iter().map(|c| Ok::<_, Status>(http_body::Frame::data(Bytes::from_static(c)))),
        ))
    }

    // D1: after a decode error the stream must yield nothing more
    #[tokio::test]
    async fn d1_error_not_final_invalid_flag() {
        // flag 2 (invalid), followed by bytes that happen to form a valid frame: 00 00000001 41
        let wire: &'static [u8] = &[2, 0, 0, 0, 0, 1, 0x41, 0, 0, 0, 0, 0];
        let mut s = Streaming::<Vec<u8>>::new_request(Raw, body(vec![wire]), None, None);
        let first = s.next().await;
        let second = s.next().await;
        let third = s.next().await;
        println!("D1 first={:?} second={:?} third={:?}", first.as_ref().map(|r| r.as_ref().map_err(|e| e.code())), second.as_ref().map(|r| r.as_ref().map_err(|e| e.code())), third.as_ref().map(|r| r.as_ref().map_err(|e| e.code())));
        assert!(matches!(first, Some(Err(_))));
        assert!(second.is_none(), "stream yielded {:?} after its first error", second.map(|r| r.map_err(|e| e.code())));
    }
}
