#[cfg(test)]
mod verif_replay {
    use super::*;
    // D6: "+5S" is not a spec-conformant TimeoutValue
    #[test]
    fn d6_plus_sign_accepted() {
        let mut hm = HeaderMap::new();
        hm.insert(GRPC_TIMEOUT_HEADER, HeaderValue::from_static("+5S"));
        let r = try_parse_grpc_timeout(&hm).map_err(|e| e.clone());
        println!("D6 parsed={:?}", r);
        assert!(r.is_err(), "malformed value +5S parsed as {:?}", r);
    }
}
