#[cfg(test)]
mod verif_replay {
    use super::*;
    // D4: reading peer-supplied headers must not panic
    #[test]
    fn d4_invalid_details_panics() {
        let mut map = HeaderMap::new();
        map.insert(Status::GRPC_STATUS, "3".parse().unwrap());
        map.insert(Status::GRPC_STATUS_DETAILS, "!!!not-base64!!!".parse().unwrap());
        let r = std::panic::catch_unwind(|| Status::from_header_map(&map).map(|s| s.code()));
        println!("D4 result={:?}", r.as_ref().map_err(|_| "panicked"));
        assert!(r.is_ok(), "from_header_map panicked on invalid grpc-status-details-bin");
    }
}
