use vstd::prelude::*;
verus! {
pub async fn f(x: u32) -> (r: u32) requires x < 10 ensures r == x + 1 { x + 1 }
pub async fn g(x: u32) -> (r: u32) requires x < 5 ensures r == x + 2 { let y = f(x).await; f(y).await }
}
fn main() {}
