use vstd::prelude::*;
macro_rules! format { ($($t:tt)*) => { verif_format() } }
macro_rules! trace { ($($t:tt)*) => { } }
macro_rules! debug { ($($t:tt)*) => { } }
macro_rules! ready {
    ($e:expr $(,)?) => {
        match $e {
            Poll::Ready(t) => t,
            Poll::Pending => { return Poll::Pending; }
        }
    };
}
macro_rules! vtry { ($e:expr) => { match $e { Ok(v) => v, Err(e) => { return Poll::Ready(Some(Err(e))); } } } }
verus! {
global size_of usize == 8;

pub assume_specification<T>[core::mem::replace::<T>](dest: &mut T, src: T) -> (r: T)
    ensures r == *old(dest), *final(dest) == src;

#[verifier::external_body]
pub fn verif_format() -> String { String::new() }

pub enum Poll<T> { Ready(T), Pending }
pub struct Context { pub x: u8 }

#[derive(Clone, Copy, PartialEq, Eq)]
pub enum Code { Ok, Cancelled, Internal, Other }

pub struct Status { pub code: Code }
impl Status {
    #[verifier::external_body]
    pub fn internal(m: &str) -> (r: Status) ensures r.code == Code::Internal { unimplemented!() }
    pub fn code(&self) -> (r: Code) ensures r == self.code { self.code }
    #[verifier::external_body]
    pub fn clone(&self) -> (r: Status) ensures r == *self { unimplemented!() }
}

#[derive(Debug)]
pub struct Bytes { pub v: Vec<u8> }
#[derive(Debug)]
pub struct HeaderMap { pub x: u8 }
impl HeaderMap {
    #[verifier::external_body]
    pub fn extend(&mut self, other: HeaderMap) { unimplemented!() }
}

#[derive(Debug)]
pub enum Frame { Data(Bytes), Trailers(HeaderMap) }
impl Frame {
    pub fn is_data(&self) -> (r: bool) ensures r == (self is Data) { match self { Frame::Data(_) => true, _ => false } }
    pub fn is_trailers(&self) -> (r: bool) ensures r == (self is Trailers) { match self { Frame::Trailers(_) => true, _ => false } }
    pub fn into_data(self) -> (r: Result<Bytes, Frame>) ensures self is Data ==> r is Ok && r->Ok_0 == self->Data_0
    { match self { Frame::Data(b) => Ok(b), f => Err(f) } }
    pub fn into_trailers(self) -> (r: Result<HeaderMap, Frame>) ensures self is Trailers ==> r is Ok && r->Ok_0 == self->Trailers_0
    { match self { Frame::Trailers(b) => Ok(b), f => Err(f) } }
}

pub struct Body { pub ended: bool }
impl Body {
    #[verifier::external_body]
    pub fn poll_frame(&mut self, cx: &mut Context) -> (r: Poll<Option<Result<Frame, Status>>>)
    { unimplemented!() }
}

pub struct BytesMut { pub v: Vec<u8> }
impl BytesMut {
    pub open spec fn view(&self) -> Seq<u8> { self.v@ }
    #[verifier::external_body]
    pub fn has_remaining(&self) -> (r: bool) ensures r == (self@.len() > 0) { unimplemented!() }
    #[verifier::external_body]
    pub fn put(&mut self, b: Bytes) ensures final(self)@ == old(self)@ + b.v@ { unimplemented!() }
}

#[derive(Debug, PartialEq, Eq)]
pub enum Direction { Request, Response(u16), EmptyResponse }

pub enum State {
    ReadHeader,
    ReadBody { compression: Option<u8>, len: usize },
    Error(Option<Status>),
}

pub struct StreamingInner {
    pub body: Body,
    pub state: State,
    pub direction: Direction,
    pub buf: BytesMut,
    pub trailers: Option<HeaderMap>,
}

#[verifier::external_body]
pub fn infer_grpc_status(trailers: Option<&HeaderMap>, status: u16) -> (r: Result<(), Option<Status>>)
{ unimplemented!() }

impl StreamingInner {
    fn poll_frame(&mut self, cx: &mut Context) -> (r: Poll<Result<Option<()>, Status>>)
        ensures
            (r matches Poll::Ready(Err(_))) ==> true,
    {
        let frame = match ready!((&mut self.body).poll_frame(cx)) {
            Some(Ok(frame)) => frame,
            Some(Err(status)) => {
                if self.direction == Direction::Request && status.code() == Code::Cancelled {
                    return Poll::Ready(Ok(None));
                }

                let _ = std::mem::replace(&mut self.state, State::Error(Some(status.clone())));
                debug!("decoder inner stream error: {:?}", status);
                return Poll::Ready(Err(status));
            }
            None => {
                // FIXME: improve buf usage.
                return Poll::Ready(if self.buf.has_remaining() {
                    trace!("unexpected EOF decoding stream, state: {:?}", self.state);
                    Err(Status::internal("Unexpected EOF decoding stream."))
                } else {
                    Ok(None)
                });
            }
        };

        Poll::Ready(if frame.is_data() {
            self.buf.put(frame.into_data().unwrap());
            Ok(Some(()))
        } else if frame.is_trailers() {
            if let Some(trailers) = &mut self.trailers {
                trailers.extend(frame.into_trailers().unwrap());
            } else {
                self.trailers = Some(frame.into_trailers().unwrap());
            }

            Ok(None)
        } else {
            panic!("unexpected frame: {:?}", frame);
        })
    }

    fn response(&mut self) -> (r: Result<(), Status>) {
        if let Direction::Response(status) = self.direction {
            if let Err(Some(e)) = infer_grpc_status(self.trailers.as_ref(), status) {
                self.trailers.take();
                return Err(e);
            }
        }
        Ok(())
    }
}

pub struct Streaming { pub inner: StreamingInner }
impl Streaming {
    #[verifier::external_body]
    fn decode_chunk(&mut self) -> (r: Result<Option<u32>, Status>) { unimplemented!() }

    #[verifier::exec_allows_no_decreases_clause]
    fn poll_next(&mut self, cx: &mut Context) -> (r: Poll<Option<Result<u32, Status>>>)
        ensures
            old(self).inner.state matches State::Error(None) ==> r matches Poll::Ready(None),
            (r matches Poll::Ready(Some(Err(_)))) ==> (final(self).inner.state matches State::Error(None)),
    {
        loop {
            // When the stream encounters an error yield that error once and then on subsequent
            // calls to poll_next return Poll::Ready(None) indicating that the stream has been
            // fully exhausted.
            if let State::Error(status) = &mut self.inner.state {
                return Poll::Ready(status.take().map(|e| Err(e)));
            }

            if let Some(item) = vtry!(self.decode_chunk()) {
                return Poll::Ready(Some(Ok(item)));
            }

            if vtry!(ready!(self.inner.poll_frame(cx))).is_none() {
                match self.inner.response() {
                    Ok(()) => return Poll::Ready(None),
                    Err(err) => self.inner.state = State::Error(Some(err)),
                }
            }
        }
    }
}
} // verus!
fn main() {}
