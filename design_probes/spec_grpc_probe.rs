use vstd::prelude::*;
verus! {
pub open spec fn be32(n: int) -> Seq<u8> {
    seq![ ((n / 16777216) % 256) as u8, ((n / 65536) % 256) as u8, ((n / 256) % 256) as u8, (n % 256) as u8 ]
}
pub open spec fn be32_val(s: Seq<u8>) -> int recommends s.len() >= 4 {
    (s[0] as int) * 16777216 + (s[1] as int) * 65536 + (s[2] as int) * 256 + (s[3] as int)
}
pub type Msg = (u8, Seq<u8>);
pub open spec fn frame(m: Msg) -> Seq<u8> { seq![m.0] + be32(m.1.len() as int) + m.1 }
pub open spec fn wire(ms: Seq<Msg>) -> Seq<u8> decreases ms.len() {
    if ms.len() == 0 { Seq::<u8>::empty() } else { frame(ms[0]) + wire(ms.skip(1)) }
}
pub open spec fn hdr_len(s: Seq<u8>) -> int { be32_val(s.skip(1)) }
pub open spec fn complete(s: Seq<u8>) -> bool { s.len() >= 5 && s.len() >= 5 + hdr_len(s) }
pub open spec fn first(s: Seq<u8>) -> Msg { (s[0], s.subrange(5, 5 + hdr_len(s))) }
pub open spec fn after_first(s: Seq<u8>) -> Seq<u8> { s.skip(5 + hdr_len(s)) }
// the independent decoder: maximal sequence of complete frames
pub open spec fn parse(s: Seq<u8>) -> Seq<Msg> decreases s.len() {
    if !complete(s) { Seq::<Msg>::empty() } else { seq![first(s)] + parse(after_first(s)) }
}
pub open spec fn rest(s: Seq<u8>) -> Seq<u8> decreases s.len() {
    if !complete(s) { s } else { rest(after_first(s)) }
}
pub open spec fn small(ms: Seq<Msg>) -> bool { forall|i: int| 0 <= i < ms.len() ==> (#[trigger] ms[i]).1.len() < 0x1_0000_0000 }

pub proof fn lemma_hdr_len_nonneg(s: Seq<u8>) requires s.len() >= 5 ensures 0 <= hdr_len(s) < 0x1_0000_0000 {}

pub proof fn lemma_frame_head(m: Msg, t: Seq<u8>)
    requires m.1.len() < 0x1_0000_0000
    ensures complete(frame(m) + t), first(frame(m) + t) == m, after_first(frame(m) + t) == t
{
    let s = frame(m) + t;
    let n = m.1.len() as int;
    assert(s.len() == 5 + n + t.len());
    assert(s.skip(1)[0] == be32(n)[0]);
    assert(s.skip(1)[1] == be32(n)[1]);
    assert(s.skip(1)[2] == be32(n)[2]);
    assert(s.skip(1)[3] == be32(n)[3]);
    assert(hdr_len(s) == n);
    assert(s.subrange(5, 5 + n) =~= m.1);
    assert(s.skip(5 + n) =~= t);
}

// round trip: the independent decoder inverts the wire format, with anything after it kept as rest
pub proof fn lemma_parse_wire(ms: Seq<Msg>, t: Seq<u8>)
    requires small(ms)
    ensures parse(wire(ms) + t) == ms + parse(t), rest(wire(ms) + t) == rest(t)
    decreases ms.len()
{
    if ms.len() == 0 {
        assert(wire(ms) + t =~= t);
        assert(ms + parse(t) =~= parse(t));
    } else {
        let m = ms[0];
        let tail = ms.skip(1);
        assert(small(tail)) by { assert forall|i: int| 0 <= i < tail.len() implies (#[trigger] tail[i]).1.len() < 0x1_0000_0000 by { assert(tail[i] == ms[i + 1]); } }
        assert(wire(ms) + t =~= frame(m) + (wire(tail) + t));
        lemma_frame_head(m, wire(tail) + t);
        lemma_parse_wire(tail, t);
        assert(seq![m] + (tail + parse(t)) =~= ms + parse(t));
    }
}

// chunking: appending more input never changes frames that were already complete
pub proof fn lemma_parse_append(u: Seq<u8>, c: Seq<u8>)
    ensures parse(u + c) == parse(u) + parse(rest(u) + c)
    decreases u.len()
{
    if !complete(u) {
        assert(parse(u) + parse(rest(u) + c) =~= parse(u + c));
    } else {
        lemma_hdr_len_nonneg(u);
        let s = u + c;
        assert(s.skip(1)[0] == u.skip(1)[0]);
        assert(s.skip(1)[1] == u.skip(1)[1]);
        assert(s.skip(1)[2] == u.skip(1)[2]);
        assert(s.skip(1)[3] == u.skip(1)[3]);
        assert(hdr_len(s) == hdr_len(u));
        assert(complete(s));
        assert(first(s).1 =~= first(u).1);
        assert(after_first(s) =~= after_first(u) + c);
        lemma_parse_append(after_first(u), c);
        assert(parse(u + c) =~= parse(u) + parse(rest(u) + c));
    }
}
} // verus!
fn main() {}
