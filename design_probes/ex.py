import re,sys
def strip_ranges(src):
    """yield (i, ch, in_code) skipping comments and strings"""
    i=0;n=len(src);out=[]
    code=[True]*n
    while i<n:
        c=src[i]
        if src.startswith('//',i):
            j=src.find('\n',i); j=n if j<0 else j
            for k in range(i,j): code[k]=False
            i=j;continue
        if src.startswith('/*',i):
            j=src.find('*/',i)+2
            for k in range(i,j): code[k]=False
            i=j;continue
        if c=='"':
            j=i+1
            while src[j]!='"':
                if src[j]=='\\': j+=1
                j+=1
            for k in range(i,j+1): code[k]=False
            i=j+1;continue
        if c=="'" and i+2<n and (src[i+2]=="'" or (src[i+1]=='\\' and src[i+3]=="'")):
            j=i+2 if src[i+2]=="'" else i+3
            for k in range(i,j+1): code[k]=False
            i=j+1;continue
        i+=1
    return code
def find_fn(src,name,nth=0):
    code=strip_ranges(src)
    pat=re.compile(r'\bfn\s+'+re.escape(name)+r'\b')
    ms=[m for m in pat.finditer(src) if code[m.start()]]
    m=ms[nth]
    # go back to start of line (include pub/async qualifiers)
    ls=src.rfind('\n',0,m.start())+1
    # find opening brace of body
    i=m.end();depth=0
    while True:
        if code[i]:
            if src[i] in '(<[' : depth+=1 if src[i]!='<' else 0
            if src[i] in ')]': depth-=1
            if src[i]=='{' and depth==0: break
            if src[i]==';' and depth==0: raise Exception('no body')
        i+=1
    b=i;d=0
    while True:
        if code[i]:
            if src[i]=='{': d+=1
            if src[i]=='}':
                d-=1
                if d==0: break
        i+=1
    return ls,b,i+1
def get_fn(path,name,nth=0):
    src=open(path).read()
    ls,b,e=find_fn(src,name,nth)
    return src[ls:b],src[b:e]
if __name__=='__main__':
    sig,body=get_fn(sys.argv[1],sys.argv[2],int(sys.argv[3]) if len(sys.argv)>3 else 0)
    print(sig);print(body)
