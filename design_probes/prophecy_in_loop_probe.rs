use vstd::prelude::*;
verus! {
pub struct S { pub log: Ghost<Seq<u8>> }
pub struct PinMut<'a, T> { pub p: &'a mut T }
impl<'a> PinMut<'a, S> {
    pub fn as_mut(&mut self) -> (r: PinMut<'_, S>)
        ensures *r.p == *old(self).p, *final(r.p) == *final(self).p, *final(final(self).p) == *final(old(self).p)
    { PinMut { p: &mut *self.p } }
    #[verifier::external_body]
    pub fn poll(self) -> (r: bool)
        ensures !r ==> *final(self.p) == *old(self.p)
    { unimplemented!() }
}
pub struct A { pub src: S, pub x: u32 }
pub struct AProj<'a> { pub src: PinMut<'a, S>, pub x: &'a mut u32 }
impl A {
    #[verifier::external_body]
    pub fn project(&mut self) -> (r: AProj<'_>)
        ensures *r.x == old(self).x, final(self).x == *final(r.x), *r.src.p == old(self).src, final(self).src == *final(r.src.p),
    { unimplemented!() }

    #[verifier::exec_allows_no_decreases_clause]
    #[verifier::loop_isolation(false)]
    fn f2(&mut self) -> (r: bool)
        ensures !r ==> final(self).src.log@ == old(self).src.log@
    {
        let AProj { mut src, x } = self.project();
        let ghost fut = *final(src.p);
        loop
            invariant src.p.log@ == old(self).src.log@, *final(src.p) == fut
        {
            if !src.as_mut().poll() { return false; }
            return true;
        }
    }
    fn f3(&mut self) -> (r: bool)
        ensures !r ==> final(self).src.log@ == old(self).src.log@
    {
        let AProj { mut src, x } = self.project();
        if !src.as_mut().poll() { return false; }
        true
    }
    fn f4(&mut self) -> (r: bool)
        ensures final(self).src.log@ == old(self).src.log@
    {
        let AProj { mut src, x } = self.project();
        true
    }
}
}
fn main() {}
