use vstd::prelude::*;
verus! {
fn f(o: Option<u32>) -> (r: Option<u32>)
    requires o matches Some(x) ==> x < 100
    ensures o matches Some(x) ==> r == Some((x + 1) as u32)
{
    o.map(|x| x + 1)
}
fn g(o: Option<u32>) -> (r: Option<u32>)
    requires o matches Some(x) ==> x < 100
    ensures o matches Some(x) ==> r == Some((x + 1) as u32)
{
    o.map(|x: u32| -> (y: u32) requires x < 100 ensures y == x + 1 { x + 1 })
}
}
fn main() {}
