use vstd::prelude::*;
macro_rules! trace { ($($t:tt)*) => { } }
mod tracing { macro_rules! debug { ($($t:tt)*) => { } } macro_rules! trace { ($($t:tt)*) => { } } pub(crate) use debug; pub(crate) use trace; }
macro_rules! vtry_poll { ($e:expr) => { match $e { Ok(v) => v, Err(e) => { return Poll::Ready(Err(e.into())); } } } }
verus! {
global size_of usize == 8;

pub enum Poll<T> { Ready(T), Pending }
pub struct Context { pub x: u8 }
pub struct BoxError { pub id: int }


pub trait Service<Request>: Sized {
    type Response;
    type Error;
    type Future;
    spec fn ready(&self) -> bool;
    fn poll_ready(&mut self, cx: &mut Context) -> (r: Poll<Result<(), Self::Error>>)
        ensures (r matches Poll::Ready(Ok(_))) ==> final(self).ready();
    fn call(&mut self, req: Request) -> Self::Future
        requires old(self).ready();
}
pub trait MakeService<Target>: Service<Target> {
    fn make_service(&mut self, t: Target) -> <Self as Service<Target>>::Future;
}
pub trait Future {
    type Output;
    fn poll(&mut self, cx: &mut Context) -> Poll<Self::Output>;
}
pub struct Pin<P> { pub p: P }
impl<'a, F: Future> Pin<&'a mut F> {
    pub fn new(p: &'a mut F) -> (r: Pin<&'a mut F>) ensures *r.p == *old(p), *final(r.p) == *final(p) { Pin { p } }
    pub fn poll(self, cx: &mut Context) -> Poll<F::Output> { self.p.poll(cx) }
}

pub enum State<F, S> {
    Idle,
    Connecting(F),
    Connected(S),
}
pub struct Reconnect<M, Target>
where
    M: Service<Target>,
{
    pub mk_service: M,
    pub state: State<M::Future, M::Response>,
    pub target: Target,
    pub error: Option<BoxError>,
    pub has_been_connected: bool,
    pub is_lazy: bool,
}
pub enum Inner<F> { Future(F), Error(Option<BoxError>) }
pub struct ResponseFuture<F> { pub inner: Inner<F> }
impl<F> ResponseFuture<F> {
    pub(crate) fn new(inner: F) -> (r: Self) ensures r.inner is Future {
        ResponseFuture {
            inner: Inner::Future(inner),
        }
    }

    pub(crate) fn error(error: BoxError) -> (r: Self) ensures r.inner is Error {
        ResponseFuture {
            inner: Inner::Error(Some(error)),
        }
    }
}

impl<M, Target, S, Request> Service<Request> for Reconnect<M, Target>
where
    M: MakeService<Target, Response = S>,
    S: Service<Request>,
    M::Future: Future<Output = Result<S, M::Error>>,
    M::Error: Into<BoxError>,
    S::Error: Into<BoxError>,
    Target: Clone,
{
    type Response = S::Response;
    type Error = BoxError;
    type Future = ResponseFuture<S::Future>;
    open spec fn ready(&self) -> bool { self.error is Some || (self.state matches State::Connected(svc) && svc.ready()) }
    #[verifier::exec_allows_no_decreases_clause]
    fn poll_ready(&mut self, cx: &mut Context) -> (r: Poll<Result<(), BoxError>>)
        ensures
                        final(self).error is Some && old(self).error is None ==> (final(self).has_been_connected || final(self).is_lazy),
            old(self).error is Some ==> *final(self) == *old(self),
            final(self).error is Some && old(self).error is None ==> final(self).state is Idle,
    {
        let mut state;

        if self.error.is_some() {
            return Poll::Ready(Ok(()));
        }

        loop
            invariant_except_break self.error is None,
            invariant self.is_lazy == old(self).is_lazy, old(self).error is None,
            ensures self.error is Some, state is Idle, self.has_been_connected || self.is_lazy,
        {
            match self.state {
                State::Idle => {
                    trace!("poll_ready; idle");
                    match self.mk_service.poll_ready(cx) {
                        Poll::Ready(r) => vtry_poll!(r),
                        Poll::Pending => {
                            trace!("poll_ready; MakeService not ready");
                            return Poll::Pending;
                        }
                    }

                    let fut = self.mk_service.make_service(self.target.clone());
                    self.state = State::Connecting(fut);
                    continue;
                }
                State::Connecting(ref mut f) => {
                    trace!("poll_ready; connecting");
                    match Pin::new(f).poll(cx) {
                        Poll::Ready(Ok(service)) => {
                            state = State::Connected(service);
                        }
                        Poll::Pending => {
                            trace!("poll_ready; not ready");
                            return Poll::Pending;
                        }
                        Poll::Ready(Err(e)) => {
                            trace!("poll_ready; error");

                            state = State::Idle;

                            if !(self.has_been_connected || self.is_lazy) {
                                return Poll::Ready(Err(e.into()));
                            } else {
                                let error = e.into();
                                tracing::debug!("reconnect::poll_ready: {:?}", error);
                                self.error = Some(error);
                                break;
                            }
                        }
                    }
                }
                State::Connected(ref mut inner) => {
                    trace!("poll_ready; connected");

                    self.has_been_connected = true;

                    match inner.poll_ready(cx) {
                        Poll::Ready(Ok(())) => {
                            trace!("poll_ready; ready");
                            return Poll::Ready(Ok(()));
                        }
                        Poll::Pending => {
                            trace!("poll_ready; not ready");
                            return Poll::Pending;
                        }
                        Poll::Ready(Err(_)) => {
                            trace!("poll_ready; error");
                            state = State::Idle;
                        }
                    }
                }
            }

            self.state = state;
        }

        self.state = state;
        Poll::Ready(Ok(()))
    }

    fn call(&mut self, request: Request) -> (r: ResponseFuture<S::Future>)
        ensures final(self).error is None, old(self).error is Some ==> r.inner is Error,
    {
        tracing::trace!("Reconnect::call");
        if let Some(error) = self.error.take() {
            tracing::debug!("error: {}", error);
            return ResponseFuture::error(error);
        }

        let State::Connected(service) = &mut self.state else {
            panic!("service not ready; poll_ready must be called first");
        };

        let fut = service.call(request);
        ResponseFuture::new(fut)
    }

}
} // verus!
fn main() {}
