from ex import get_fn
p=open('p.rs').read()
p=p[:p.rindex('} // verus!')]
R='/repo/tonic/src/request.rs'
I='/repo/tonic/src/service/interceptor.rs'
s_fh,b_fh=get_fn(R,'from_http')
s_fhp,b_fhp=get_fn(R,'from_http_parts')
s_ip,b_ip=get_fn(R,'into_parts')
s_fp,b_fp=get_fn(R,'from_parts')
s_call,b_call=get_fn(I,'call',2)
print(s_call)
extra='''
pub mod http_parts {
    use super::*;
    pub struct Parts { pub method: http::Method, pub version: http::Version, pub uri: http::Uri, pub headers: HeaderMap, pub extensions: Extensions }
}
impl<T> http::Request<T> {
    #[verifier::external_body]
    pub fn into_parts(self) -> (r: (http_parts::Parts, T))
        ensures r.1 == self.body, r.0.method == self.method, r.0.version == self.version, r.0.uri == self.uri, r.0.headers == self.headers, r.0.extensions == self.extensions
    { unimplemented!() }
    pub fn uri(&self) -> (r: &http::Uri) ensures *r == self.uri { &self.uri }
    pub fn method(&self) -> (r: &http::Method) ensures *r == self.method { &self.method }
    pub fn version(&self) -> (r: http::Version) ensures r == self.version { self.version }
}
impl http::Uri { #[verifier::external_body] pub fn clone(&self) -> (r: http::Uri) ensures r == *self { unimplemented!() } }
impl MetadataMap {
    pub fn from_headers(headers: HeaderMap) -> (r: MetadataMap) ensures r.headers == headers { MetadataMap { headers } }
}
impl<T> Request<T> {
    pub(crate) fn from_http_parts(parts: http_parts::Parts, message: T) -> (r: Self)
        ensures r.metadata.headers == parts.headers, r.message == message, r.extensions == parts.extensions
'''+b_fhp+'''
    pub fn from_http(http: http::Request<T>) -> (r: Self)
        ensures r.metadata.headers == http.headers, r.message == http.body, r.extensions == http.extensions
'''+b_fh+'''
    pub fn into_parts(self) -> (r: (MetadataMap, Extensions, T))
        ensures r.0 == self.metadata, r.1 == self.extensions, r.2 == self.message
'''+b_ip+'''
    pub fn from_parts(metadata: MetadataMap, extensions: Extensions, message: T) -> (r: Self)
        ensures r.metadata == metadata, r.extensions == extensions, r.message == message
'''+b_fp+'''
}
pub struct Status { pub code: u8 }
pub trait Interceptor {
    fn call(&mut self, request: Request<()>) -> Result<Request<()>, Status>;
}
// inner service with a ghost log of the requests it received
pub trait Service<Req>: Sized {
    type Future;
    spec fn log(&self) -> Seq<Req>;
    fn call(&mut self, req: Req) -> (f: Self::Future)
        ensures final(self).log() == old(self).log().push(req);
}
pub enum Kind<F> { Future(F), Status(Option<Status>) }
pub struct ResponseFuture<F> { pub kind: Kind<F> }
impl<F> ResponseFuture<F> {
    fn future(future: F) -> (r: Self) ensures r.kind == Kind::Future(future) { Self { kind: Kind::Future(future) } }
    fn status(status: Status) -> (r: Self) ensures r.kind == Kind::<F>::Status(Some(status)) { Self { kind: Kind::Status(Some(status)) } }
}
pub struct InterceptedService<S, I> { pub inner: S, pub interceptor: I }
impl<S, I> InterceptedService<S, I>
where
    I: Interceptor,
{
    fn call<ReqBody>(&mut self, req: http::Request<ReqBody>) -> (r: ResponseFuture<S::Future>)
        where S: Service<http::Request<ReqBody>>,
        ensures
            // veto: inner untouched, status handed back
            r.kind is Status ==> final(self).inner.log() == old(self).inner.log(),
            // accept: exactly one inner call; everything but metadata/extensions is the original
            r.kind is Future ==> final(self).inner.log().len() == old(self).inner.log().len() + 1 && ({
                let got = final(self).inner.log().last();
                got.uri == req.uri && got.method == req.method && got.version == req.version && got.body == req.body
            }),
'''
body=b_call
open('i.rs','w').write(p+extra+body+'\n}\n} // verus!\nfn main() {}\n')
