from ex import get_fn
P='/repo/tonic/src/codec/encode.rs'
s_tr,b_tr=get_fn(P,'trailers')
s_pf,b_pf=get_fn(P,'poll_frame')
pre='''use vstd::prelude::*;
macro_rules! ready { ($e:expr $(,)?) => { match $e { Poll::Ready(t) => t, Poll::Pending => { return Poll::Pending; } } }; }
macro_rules! vtry { ($e:expr) => { match $e { Ok(v) => v, Err(e) => { return Poll::Ready(Some(Err(e))); } } } }
verus! {
global size_of usize == 8;
pub enum Poll<T> { Ready(T), Pending }
impl<T> vstd::std_specs::convert::FromSpecImpl<T> for Poll<T> {
    open spec fn obeys_from_spec() -> bool { true }
    open spec fn from_spec(v: T) -> Self { Poll::Ready(v) }
}
impl<T> From<T> for Poll<T> { fn from(t: T) -> (r: Poll<T>) { Poll::Ready(t) } }
pub struct Context { pub x: u8 }
#[derive(Clone, Copy, PartialEq, Eq)] pub enum Code { Ok, Other(u8) }
pub struct HeaderMap { pub status_of: Ghost<Option<Status>> }
pub struct Status { pub code: Code, pub id: int }
impl Status {
    #[verifier::external_body] pub fn ok(m: &str) -> (r: Status) ensures r.code == Code::Ok { unimplemented!() }
    // C04 unit proves this contract for the real to_header_map
    #[verifier::external_body] pub fn to_header_map(&self) -> (r: Result<HeaderMap, Status>) ensures r matches Ok(h) ==> h.status_of@ == Some(*self) { unimplemented!() }
}
pub struct Bytes { pub v: Vec<u8> }
pub enum Frame<T> { Data(T), Trailers(HeaderMap) }
impl<T> Frame<T> {
    pub fn data(t: T) -> (r: Self) ensures r == Frame::Data(t) { Frame::Data(t) }
    pub fn trailers(t: HeaderMap) -> (r: Self) ensures r == Frame::<T>::Trailers(t) { Frame::Trailers(t) }
}
#[derive(Debug)]
pub enum Role { Client, Server }
pub struct EncodeState { pub error: Option<Status>, pub role: Role, pub is_end_stream: bool }
// inner EncodedBytes seen through its own contract (unit U1): a fused stream of chunks / one error
pub struct Inner { pub done: Ghost<bool> }
pub struct PinMut<'a, S> { pub p: &'a mut S }
impl<'a> PinMut<'a, Inner> {
    #[verifier::external_body]
    pub fn poll_next(self, cx: &mut Context) -> (r: Poll<Option<Result<Bytes, Status>>>)
        ensures old(self.p).done@ ==> r matches Poll::Ready(None), r matches Poll::Ready(None) ==> final(self.p).done@,
    { unimplemented!() }
}
pub struct EncodeBody { pub inner: Inner, pub state: EncodeState }
pub struct Proj<'a> { pub inner: PinMut<'a, Inner>, pub state: &'a mut EncodeState }
impl EncodeBody {
    #[verifier::external_body]
    pub fn project(&mut self) -> (r: Proj<'_>)
        ensures *r.inner.p == old(self).inner, *final(r.inner.p) == final(self).inner, *r.state == old(self).state, *final(r.state) == final(self).state
    { unimplemented!() }
}
'''
tr='''impl EncodeState {
    fn trailers(&mut self) -> (r: Option<Result<HeaderMap, Status>>)
        ensures
            old(self).role is Client ==> r is None && *final(self) == *old(self),
            old(self).role is Server && old(self).is_end_stream ==> r is None && *final(self) == *old(self),
            old(self).role is Server && !old(self).is_end_stream ==> r is Some && final(self).is_end_stream,
'''+b_tr+'\n}\n'
pf='''impl EncodeBody {
    fn poll_frame(&mut self, cx: &mut Context) -> (r: Poll<Option<Result<Frame<Bytes>, Status>>>)
        ensures
            // W1: a client body never carries trailers
            old(self).state.role is Client ==> !(r matches Poll::Ready(Some(Ok(Frame::Trailers(_))))),
            // W2: trailers are emitted at most once and mark the end
            r matches Poll::Ready(Some(Ok(Frame::Trailers(_)))) ==> !old(self).state.is_end_stream && final(self).state.is_end_stream,
            // W3: nothing after the trailers
            old(self).state.is_end_stream ==> r matches Poll::Ready(None),
'''+b_pf.replace("Some(Ok(Frame::trailers(status.to_header_map()?))).into()","Some(Ok(Frame::trailers(vtry!(status.to_header_map())))).into()")+'\n}\n'
open('e2.rs','w').write(pre+tr+pf+'\n} // verus!\nfn main() {}\n')
