use vstd::prelude::*;
verus! {
global size_of usize == 8;
#[derive(PartialEq, Eq, Clone, Copy)]
pub struct HeaderName { pub id: u32 }
pub struct HeaderMap { pub m: Ghost<Map<u32, Seq<Seq<u8>>>> }
impl HeaderMap {
    pub open spec fn view(&self) -> Map<u32, Seq<Seq<u8>>> { self.m@ }
    #[verifier::external_body]
    pub fn remove(&mut self, k: &HeaderName) -> (r: Option<u8>)
        ensures final(self)@ == old(self)@.remove(k.id)
    { unimplemented!() }
}
pub struct MetadataMap { pub headers: HeaderMap }
impl MetadataMap {
    pub const GRPC_RESERVED_HEADERS: [HeaderName; 3] = [HeaderName{id:1}, HeaderName{id:2}, HeaderName{id:3}];

    pub fn into_sanitized_headers(mut this: Self) -> (r: HeaderMap)
        ensures !r@.contains_key(1), !r@.contains_key(2), !r@.contains_key(3),
            forall|k: u32| k != 1 && k != 2 && k != 3 ==> (r@.contains_key(k) == this.headers@.contains_key(k)) && (r@.contains_key(k) ==> r@[k] == this.headers@[k]),
    {
        for r in &Self::GRPC_RESERVED_HEADERS {
            this.headers.remove(r);
        }
        this.headers
    }
}
} // verus!
fn main() {}
