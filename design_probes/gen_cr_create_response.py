from ex import get_fn
s,b=get_fn('/repo/tonic/src/client/grpc.rs','create_response')
pre='''use vstd::prelude::*;
verus! {
global size_of usize == 8;
#[derive(Clone, Copy, PartialEq, Eq)] pub enum Code { Ok, Other(u8) }
pub struct Status { pub code: Code, pub id: int }
impl Status {
    pub fn code(&self) -> (r: Code) ensures r == self.code { self.code }
    #[verifier::external_body]
    pub fn from_header_map(h: &HeaderMap) -> (r: Option<Status>) ensures r == h.status@ { unimplemented!() }
}
#[derive(Clone, Copy, PartialEq, Eq)] pub enum CompressionEncoding { Gzip, Deflate, Zstd }
#[derive(Clone, Copy)] pub struct EnabledCompressionEncodings { pub s: Ghost<Set<CompressionEncoding>> }
pub struct HeaderMap { pub status: Ghost<Option<Status>>, pub enc: Ghost<Result<Option<CompressionEncoding>, Status>> }
impl CompressionEncoding {
    #[verifier::external_body]
    pub fn from_encoding_header(map: &HeaderMap, enabled: EnabledCompressionEncodings) -> (r: Result<Option<CompressionEncoding>, Status>)
        ensures r == map.enc@
    { unimplemented!() }
}
#[derive(Clone, Copy, PartialEq, Eq)] pub struct StatusCode { pub c: u16 }
pub mod http {
    use super::*;
    pub struct Response<B> { pub status: StatusCode, pub headers: HeaderMap, pub body: B }
    impl<B> Response<B> {
        pub fn headers(&self) -> (r: &HeaderMap) ensures *r == self.headers { &self.headers }
        pub fn status(&self) -> (r: StatusCode) ensures r == self.status { self.status }
        #[verifier::external_body]
        pub fn map<U, F: FnOnce(B) -> U>(self, f: F) -> (r: Response<U>)
            requires f.requires((self.body,))
            ensures f.ensures((self.body,), r.body), r.status == self.status, r.headers == self.headers
        { unimplemented!() }
    }
}
pub enum Kind { Response(StatusCode, Option<CompressionEncoding>, Option<usize>), Empty }
pub struct Streaming<M> { pub kind: Kind, pub m: Option<M> }
impl<M> Streaming<M> {
    #[verifier::external_body]
    pub fn new_response<D, B>(decoder: D, body: B, status_code: StatusCode, encoding: Option<CompressionEncoding>, max: Option<usize>) -> (r: Self)
        ensures r.kind == Kind::Response(status_code, encoding, max)
    { unimplemented!() }
    #[verifier::external_body]
    pub fn new_empty<D, B>(decoder: D, body: B) -> (r: Self) ensures r.kind == Kind::Empty { unimplemented!() }
}
pub struct Response<T> { pub headers: HeaderMap, pub message: T }
impl<T> Response<T> {
    #[verifier::external_body]
    pub fn from_http(res: http::Response<T>) -> (r: Self) ensures r.headers == res.headers, r.message == res.body { unimplemented!() }
}
pub struct GrpcConfig { pub accept_compression_encodings: EnabledCompressionEncodings, pub max_decoding_message_size: Option<usize> }
pub struct Grpc<T> { pub inner: T, pub config: GrpcConfig }
impl<T> Grpc<T> {
    fn create_response<M2, D, RB>(
        &self,
        decoder: D,
        response: http::Response<RB>,
    ) -> (r: Result<Response<Streaming<M2>>, Status>)
        ensures
            response.headers.enc@ matches Err(st) ==> r == Err::<Response<Streaming<M2>>, Status>(st),
            response.headers.enc@ is Ok && (response.headers.status@ matches Some(st) && st.code != Code::Ok) ==> r == Err::<Response<Streaming<M2>>, Status>(response.headers.status@->Some_0),
            response.headers.enc@ is Ok && response.headers.status@ is None ==> r is Ok && r->Ok_0.message.kind == Kind::Response(response.status, response.headers.enc@->Ok_0, self.config.max_decoding_message_size),
            response.headers.enc@ is Ok && (response.headers.status@ matches Some(st) && st.code == Code::Ok) ==> r is Ok && r->Ok_0.message.kind == Kind::Empty,
'''
b=b.replace("let response = response.map(|body| {","let response = response.map(|body: RB| -> (s: Streaming<M2>) ensures s.kind == (if expect_additional_trailers { Kind::Response(status_code, encoding, self.config.max_decoding_message_size) } else { Kind::Empty }) {")
open('cr.rs','w').write(pre+b+'\n}\n} // verus!\nfn main() {}\n')
