
#[cfg(test)]
mod verif_witness_web_client {
    //! witness search for C17: every 3-way chunking of a response body (messages + trailers with colons / repeated names)
    //! must give the same message bytes and trailers; truncation inside a frame must be an error; the inner body is
    //! never polled after it ended.  Injected into a scratch copy of tonic-web/src/call.rs by the check driver.
    use super::*;
    use std::collections::VecDeque;
    struct Script { chunks: VecDeque<Vec<u8>>, polls_after_end: usize }
    impl Body for Script {
        type Data = Bytes;
        type Error = Status;
        fn poll_frame(mut self: Pin<&mut Self>, _cx: &mut Context<'_>) -> Poll<Option<Result<Frame<Bytes>, Status>>> {
            match self.chunks.pop_front() {
                Some(c) => Poll::Ready(Some(Ok(Frame::data(Bytes::from(c))))),
                None => { self.polls_after_end += 1; if self.polls_after_end > 1 { panic!("inner body polled after its end"); } Poll::Ready(None) }
            }
        }
    }
    fn drain(chunks: Vec<Vec<u8>>) -> (Vec<u8>, Vec<String>) {
        let rt = tokio::runtime::Builder::new_current_thread().build().unwrap();
        rt.block_on(async {
            let mut call = Box::pin(GrpcWebCall::client_response(Script { chunks: chunks.into(), polls_after_end: 0 }));
            let (mut data, mut rest) = (vec![], vec![]);
            for _ in 0..64 {
                match std::future::poll_fn(|cx| call.as_mut().poll_frame(cx)).await {
                    None => { rest.push("END".to_string()); break; }
                    Some(Err(e)) => { rest.push(format!("ERR {:?}", e.code())); break; }
                    Some(Ok(f)) => {
                        if f.is_data() { data.extend(f.into_data().unwrap().to_vec()); }
                        else { let t = f.into_trailers().unwrap(); let mut v: Vec<String> = t.iter().map(|(k, v)| format!("{}={}", k, v.to_str().unwrap())).collect(); v.sort(); rest.push(format!("TRAILERS {:?}", v)); }
                    }
                }
            }
            (data, rest)
        })
    }
    fn body() -> Vec<u8> {
        let mut v = vec![0u8, 0, 0, 0, 2, 0xAA, 0xBB, 0, 0, 0, 0, 0];
        let t = b"grpc-status:0\r\ngrpc-message:a:b\r\nx:1\r\nx:2\r\n";
        v.push(0x80); v.extend_from_slice(&(t.len() as u32).to_be_bytes()); v.extend_from_slice(t);
        v
    }
    #[test]
    fn every_chunking_gives_the_same_messages_and_trailers() {
        let b = body();
        let one = drain(vec![b.clone()]);
        assert_eq!(one.0, b[..12].to_vec());
        assert_eq!(one.1, vec!["TRAILERS [\"grpc-message=a:b\", \"grpc-status=0\", \"x=1\", \"x=2\"]".to_string(), "END".to_string()]);
        for cut in 1..b.len() {
            for cut2 in cut..b.len() {
                let r = drain(vec![b[..cut].to_vec(), b[cut..cut2].to_vec(), b[cut2..].to_vec()]);
                assert_eq!(r, one, "chunk boundaries at {} and {}", cut, cut2);
            }
        }
    }
    #[test]
    fn truncation_inside_a_frame_is_an_error() {
        let b = body();
        for cut in 1..b.len() {
            let r = drain(vec![b[..cut].to_vec()]);
            let on_boundary = cut == 7 || cut == 12;
            assert_eq!(r.1.last().map(|s| s.starts_with("ERR")), Some(!on_boundary), "body cut after {} bytes: {:?}", cut, r);
        }
    }
    // an inner body whose Data is a NON-CONTIGUOUS Buf (Chain): each chunk is delivered as two halves chained together
    struct Chained { chunks: VecDeque<Vec<u8>> }
    impl Body for Chained {
        type Data = bytes::buf::Chain<Bytes, Bytes>;
        type Error = Status;
        fn poll_frame(mut self: Pin<&mut Self>, _cx: &mut Context<'_>) -> Poll<Option<Result<Frame<Self::Data>, Status>>> {
            match self.chunks.pop_front() {
                Some(c) => { let h = c.len() / 2; Poll::Ready(Some(Ok(Frame::data(Bytes::from(c[..h].to_vec()).chain(Bytes::from(c[h..].to_vec())))))) }
                None => Poll::Ready(None),
            }
        }
    }
    #[test]
    fn a_non_contiguous_inner_buffer_loses_nothing() {
        let b = body();
        let one = drain(vec![b.clone()]);
        let rt = tokio::runtime::Builder::new_current_thread().build().unwrap();
        for cut in 1..b.len() {
            let got = rt.block_on(async {
                let mut call = Box::pin(GrpcWebCall::client_response(Chained { chunks: vec![b[..cut].to_vec(), b[cut..].to_vec()].into() }));
                let (mut data, mut rest) = (vec![], vec![]);
                for _ in 0..64 {
                    match std::future::poll_fn(|cx| call.as_mut().poll_frame(cx)).await {
                        None => { rest.push("END".to_string()); break; }
                        Some(Err(e)) => { rest.push(format!("ERR {:?}", e.code())); break; }
                        Some(Ok(f)) => {
                            if f.is_data() { data.extend(f.into_data().unwrap().to_vec()); }
                            else { let t = f.into_trailers().unwrap(); let mut v: Vec<String> = t.iter().map(|(k, v)| format!("{}={}", k, v.to_str().unwrap())).collect(); v.sort(); rest.push(format!("TRAILERS {:?}", v)); }
                        }
                    }
                }
                (data, rest)
            });
            assert_eq!(got, one, "chained halves, boundary at {}", cut);
        }
    }
}
