#[cfg(test)]
mod verif_witness_origin {
    //! witness search for C14 / C03 (AddOrigin): whatever request a channel is handed, the call is answered - passed on to the
    //! configured origin with the path, headers and body it came with, or failed with an error - and never panics.
    use super::*;
    use std::sync::{Arc, Mutex};

    #[derive(Clone, Default)]
    struct Seen(Arc<Mutex<Vec<(Uri, http::HeaderMap, http::Method, &'static str)>>>);
    impl Service<Request<&'static str>> for Seen {
        type Response = ();
        type Error = crate::BoxError;
        type Future = std::future::Ready<Result<(), crate::BoxError>>;
        fn poll_ready(&mut self, _: &mut Context<'_>) -> Poll<Result<(), Self::Error>> {
            Poll::Ready(Ok(()))
        }
        fn call(&mut self, req: Request<&'static str>) -> Self::Future {
            let (head, body) = req.into_parts();
            self.0.lock().unwrap().push((head.uri, head.headers, head.method, body));
            std::future::ready(Ok(()))
        }
    }

    const REQUEST_URIS: [&str; 9] = [
        "/pkg.Svc/Method",
        "/pkg.Svc/Method?x=1",
        "http://elsewhere.example/pkg.Svc/Method",
        "https://elsewhere.example:8443/a/b?q",
        "/",
        "*",
        "elsewhere.example:80",
        "elsewhere.example",
        "localhost",
    ];
    const ORIGINS: [&str; 5] = ["http://origin.example", "https://origin.example:50051", "http://[::1]:1/ignored/path", "/only/a/path", "origin.example:80"];

    #[tokio::test]
    async fn every_call_is_answered_and_sent_to_the_origin_with_its_own_path() {
        for origin in ORIGINS {
            let origin: Uri = origin.parse().unwrap();
            let has_origin = origin.scheme().is_some() && origin.authority().is_some();
            for uri in REQUEST_URIS {
                let uri: Uri = uri.parse().unwrap();
                let seen = Seen::default();
                let mut svc = AddOrigin::new(seen.clone(), origin.clone());
                let req = Request::builder().method("POST").uri(uri.clone()).header("x-custom", "v").header("te", "trailers").body("payload").unwrap();
                let has_path = uri.path_and_query().is_some();
                let out = svc.call(req).await;
                let seen = seen.0.lock().unwrap();
                if has_origin && has_path {
                    assert!(out.is_ok(), "origin {origin} request {uri}: {out:?}");
                    assert_eq!(seen.len(), 1);
                    let (sent, headers, method, body) = &seen[0];
                    assert_eq!(sent.scheme(), origin.scheme(), "origin {origin} request {uri}");
                    assert_eq!(sent.authority(), origin.authority(), "origin {origin} request {uri}");
                    assert_eq!(sent.path_and_query(), uri.path_and_query(), "origin {origin} request {uri}");
                    assert_eq!(headers.get("x-custom").unwrap(), "v");
                    assert_eq!(headers.get("te").unwrap(), "trailers");
                    assert_eq!(headers.len(), 2);
                    assert_eq!(method, http::Method::POST);
                    assert_eq!(*body, "payload");
                } else {
                    assert!(out.is_err(), "origin {origin} request {uri}: a call that cannot be addressed must fail");
                    assert!(seen.is_empty(), "origin {origin} request {uri}: nothing may reach the transport");
                }
            }
        }
    }
}
