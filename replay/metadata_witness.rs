#[cfg(test)]
mod verif_witness_metadata {
    //! witness search for C08 (typed accessors and the entry API): whatever the spelling of the key text, an ASCII accessor
    //! never reaches an entry stored under a `-bin` name and a binary accessor never reaches any other entry; a typed entry
    //! handle stays on the side it was asked for; what is written through an entry is what the map then holds, in order.
    use super::*;

    fn spellings(name: &str) -> Vec<String> {
        // every way of casing the letters of `name` (2^letters; names here have at most 9 letters)
        let letters: Vec<usize> = name.char_indices().filter(|(_, c)| c.is_ascii_alphabetic()).map(|(i, _)| i).collect();
        (0u32..(1 << letters.len()))
            .map(|mask| {
                let mut b = name.as_bytes().to_vec();
                for (bit, &i) in letters.iter().enumerate() {
                    if mask & (1 << bit) != 0 {
                        b[i] = b[i].to_ascii_uppercase();
                    }
                }
                String::from_utf8(b).unwrap()
            })
            .collect()
    }

    fn sample() -> MetadataMap {
        let mut map = MetadataMap::new();
        map.insert("plain", "v1".parse().unwrap());
        map.append("plain", "v2".parse().unwrap());
        map.insert_bin("trace-bin", MetadataValue::from_bytes(b"\xff\x00hello"));
        map.append_bin("trace-bin", MetadataValue::from_bytes(b"\x01"));
        map.insert("x-binx", "almost".parse().unwrap());
        map.insert("bin", "short".parse().unwrap());
        map
    }

    fn type_name_of<T>(_: &T) -> &'static str {
        std::any::type_name::<T>()
    }

    #[test]
    fn typed_accessors_never_cross_the_partition_whatever_the_spelling() {
        for name in ["plain", "trace-bin", "x-binx", "bin", "-bin", "absent", "absent-bin"] {
            for key in spellings(name) {
                let binary_name = key.to_ascii_lowercase().ends_with("-bin");
                let map = sample();
                let stored = map.as_ref().contains_key(key.as_str());
                // shared accessors, by &str and by String
                assert_eq!(map.get(key.as_str()).is_some(), stored && !binary_name, "get({key})");
                assert_eq!(map.get(key.clone()).is_some(), stored && !binary_name, "get(String {key})");
                assert_eq!(map.get_bin(key.as_str()).is_some(), stored && binary_name, "get_bin({key})");
                assert_eq!(map.get_bin(&key).is_some(), stored && binary_name, "get_bin(&String {key})");
                assert_eq!(map.get_all(key.as_str()).iter().count() > 0, stored && !binary_name, "get_all({key})");
                assert_eq!(map.get_all_bin(key.as_str()).iter().count() > 0, stored && binary_name, "get_all_bin({key})");
                // mutable accessors
                let mut m = sample();
                assert_eq!(m.get_mut(key.as_str()).is_some(), stored && !binary_name, "get_mut({key})");
                assert_eq!(m.get_bin_mut(key.as_str()).is_some(), stored && binary_name, "get_bin_mut({key})");
                // removal through the accessor of the other side leaves the map alone
                let mut m = sample();
                let r = m.remove(key.as_str());
                assert_eq!(r.is_some(), stored && !binary_name, "remove({key})");
                assert_eq!(m.as_ref().contains_key(key.as_str()), stored && binary_name, "remove({key}) removed an entry of the other side");
                let mut m = sample();
                let r = m.remove_bin(key.as_str());
                assert_eq!(r.is_some(), stored && binary_name, "remove_bin({key})");
                assert_eq!(m.as_ref().contains_key(key.as_str()), stored && !binary_name, "remove_bin({key}) removed an entry of the other side");
                // entries
                let mut m = sample();
                match m.entry(key.as_str()) {
                    Ok(e) => {
                        assert!(!binary_name, "entry({key}) handed out an ASCII handle on a binary name");
                        assert!(!e.key().as_str().ends_with("-bin"));
                        assert_eq!(matches!(e, Entry::Occupied(_)), stored);
                    }
                    Err(_) => assert!(binary_name, "entry({key}) refused an ASCII name"),
                }
                match m.entry_bin(key.as_str()) {
                    Ok(e) => {
                        assert!(binary_name, "entry_bin({key}) handed out a binary handle on an ASCII name");
                        assert!(e.key().as_str().ends_with("-bin"));
                        assert_eq!(matches!(e, Entry::Occupied(_)), stored);
                    }
                    Err(_) => assert!(!binary_name, "entry_bin({key}) refused a binary name"),
                }
            }
        }
    }

    #[test]
    fn an_entry_handle_keeps_its_encoding() {
        let mut map = MetadataMap::new();
        match map.entry_bin("fresh-bin").unwrap() {
            Entry::Vacant(v) => {
                let e = v.insert_entry(MetadataValue::from_bytes(b"\xff\x00"));
                let t = type_name_of(&e);
                assert!(t.contains("Binary") && !t.contains("Ascii"), "insert_entry on a binary vacant entry returned {t}");
                assert!(type_name_of(e.get()).contains("Binary"), "value of a binary entry presented as {}", type_name_of(e.get()));
            }
            Entry::Occupied(_) => panic!("fresh map"),
        }
        match map.entry("fresh").unwrap() {
            Entry::Vacant(v) => {
                let e = v.insert_entry("x".parse().unwrap());
                let t = type_name_of(&e);
                assert!(t.contains("Ascii") && !t.contains("Binary"), "insert_entry on an ASCII vacant entry returned {t}");
            }
            Entry::Occupied(_) => panic!("fresh map"),
        }
        assert_eq!(map.get_bin("fresh-bin").unwrap().to_bytes().unwrap().as_ref(), b"\xff\x00");
        assert_eq!(map.get("fresh").unwrap(), "x");
    }

    #[test]
    fn what_is_written_through_an_entry_is_what_the_map_holds() {
        let all = |m: &MetadataMap, k: &str| m.get_all(k).iter().map(|v| v.to_str().unwrap().to_string()).collect::<Vec<_>>();
        let mut map = MetadataMap::new();
        // vacant: or_insert writes the default; occupied: leaves the first value and hands it out
        assert_eq!(map.entry("k").unwrap().or_insert("a".parse().unwrap()), "a");
        assert_eq!(map.entry("k").unwrap().or_insert("zzz".parse().unwrap()), "a");
        assert_eq!(map.entry("k").unwrap().or_insert_with(|| "yyy".parse().unwrap()), "a");
        assert_eq!(map.entry("k2").unwrap().or_insert_with(|| "b".parse().unwrap()), "b");
        assert_eq!(all(&map, "k"), ["a"]);
        assert_eq!(all(&map, "k2"), ["b"]);
        if let Entry::Occupied(mut e) = map.entry("k").unwrap() {
            e.append("a2".parse().unwrap());
            assert_eq!(e.iter().map(|v| v.to_str().unwrap()).collect::<Vec<_>>(), ["a", "a2"]);
            *e.get_mut() = "A".parse().unwrap();
            assert_eq!(e.get(), "A");
            assert_eq!(e.key().as_str(), "k");
        } else {
            panic!("occupied expected");
        }
        assert_eq!(all(&map, "k"), ["A", "a2"]);
        if let Entry::Occupied(mut e) = map.entry("k").unwrap() {
            // (two values only: http 1.5.0's own insert_mult trips a debug assertion of http from three values on)
            let drained: Vec<_> = e.insert_mult("only".parse().unwrap()).map(|v| v.to_str().unwrap().to_string()).collect();
            assert_eq!(drained, ["A", "a2"]);
        }
        assert_eq!(all(&map, "k"), ["only"]);
        if let Entry::Occupied(mut e) = map.entry("k").unwrap() {
            assert_eq!(e.insert("next".parse().unwrap()), "only");
            for v in e.iter_mut() {
                *v = "mutated".parse().unwrap();
            }
        }
        assert_eq!(all(&map, "k"), ["mutated"]);
        if let Entry::Occupied(e) = map.entry("k2").unwrap() {
            let (k, v) = e.remove_entry();
            assert_eq!((k.as_str(), v.to_str().unwrap()), ("k2", "b"));
        }
        assert!(map.get("k2").is_none());
        if let Entry::Vacant(v) = map.entry("k3").unwrap() {
            assert_eq!(v.key().as_str(), "k3");
            *v.insert("c".parse().unwrap()) = "c!".parse().unwrap();
        }
        assert_eq!(all(&map, "k3"), ["c!"]);
        if let Entry::Occupied(e) = map.entry("k3").unwrap() {
            assert_eq!(e.remove(), "c!");
        }
        assert!(map.get("k3").is_none());
        if let Entry::Vacant(v) = map.entry("k4").unwrap() {
            assert_eq!(v.into_key().as_str(), "k4");
        }
        assert!(map.get("k4").is_none());
        assert_eq!(map.len(), 1);
    }
}
