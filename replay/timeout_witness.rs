
#[cfg(test)]
mod verif_witness_timeout {
    //! witness search for C09 (parser): conformant values parse to what they denote, malformed ones are errors
    use super::*;
    #[test]
    fn parser_accepts_exactly_the_spec_conformant_values() {
        let parse = |v: &str| { let mut hm = HeaderMap::new(); hm.insert(GRPC_TIMEOUT_HEADER, HeaderValue::from_str(v).unwrap()); try_parse_grpc_timeout(&hm).map_err(|_| ()) };
        for (u, nanos) in [("H", 3_600_000_000_000u128), ("M", 60_000_000_000), ("S", 1_000_000_000), ("m", 1_000_000), ("u", 1_000), ("n", 1)] {
            for digits in ["0", "1", "7", "42", "99999999", "00000001"] {
                let d = parse(&format!("{}{}", digits, u)).unwrap().unwrap();
                assert_eq!(d.as_nanos(), digits.parse::<u128>().unwrap() * nanos, "{}{}", digits, u);
            }
        }
        for bad in ["+5S", "-5S", "5", "S", "", "123456789S", "5s", "5 S", " 5S", "5.0S", "0x5S", "5SS"] {
            assert!(parse(bad).is_err(), "malformed value `{}` parsed as {:?}", bad, parse(bad));
        }
    }
}
