#[cfg(test)]
mod verif_witness_richerror {
    //! witness search for C20: the ten standard details, as a set or as a list, are recovered unchanged from a status -
    //! also after the status travelled through the header encoding; the embedded google.rpc.Status carries the outer code
    //! and message; undecodable details give an error / the empty result, never a panic.
    use super::*;
    use std::collections::HashMap;
    use std::time::Duration;

    fn md() -> HashMap<String, String> {
        let mut m = HashMap::new();
        m.insert("k\u{e9}y".to_string(), "v\u{0}alue".to_string());
        m.insert(String::new(), String::new());
        m
    }

    fn all_ten() -> Vec<ErrorDetail> {
        vec![
            RetryInfo { retry_delay: Some(Duration::new(315_576_000_000, 999_999_999)) }.into(),
            DebugInfo { stack_entries: vec!["a".into(), String::new(), "\u{1F600}".into()], detail: "d\n".into() }.into(),
            QuotaFailure { violations: vec![QuotaViolation { subject: "s1".into(), description: "d1".into() }, QuotaViolation { subject: "".into(), description: "d2".into() }] }.into(),
            ErrorInfo { reason: "R".into(), domain: "dom".into(), metadata: md() }.into(),
            PreconditionFailure { violations: vec![PreconditionViolation { r#type: "t".into(), subject: "s".into(), description: "d".into() }] }.into(),
            BadRequest { field_violations: vec![FieldViolation { field: "f1".into(), description: "x".into() }, FieldViolation { field: "f2".into(), description: "y".into() }, FieldViolation { field: "f1".into(), description: "x".into() }] }.into(),
            RequestInfo { request_id: "id".into(), serving_data: "sd".into() }.into(),
            ResourceInfo { resource_type: "rt".into(), resource_name: "rn".into(), owner: "o".into(), description: "de".into() }.into(),
            Help { links: vec![HelpLink { description: "l".into(), url: "u".into() }, HelpLink { description: "l2".into(), url: "u2".into() }] }.into(),
            LocalizedMessage { locale: "en-US".into(), message: "m".into() }.into(),
        ]
    }

    // Debug text of a list, with the HashMap of ErrorInfo printed in sorted order (its iteration order is not part of the value)
    fn text(v: &[ErrorDetail]) -> Vec<String> {
        v.iter()
            .map(|d| match d {
                ErrorDetail::ErrorInfo(e) => {
                    let mut kv: Vec<_> = e.metadata.iter().collect();
                    kv.sort();
                    format!("ErrorInfo {:?} {:?} {:?}", e.reason, e.domain, kv)
                }
                other => format!("{:?}", other),
            })
            .collect()
    }

    fn set_text(got: &ErrorDetails) -> Vec<String> {
        let back: Vec<ErrorDetail> = [
            got.retry_info.clone().map(ErrorDetail::from),
            got.debug_info.clone().map(ErrorDetail::from),
            got.quota_failure.clone().map(ErrorDetail::from),
            got.error_info.clone().map(ErrorDetail::from),
            got.precondition_failure.clone().map(ErrorDetail::from),
            got.bad_request.clone().map(ErrorDetail::from),
            got.request_info.clone().map(ErrorDetail::from),
            got.resource_info.clone().map(ErrorDetail::from),
            got.help.clone().map(ErrorDetail::from),
            got.localized_message.clone().map(ErrorDetail::from),
        ]
        .into_iter()
        .flatten()
        .collect();
        text(&back)
    }

    fn through_headers(s: tonic::Status) -> tonic::Status {
        let response = s.into_http::<()>();
        tonic::Status::from_header_map(response.headers()).expect("grpc-status is present")
    }

    #[test]
    fn a_list_in_any_order_with_repeats_comes_back_unchanged() {
        let base = all_ten();
        // every rotation of the ten kinds, each followed by a repeat of its first two elements
        for rot in 0..base.len() {
            let mut list: Vec<ErrorDetail> = base.iter().cycle().skip(rot).take(base.len()).cloned().collect();
            list.push(list[0].clone());
            list.push(list[1].clone());
            let want = text(&list);
            let s = tonic::Status::with_error_details_vec(Code::Internal, "msg \u{e9}", list);
            assert_eq!(text(&s.check_error_details_vec().unwrap()), want, "direct, rotation {rot}");
            let got = through_headers(s);
            assert_eq!(got.code(), Code::Internal);
            assert_eq!(got.message(), "msg \u{e9}");
            assert_eq!(text(&got.check_error_details_vec().unwrap()), want, "through the headers, rotation {rot}");
            assert_eq!(text(&got.get_error_details_vec()), want);
        }
    }

    #[test]
    fn a_set_with_any_subset_of_the_ten_kinds_comes_back_unchanged() {
        let base = all_ten();
        for mask in 0u32..1024 {
            let mut d = ErrorDetails::new();
            let mut want = Vec::new();
            for (i, e) in base.iter().enumerate() {
                if mask & (1 << i) == 0 {
                    continue;
                }
                want.push(e.clone());
                match e.clone() {
                    ErrorDetail::RetryInfo(x) => d.retry_info = Some(x),
                    ErrorDetail::DebugInfo(x) => d.debug_info = Some(x),
                    ErrorDetail::QuotaFailure(x) => d.quota_failure = Some(x),
                    ErrorDetail::ErrorInfo(x) => d.error_info = Some(x),
                    ErrorDetail::PreconditionFailure(x) => d.precondition_failure = Some(x),
                    ErrorDetail::BadRequest(x) => d.bad_request = Some(x),
                    ErrorDetail::RequestInfo(x) => d.request_info = Some(x),
                    ErrorDetail::ResourceInfo(x) => d.resource_info = Some(x),
                    ErrorDetail::Help(x) => d.help = Some(x),
                    ErrorDetail::LocalizedMessage(x) => d.localized_message = Some(x),
                }
            }
            let s = through_headers(tonic::Status::with_error_details(Code::NotFound, "m", d));
            let got = s.check_error_details().unwrap();
            assert_eq!(set_text(&got), text(&want), "set, mask {mask:#b}");
            assert_eq!(text(&s.check_error_details_vec().unwrap()), text(&want), "set read as a list, mask {mask:#b}");
            // the single-kind getters agree with the set
            assert_eq!(format!("{:?}", s.get_details_retry_info()), format!("{:?}", got.retry_info));
            assert_eq!(format!("{:?}", s.get_details_debug_info()), format!("{:?}", got.debug_info));
            assert_eq!(format!("{:?}", s.get_details_quota_failure()), format!("{:?}", got.quota_failure));
            assert_eq!(format!("{:?}", s.get_details_precondition_failure()), format!("{:?}", got.precondition_failure));
            assert_eq!(format!("{:?}", s.get_details_bad_request()), format!("{:?}", got.bad_request));
            assert_eq!(format!("{:?}", s.get_details_request_info()), format!("{:?}", got.request_info));
            assert_eq!(format!("{:?}", s.get_details_resource_info()), format!("{:?}", got.resource_info));
            assert_eq!(format!("{:?}", s.get_details_help()), format!("{:?}", got.help));
            assert_eq!(format!("{:?}", s.get_details_localized_message()), format!("{:?}", got.localized_message));
            assert_eq!(s.get_details_error_info().is_some(), got.error_info.is_some());
        }
    }

    #[test]
    fn the_embedded_status_carries_the_outer_code_and_message() {
        for code in 0..17 {
            let code = Code::from_i32(code);
            for msg in ["", "plain", "uni \u{1F600} code", "per%cent"] {
                let s = through_headers(tonic::Status::with_error_details_vec(code, msg, all_ten()));
                let inner = pb::Status::decode(s.details()).unwrap();
                assert_eq!(inner.code, s.code() as i32);
                assert_eq!(inner.message, s.message());
                assert_eq!(inner.details.len(), 10);
                let s = tonic::Status::with_error_details(code, msg, ErrorDetails::with_bad_request_violation("f", "d"));
                let inner = pb::Status::decode(s.details()).unwrap();
                assert_eq!((inner.code, inner.message.as_str()), (code as i32, msg));
            }
        }
    }

    #[test]
    fn undecodable_details_give_an_error_or_the_empty_result_never_a_panic() {
        // deterministic byte soup, plus truncations of a valid envelope
        let valid = tonic::Status::with_error_details_vec(Code::Internal, "m", all_ten()).details().to_vec();
        let mut inputs: Vec<Vec<u8>> = (0..valid.len()).map(|n| valid[..n].to_vec()).collect();
        let mut x = 0x9E37_79B9u32;
        for len in 0..200usize {
            let mut v = Vec::with_capacity(len);
            for _ in 0..len {
                x ^= x << 13;
                x ^= x >> 17;
                x ^= x << 5;
                v.push(x as u8);
            }
            inputs.push(v);
        }
        // a known type URL with a payload that is not that message
        let bad = pb::Status { code: 2, message: "m".into(), details: vec![Any { type_url: BadRequest::TYPE_URL.to_string(), value: vec![0xff, 0xff, 0xff] }] };
        inputs.push(bad.encode_to_vec());
        for bytes in inputs {
            let s = tonic::Status::with_details(Code::Unknown, "m", bytes.clone().into());
            match s.check_error_details_vec() {
                Ok(v) => assert_eq!(text(&s.get_error_details_vec()), text(&v)),
                Err(_) => assert!(s.get_error_details_vec().is_empty(), "an undecodable envelope gives the empty list"),
            }
            match s.check_error_details() {
                Ok(d) => assert_eq!(set_text(&s.get_error_details()), set_text(&d)),
                Err(_) => assert!(set_text(&s.get_error_details()).is_empty(), "an undecodable envelope gives the empty set"),
            }
            let _ = (s.get_details_retry_info(), s.get_details_debug_info(), s.get_details_quota_failure(), s.get_details_error_info(),
                     s.get_details_precondition_failure(), s.get_details_bad_request(), s.get_details_request_info(),
                     s.get_details_resource_info(), s.get_details_help(), s.get_details_localized_message());
        }
        let s = tonic::Status::with_details(Code::Unknown, "m", bad.encode_to_vec().into());
        assert!(s.check_error_details_vec().is_err() && s.check_error_details().is_err(), "a known kind that does not decode is an error");
    }

    #[test]
    fn unknown_type_urls_are_skipped_and_known_ones_keep_their_place() {
        let mut anys: Vec<Any> = Vec::new();
        anys.push(Any { type_url: "type.googleapis.com/google.rpc.Unknown".into(), value: vec![1, 2, 3] });
        anys.push(Help { links: vec![HelpLink { description: "d".into(), url: "u".into() }] }.into_any());
        anys.push(Any { type_url: "type.googleapis.com/google.rpc.help".into(), value: vec![0xff] });      // different letter case: not Help
        anys.push(RequestInfo { request_id: "1".into(), serving_data: "2".into() }.into_any());
        anys.push(Any { type_url: String::new(), value: vec![] });
        anys.push(Help { links: vec![] }.into_any());
        let st = pb::Status { code: 0, message: String::new(), details: anys };
        let v = st.check_error_details_vec().unwrap();
        assert_eq!(text(&v), text(&[
            Help { links: vec![HelpLink { description: "d".into(), url: "u".into() }] }.into(),
            RequestInfo { request_id: "1".into(), serving_data: "2".into() }.into(),
            Help { links: vec![] }.into(),
        ]));
        let d = st.check_error_details().unwrap();
        assert_eq!(format!("{:?}", d.help), format!("{:?}", Some(Help { links: vec![] })), "the last detail of a kind wins in the set");
        assert_eq!(format!("{:?}", st.get_details_help()), format!("{:?}", Some(Help { links: vec![HelpLink { description: "d".into(), url: "u".into() }] })), "the getter returns the first");
    }
}
