
#[cfg(test)]
mod verif_witness_compression {
    //! witness search for C05: the whole matrix of enabled sets x a list of header values
    use super::*;
    fn sets() -> Vec<EnabledCompressionEncodings> {
        let all = [CompressionEncoding::Gzip, CompressionEncoding::Deflate, CompressionEncoding::Zstd];
        let mut out = vec![];
        for mask in 0..8u8 { let mut e = EnabledCompressionEncodings::default(); for (i, c) in all.iter().enumerate() { if mask & (1 << i) != 0 { e.enable(*c); } } out.push(e); }
        out
    }
    #[test]
    fn response_encoding_is_enabled_and_offered() {
        for enabled in sets() {
            for hv in ["gzip", "zstd,gzip", "deflate, gzip", " identity , zstd", "br", "", "gzip;q=1", "GZIP"] {
                let mut map = http::HeaderMap::new();
                map.insert(ACCEPT_ENCODING_HEADER, hv.parse().unwrap());
                if let Some(e) = CompressionEncoding::from_accept_encoding_header(&map, enabled) {
                    assert!(enabled.is_enabled(e), "picked {:?} for `{}` which is not enabled for sending", e, hv);
                    assert!(hv.split(',').any(|t| t.trim() == e.as_str()), "picked {:?} which `{}` does not offer", e, hv);
                }
            }
        }
    }
    #[test]
    fn request_encoding_is_accepted_only_when_enabled_and_refusals_list_the_enabled_set() {
        for enabled in sets() {
            for hv in [&b"gzip"[..], b"deflate", b"zstd", b"identity", b"br", b"gz\xffip", b""] {
                let mut map = http::HeaderMap::new();
                map.insert(ENCODING_HEADER, http::HeaderValue::from_bytes(hv).unwrap());
                match CompressionEncoding::from_encoding_header(&map, enabled) {
                    Ok(Some(e)) => { assert!(enabled.is_enabled(e) && e.as_str().as_bytes() == hv, "accepted {:?} for {:?}", e, hv); }
                    Ok(None) => assert_eq!(hv, b"identity"),
                    Err(st) => {
                        assert_eq!(st.code(), crate::Code::Unimplemented);
                        let listed = st.metadata().get(ACCEPT_ENCODING_HEADER).expect("refusal without grpc-accept-encoding").to_str().unwrap().to_string();
                        let want: Vec<&str> = [CompressionEncoding::Gzip, CompressionEncoding::Deflate, CompressionEncoding::Zstd].iter().filter(|e| enabled.is_enabled(**e)).map(|e| e.as_str()).chain(std::iter::once("identity")).collect();
                        let mut got: Vec<&str> = listed.split(',').collect(); got.sort(); let mut want = want; want.sort();
                        assert_eq!(got, want, "refusal of {:?}", hv);
                        assert!(!(hv == b"gzip" && enabled.is_enabled(CompressionEncoding::Gzip)));
                    }
                }
            }
        }
    }
}
