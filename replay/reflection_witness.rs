#[cfg(test)]
mod verif_witness_reflection {
    //! witness search for C19: every name a registered file declares resolves - through the index and through both versions
    //! of the reflection service - to the file that declares it; files are retrievable by name; unknown names get NOT_FOUND;
    //! the service list is the declared one; v1 and v1alpha give the same answers.
    use super::*;
    use prost::Message as _;
    use prost_types::{
        DescriptorProto, EnumDescriptorProto, EnumValueDescriptorProto, FieldDescriptorProto, FileDescriptorProto, FileDescriptorSet,
        MethodDescriptorProto, OneofDescriptorProto, ServiceDescriptorProto,
    };

    fn n(s: &str) -> Option<String> {
        Some(s.to_string())
    }

    fn msg(name: &str, depth: usize) -> DescriptorProto {
        DescriptorProto {
            name: n(name),
            field: vec![FieldDescriptorProto { name: n("f1"), ..Default::default() }, FieldDescriptorProto { name: n("f2"), ..Default::default() }],
            oneof_decl: vec![OneofDescriptorProto { name: n("choice"), ..Default::default() }],
            enum_type: vec![EnumDescriptorProto {
                name: n("Kind"),
                value: vec![EnumValueDescriptorProto { name: n("A"), ..Default::default() }, EnumValueDescriptorProto { name: n("B"), ..Default::default() }],
                ..Default::default()
            }],
            nested_type: if depth == 0 { vec![] } else { vec![msg("Inner", depth - 1), msg("Other", 0)] },
            ..Default::default()
        }
    }

    fn file(name: &str, package: Option<&str>, svc: &str) -> FileDescriptorProto {
        FileDescriptorProto {
            name: n(name),
            package: package.map(|p| p.to_string()),
            message_type: vec![msg("Outer", 3), msg("Plain", 0)],
            enum_type: vec![EnumDescriptorProto { name: n("Top"), value: vec![EnumValueDescriptorProto { name: n("X"), ..Default::default() }], ..Default::default() }],
            service: vec![ServiceDescriptorProto {
                name: n(svc),
                method: vec![MethodDescriptorProto { name: n("Get"), ..Default::default() }, MethodDescriptorProto { name: n("List"), ..Default::default() }],
                ..Default::default()
            }],
            ..Default::default()
        }
    }

    // the names a file declares, written independently of the index code
    fn declared(f: &FileDescriptorProto) -> Vec<String> {
        fn q(p: &str, x: &str) -> String {
            if p.is_empty() { x.to_string() } else { format!("{p}.{x}") }
        }
        fn of_enum(p: &str, e: &EnumDescriptorProto, out: &mut Vec<String>) {
            let en = q(p, e.name());
            out.extend(e.value.iter().map(|v| q(&en, v.name())));
            out.push(en);
        }
        fn of_msg(p: &str, m: &DescriptorProto, out: &mut Vec<String>) {
            let mn = q(p, m.name());
            out.extend(m.field.iter().map(|x| q(&mn, x.name())));
            out.extend(m.oneof_decl.iter().map(|x| q(&mn, x.name())));
            m.enum_type.iter().for_each(|e| of_enum(&mn, e, out));
            m.nested_type.iter().for_each(|x| of_msg(&mn, x, out));
            out.push(mn);
        }
        let p = f.package();
        let mut out = Vec::new();
        f.message_type.iter().for_each(|m| of_msg(p, m, &mut out));
        f.enum_type.iter().for_each(|e| of_enum(p, e, &mut out));
        for s in &f.service {
            let sn = q(p, s.name());
            out.extend(s.method.iter().map(|m| q(&sn, m.name())));
            out.push(sn);
        }
        out
    }

    fn sets() -> (Vec<FileDescriptorSet>, Vec<FileDescriptorProto>) {
        let a = file("a.proto", Some("pkg.sub"), "Alpha");
        let b = file("b.proto", None, "Beta");
        let c = file("dir/c.proto", Some("other"), "Gamma");
        let mut dup = file("a.proto", Some("shadow"), "Shadow"); // a second registration under an existing file name: ignored
        dup.message_type.clear();
        (vec![FileDescriptorSet { file: vec![a.clone(), b.clone()] }, FileDescriptorSet { file: vec![dup, c.clone()] }], vec![a, b, c])
    }

    #[test]
    fn the_index_resolves_every_declared_name_and_nothing_else() {
        let (sets, files) = sets();
        let state = ReflectionServiceState::new(Vec::new(), Vec::new(), sets, true).unwrap();
        for f in &files {
            let enc = f.encode_to_vec();
            assert_eq!(state.file_by_filename(f.name()).unwrap(), enc, "file {}", f.name());
            for name in declared(f) {
                assert_eq!(state.symbol_by_name(&name).unwrap_or_else(|s| panic!("{name}: {s:?}")), enc, "symbol {name} of {}", f.name());
            }
        }
        for unknown in ["", "pkg", "pkg.sub", "pkg.sub.", "outer", "Outer.Inner.Nope", "pkg.sub.outer", "pkg.sub.Outer.", "pkg.sub.Outer.Inner.Inner.Inner.Inner", "shadow.Shadow", "pkg.sub.Alpha.get", "other.Gamma.Get2", ".Beta"] {
            assert_eq!(state.symbol_by_name(unknown).unwrap_err().code(), tonic::Code::NotFound, "symbol `{unknown}`");
        }
        for unknown in ["", "a", "c.proto", "dir/", "A.proto"] {
            assert_eq!(state.file_by_filename(unknown).unwrap_err().code(), tonic::Code::NotFound, "file `{unknown}`");
        }
        assert_eq!(state.list_services(), ["pkg.sub.Alpha", "Beta", "other.Gamma"]);
        // explicitly chosen names are the service list
        let state = ReflectionServiceState::new(vec!["x.Y".to_string()], Vec::new(), self::sets().0, false).unwrap();
        assert_eq!(state.list_services(), ["x.Y"]);
    }

    #[tokio::test]
    async fn both_service_versions_answer_every_request_by_the_lookup_it_names() {
        use crate::pb::{v1, v1alpha};
        use tokio_stream::{wrappers::TcpListenerStream, StreamExt};
        let files = sets().1;
        let builder = || {
            let mut builder = Builder::configure().include_reflection_service(false);
            for s in sets().0 {
                builder = builder.register_file_descriptor_set(s);
            }
            builder
        };
        let listener = tokio::net::TcpListener::bind("127.0.0.1:0").await.unwrap();
        let addr = format!("http://{}", listener.local_addr().unwrap());
        let svc1 = builder().build_v1().unwrap();
        let svc2 = builder().build_v1alpha().unwrap();
        tokio::spawn(async move {
            tonic::transport::Server::builder().add_service(svc1).add_service(svc2).serve_with_incoming(TcpListenerStream::new(listener)).await.unwrap();
        });
        tokio::time::sleep(std::time::Duration::from_millis(100)).await;
        let conn = tonic::transport::Endpoint::new(addr).unwrap().connect().await.unwrap();

        // one long stream of good requests, then one failing request: every reply in order, then the status
        let mut asks: Vec<(bool, String, Vec<u8>)> = Vec::new(); // (by file name?, argument, expected encoded file)
        for f in &files {
            asks.push((true, f.name().to_string(), f.encode_to_vec()));
            for name in declared(f) {
                asks.push((false, name, f.encode_to_vec()));
            }
        }
        let reqs1: Vec<v1::ServerReflectionRequest> = asks.iter().map(|(by_file, arg, _)| v1::ServerReflectionRequest {
            host: format!("h-{arg}"),
            message_request: Some(if *by_file { v1::server_reflection_request::MessageRequest::FileByFilename(arg.clone()) } else { v1::server_reflection_request::MessageRequest::FileContainingSymbol(arg.clone()) }),
        }).chain([
            v1::ServerReflectionRequest { host: "l".into(), message_request: Some(v1::server_reflection_request::MessageRequest::ListServices(String::new())) },
            v1::ServerReflectionRequest { host: "u".into(), message_request: Some(v1::server_reflection_request::MessageRequest::FileContainingSymbol("pkg.sub.Nope".into())) },
            v1::ServerReflectionRequest { host: "never".into(), message_request: Some(v1::server_reflection_request::MessageRequest::ListServices(String::new())) },
        ]).collect();
        let mut c1 = v1::server_reflection_client::ServerReflectionClient::new(conn.clone());
        let mut in1 = c1.server_reflection_info(tonic::Request::new(tokio_stream::iter(reqs1.clone()))).await.unwrap().into_inner();
        let reqs2: Vec<v1alpha::ServerReflectionRequest> = reqs1.iter().map(|r| v1alpha::ServerReflectionRequest::decode(&r.encode_to_vec()[..]).unwrap()).collect();
        let mut c2 = v1alpha::server_reflection_client::ServerReflectionClient::new(conn);
        let mut in2 = c2.server_reflection_info(tonic::Request::new(tokio_stream::iter(reqs2))).await.unwrap().into_inner();
        for (i, (_, arg, want)) in asks.iter().enumerate() {
            let r1 = in1.next().await.expect("a reply per request").expect("ok reply");
            let r2 = in2.next().await.expect("a reply per request").expect("ok reply");
            assert_eq!(r1.encode_to_vec(), r2.encode_to_vec(), "v1 and v1alpha agree on request {i} ({arg})");
            assert_eq!(r1.valid_host, format!("h-{arg}"));
            assert_eq!(r1.original_request.as_ref(), Some(&reqs1[i]));
            match r1.message_response {
                Some(v1::server_reflection_response::MessageResponse::FileDescriptorResponse(fd)) => assert_eq!(fd.file_descriptor_proto, vec![want.clone()], "{arg}"),
                other => panic!("{arg}: {other:?}"),
            }
        }
        let l1 = in1.next().await.unwrap().unwrap();
        let l2 = in2.next().await.unwrap().unwrap();
        assert_eq!(l1.encode_to_vec(), l2.encode_to_vec());
        match l1.message_response {
            Some(v1::server_reflection_response::MessageResponse::ListServicesResponse(l)) => {
                assert_eq!(l.service.iter().map(|s| s.name.as_str()).collect::<Vec<_>>(), ["pkg.sub.Alpha", "Beta", "other.Gamma"])
            }
            other => panic!("{other:?}"),
        }
        assert_eq!(in1.next().await.unwrap().unwrap_err().code(), tonic::Code::NotFound);
        assert_eq!(in2.next().await.unwrap().unwrap_err().code(), tonic::Code::NotFound);
    }
}
