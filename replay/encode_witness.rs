
#[cfg(test)]
mod verif_witness_encode {
    //! witness search for C01/C03/C06 on the real EncodeBody: frames are [flag][be32 len][payload], batching does not change
    //! the bytes, an encode failure keeps the messages before it, exactly one trailers block ends a server body.
    use super::*;
    use crate::codec::{EncodeBuf, Encoder};
    use http_body_util::BodyExt;

    #[derive(Default)]
    struct Raw;
    impl Encoder for Raw {
        type Item = Vec<u8>;
        type Error = Status;
        fn encode(&mut self, item: Vec<u8>, dst: &mut EncodeBuf<'_>) -> Result<(), Status> { dst.put_slice(&item); Ok(()) }
    }
    async fn run(items: Vec<Result<Vec<u8>, Status>>, limit: Option<usize>) -> (Vec<u8>, Vec<Option<String>>, usize) {
        let src = tokio_stream::iter(items);
        let mut body = std::pin::pin!(EncodeBody::new_server(Raw, src, None, SingleMessageCompressionOverride::default(), limit));
        let (mut data, mut trailers, mut after) = (Vec::new(), Vec::new(), 0);
        for _ in 0..32 {
            match body.frame().await {
                None => break,
                Some(f) => { let f = f.unwrap(); if !trailers.is_empty() { after += 1; }
                    if f.is_data() { data.extend_from_slice(&f.into_data().unwrap()); } else { trailers.push(f.into_trailers().ok().and_then(|t| t.get("grpc-status").map(|v| v.to_str().unwrap().to_string()))); } }
            }
        }
        (data, trailers, after)
    }
    fn frame(p: &[u8]) -> Vec<u8> { let mut v = vec![0u8]; v.extend_from_slice(&(p.len() as u32).to_be_bytes()); v.extend_from_slice(p); v }
    #[tokio::test]
    async fn frames_are_length_prefixed_and_one_trailers_block_ends_the_body() {
        let (data, trailers, after) = run(vec![Ok(vec![1, 2, 3]), Ok(vec![]), Ok(vec![9u8; 300])], None).await;
        let mut want = frame(&[1, 2, 3]); want.extend(frame(&[])); want.extend(frame(&[9u8; 300]));
        assert_eq!(data, want);
        assert_eq!(trailers, vec![Some("0".to_string())]);
        assert_eq!(after, 0, "frames after the trailers");
    }
    #[tokio::test]
    async fn messages_before_an_oversized_one_are_still_delivered() {
        let (data, trailers, after) = run(vec![Ok(vec![1u8; 3]), Ok(vec![2u8; 100]), Ok(vec![3u8; 1])], Some(10)).await;
        assert_eq!(trailers, vec![Some("11".to_string())]);
        assert_eq!(data, frame(&[1u8; 3]), "first message was not delivered intact ahead of the status");
        assert_eq!(after, 0);
        let (data, trailers, _) = run(vec![Ok(vec![2u8; 11])], Some(10)).await;
        assert_eq!((data, trailers), (vec![], vec![Some("11".to_string())]));
        let (data, trailers, _) = run(vec![Ok(vec![2u8; 10])], Some(10)).await;
        assert_eq!((data, trailers), (frame(&[2u8; 10]), vec![Some("0".to_string())]));
        let (data, trailers, _) = run(vec![Ok(vec![1]), Err(Status::aborted("x")), Ok(vec![2])], None).await;
        assert_eq!((data, trailers), (frame(&[1]), vec![Some("10".to_string())]));
    }
}
