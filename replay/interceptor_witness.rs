#[cfg(test)]
mod verif_witness_interceptor {
    //! witness search for C12: the wrapped service sees exactly what the interceptor returned (metadata, extensions) around
    //! the original uri / method / version / body; a veto never reaches the service and arrives as that status.
    use super::*;
    use crate::Code;
    use bytes::Bytes;
    use tower::ServiceExt;

    #[derive(Clone, Debug, PartialEq)]
    struct A(u32);
    #[derive(Clone, Debug, PartialEq)]
    struct B(u32);

    #[tokio::test]
    async fn service_sees_the_interceptors_metadata_and_extensions() {
        // the interceptor removes one extension, adds another, edits metadata (including a reserved name)
        let svc = tower::service_fn(|request: http::Request<&'static str>| async move {
            assert_eq!(request.extensions().get::<B>(), Some(&B(2)), "extension added by the interceptor");
            assert!(request.extensions().get::<A>().is_none(), "extension removed by the interceptor");
            assert_eq!(request.headers().get("x-added").unwrap(), "yes");
            assert!(request.headers().get("x-drop").is_none());
            assert_eq!(request.headers().get("te").unwrap(), "trailers", "reserved names are not sanitised on this path");
            assert_eq!(request.uri().path(), "/pkg.Svc/Method");
            assert_eq!(request.method(), http::Method::POST);
            assert_eq!(request.version(), http::Version::HTTP_2);
            assert_eq!(*request.body(), "body");
            Ok::<_, Status>(http::Response::new(()))
        });
        let svc = InterceptedService::new(svc, |mut request: crate::Request<()>| {
            assert_eq!(request.extensions_mut().remove::<A>(), Some(A(1)));
            request.extensions_mut().insert(B(2));
            request.metadata_mut().remove("x-drop");
            request.metadata_mut().insert("x-added", "yes".parse().unwrap());
            Ok(request)
        });
        let mut request = http::Request::builder().method("POST").version(http::Version::HTTP_2).uri("https://example.com/pkg.Svc/Method")
            .header("x-drop", "1").header("te", "trailers").body("body").unwrap();
        request.extensions_mut().insert(A(1));
        svc.oneshot(request).await.unwrap();

        // a wholesale replacement: none of the original metadata / extensions survive
        let svc = tower::service_fn(|request: http::Request<()>| async move {
            assert_eq!(request.extensions().len(), 1);
            assert_eq!(request.extensions().get::<B>(), Some(&B(9)));
            assert!(request.headers().get("x-orig").is_none());
            assert_eq!(request.uri().path(), "/pkg.Svc/Method");
            Ok::<_, Status>(http::Response::new(()))
        });
        let svc = InterceptedService::new(svc, |_: crate::Request<()>| {
            let mut fresh = crate::Request::new(());
            fresh.extensions_mut().insert(B(9));
            Ok(fresh)
        });
        let mut request = http::Request::builder().uri("/pkg.Svc/Method").header("x-orig", "1").body(()).unwrap();
        request.extensions_mut().insert(A(1));
        svc.oneshot(request).await.unwrap();
    }

    #[tokio::test]
    async fn a_veto_never_reaches_the_service_and_arrives_as_that_status() {
        for (code, msg, details) in [(Code::PermissionDenied, "no", &b""[..]), (Code::Unauthenticated, "", &b"\x01\x02"[..]), (Code::Internal, "x y%z", &b"abc"[..])] {
            let svc = tower::service_fn(|_: http::Request<()>| async move {
                panic!("the wrapped service was called after a veto");
                #[allow(unreachable_code)]
                Ok::<_, Status>(http::Response::new(()))
            });
            let mut md = crate::metadata::MetadataMap::new();
            md.insert("x-why", "because".parse().unwrap());
            // metadata that itself uses a status header name must not override the real details (when there are none, the
            // property leaves such metadata to the user)
            if !details.is_empty() { md.insert_bin("grpc-status-details-bin", crate::metadata::MetadataValue::from_bytes(b"forged")); }
            let st = Status::with_details_and_metadata(code, msg, Bytes::copy_from_slice(details), md);
            let st2 = st.clone();
            let svc = InterceptedService::new(svc, move |_: crate::Request<()>| Err(st2.clone()));
            let response = svc.oneshot(http::Request::builder().body(()).unwrap()).await.unwrap();
            assert_eq!(response.status(), http::StatusCode::OK);
            assert_eq!(response.headers().get("content-type").unwrap(), "application/grpc");
            let back = Status::from_header_map(response.headers()).expect("grpc-status present");
            assert_eq!((back.code(), back.message(), back.details()), (code, msg, details), "status of the veto");
            assert_eq!(back.metadata().get("x-why").unwrap(), "because");
        }
    }
}
