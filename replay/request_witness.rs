
#[cfg(test)]
mod verif_witness_request {
    //! witness search for C09 (writer): the written grpc-timeout is conformant, never longer than requested, loses < 1 unit
    use super::*;
    #[test]
    fn written_timeout_is_conformant_and_rounds_down() {
        let mut ds = vec![];
        for secs in [0u64, 1, 59, 99, 100, 101, 3599, 99_999, 100_000, 99_999_999, 100_000_000, 5_999_999_999, 6_000_000_000, 359_999_996_400] {
            for nanos in [0u32, 1, 499, 500, 999, 499_999, 500_000, 999_999, 500_000_000, 999_999_999] { ds.push(Duration::new(secs, nanos)); }
        }
        for d in ds {
            let s = duration_to_grpc_timeout(d);
            let (digits, unit) = s.split_at(s.len() - 1);
            assert!(!digits.is_empty() && digits.len() <= 8 && digits.bytes().all(|b| b.is_ascii_digit()), "not conformant: {}", s);
            let per = match unit { "H" => 3_600_000_000_000u128, "M" => 60_000_000_000, "S" => 1_000_000_000, "m" => 1_000_000, "u" => 1_000, "n" => 1, _ => panic!("unit {}", s) };
            let denoted = digits.parse::<u128>().unwrap() * per;
            assert!(denoted <= d.as_nanos(), "{:?} written as {} which is longer", d, s);
            assert!(d.as_nanos() - denoted < per, "{:?} written as {} loses a whole unit or more", d, s);
        }
    }
}
