
#[cfg(test)]
mod verif_witness_decode {
    //! witness search for C01/C05/C06/C07 on the real Streaming decoder: every 2-way chunking of a sample stream gives the
    //! same messages and a clean end; the first error is final; oversized / illegal headers are refused at once.
    use super::*;
    use crate::codec::{DecodeBuf, Decoder};
    use bytes::{Buf, Bytes};
    use http_body_util::StreamBody;
    use tokio_stream::StreamExt;

    #[derive(Default)]
    struct Raw;
    impl Decoder for Raw {
        type Item = Vec<u8>;
        type Error = Status;
        fn decode(&mut self, buf: &mut DecodeBuf<'_>) -> Result<Option<Vec<u8>>, Status> {
            let n = buf.remaining();
            Ok(Some(buf.copy_to_bytes(n).to_vec()))
        }
    }
    fn body(chunks: Vec<Vec<u8>>) -> impl http_body::Body<Data = Bytes, Error = Status> + Send + 'static {
        StreamBody::new(tokio_stream::iter(chunks.into_iter().filter(|c| !c.is_empty()).map(|c| Ok::<_, Status>(http_body::Frame::data(Bytes::from(c))))))
    }
    fn frame(flag: u8, p: &[u8]) -> Vec<u8> { let mut v = vec![flag]; v.extend_from_slice(&(p.len() as u32).to_be_bytes()); v.extend_from_slice(p); v }
    async fn drain(chunks: Vec<Vec<u8>>, limit: Option<usize>) -> Vec<Result<Vec<u8>, crate::Code>> {
        let mut s = Streaming::<Vec<u8>>::new_request(Raw, body(chunks), None, limit);
        let mut out = vec![];
        for _ in 0..16 { match s.next().await { Some(r) => out.push(r.map_err(|e| e.code())), None => break } }
        out
    }
    #[tokio::test]
    async fn every_two_way_chunking_decodes_the_same_messages() {
        let msgs: Vec<Vec<u8>> = vec![vec![1, 2, 3], vec![], vec![7u8; 300]];
        let wire: Vec<u8> = msgs.iter().flat_map(|m| frame(0, m)).collect();
        let want: Vec<Result<Vec<u8>, crate::Code>> = msgs.iter().cloned().map(Ok).collect();
        for cut in 0..=wire.len() {
            let got = drain(vec![wire[..cut].to_vec(), wire[cut..].to_vec()], None).await;
            assert_eq!(got, want, "chunk boundary at byte {}", cut);
        }
    }
    #[tokio::test]
    async fn first_error_is_final_and_illegal_headers_are_refused_at_once() {
        // invalid flag followed by bytes that happen to be a valid frame
        let got = drain(vec![vec![2, 0, 0, 0, 0, 1, 0x41, 0, 0, 0, 0, 0]], None).await;
        assert_eq!(got, vec![Err(crate::Code::Internal)], "invalid flag");
        // flag 1 without negotiated encoding, header and payload in separate chunks
        let got = drain(vec![vec![1, 0, 0, 0, 2], vec![9, 9]], None).await;
        assert_eq!(got, vec![Err(crate::Code::Internal)], "compressed flag without encoding");
        // declared length over the limit, no payload following: refused as soon as the prefix is read
        let got = drain(vec![vec![0, 0, 0, 0, 11]], Some(10)).await;
        assert_eq!(got, vec![Err(crate::Code::OutOfRange)], "over limit");
        let got = drain(vec![frame(0, &[5u8; 10])], Some(10)).await;
        assert_eq!(got, vec![Ok(vec![5u8; 10])], "exactly at the limit");
        // truncated inside a payload: one error, then nothing
        let got = drain(vec![vec![0, 0, 0, 0, 5, 1, 2]], None).await;
        assert_eq!(got, vec![Err(crate::Code::Internal)], "truncated payload");
        // a cut exactly 4 bytes into a header must not panic
        let mut w = frame(0, &[1]); w.extend(frame(0, &[2]));
        let got = drain(vec![w[..10].to_vec(), w[10..].to_vec()], None).await;
        assert_eq!(got, vec![Ok(vec![1]), Ok(vec![2])]);
    }
    #[tokio::test]
    async fn an_empty_data_frame_in_the_body_changes_nothing() {
        // the transport may deliver zero-length DATA frames anywhere (`body` above filters them, so build the body by hand)
        let mut w = frame(0, &[1, 2]); w.extend(frame(0, &[3]));
        for cut in 0..=w.len() {
            let chunks = vec![w[..cut].to_vec(), vec![], w[cut..].to_vec()];
            let b = StreamBody::new(tokio_stream::iter(chunks.into_iter().map(|c| Ok::<_, Status>(http_body::Frame::data(Bytes::from(c))))));
            let mut s = Streaming::<Vec<u8>>::new_request(Raw, b, None, None);
            let mut out = vec![];
            for _ in 0..8 { match s.next().await { Some(r) => out.push(r.map_err(|e| e.code())), None => break } }
            assert_eq!(out, vec![Ok(vec![1, 2]), Ok(vec![3])], "empty DATA frame at byte {}", cut);
        }
    }
}
