
#[cfg(test)]
mod verif_witness_status {
    //! witness search for C04: round trip of sample statuses, total reading of hostile headers, the mapping tables
    use super::*;
    #[test]
    fn status_roundtrip_and_total_reading() {
        for code in 0..17 {
            for msg in ["", "plain", "with % and \u{e9}\u{4e16} \n ctl", "a:b"] {
                for details in [&b""[..], b"\x00\xff\x10", b"abcd"] {
                    let mut md = MetadataMap::new();
                    md.insert("x-k", "v1".parse().unwrap());
                    md.append("x-k", "v2".parse().unwrap());
                    md.insert("grpc-message-type", "forged".parse().unwrap());
                    let s = Status::with_details_and_metadata(Code::from_i32(code), msg, Bytes::copy_from_slice(details), md);
                    let h = s.to_header_map().expect("to_header_map failed");
                    let r = Status::from_header_map(&h).expect("no status read back");
                    assert_eq!((r.code(), r.message(), r.details()), (s.code(), msg, details));
                    let vals: Vec<_> = r.metadata().get_all("x-k").iter().map(|v| v.to_str().unwrap().to_string()).collect();
                    assert_eq!(vals, vec!["v1", "v2"], "repeated metadata values");
                    assert!(r.metadata().get("grpc-message-type").is_none());
                }
            }
        }
        for (k, v) in [("grpc-status", "1&"), ("grpc-status", "17"), ("grpc-status", "007"), ("grpc-status", "")] {
            let mut map = HeaderMap::new();
            map.insert(k, v.parse().unwrap());
            assert_eq!(Status::from_header_map(&map).unwrap().code(), Code::Unknown, "grpc-status `{}`", v);
        }
        let mut map = HeaderMap::new();
        map.insert(Status::GRPC_STATUS, "3".parse().unwrap());
        map.insert(Status::GRPC_STATUS_DETAILS, "!!!not-base64!!!".parse().unwrap());
        let r = std::panic::catch_unwind(|| Status::from_header_map(&map).map(|s| s.code()));
        assert_eq!(r.ok(), Some(Some(Code::Unknown)), "invalid grpc-status-details-bin");
        for (sc, want) in [(400, Code::Internal), (401, Code::Unauthenticated), (403, Code::PermissionDenied), (404, Code::Unimplemented), (429, Code::Unavailable), (502, Code::Unavailable), (503, Code::Unavailable), (504, Code::Unavailable), (500, Code::Unknown), (302, Code::Unknown)] {
            let r = infer_grpc_status(None, http::StatusCode::from_u16(sc).unwrap());
            assert_eq!(r.err().flatten().map(|s| s.code()), Some(want), "HTTP {}", sc);
        }
        // the whole HTTP status range against the mapping table of the statement (200 alone means "no error")
        for sc in 100u16..600 {
            let want = match sc { 200 => None, 400 => Some(Code::Internal), 401 => Some(Code::Unauthenticated), 403 => Some(Code::PermissionDenied),
                404 => Some(Code::Unimplemented), 429 | 502 | 503 | 504 => Some(Code::Unavailable), _ => Some(Code::Unknown) };
            let r = infer_grpc_status(None, http::StatusCode::from_u16(sc).unwrap());
            assert_eq!(r.err().flatten().map(|s| s.code()), want, "HTTP {}", sc);
        }
    }
}
