
#[cfg(test)]
mod verif_witness_status {
    //! witness search for C04: round trip of sample statuses, total reading of hostile headers, the mapping tables
    use super::*;
    #[test]
    fn status_roundtrip_and_total_reading() {
        for code in 0..17 {
            for msg in ["", "plain", "with % and \u{e9}\u{4e16} \n ctl", "a:b"] {
                for details in [&b""[..], b"\x00\xff\x10", b"abcd"] {
                    let mut md = MetadataMap::new();
                    md.insert("x-k", "v1".parse().unwrap());
                    md.append("x-k", "v2".parse().unwrap());
                    md.insert("grpc-message-type", "forged".parse().unwrap());
                    let s = Status::with_details_and_metadata(Code::from_i32(code), msg, Bytes::copy_from_slice(details), md);
                    let h = s.to_header_map().expect("to_header_map failed");
                    let r = Status::from_header_map(&h).expect("no status read back");
                    assert_eq!((r.code(), r.message(), r.details()), (s.code(), msg, details));
                    let vals: Vec<_> = r.metadata().get_all("x-k").iter().map(|v| v.to_str().unwrap().to_string()).collect();
                    assert_eq!(vals, vec!["v1", "v2"], "repeated metadata values");
                    assert!(r.metadata().get("grpc-message-type").is_none());
                }
            }
        }
        for (k, v) in [("grpc-status", "1&"), ("grpc-status", "17"), ("grpc-status", "007"), ("grpc-status", "")] {
            let mut map = HeaderMap::new();
            map.insert(k, v.parse().unwrap());
            assert_eq!(Status::from_header_map(&map).unwrap().code(), Code::Unknown, "grpc-status `{}`", v);
        }
        let mut map = HeaderMap::new();
        map.insert(Status::GRPC_STATUS, "3".parse().unwrap());
        map.insert(Status::GRPC_STATUS_DETAILS, "!!!not-base64!!!".parse().unwrap());
        let r = std::panic::catch_unwind(|| Status::from_header_map(&map).map(|s| s.code()));
        assert_eq!(r.ok(), Some(Some(Code::Unknown)), "invalid grpc-status-details-bin");
        for (sc, want) in [(400, Code::Internal), (401, Code::Unauthenticated), (403, Code::PermissionDenied), (404, Code::Unimplemented), (429, Code::Unavailable), (502, Code::Unavailable), (503, Code::Unavailable), (504, Code::Unavailable), (500, Code::Unknown), (302, Code::Unknown)] {
            let r = infer_grpc_status(None, http::StatusCode::from_u16(sc).unwrap());
            assert_eq!(r.err().flatten().map(|s| s.code()), Some(want), "HTTP {}", sc);
        }
        // the whole HTTP status range against the mapping table of the statement (200 alone means "no error")
        for sc in 100u16..600 {
            let want = match sc { 200 => None, 400 => Some(Code::Internal), 401 => Some(Code::Unauthenticated), 403 => Some(Code::PermissionDenied),
                404 => Some(Code::Unimplemented), 429 | 502 | 503 | 504 => Some(Code::Unavailable), _ => Some(Code::Unknown) };
            let r = infer_grpc_status(None, http::StatusCode::from_u16(sc).unwrap());
            assert_eq!(r.err().flatten().map(|s| s.code()), want, "HTTP {}", sc);
        }
    }

    // ---- errors travelling up the stack as Box<dyn Error> (unit errmap: C09 / C14 / C04 / C02) ----
    #[derive(Debug)]
    struct Wrap(Box<dyn Error + Send + Sync>);
    impl fmt::Display for Wrap {
        fn fmt(&self, f: &mut fmt::Formatter<'_>) -> fmt::Result {
            write!(f, "wrap")
        }
    }
    impl Error for Wrap {
        fn source(&self) -> Option<&(dyn Error + 'static)> {
            Some(&*self.0)
        }
    }
    fn wrapped(mut e: Box<dyn Error + Send + Sync>, depth: usize) -> Box<dyn Error + Send + Sync> {
        for _ in 0..depth {
            e = Box::new(Wrap(e));
        }
        e
    }

    #[test]
    fn errors_in_a_cause_chain_mean_what_the_properties_say() {
        for depth in 0..5 {
            // the deadline error: CANCELLED "Timeout expired"
            let s = Status::from_error(wrapped(Box::new(TimeoutExpired(())), depth));
            assert_eq!((s.code(), s.message()), (Code::Cancelled, "Timeout expired"), "timeout at depth {depth}");
            let s = Status::try_from_error(wrapped(Box::new(TimeoutExpired(())), depth)).expect("recognised");
            assert_eq!((s.code(), s.message()), (Code::Cancelled, "Timeout expired"));
            // no connection can be made: UNAVAILABLE
            let s = Status::from_error(wrapped(Box::new(ConnectError("refused".into())), depth));
            assert_eq!(s.code(), Code::Unavailable, "connect error at depth {depth}");
            // a status raised below comes back as itself
            let mut md = MetadataMap::new();
            md.insert("x-k", "v".parse().unwrap());
            let orig = Status::with_details_and_metadata(Code::FailedPrecondition, "why", Bytes::from_static(b"\x01\x02"), md);
            let s = Status::from_error(wrapped(Box::new(orig), depth));
            assert_eq!((s.code(), s.message(), s.details()), (Code::FailedPrecondition, "why", &b"\x01\x02"[..]), "status at depth {depth}");
            assert_eq!(s.metadata().get("x-k").unwrap(), "v");
            // the first recognisable error decides: a timeout above a status
            let s = Status::from_error(wrapped(Box::new(Wrap(Box::new(Status::not_found("below")))), 0));
            assert_eq!(s.code(), Code::NotFound);
            let inner: Box<dyn Error + Send + Sync> = Box::new(ConnectError(Box::new(Status::not_found("below"))));
            assert_eq!(Status::from_error(wrapped(inner, depth)).code(), Code::Unavailable, "the connect error is met first");
            // nothing recognisable: handed back / UNKNOWN
            assert!(Status::try_from_error(wrapped("opaque".into(), depth)).is_err());
            assert_eq!(Status::from_error(wrapped("opaque".into(), depth)).code(), Code::Unknown);
        }
        // a reset stream at the top level is mapped by the h2 table
        for (reason, code) in [(h2::Reason::CANCEL, Code::Cancelled), (h2::Reason::REFUSED_STREAM, Code::Unavailable), (h2::Reason::ENHANCE_YOUR_CALM, Code::ResourceExhausted),
                               (h2::Reason::INADEQUATE_SECURITY, Code::PermissionDenied), (h2::Reason::PROTOCOL_ERROR, Code::Internal), (h2::Reason::NO_ERROR, Code::Internal)] {
            assert_eq!(Status::from_error(Box::new(h2::Error::from(reason))).code(), code, "{reason:?}");
        }
    }

    #[tokio::test]
    async fn a_recognised_error_leaves_the_stack_as_a_trailers_only_response() {
        use crate::service::RecoverErrorLayer;
        use tower::{Layer, ServiceExt};
        let inner = tower::service_fn(|which: u8| async move {
            match which {
                0 => Err::<http::Response<()>, crate::BoxError>(Box::new(TimeoutExpired(()))),
                1 => Err(Box::new(Wrap(Box::new(Status::permission_denied("no")))) as crate::BoxError),
                2 => Err("opaque".into()),
                _ => Ok(http::Response::builder().status(200).header("x-h", "1").body(()).unwrap()),
            }
        });
        let svc = RecoverErrorLayer::new().layer(inner);
        let res = svc.clone().oneshot(0).await.expect("recovered");
        assert_eq!(res.status(), http::StatusCode::OK);
        let st = Status::from_header_map(res.headers()).unwrap();
        assert_eq!((st.code(), st.message()), (Code::Cancelled, "Timeout expired"));
        assert_eq!(res.headers().get("content-type").unwrap(), "application/grpc");
        let res = svc.clone().oneshot(1).await.expect("recovered");
        let st = Status::from_header_map(res.headers()).unwrap();
        assert_eq!((st.code(), st.message()), (Code::PermissionDenied, "no"));
        assert!(svc.clone().oneshot(2).await.is_err(), "an unrecognised error is passed on");
        let res = svc.clone().oneshot(3).await.unwrap();
        assert_eq!(res.headers().get("x-h").unwrap(), "1");
    }
}
