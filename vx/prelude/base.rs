use vstd::prelude::*;
// Shadow macros (outside verus!): diagnostics text and tracing side effects are DROPPED by this.
#[allow(unused_macros)]
macro_rules! format {
    // the one format string whose OUTPUT matters to a property (grpc-timeout writer): two Display arguments, concatenated
    ("{}{}", $a:expr, $b:expr $(,)?) => { crate::verif_format2(&$a, &$b) };
    // ... and the reflection index's qualified names: two Display arguments joined by a dot
    ("{}.{}", $a:expr, $b:expr $(,)?) => { crate::verif_format_dot(&$a, &$b) };
    ($fmt:literal $(, $a:expr)* $(,)?) => { crate::verif_format($fmt, ($(&$a,)*)) }
}
#[allow(unused_macros)]
macro_rules! trace { ($($t:tt)*) => { } }
#[allow(unused_macros)]
macro_rules! debug { ($($t:tt)*) => { } }
#[allow(unused_macros)]
macro_rules! warn { ($($t:tt)*) => { } }
#[allow(unused_macros, unused_imports)]
mod tracing {
    macro_rules! debug { ($($t:tt)*) => { } }
    macro_rules! trace { ($($t:tt)*) => { } }
    pub(crate) use debug;
    pub(crate) use trace;
}
// std::task::ready!, verbatim definition
#[allow(unused_macros)]
macro_rules! ready {
    ($e:expr $(,)?) => {
        match $e {
            Poll::Ready(t) => t,
            Poll::Pending => { return Poll::Pending; }
        }
    };
}
// R2: `EXPR?` inside a fn returning Poll<Option<Result<_,_>>>: the FromResidual desugaring
#[allow(unused_macros)]
macro_rules! vtry { ($e:expr) => { match $e { Ok(v) => v, Err(e) => { return Poll::Ready(Some(Err(e))); } } } }
// R2 for fns returning Poll<Result<_,_>>
#[allow(unused_macros)]
macro_rules! vtry_r { ($e:expr) => { match $e { Ok(v) => v, Err(e) => { return Poll::Ready(Err(e)); } } } }
// R2 with the error conversion of `?` (From::from on the error), for fns returning Poll<Result<_, BoxError>>
#[allow(unused_macros)]
macro_rules! vtry_box { ($e:expr) => { match $e { Ok(v) => v, Err(e) => { return Poll::Ready(Err(e.into())); } } } }
verus! {
// A-target-01: usize is 64 bits (x86_64 / aarch64 targets)
global size_of usize == 8;

// A-fmt-00: format!(..) yields some String; its text is unconstrained (diagnostic messages are not specified)
#[verifier::external_body]
pub fn verif_format<A>(fmt: &str, args: A) -> String { String::new() }

// big-endian u32 (used by the bytes shims and the wire vocabulary)
pub open spec fn be32(n: int) -> Seq<u8> {
    seq![ ((n / 16777216) % 256) as u8, ((n / 65536) % 256) as u8, ((n / 256) % 256) as u8, (n % 256) as u8 ]
}
pub open spec fn be32_val(s: Seq<u8>) -> int
    recommends s.len() >= 4
{
    (s[0] as int) * 16777216 + (s[1] as int) * 65536 + (s[2] as int) * 256 + (s[3] as int)
}
// ---------------------------------------------------------------------------------------------
// core::task / core::mem
pub enum Poll<T> { Ready(T), Pending }
impl<T> Poll<T> {
    pub fn is_ready(&self) -> (r: bool) ensures r == (*self is Ready) { match self { Poll::Ready(_) => true, Poll::Pending => false } }
    pub fn is_pending(&self) -> (r: bool) ensures r == (*self is Pending) { match self { Poll::Ready(_) => false, Poll::Pending => true } }
}
pub struct Context { pub x: u8 }
// A-core-05: `impl<T> From<T> for Option<T>` is Some
// A-core-25: Option<&T>::copied / cloned of a Copy value
pub assume_specification<'a, T: Copy>[ Option::<&'a T>::copied ](o: Option<&'a T>) -> (r: Option<T>)
    ensures o matches Some(x) ==> r == Some(*x), o is None ==> r is None;
// A-core-22: integer div_ceil (b != 0 is a panic condition, here a precondition)
pub assume_specification[ u64::div_ceil ](a: u64, b: u64) -> (r: u64)
    requires b != 0, ensures r as int == (a as int + b as int - 1) / (b as int);
pub assume_specification[ u128::div_ceil ](a: u128, b: u128) -> (r: u128)
    requires b != 0, ensures r as int == (a as int + b as int - 1) / (b as int);
pub assume_specification[ usize::div_ceil ](a: usize, b: usize) -> (r: usize)
    requires b != 0, ensures r as int == (a as int + b as int - 1) / (b as int);
pub assume_specification[ u32::div_ceil ](a: u32, b: u32) -> (r: u32)
    requires b != 0, ensures r as int == (a as int + b as int - 1) / (b as int);
// A-core-23: Result::unwrap_or_default: the value, or T::default() (Option::unwrap_or_default is specified by vstd)
pub uninterp spec fn default_of<T>() -> T;
pub broadcast axiom fn axiom_default_u64() ensures #[trigger] default_of::<u64>() == 0u64;
pub broadcast axiom fn axiom_default_usize() ensures #[trigger] default_of::<usize>() == 0usize;
pub broadcast axiom fn axiom_default_u32() ensures #[trigger] default_of::<u32>() == 0u32;
pub assume_specification<T: Default, E>[ Result::<T, E>::unwrap_or_default ](res: Result<T, E>) -> (r: T)
    ensures res matches Ok(t) ==> r == t, res is Err ==> r == default_of::<T>();
pub assume_specification<T>[<Option<T> as From<T>>::from](t: T) -> (r: Option<T>) ensures r == Some(t);
// A-core-45: bool::then_some(t) is Some(t) exactly for true
pub assume_specification<T>[ bool::then_some ](b: bool, t: T) -> (r: Option<T>)
    ensures r == (if b { Some(t) } else { None::<T> });
// A-core-14: Option::replace stores the value and returns the old one
pub assume_specification<T>[ Option::<T>::replace ](o: &mut Option<T>, v: T) -> (r: Option<T>)
    ensures r == *old(o), *final(o) == Some(v);
// A-core-01: core::mem::replace stores src and returns the old value
pub assume_specification<T>[core::mem::replace::<T>](dest: &mut T, src: T) -> (r: T)
    ensures r == *old(dest), *final(dest) == src;
