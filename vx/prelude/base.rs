use vstd::prelude::*;
// Shadow macros (outside verus!): diagnostics text and tracing side effects are DROPPED by this.
#[allow(unused_macros)]
macro_rules! format { ($fmt:literal $(, $a:expr)* $(,)?) => { crate::verif_format($fmt, ($(&$a,)*)) } }
#[allow(unused_macros)]
macro_rules! trace { ($($t:tt)*) => { } }
#[allow(unused_macros)]
macro_rules! debug { ($($t:tt)*) => { } }
#[allow(unused_macros)]
macro_rules! warn { ($($t:tt)*) => { } }
// std::task::ready!, verbatim definition
#[allow(unused_macros)]
macro_rules! ready {
    ($e:expr $(,)?) => {
        match $e {
            Poll::Ready(t) => t,
            Poll::Pending => { return Poll::Pending; }
        }
    };
}
// R2: `EXPR?` inside a fn returning Poll<Option<Result<_,_>>>: the FromResidual desugaring
#[allow(unused_macros)]
macro_rules! vtry { ($e:expr) => { match $e { Ok(v) => v, Err(e) => { return Poll::Ready(Some(Err(e))); } } } }
// R2 for fns returning Poll<Result<_,_>>
#[allow(unused_macros)]
macro_rules! vtry_r { ($e:expr) => { match $e { Ok(v) => v, Err(e) => { return Poll::Ready(Err(e)); } } } }
verus! {
// A-target-01: usize is 64 bits (x86_64 / aarch64 targets)
global size_of usize == 8;

// A-fmt-00: format!(..) yields some String; its text is unconstrained (diagnostic messages are not specified)
#[verifier::external_body]
pub fn verif_format<A>(fmt: &str, args: A) -> String { String::new() }

// ---------------------------------------------------------------------------------------------
// Wire format vocabulary, written from PROTOCOL-HTTP2.md ("Length-Prefixed-Message"), no tonic code
pub open spec fn be32(n: int) -> Seq<u8> {
    seq![ ((n / 16777216) % 256) as u8, ((n / 65536) % 256) as u8, ((n / 256) % 256) as u8, (n % 256) as u8 ]
}
pub open spec fn be32_val(s: Seq<u8>) -> int
    recommends s.len() >= 4
{
    (s[0] as int) * 16777216 + (s[1] as int) * 65536 + (s[2] as int) * 256 + (s[3] as int)
}
pub open spec fn hdr(f: u8, n: int) -> Seq<u8> { seq![f] + be32(n) }
pub open spec fn frame(flag: u8, payload: Seq<u8>) -> Seq<u8> { seq![flag] + be32(payload.len() as int) + payload }
// what the wire says about the first frame of s
pub open spec fn hdr_flag(s: Seq<u8>) -> u8 { s[0] }
pub open spec fn hdr_len(s: Seq<u8>) -> int { be32_val(s.skip(1)) }
pub open spec fn complete(s: Seq<u8>) -> bool { s.len() >= 5 && s.len() >= 5 + hdr_len(s) }
pub open spec fn first_payload(s: Seq<u8>) -> Seq<u8> { s.subrange(5, 5 + hdr_len(s)) }
pub open spec fn after_first(s: Seq<u8>) -> Seq<u8> { s.skip(5 + hdr_len(s)) }

pub proof fn lemma_be32_bytes(a: u8, b: u8, c: u8, d: u8)
    ensures ({ let n = (a as int) * 16777216 + (b as int) * 65536 + (c as int) * 256 + (d as int);
        &&& 0 <= n < 0x1_0000_0000
        &&& (n / 16777216) % 256 == a
        &&& (n / 65536) % 256 == b
        &&& (n / 256) % 256 == c
        &&& n % 256 == d })
{
    let n = (a as int) * 16777216 + (b as int) * 65536 + (c as int) * 256 + (d as int);
    assert(n / 16777216 == a as int);
    assert(n / 65536 == (a as int) * 256 + b as int);
    assert(n / 256 == (a as int) * 65536 + (b as int) * 256 + c as int);
}

pub broadcast proof fn lemma_hdr_prefix(f: u8, n: int, b: Seq<u8>)
    requires 0 <= n < 0x1_0000_0000
    ensures
        (#[trigger] (hdr(f, n) + b)).len() == 5 + b.len(),
        (hdr(f, n) + b)[0] == f,
        hdr_len(hdr(f, n) + b) == n,
        (hdr(f, n) + b).skip(5) =~= b,
        forall|k: int| 0 <= k <= b.len() ==> #[trigger] (hdr(f, n) + b).subrange(5, 5 + k) =~= b.take(k),
{
    let s = hdr(f, n) + b;
    assert(s.skip(1)[0] == be32(n)[0]);
    assert(s.skip(1)[1] == be32(n)[1]);
    assert(s.skip(1)[2] == be32(n)[2]);
    assert(s.skip(1)[3] == be32(n)[3]);
}

pub broadcast proof fn lemma_hdr_rebuild(s: Seq<u8>)
    requires s.len() >= 5
    ensures
        #[trigger] hdr(s[0], be32_val(s.skip(1))) + s.skip(1).skip(4) =~= s,
        0 <= be32_val(s.skip(1)) < 0x1_0000_0000,
{
    let t = s.skip(1);
    let n = be32_val(t);
    lemma_be32_bytes(t[0], t[1], t[2], t[3]);
    assert(be32(n)[0] == t[0]);
    assert(be32(n)[1] == t[1]);
    assert(be32(n)[2] == t[2]);
    assert(be32(n)[3] == t[3]);
}

pub broadcast proof fn lemma_take_all(s: Seq<u8>) ensures #[trigger] s.take(s.len() as int) =~= s {}
pub broadcast proof fn lemma_skip_skip(s: Seq<u8>, a: int, b: int)
    requires 0 <= a, 0 <= b, a + b <= s.len()
    ensures #[trigger] s.skip(a).skip(b) =~= s.skip(a + b) {}
pub broadcast proof fn lemma_add_skip(a: Seq<u8>, b: Seq<u8>) ensures #[trigger] (a + b).skip(a.len() as int) =~= b {}
pub broadcast proof fn lemma_add_take(a: Seq<u8>, b: Seq<u8>) ensures #[trigger] (a + b).take(a.len() as int) =~= a {}
pub broadcast proof fn lemma_skip_take_subrange(s: Seq<u8>, a: int, n: int)
    requires 0 <= a, 0 <= n, a + n <= s.len()
    ensures #[trigger] s.skip(a).take(n) =~= s.subrange(a, a + n) {}

// ---------------------------------------------------------------------------------------------
// core::task / core::mem
pub enum Poll<T> { Ready(T), Pending }
pub struct Context { pub x: u8 }
// A-core-01: core::mem::replace stores src and returns the old value
pub assume_specification<T>[core::mem::replace::<T>](dest: &mut T, src: T) -> (r: T)
    ensures r == *old(dest), *final(dest) == src;
