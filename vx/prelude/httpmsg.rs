// ---- http crate: request / response heads (plain records; accessors return the fields) ----
// A-http-30: StatusCode is its numeric code; the named constants have their RFC values
#[derive(PartialEq, Eq, Clone, Copy, Debug, Structural)]
pub struct StatusCode(pub u16);
impl StatusCode {
    pub const OK: StatusCode = StatusCode(200);
    pub const BAD_REQUEST: StatusCode = StatusCode(400);
    pub const UNAUTHORIZED: StatusCode = StatusCode(401);
    pub const FORBIDDEN: StatusCode = StatusCode(403);
    pub const NOT_FOUND: StatusCode = StatusCode(404);
    pub const METHOD_NOT_ALLOWED: StatusCode = StatusCode(405);
    pub const TOO_MANY_REQUESTS: StatusCode = StatusCode(429);
    pub const BAD_GATEWAY: StatusCode = StatusCode(502);
    pub const SERVICE_UNAVAILABLE: StatusCode = StatusCode(503);
    pub const GATEWAY_TIMEOUT: StatusCode = StatusCode(504);
    pub fn as_u16(&self) -> (r: u16) ensures r == self.0 { self.0 }
    // A-http-30b: the status classes are the hundreds
    pub fn is_informational(&self) -> (r: bool) ensures r == (100 <= self.0 && self.0 < 200) { 100 <= self.0 && self.0 < 200 }
    pub fn is_success(&self) -> (r: bool) ensures r == (200 <= self.0 && self.0 < 300) { 200 <= self.0 && self.0 < 300 }
    pub fn is_redirection(&self) -> (r: bool) ensures r == (300 <= self.0 && self.0 < 400) { 300 <= self.0 && self.0 < 400 }
    pub fn is_client_error(&self) -> (r: bool) ensures r == (400 <= self.0 && self.0 < 500) { 400 <= self.0 && self.0 < 500 }
    pub fn is_server_error(&self) -> (r: bool) ensures r == (500 <= self.0 && self.0 < 600) { 500 <= self.0 && self.0 < 600 }
}
// A-http-31: Method / Version are enumerations; only the members tonic names are distinguished
#[derive(PartialEq, Eq, Clone, Copy, Debug, Structural)]
pub struct Method(pub u8);
impl Method {
    pub const GET: Method = Method(0);
    pub const POST: Method = Method(1);
    pub const OPTIONS: Method = Method(2);
}
#[derive(PartialEq, Eq, Clone, Copy, Debug, Structural)]
pub struct Version(pub u8);
impl Version {
    pub const HTTP_10: Version = Version(1);
    pub const HTTP_11: Version = Version(2);
    pub const HTTP_2: Version = Version(3);
    pub const HTTP_3: Version = Version(4);
}
pub mod httpmsg {
    use crate::*;
    pub use crate::{StatusCode, Method, Version};
    pub struct Uri { pub s: Ghost<Seq<char>> }
    // A-http-32: Extensions is an opaque type map; it is only moved around
    pub struct Extensions { pub id: Ghost<int> }
    pub struct Request<T> { pub method: Method, pub version: Version, pub uri: Uri, pub headers: HeaderMap, pub extensions: Extensions, pub body: T }
    pub struct RequestParts { pub method: Method, pub version: Version, pub uri: Uri, pub headers: HeaderMap, pub extensions: Extensions }
    pub struct Response<T> { pub status: StatusCode, pub version: Version, pub headers: HeaderMap, pub extensions: Extensions, pub body: T }
    pub struct ResponseParts { pub status: StatusCode, pub version: Version, pub headers: HeaderMap, pub extensions: Extensions }
    impl<T> Request<T> {
        // A-http-33: Request::new: GET, HTTP/1.1, "/", no headers
        #[verifier::external_body]
        pub fn new(body: T) -> (r: Request<T>) ensures r.body == body, r.method == Method::GET, r.version == Version::HTTP_11, r.headers@ == Map::<Seq<char>, Seq<Seq<u8>>>::empty() { unimplemented!() }
        pub fn version_mut(&mut self) -> (r: &mut Version) ensures *r == old(self).version, *final(r) == final(self).version,
            final(self).method == old(self).method, final(self).uri == old(self).uri, final(self).headers == old(self).headers, final(self).extensions == old(self).extensions, final(self).body == old(self).body
        { &mut self.version }
        pub fn method_mut(&mut self) -> (r: &mut Method) ensures *r == old(self).method, *final(r) == final(self).method,
            final(self).version == old(self).version, final(self).uri == old(self).uri, final(self).headers == old(self).headers, final(self).extensions == old(self).extensions, final(self).body == old(self).body
        { &mut self.method }
        pub fn uri_mut(&mut self) -> (r: &mut Uri) ensures *r == old(self).uri, *final(r) == final(self).uri,
            final(self).version == old(self).version, final(self).method == old(self).method, final(self).headers == old(self).headers, final(self).extensions == old(self).extensions, final(self).body == old(self).body
        { &mut self.uri }
        pub fn headers_mut(&mut self) -> (r: &mut HeaderMap) ensures *r == old(self).headers, *final(r) == final(self).headers,
            final(self).version == old(self).version, final(self).method == old(self).method, final(self).uri == old(self).uri, final(self).extensions == old(self).extensions, final(self).body == old(self).body
        { &mut self.headers }
        pub fn extensions_mut(&mut self) -> (r: &mut Extensions) ensures *r == old(self).extensions, *final(r) == final(self).extensions,
            final(self).version == old(self).version, final(self).method == old(self).method, final(self).uri == old(self).uri, final(self).headers == old(self).headers, final(self).body == old(self).body
        { &mut self.extensions }
        pub fn headers(&self) -> (r: &HeaderMap) ensures *r == self.headers { &self.headers }
        pub fn method(&self) -> (r: &Method) ensures *r == self.method { &self.method }
        pub fn version(&self) -> (r: Version) ensures r == self.version { self.version }
        pub fn uri(&self) -> (r: &Uri) ensures *r == self.uri { &self.uri }
        pub fn extensions(&self) -> (r: &Extensions) ensures *r == self.extensions { &self.extensions }
        pub fn into_parts(self) -> (r: (RequestParts, T)) ensures r.1 == self.body, r.0.method == self.method, r.0.version == self.version, r.0.uri == self.uri, r.0.headers == self.headers, r.0.extensions == self.extensions
        { (RequestParts { method: self.method, version: self.version, uri: self.uri, headers: self.headers, extensions: self.extensions }, self.body) }
        pub fn from_parts(p: RequestParts, body: T) -> (r: Request<T>) ensures r.body == body, r.method == p.method, r.version == p.version, r.uri == p.uri, r.headers == p.headers, r.extensions == p.extensions
        { Request { method: p.method, version: p.version, uri: p.uri, headers: p.headers, extensions: p.extensions, body } }
        pub fn into_body(self) -> (r: T) ensures r == self.body { self.body }
    }
    impl<T> Response<T> {
        // A-http-34: Response::new: 200 OK, HTTP/1.1, no headers
        #[verifier::external_body]
        pub fn new(body: T) -> (r: Response<T>) ensures r.body == body, r.status == StatusCode::OK, r.headers@ == Map::<Seq<char>, Seq<Seq<u8>>>::empty() { unimplemented!() }
        pub fn headers_mut(&mut self) -> (r: &mut HeaderMap) ensures *r == old(self).headers, *final(r) == final(self).headers,
            final(self).version == old(self).version, final(self).status == old(self).status, final(self).extensions == old(self).extensions, final(self).body == old(self).body
        { &mut self.headers }
        pub fn status_mut(&mut self) -> (r: &mut StatusCode) ensures *r == old(self).status, *final(r) == final(self).status,
            final(self).version == old(self).version, final(self).headers == old(self).headers, final(self).extensions == old(self).extensions, final(self).body == old(self).body
        { &mut self.status }
        pub fn version_mut(&mut self) -> (r: &mut Version) ensures *r == old(self).version, *final(r) == final(self).version,
            final(self).status == old(self).status, final(self).headers == old(self).headers, final(self).extensions == old(self).extensions, final(self).body == old(self).body
        { &mut self.version }
        pub fn extensions_mut(&mut self) -> (r: &mut Extensions) ensures *r == old(self).extensions, *final(r) == final(self).extensions,
            final(self).version == old(self).version, final(self).status == old(self).status, final(self).headers == old(self).headers, final(self).body == old(self).body
        { &mut self.extensions }
        pub fn headers(&self) -> (r: &HeaderMap) ensures *r == self.headers { &self.headers }
        pub fn status(&self) -> (r: StatusCode) ensures r == self.status { self.status }
        pub fn into_parts(self) -> (r: (ResponseParts, T)) ensures r.1 == self.body, r.0.status == self.status, r.0.version == self.version, r.0.headers == self.headers, r.0.extensions == self.extensions
        { (ResponseParts { status: self.status, version: self.version, headers: self.headers, extensions: self.extensions }, self.body) }
        pub fn from_parts(p: ResponseParts, body: T) -> (r: Response<T>) ensures r.body == body, r.status == p.status, r.version == p.version, r.headers == p.headers, r.extensions == p.extensions
        { Response { status: p.status, version: p.version, headers: p.headers, extensions: p.extensions, body } }
        pub fn into_body(self) -> (r: T) ensures r == self.body { self.body }
    }
}
