// ---------------------------------------------------------------------------------------------
// Wire format vocabulary, written from PROTOCOL-HTTP2.md ("Length-Prefixed-Message"), no tonic code
pub open spec fn hdr(f: u8, n: int) -> Seq<u8> { seq![f] + be32(n) }
pub open spec fn frame(flag: u8, payload: Seq<u8>) -> Seq<u8> { seq![flag] + be32(payload.len() as int) + payload }
// what the wire says about the first frame of s
pub open spec fn hdr_flag(s: Seq<u8>) -> u8 { s[0] }
pub open spec fn hdr_len(s: Seq<u8>) -> int { be32_val(s.skip(1)) }
pub open spec fn complete(s: Seq<u8>) -> bool { s.len() >= 5 && s.len() >= 5 + hdr_len(s) }
pub open spec fn first_payload(s: Seq<u8>) -> Seq<u8> { s.subrange(5, 5 + hdr_len(s)) }
pub open spec fn after_first(s: Seq<u8>) -> Seq<u8> { s.skip(5 + hdr_len(s)) }

pub proof fn lemma_be32_bytes(a: u8, b: u8, c: u8, d: u8)
    ensures ({ let n = (a as int) * 16777216 + (b as int) * 65536 + (c as int) * 256 + (d as int);
        &&& 0 <= n < 0x1_0000_0000
        &&& (n / 16777216) % 256 == a
        &&& (n / 65536) % 256 == b
        &&& (n / 256) % 256 == c
        &&& n % 256 == d })
{
    let n = (a as int) * 16777216 + (b as int) * 65536 + (c as int) * 256 + (d as int);
    assert(n / 16777216 == a as int);
    assert(n / 65536 == (a as int) * 256 + b as int);
    assert(n / 256 == (a as int) * 65536 + (b as int) * 256 + c as int);
}

pub proof fn lemma_be32_val_be32(n: int)
    requires 0 <= n < 0x1_0000_0000
    ensures be32_val(be32(n)) == n
{
    let x = n as u64;
    assert(x < 0x1_0000_0000u64 ==> ((x / 16777216) % 256) * 16777216 + ((x / 65536) % 256) * 65536 + ((x / 256) % 256) * 256 + (x % 256) == x) by (bit_vector);
    assert((x / 16777216) % 256 < 256 && (x / 65536) % 256 < 256 && (x / 256) % 256 < 256 && x % 256 < 256) by (bit_vector);
}

pub broadcast proof fn lemma_hdr_prefix(f: u8, n: int, b: Seq<u8>)
    requires 0 <= n < 0x1_0000_0000
    ensures
        (#[trigger] (hdr(f, n) + b)).len() == 5 + b.len(),
        (hdr(f, n) + b)[0] == f,
        hdr_len(hdr(f, n) + b) == n,
        (hdr(f, n) + b).skip(5) =~= b,
{
    let s = hdr(f, n) + b;
    lemma_be32_val_be32(n);
    assert(s.skip(1)[0] == be32(n)[0]);
    assert(s.skip(1)[1] == be32(n)[1]);
    assert(s.skip(1)[2] == be32(n)[2]);
    assert(s.skip(1)[3] == be32(n)[3]);
}

pub proof fn lemma_hdr_subrange(f: u8, n: int, b: Seq<u8>, k: int)
    requires 0 <= n < 0x1_0000_0000, 0 <= k <= b.len()
    ensures (hdr(f, n) + b).subrange(5, 5 + k) =~= b.take(k)
{
    lemma_hdr_prefix(f, n, b);
}

pub broadcast proof fn lemma_hdr_rebuild(s: Seq<u8>)
    requires s.len() >= 5
    ensures
        #[trigger] hdr(s[0], be32_val(s.skip(1))) + s.skip(1).skip(4) =~= s,
        0 <= be32_val(s.skip(1)) < 0x1_0000_0000,
{
    let t = s.skip(1);
    let n = be32_val(t);
    lemma_be32_bytes(t[0], t[1], t[2], t[3]);
    assert(be32(n)[0] == t[0]);
    assert(be32(n)[1] == t[1]);
    assert(be32(n)[2] == t[2]);
    assert(be32(n)[3] == t[3]);
}

pub broadcast proof fn lemma_take_all(s: Seq<u8>) ensures #[trigger] s.take(s.len() as int) =~= s {}
pub broadcast proof fn lemma_skip_skip(s: Seq<u8>, a: int, b: int)
    requires 0 <= a, 0 <= b, a + b <= s.len()
    ensures #[trigger] s.skip(a).skip(b) =~= s.skip(a + b) {}
pub broadcast proof fn lemma_add_skip(a: Seq<u8>, b: Seq<u8>) ensures #[trigger] (a + b).skip(a.len() as int) =~= b {}
pub broadcast proof fn lemma_add_take(a: Seq<u8>, b: Seq<u8>) ensures #[trigger] (a + b).take(a.len() as int) =~= a {}
pub broadcast proof fn lemma_skip_take_subrange(s: Seq<u8>, a: int, n: int)
    requires 0 <= a, 0 <= n, a + n <= s.len()
    ensures #[trigger] s.skip(a).take(n) =~= s.subrange(a, a + n) {}

