// ---- tonic-side shims shared by the codec units ----
#[derive(Clone, Copy)]
pub struct CompressionSettings { pub encoding: CompressionEncoding, pub buffer_growth_interval: usize }
#[derive(Clone, Copy)]
pub struct BufferSettings { pub buffer_size: usize, pub yield_threshold: usize }
pub struct IoError { pub k: u8 }

// A-compress-02: contract of tonic::codec::compression::decompress, PROVED on the real body in unit `compression` (same clauses)
#[verifier::external_body]
pub fn decompress(settings: CompressionSettings, compressed_buf: &mut BytesMut, out_buf: &mut BytesMut, len: usize) -> (r: Result<(), IoError>)
    requires len <= old(compressed_buf)@.len(), settings.buffer_growth_interval > 0, len <= usize::MAX / 4,
        2 * len as int + settings.buffer_growth_interval as int <= usize::MAX as int
    ensures
        final(compressed_buf).reserve_bound == old(compressed_buf).reserve_bound,
        final(out_buf).reserve_bound == old(out_buf).reserve_bound,
        r is Ok ==> decompress_spec(settings.encoding, old(compressed_buf)@.take(len as int)) is Some
            && final(out_buf)@ == old(out_buf)@ + decompress_spec(settings.encoding, old(compressed_buf)@.take(len as int))->Some_0
            && final(compressed_buf)@ == old(compressed_buf)@.skip(len as int),
        r is Err ==> decompress_spec(settings.encoding, old(compressed_buf)@.take(len as int)) is None,
{ unimplemented!() }
// A-compress-03: contract of tonic::codec::compression::compress, PROVED on the real body in unit `compression` (same clauses)
#[verifier::external_body]
pub fn compress(settings: CompressionSettings, decompressed_buf: &mut BytesMut, out_buf: &mut BytesMut, len: usize) -> (r: Result<(), IoError>)
    requires len <= old(decompressed_buf)@.len(), settings.buffer_growth_interval > 0,
        len as int + settings.buffer_growth_interval as int <= usize::MAX as int
    ensures
        r is Ok <==> compress_ok(settings.encoding, old(decompressed_buf)@.take(len as int)),
        r is Ok ==> final(out_buf)@ == old(out_buf)@ + compress_spec(settings.encoding, old(decompressed_buf)@.take(len as int)),
        final(out_buf)@.take(old(out_buf)@.len() as int) == old(out_buf)@, final(out_buf)@.len() >= old(out_buf)@.len(),
        final(out_buf).reserve_bound == old(out_buf).reserve_bound,
{ unimplemented!() }

// sane buffer settings: a non-zero growth interval that cannot overflow address arithmetic (A-codec-05, assumed of the codec)
pub open spec fn sane(b: BufferSettings) -> bool { 0 < b.buffer_size && b.buffer_size <= 0x4000_0000_0000_0000 }
pub open spec fn flag_of(c: Option<CompressionEncoding>) -> u8 { if c is Some { 1u8 } else { 0u8 } }
