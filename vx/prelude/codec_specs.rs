// ---- compression codecs (flate2 / zstd): uninterpreted per coder, with the inverse law ----
// A-compress-01: each coder is a function of its input; its decoder inverts it (flate2 / zstd are FFI, outside both verifiers)
pub uninterp spec fn gz_enc(s: Seq<u8>) -> Seq<u8>;
pub uninterp spec fn zlib_enc(s: Seq<u8>) -> Seq<u8>;
pub uninterp spec fn zstd_enc(s: Seq<u8>) -> Seq<u8>;
pub uninterp spec fn gz_dec(s: Seq<u8>) -> Option<Seq<u8>>;
pub uninterp spec fn zlib_dec(s: Seq<u8>) -> Option<Seq<u8>>;
pub uninterp spec fn zstd_dec(s: Seq<u8>) -> Option<Seq<u8>>;
// A-compress-04: whether a coder fails (io error) is a function of its input
pub uninterp spec fn gz_ok(s: Seq<u8>) -> bool;
pub uninterp spec fn zlib_ok(s: Seq<u8>) -> bool;
pub uninterp spec fn zstd_ok(s: Seq<u8>) -> bool;
pub broadcast axiom fn axiom_gz_roundtrip(s: Seq<u8>) ensures #[trigger] gz_dec(gz_enc(s)) == Some(s);
pub broadcast axiom fn axiom_zlib_roundtrip(s: Seq<u8>) ensures #[trigger] zlib_dec(zlib_enc(s)) == Some(s);
pub broadcast axiom fn axiom_zstd_roundtrip(s: Seq<u8>) ensures #[trigger] zstd_dec(zstd_enc(s)) == Some(s);
// the encoding named in grpc-encoding selects the coder (RFC 1952 gzip, RFC 1950 zlib "deflate", zstd)
pub open spec fn compress_spec(e: CompressionEncoding, s: Seq<u8>) -> Seq<u8> {
    match e { CompressionEncoding::Gzip => gz_enc(s), CompressionEncoding::Deflate => zlib_enc(s), CompressionEncoding::Zstd => zstd_enc(s) }
}
pub open spec fn compress_ok(e: CompressionEncoding, s: Seq<u8>) -> bool {
    match e { CompressionEncoding::Gzip => gz_ok(s), CompressionEncoding::Deflate => zlib_ok(s), CompressionEncoding::Zstd => zstd_ok(s) }
}
pub open spec fn decompress_spec(e: CompressionEncoding, s: Seq<u8>) -> Option<Seq<u8>> {
    match e { CompressionEncoding::Gzip => gz_dec(s), CompressionEncoding::Deflate => zlib_dec(s), CompressionEncoding::Zstd => zstd_dec(s) }
}
pub proof fn lemma_decompress_compress(e: CompressionEncoding, s: Seq<u8>)
    ensures decompress_spec(e, compress_spec(e, s)) == Some(s)
{
    broadcast use axiom_gz_roundtrip, axiom_zlib_roundtrip, axiom_zstd_roundtrip;
}

