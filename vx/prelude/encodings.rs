// ---- percent-encoding, base64, UTF-8: uninterpreted codecs with their inverse laws ----
// UTF-8 is vstd's own theory (vstd::utf8: encode_utf8 / decode_utf8 / valid_utf8 with proved round-trip lemmas); no axiom here
pub open spec fn utf8(s: Seq<char>) -> Seq<u8> { vstd::utf8::encode_utf8(s) }
pub open spec fn utf8_valid(b: Seq<u8>) -> bool { vstd::utf8::valid_utf8(b) }
pub open spec fn utf8_str(b: Seq<u8>) -> Seq<char> { vstd::utf8::decode_utf8(b) }
pub proof fn lemma_utf8_roundtrip(s: Seq<char>)
    ensures utf8_valid(utf8(s)), utf8_str(utf8(s)) == s
{
    vstd::utf8::encode_utf8_valid_utf8(s);
    vstd::utf8::encode_utf8_decode_utf8(s);
}

// A-pct-01: percent_encoding::percent_encode(input, ENCODING_SET) and percent_decode are inverse; every byte of the
// encoded form is either an unescaped input byte outside the set or part of a %XX escape (all visible ASCII)
pub struct AsciiSet { pub x: u8 }
pub uninterp spec fn pct_enc(s: Seq<u8>) -> Seq<u8>;
pub uninterp spec fn pct_dec(s: Seq<u8>) -> Seq<u8>;
pub broadcast axiom fn axiom_pct_roundtrip(s: Seq<u8>)
    ensures #[trigger] pct_dec(pct_enc(s)) == s;
pub broadcast axiom fn axiom_pct_legal(s: Seq<u8>)
    ensures legal_value(#[trigger] pct_enc(s)), visible_ascii(pct_enc(s));
pub broadcast axiom fn axiom_pct_empty(s: Seq<u8>)
    ensures (#[trigger] pct_enc(s)).len() == 0 <==> s.len() == 0;
pub struct PercentEncode { pub out: Ghost<Seq<u8>> }
pub struct CowStr { pub out: Ghost<Seq<u8>> }
#[verifier::external_body]
pub fn percent_encode(input: &[u8], set: &AsciiSet) -> (r: PercentEncode) ensures r.out@ == pct_enc(input@) { unimplemented!() }
pub struct Cow {}
impl Cow {
    #[verifier::external_body]
    pub fn from(p: PercentEncode) -> (r: CowStr) ensures r.out@ == p.out@ { unimplemented!() }
}
impl CowStr {
    #[verifier::external_body]
    pub fn as_bytes(&self) -> (r: &[u8]) ensures r@ == self.out@ { unimplemented!() }
}
pub struct Utf8Error { pub x: u8 }
pub struct PercentDecode { pub out: Ghost<Seq<u8>> }
#[verifier::external_body]
pub fn percent_decode(input: &[u8]) -> (r: PercentDecode) ensures r.out@ == pct_dec(input@) { unimplemented!() }
pub struct CowS { pub s: Ghost<Seq<char>> }
impl PercentDecode {
    // A-pct-02: PercentDecode::decode_utf8 is Ok exactly for valid UTF-8
    #[verifier::external_body]
    pub fn decode_utf8(self) -> (r: Result<CowS, Utf8Error>) ensures r is Ok <==> utf8_valid(self.out@), r matches Ok(c) ==> c.s@ == utf8_str(self.out@) { unimplemented!() }
}
impl CowS {
    #[verifier::external_body]
    pub fn to_string(&self) -> (r: String) ensures r@ == self.s@ { unimplemented!() }
}

// A-b64-01: base64 engines: STANDARD pads on encode, STANDARD_NO_PAD does not; both decode padded and unpadded input
// (DecodePaddingMode::Indifferent); decode inverts both encodings; the alphabet is visible ASCII
#[derive(Debug)]
pub struct DecodeError { pub x: u8 }
pub uninterp spec fn b64_enc(pad: bool, s: Seq<u8>) -> Seq<u8>;
pub uninterp spec fn b64_dec(s: Seq<u8>) -> Option<Seq<u8>>;
pub broadcast axiom fn axiom_b64_roundtrip(pad: bool, s: Seq<u8>)
    ensures #[trigger] b64_dec(b64_enc(pad, s)) == Some(s);
pub broadcast axiom fn axiom_b64_legal(pad: bool, s: Seq<u8>)
    ensures legal_value(#[trigger] b64_enc(pad, s)), visible_ascii(b64_enc(pad, s));
pub struct Engine { pub pad: bool }
impl Engine {
    #[verifier::external_body]
    pub fn encode<T: HasBytes>(&self, s: T) -> (r: String) ensures utf8(r@) == b64_enc(self.pad, s.bytes_view()) { unimplemented!() }
    #[verifier::external_body]
    pub fn decode<T: HasBytes>(&self, s: T) -> (r: Result<Vec<u8>, DecodeError>) ensures r is Ok <==> b64_dec(s.bytes_view()) is Some, r matches Ok(v) ==> Some(v@) == b64_dec(s.bytes_view()) { unimplemented!() }
}
impl<'a> HasBytes for &'a [u8] { open spec fn bytes_view(&self) -> Seq<u8> { (**self)@ } }
impl HasBytes for String { open spec fn bytes_view(&self) -> Seq<u8> { utf8(self@) } }
// A-bytes-28: Bytes: From<String> is the UTF-8 bytes of the string
pub uninterp spec fn bytes_of_string(s: String) -> Bytes;
pub broadcast axiom fn axiom_bytes_of_string(s: String) ensures (#[trigger] bytes_of_string(s))@ == utf8(s@);
impl vstd::std_specs::convert::FromSpecImpl<String> for Bytes {
    open spec fn obeys_from_spec() -> bool { true }
    open spec fn from_spec(v: String) -> Self { bytes_of_string(v) }
}
impl From<String> for Bytes { #[verifier::external_body] fn from(v: String) -> (r: Bytes) { unimplemented!() } }
pub mod util { pub mod base64 {
    pub const STANDARD_NO_PAD: crate::Engine = crate::Engine { pad: false };
    pub const STANDARD: crate::Engine = crate::Engine { pad: true };
} }
