// ---- std items that tonic names by their full path (the generated file is a crate root, so `std::..` resolves here) ----
pub mod std {
    // everything not shimmed below is the real std
    pub use ::std::{mem, cmp, fmt, marker, ops, option, result, convert, time, future, pin, task, borrow, collections, sync, num};
    pub mod str {
        // A-std-str-02: core::str::from_utf8 succeeds exactly on valid UTF-8 and decodes it
        use crate::*;
        pub struct Utf8Error { pub x: u8 }
        #[verifier::external_body]
        pub fn from_utf8(v: &[u8]) -> (r: Result<&str, Utf8Error>)
            ensures r is Ok <==> utf8_valid(v@), r matches Ok(s) ==> s@ == utf8_str(v@) && utf8(s@) == v@
        { unimplemented!() }
    }
    pub mod io {
        use crate::*;
        pub struct Error { pub k: u8 }
        // A-std-io-01: std::io::copy drains the reader into the writer: everything the reader yields is appended; a
        // failing reader gives Err (after possibly appending a prefix)
        #[verifier::external_body]
        pub fn copy<R: ReadSpec>(reader: &mut R, writer: &mut Writer<'_>) -> (r: Result<u64, Error>)
            ensures
                old(reader).yields() matches Some(out) ==> r is Ok && (*final(writer).buf)@ == (*old(writer).buf)@ + out,
                old(reader).yields() is None ==> r is Err,
                (*final(writer).buf)@.len() >= (*old(writer).buf)@.len() && (*final(writer).buf)@.take((*old(writer).buf)@.len() as int) == (*old(writer).buf)@,
                *final(final(writer).buf) == *final(old(writer).buf),
                final(writer).buf.reserve_bound == old(writer).buf.reserve_bound,
        { unimplemented!() }
    }
}
// a reader that yields a byte string or fails
pub trait ReadSpec { spec fn yields(&self) -> Option<Seq<u8>>; }
pub struct Writer<'a> { pub buf: &'a mut BytesMut }
