// ---- bytes crate: BytesMut / Bytes seen through their readable contents (view = Seq<u8>) ----
// Capacity is not part of the view: reserve() is observably a no-op (A-bytes-reserve). The ghost
// `reserve_bound` lets a unit state "never reserve more than the configured limit" as a precondition (negative = no budget imposed).
// anything that can be read as a run of bytes (bytes::Buf seen through ALL its remaining bytes, AsRef<[u8]>, ...)
pub trait HasBytes { spec fn bytes_view(&self) -> Seq<u8>; }
// `spare`: capacity known to be reserved beyond the written bytes (what the last reserve() guaranteed, minus what advance_mut used)
pub struct BytesMut { pub v: Vec<u8>, pub reserve_bound: Ghost<int>, pub spare: Ghost<nat> }
#[derive(Debug)]
pub struct Bytes { pub v: Vec<u8> }
impl Bytes {
    pub open spec fn view(&self) -> Seq<u8> { self.v@ }
    // A-bytes-20: Bytes::new is empty
    #[verifier::external_body]
    pub fn new() -> (r: Bytes) ensures r@ == Seq::<u8>::empty() { unimplemented!() }
    // A-bytes-21: Bytes::len / is_empty
    #[verifier::external_body]
    pub fn len(&self) -> (r: usize) ensures r == self@.len() { unimplemented!() }
    #[verifier::external_body]
    pub fn is_empty(&self) -> (r: bool) ensures r == (self@.len() == 0) { unimplemented!() }
    #[verifier::external_body]
    pub fn has_remaining(&self) -> (r: bool) ensures r == (self@.len() > 0) { unimplemented!() }
    #[verifier::external_body]
    pub fn remaining(&self) -> (r: usize) ensures r == self@.len() { unimplemented!() }
}
// A-bytes-27: Bytes: From<Vec<u8>> keeps the bytes
impl vstd::std_specs::convert::FromSpecImpl<Vec<u8>> for Bytes {
    open spec fn obeys_from_spec() -> bool { true }
    open spec fn from_spec(v: Vec<u8>) -> Self { Bytes { v } }
}
impl From<Vec<u8>> for Bytes { fn from(v: Vec<u8>) -> (r: Bytes) { Bytes { v } } }
impl HasBytes for Bytes { open spec fn bytes_view(&self) -> Seq<u8> { self@ } }
impl HasBytes for BytesMut { open spec fn bytes_view(&self) -> Seq<u8> { self@ } }
impl BytesMut {
    // A-bytes-32: BytesMut as a contiguous Buf: chunk() is all readable bytes
    #[verifier::external_body]
    pub fn chunk(&self) -> (r: &[u8]) ensures r@ == self@ { unimplemented!() }
    pub open spec fn view(&self) -> Seq<u8> { self.v@ }
    // A-bytes-01: remaining()/len() are the number of readable bytes (an allocation never exceeds isize::MAX)
    #[verifier::external_body]
    pub fn remaining(&self) -> (r: usize) ensures r == self@.len(), r <= isize::MAX as usize { unimplemented!() }
    #[verifier::external_body]
    pub fn len(&self) -> (r: usize) ensures r == self@.len(), r <= isize::MAX as usize { unimplemented!() }
    #[verifier::external_body]
    pub fn is_empty(&self) -> (r: bool) ensures r == (self@.len() == 0) { unimplemented!() }
    #[verifier::external_body]
    pub fn has_remaining(&self) -> (r: bool) ensures r == (self@.len() > 0) { unimplemented!() }
    // A-bytes-02: get_u8 pops the first byte; panics (here: precondition) when empty
    #[verifier::external_body]
    pub fn get_u8(&mut self) -> (r: u8)
        requires old(self)@.len() >= 1
        ensures r == old(self)@[0], final(self)@ == old(self)@.skip(1), final(self).reserve_bound == old(self).reserve_bound
    { unimplemented!() }
    // A-bytes-03: get_u32 pops four bytes, big-endian; precondition: four bytes available
    #[verifier::external_body]
    pub fn get_u32(&mut self) -> (r: u32)
        requires old(self)@.len() >= 4
        ensures r as int == be32_val(old(self)@), final(self)@ == old(self)@.skip(4), final(self).reserve_bound == old(self).reserve_bound
    { unimplemented!() }
    // A-bytes-reserve: reserve does not change the contents; the precondition is a ghost budget chosen by the unit
    #[verifier::external_body]
    pub fn reserve(&mut self, n: usize)
        requires old(self).reserve_bound@ < 0 || n <= old(self).reserve_bound@
        ensures final(self)@ == old(self)@, final(self).reserve_bound == old(self).reserve_bound, final(self).spare@ >= n
    { unimplemented!() }
    // A-bytes-34: capacity() is at least the written bytes plus the capacity known to be reserved
    #[verifier::external_body]
    pub fn capacity(&self) -> (r: usize) ensures r >= self@.len() + self.spare@ { unimplemented!() }
    // A-bytes-04: clear empties
    #[verifier::external_body]
    pub fn clear(&mut self)
        ensures final(self)@ == Seq::<u8>::empty(), final(self).reserve_bound == old(self).reserve_bound
    { unimplemented!() }
    // A-bytes-05: truncate keeps the first len bytes (no-op when len >= current length)
    #[verifier::external_body]
    pub fn truncate(&mut self, len: usize)
        ensures final(self)@ == (if len <= old(self)@.len() { old(self)@.take(len as int) } else { old(self)@ }),
            final(self).reserve_bound == old(self).reserve_bound
    { unimplemented!() }
    // A-bytes-06: BufMut::put(src: impl Buf) appends ALL remaining bytes of src (contiguous or not)
    #[verifier::external_body]
    pub fn put<T: HasBytes>(&mut self, b: T)
        ensures final(self)@ == old(self)@ + b.bytes_view(), final(self).reserve_bound == old(self).reserve_bound
    { unimplemented!() }
    // A-bytes-07: advance_mut exposes `cnt` reserved (uninitialised) bytes; their values are arbitrary.  It panics when fewer
    // than `cnt` bytes of capacity are left (here: a precondition, the safety condition of this unsafe fn)
    #[verifier::external_body]
    pub unsafe fn advance_mut(&mut self, cnt: usize)
        requires cnt <= old(self).spare@
        ensures final(self)@.len() == old(self)@.len() + cnt, final(self)@.take(old(self)@.len() as int) == old(self)@,
            final(self).reserve_bound == old(self).reserve_bound, final(self).spare@ == old(self).spare@ - cnt
    { unimplemented!() }
    // A-bytes-08: split_to(at) returns the first `at` bytes and keeps the rest
    #[verifier::external_body]
    pub fn split_to(&mut self, at: usize) -> (r: BytesMut)
        requires at <= old(self)@.len()
        ensures r@ == old(self)@.take(at as int), final(self)@ == old(self)@.skip(at as int),
            final(self).reserve_bound == old(self).reserve_bound
    { unimplemented!() }
    // A-bytes-26: BytesMut::new / with_capacity are empty (no reserve budget imposed yet); put_u8 / put_u32 (big-endian) /
    // put_slice append
    #[verifier::external_body]
    pub fn new() -> (r: BytesMut) ensures r@ == Seq::<u8>::empty(), r.reserve_bound@ < 0 { unimplemented!() }
    #[verifier::external_body]
    pub fn with_capacity(n: usize) -> (r: BytesMut) ensures r@ == Seq::<u8>::empty(), r.reserve_bound@ < 0 { unimplemented!() }
    #[verifier::external_body]
    pub fn put_u8(&mut self, v: u8) ensures final(self)@ == old(self)@.push(v), final(self).reserve_bound == old(self).reserve_bound { unimplemented!() }
    #[verifier::external_body]
    pub fn put_u32(&mut self, v: u32) ensures final(self)@ == old(self)@ + be32(v as int), final(self).reserve_bound == old(self).reserve_bound { unimplemented!() }
    #[verifier::external_body]
    pub fn put_slice(&mut self, s: &[u8]) ensures final(self)@ == old(self)@ + s@, final(self).reserve_bound == old(self).reserve_bound { unimplemented!() }
    // A-bytes-16: split() hands out everything and leaves the buffer empty
    #[verifier::external_body]
    pub fn split(&mut self) -> (r: BytesMut)
        ensures r@ == old(self)@, final(self)@ == Seq::<u8>::empty(), final(self).reserve_bound == old(self).reserve_bound
    { unimplemented!() }
    // A-bytes-15: Buf::advance drops the first cnt bytes (panics beyond the length)
    #[verifier::external_body]
    pub fn advance(&mut self, cnt: usize)
        requires cnt <= old(self)@.len()
        ensures final(self)@ == old(self)@.skip(cnt as int), final(self).reserve_bound == old(self).reserve_bound
    { unimplemented!() }
    // A-bytes-09: freeze keeps the contents
    #[verifier::external_body]
    pub fn freeze(self) -> (r: Bytes) ensures r@ == self@ { unimplemented!() }
    // A-bytes-10 (R10): <BytesMut as IndexMut<RangeFrom<usize>>>::index_mut
    #[verifier::external_body]
    pub fn verif_index_mut_from(&mut self, from: usize) -> (r: &mut [u8])
        requires from <= old(self)@.len()
        ensures (*r)@ == old(self)@.skip(from as int),
            final(self)@ == old(self)@.take(from as int) + (*final(r))@,
            (*final(r))@.len() == (*r)@.len(),
            final(self).reserve_bound == old(self).reserve_bound,
    { unimplemented!() }
}

// bytes::BufMut for &mut [u8]: writes at the front and shrinks the slice (prophecy-style spec)
pub trait BufMut: Sized {
    spec fn cap(&self) -> int;
    #[verifier::prophetic]
    spec fn wrote(pre: &Self, post: &Self, bytes: Seq<u8>) -> bool;
    fn put_u8(&mut self, v: u8)
        requires old(self).cap() >= 1,
        ensures Self::wrote(old(self), final(self), seq![v]);
    fn put_u32(&mut self, v: u32)
        requires old(self).cap() >= 4,
        ensures Self::wrote(old(self), final(self), be32(v as int));
}
impl<'a> BufMut for &'a mut [u8] {
    open spec fn cap(&self) -> int { (**self)@.len() as int }
    #[verifier::prophetic]
    open spec fn wrote(pre: &Self, post: &Self, bytes: Seq<u8>) -> bool {
        &&& (**post)@ == (**pre)@.skip(bytes.len() as int)
        &&& (*final(*pre))@ == bytes + (*final(*post))@
    }
    // A-bytes-11: <&mut [u8] as BufMut>::put_u8 writes one byte at the front and advances the slice
    #[verifier::external_body]
    fn put_u8(&mut self, v: u8) { unimplemented!() }
    // A-bytes-12: <&mut [u8] as BufMut>::put_u32 writes four bytes big-endian and advances the slice
    #[verifier::external_body]
    fn put_u32(&mut self, v: u32) { unimplemented!() }
}

// A-bytes-29: a general bytes::Buf (possibly non-contiguous, e.g. Chain): view = ALL remaining bytes; chunk() is only a
// non-empty prefix of them; copy_to_bytes(n) takes the first n (panics beyond remaining())
pub struct BufData { pub v: Ghost<Seq<u8>>, pub first: Ghost<int> }
impl BufData {
    pub open spec fn view(&self) -> Seq<u8> { self.v@ }
    #[verifier::external_body]
    pub fn remaining(&self) -> (r: usize) ensures r == self@.len() { unimplemented!() }
    #[verifier::external_body]
    pub fn has_remaining(&self) -> (r: bool) ensures r == (self@.len() > 0) { unimplemented!() }
    #[verifier::external_body]
    pub fn chunk(&self) -> (r: &[u8]) ensures r@.len() <= self@.len(), r@ == self@.take(r@.len() as int), self@.len() > 0 ==> r@.len() > 0 { unimplemented!() }
    #[verifier::external_body]
    pub fn copy_to_bytes(&mut self, n: usize) -> (r: Bytes)
        requires n <= old(self)@.len()
        ensures r@ == old(self)@.take(n as int), final(self)@ == old(self)@.skip(n as int)
    { unimplemented!() }
}
impl HasBytes for BufData { open spec fn bytes_view(&self) -> Seq<u8> { self@ } }
