// ---- http crate: header names / values / maps, seen through mathematical views ----
// HeaderName view: its (lower-case) text.  HeaderValue view: its bytes.  HeaderMap view: a multimap
// name -> non-empty sequence of values in insertion order (per-name order is what HeaderMap guarantees).
pub struct HeaderName { pub n: Ghost<Seq<char>> }
pub struct HeaderValue { pub b: Ghost<Seq<u8>> }
#[derive(Debug)]
pub struct InvalidHeaderValue { pub x: u8 }
pub struct ToStrError { pub x: u8 }
pub type HMap = Map<Seq<char>, Seq<Seq<u8>>>;
pub struct HeaderMap { pub m: Ghost<HMap> }

// bytes of an ASCII string literal
pub open spec fn ascii_bytes(s: Seq<char>) -> Seq<u8> { s.map_values(|c: char| c as u8) }
// bytes the http crate accepts in a header value: visible ASCII, space, tab, and obs-text (>= 0x80)
pub open spec fn legal_value_byte(b: u8) -> bool { (32 <= b && b != 127) || b == 9 }
pub open spec fn legal_value(s: Seq<u8>) -> bool { forall|i: int| 0 <= i < s.len() ==> legal_value_byte(#[trigger] s[i]) }
// HeaderValue::to_str succeeds iff every byte is visible ASCII (32..=126) or tab
pub open spec fn visible_ascii(s: Seq<u8>) -> bool { forall|i: int| 0 <= i < s.len() ==> ((32 <= #[trigger] s[i] && s[i] < 127) || s[i] == 9) }
pub open spec fn bytes_as_chars(s: Seq<u8>) -> Seq<char> { s.map_values(|b: u8| b as char) }

impl HeaderName {
    pub open spec fn view(&self) -> Seq<char> { self.n@ }
    // A-http-10: HeaderName::from_static(s) names s (s must be a valid lower-case header name, else it panics at compile/run time)
    #[verifier::external_body]
    pub const fn from_static(s: &'static str) -> (r: HeaderName) ensures r@ == s@ { HeaderName { n: Ghost::assume_new() } }
    // A-http-11: HeaderName::clone / as_str
    #[verifier::external_body]
    pub fn clone(&self) -> (r: HeaderName) ensures r@ == self@ { unimplemented!() }
    #[verifier::external_body]
    pub fn as_str(&self) -> (r: &str) ensures r@ == self@ { unimplemented!() }
}
impl HeaderValue {
    pub open spec fn view(&self) -> Seq<u8> { self.b@ }
    // A-http-12: HeaderValue::from_static(s) has the bytes of the (ASCII) literal s
    #[verifier::external_body]
    pub const fn from_static(s: &'static str) -> (r: HeaderValue) ensures r@ == ascii_bytes(s@) { HeaderValue { b: Ghost::assume_new() } }
    // A-http-13: HeaderValue::from_maybe_shared accepts exactly the byte strings whose bytes are all legal
    #[verifier::external_body]
    pub fn from_maybe_shared<T: HasBytes>(src: T) -> (r: Result<HeaderValue, InvalidHeaderValue>)
        ensures r is Ok <==> legal_value(src.bytes_view()), r matches Ok(v) ==> v@ == src.bytes_view()
    { unimplemented!() }
    // A-http-14: HeaderValue::as_bytes / as_ref are the bytes
    #[verifier::external_body]
    pub fn as_bytes(&self) -> (r: &[u8]) ensures r@ == self@ { unimplemented!() }
    #[verifier::external_body]
    pub fn as_ref(&self) -> (r: &[u8]) ensures r@ == self@ { unimplemented!() }
    #[verifier::external_body]
    pub fn len(&self) -> (r: usize) ensures r == self@.len() { unimplemented!() }
    // A-http-15: HeaderValue::to_str is Ok exactly for visible-ASCII values and then spells the same characters
    #[verifier::external_body]
    pub fn to_str(&self) -> (r: Result<&str, ToStrError>)
        ensures r is Ok <==> visible_ascii(self@), r matches Ok(s) ==> s@ == bytes_as_chars(self@) && s@.len() == self@.len()
    { unimplemented!() }
    #[verifier::external_body]
    pub fn clone(&self) -> (r: HeaderValue) ensures r@ == self@ { unimplemented!() }
}
// things that own bytes and can become a header value (bytes::Bytes, String, BytesMut)

// keys accepted by HeaderMap::{get,insert,remove,..}: &str, HeaderName, &HeaderName  (http's AsHeaderName / IntoHeaderName)
pub trait AsHeaderName { spec fn hname(&self) -> Seq<char>; }
impl AsHeaderName for &str { open spec fn hname(&self) -> Seq<char> { self@ } }
impl AsHeaderName for HeaderName { open spec fn hname(&self) -> Seq<char> { self@ } }
impl<'a> AsHeaderName for &'a HeaderName { open spec fn hname(&self) -> Seq<char> { (**self)@ } }

pub open spec fn hmap_wf(m: HMap) -> bool { forall|k: Seq<char>| m.contains_key(k) ==> (#[trigger] m[k]).len() > 0 }
pub open spec fn hmap_append(m: HMap, k: Seq<char>, v: Seq<u8>) -> HMap {
    if m.contains_key(k) { m.insert(k, m[k].push(v)) } else { m.insert(k, seq![v]) }
}
impl HeaderMap {
    pub open spec fn view(&self) -> HMap { self.m@ }
    // A-http-20: HeaderMap::new / with_capacity are empty
    #[verifier::external_body]
    pub fn new() -> (r: HeaderMap) ensures r@ == Map::<Seq<char>, Seq<Seq<u8>>>::empty() { unimplemented!() }
    #[verifier::external_body]
    pub fn with_capacity(n: usize) -> (r: HeaderMap) ensures r@ == Map::<Seq<char>, Seq<Seq<u8>>>::empty() { unimplemented!() }
    // A-http-21: insert replaces every value of the name by the single new value
    #[verifier::external_body]
    pub fn insert<K: AsHeaderName>(&mut self, k: K, v: HeaderValue) -> (r: Option<HeaderValue>)
        ensures final(self)@ == old(self)@.insert(k.hname(), seq![v@]),
            r is Some <==> old(self)@.contains_key(k.hname()),
    { unimplemented!() }
    // A-http-22: append adds a value after the existing values of the name
    #[verifier::external_body]
    pub fn append<K: AsHeaderName>(&mut self, k: K, v: HeaderValue) -> (r: bool)
        ensures final(self)@ == hmap_append(old(self)@, k.hname(), v@)
    { unimplemented!() }
    // A-http-23: get returns the first value of the name
    #[verifier::external_body]
    pub fn get<K: AsHeaderName>(&self, k: K) -> (r: Option<&HeaderValue>)
        ensures r is Some <==> self@.contains_key(k.hname()), r matches Some(v) ==> self@[k.hname()].len() > 0 && v@ == self@[k.hname()][0]
    { unimplemented!() }
    #[verifier::external_body]
    pub fn contains_key<K: AsHeaderName>(&self, k: K) -> (r: bool) ensures r == self@.contains_key(k.hname()) { unimplemented!() }
    // A-http-24: remove deletes every value of the name
    #[verifier::external_body]
    pub fn remove<K: AsHeaderName>(&mut self, k: K) -> (r: Option<HeaderValue>)
        ensures final(self)@ == old(self)@.remove(k.hname()),
            r is Some <==> old(self)@.contains_key(k.hname()),
            r matches Some(v) ==> v@ == old(self)@[k.hname()][0],
    { unimplemented!() }
    // A-http-25: extend(other): for every name of `other`, its values replace the values of that name (first value is
    // inserted, the following ones appended); names not in `other` are untouched
    #[verifier::external_body]
    pub fn extend(&mut self, other: HeaderMap)
        ensures final(self)@ == old(self)@.union_prefer_right(other@)
    { unimplemented!() }
    // A-http-26: clone / len / is_empty
    #[verifier::external_body]
    pub fn clone(&self) -> (r: HeaderMap) ensures r@ == self@ { unimplemented!() }
    #[verifier::external_body]
    pub fn is_empty(&self) -> (r: bool) ensures r == (self@.dom() =~= Set::<Seq<char>>::empty()) { unimplemented!() }
    #[verifier::external_body]
    // A-http-27: a HeaderMap holds at most 2^15 entries (http::header::map::MAX_SIZE)
    #[verifier::external_body]
    pub fn len(&self) -> (r: usize) ensures r <= 32768 { unimplemented!() }
}

// ---- iteration (A-http-28) ----
// hmap_entries(m): the order in which HeaderMap::iter presents the (name, value) pairs of m.  Its only assumed property:
// per name, the values come in their stored order and none is missing or invented (an interleaving of the per-name lists).
pub uninterp spec fn hmap_entries(m: HMap) -> Seq<(Seq<char>, Seq<u8>)>;
pub open spec fn values_of(s: Seq<(Seq<char>, Seq<u8>)>, k: Seq<char>) -> Seq<Seq<u8>> {
    s.filter(|p: (Seq<char>, Seq<u8>)| p.0 == k).map_values(|p: (Seq<char>, Seq<u8>)| p.1)
}
pub broadcast axiom fn axiom_hmap_entries(m: HMap, k: Seq<char>)
    ensures #[trigger] values_of(hmap_entries(m), k) == (if m.contains_key(k) { m[k] } else { Seq::<Seq<u8>>::empty() });
// http::header::Iter over (name, value) pairs: a ghost sequence of the pairs still to come
pub struct HIter<'a> { pub rest: Ghost<Seq<(Seq<char>, Seq<u8>)>>, pub m: &'a HeaderMap }
impl<'a> HIter<'a> {
    #[verifier::external_body]
    pub fn next(&mut self) -> (r: Option<(&'a HeaderName, &'a HeaderValue)>)
        ensures
            old(self).rest@.len() == 0 ==> r is None && final(self).rest@ == old(self).rest@,
            old(self).rest@.len() > 0 ==> (r matches Some(p) && p.0@ == old(self).rest@[0].0 && p.1@ == old(self).rest@[0].1 && final(self).rest@ == old(self).rest@.skip(1)),
    { unimplemented!() }
    // A-core-20: Iterator::fold calls f once per remaining item, in order, threading the accumulator (fold_rel below)
    #[verifier::external_body]
    pub fn fold<B, F: Fn(B, (&'a HeaderName, &'a HeaderValue)) -> B>(self, init: B, f: F) -> (r: B)
        requires forall|b: B, p: (&'a HeaderName, &'a HeaderValue)| f.requires((b, p)),
        ensures fold_rel(f, self.rest@, init, r),
    { unimplemented!() }
}
// r is a result of folding f over items presenting the pairs s, starting from init (relational: f is known by its contract)
pub open spec fn fold_rel<'a, B, F: Fn(B, (&'a HeaderName, &'a HeaderValue)) -> B>(f: F, s: Seq<(Seq<char>, Seq<u8>)>, init: B, r: B) -> bool
    decreases s.len()
{
    if s.len() == 0 { r == init } else {
        exists|k: &'a HeaderName, v: &'a HeaderValue, mid: B|
            k@ == s.last().0 && v@ == s.last().1 && fold_rel(f, s.drop_last(), init, mid) && #[trigger] f.ensures((mid, (k, v)), r)
    }
}
impl HeaderMap {
    #[verifier::external_body]
    pub fn iter(&self) -> (r: HIter<'_>) ensures r.rest@ == hmap_entries(self@) { unimplemented!() }
}
pub broadcast proof fn lemma_push_drop_last<A>(s: Seq<A>, x: A)
    ensures #[trigger] s.push(x).drop_last() == s
{ assert(s.push(x).drop_last() =~= s); }

// http::header constants used by tonic
pub mod header {
    use super::*;
    pub exec const CONTENT_TYPE: HeaderName ensures CONTENT_TYPE@ == "content-type"@ { HeaderName::from_static("content-type") }
    pub exec const TE: HeaderName ensures TE@ == "te"@ { HeaderName::from_static("te") }
    pub exec const USER_AGENT: HeaderName ensures USER_AGENT@ == "user-agent"@ { HeaderName::from_static("user-agent") }
    pub exec const ACCEPT: HeaderName ensures ACCEPT@ == "accept"@ { HeaderName::from_static("accept") }
    pub exec const CONTENT_LENGTH: HeaderName ensures CONTENT_LENGTH@ == "content-length"@ { HeaderName::from_static("content-length") }
    pub exec const ACCEPT_ENCODING: HeaderName ensures ACCEPT_ENCODING@ == "accept-encoding"@ { HeaderName::from_static("accept-encoding") }
    pub exec const TRANSFER_ENCODING: HeaderName ensures TRANSFER_ENCODING@ == "transfer-encoding"@ { HeaderName::from_static("transfer-encoding") }
    pub exec const CONTENT_ENCODING: HeaderName ensures CONTENT_ENCODING@ == "content-encoding"@ { HeaderName::from_static("content-encoding") }
    pub exec const HOST: HeaderName ensures HOST@ == "host"@ { HeaderName::from_static("host") }
    pub exec const AUTHORIZATION: HeaderName ensures AUTHORIZATION@ == "authorization"@ { HeaderName::from_static("authorization") }
}
pub mod http {
    pub use crate::{HeaderMap, HeaderName, HeaderValue};
    pub use crate::httpmsg::*;
    pub mod request { pub use crate::httpmsg::RequestParts as Parts; }
    pub mod response { pub use crate::httpmsg::ResponseParts as Parts; }
    pub mod header { pub use crate::header::*; pub use crate::{HeaderMap, HeaderName, HeaderValue}; }
}
