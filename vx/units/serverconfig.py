"""U12 — tonic/src/transport/server/mod.rs: the Server builder as a record of settings.  Every setter changes its own field
only (frame), `timeout()` stores the given value, and `layer()` — which rebuilds the struct field by field for the new
layer type — carries every setting over.  Carries C09 (the locally configured timeout that GrpcTimeout later sees is the
one the user configured)."""
from vxlib import Unit, Clause

S = 'tonic/src/transport/server/mod.rs'

SHIMS = r'''
// A-std-time-02: Duration is a plain value here (only moved/copied by the builder)
#[derive(Clone, Copy, PartialEq, Eq)]
pub struct Duration { pub secs: u64, pub sub: u32 }
// opaque configuration payloads (moved, never inspected, by the functions under contract)
pub struct TraceInterceptor { pub id: Ghost<int> }
pub struct TlsAcceptor { pub id: Ghost<int> }
pub struct Identity { }
pub struct Stack<Inner, Outer> { pub inner: Inner, pub outer: Outer }
// A-tower-05: tower::ServiceBuilder::layer wraps the stack; nothing else is part of the builder
pub struct ServiceBuilder<L> { pub layer: L }
impl<L> ServiceBuilder<L> {
    pub fn layer<T>(self, layer: T) -> (r: ServiceBuilder<Stack<T, L>>)
        ensures r.layer.inner == layer, r.layer.outer == self.layer
    { ServiceBuilder { layer: Stack { inner: layer, outer: self.layer } } }
}
'''

FIELDS = ['trace_interceptor', 'concurrency_limit', 'timeout', 'tls', 'init_stream_window_size', 'init_connection_window_size',
          'max_concurrent_streams', 'tcp_keepalive', 'tcp_nodelay', 'http2_keepalive_interval', 'http2_keepalive_timeout',
          'http2_adaptive_window', 'http2_max_pending_accept_reset_streams', 'http2_max_header_list_size', 'max_frame_size',
          'accept_http1', 'max_connection_age']

# setter -> (field it owns, value expression in terms of the parameters)
SETTERS = {
    'concurrency_limit_per_connection': ('concurrency_limit', 'Some(limit)'),
    'timeout': ('timeout', 'Some(timeout)'),
    'initial_stream_window_size': ('init_stream_window_size', None),
    'initial_connection_window_size': ('init_connection_window_size', None),
    'max_concurrent_streams': ('max_concurrent_streams', None),
    'max_connection_age': ('max_connection_age', 'Some(max_connection_age)'),
    'http2_keepalive_interval': ('http2_keepalive_interval', 'http2_keepalive_interval'),
    'http2_keepalive_timeout': ('http2_keepalive_timeout', 'match http2_keepalive_timeout { Some(t) => t, None => self.http2_keepalive_timeout }'),
    'http2_adaptive_window': ('http2_adaptive_window', 'enabled'),
    'http2_max_pending_accept_reset_streams': ('http2_max_pending_accept_reset_streams', 'max'),
    'tcp_keepalive': ('tcp_keepalive', 'tcp_keepalive'),
    'tcp_nodelay': ('tcp_nodelay', 'enabled'),
    'http2_max_header_list_size': ('http2_max_header_list_size', None),
    'max_frame_size': ('max_frame_size', None),
    'accept_http1': ('accept_http1', 'accept_http1'),
}


def frame(own):
    return ' && '.join('r.%s == self.%s' % (f, f) for f in FIELDS if f != own)


def build():
    u = Unit('serverconfig', ['C09'])
    u.prelude('base.rs')
    u.raw(SHIMS)
    u.item(S, 'struct', 'Server', edits=[lambda t: t.sub_code('R12', r'<L = Identity>', '<L>')])
    u._emit('impl<L> Server<L> {'); u._open_header = 'impl<L> Server<L> {'
    W = 'impl<L> Server<L>'
    for name, (own, val) in SETTERS.items():
        ens = [Clause('F1_every_other_setting_is_kept' if name != 'timeout' else 'F1_every_other_setting_is_kept',
                      frame(own) + ' && r.service_builder == self.service_builder')]
        if val:
            ens.append(Clause('F2_the_setting_is_stored', 'r.%s == %s' % (own, val)))
        u.fn(S, name, within=W, ensures=ens)
    u.fn(S, 'layer', within=W, ensures=[
        Clause('L1_layer_carries_every_setting_over_including_the_configured_timeout', frame(None)),
        Clause('L2_the_new_layer_wraps_the_old_stack', 'r.service_builder.layer.inner == new_layer && r.service_builder.layer.outer == self.service_builder.layer')])
    u.close('}')

    # ---- client side: tonic/src/transport/channel/endpoint.rs, the Endpoint builder (same idea: Endpoint::timeout is the
    # configured timeout that Connection::new hands to GrpcTimeout::new) ----
    E = 'tonic/src/transport/channel/endpoint.rs'
    import re
    import vxlib
    src = vxlib.read_src(E)
    u.raw('''
// opaque configuration payloads of Endpoint (moved, never inspected, by its setters)
pub struct EndpointType { pub id: Ghost<int> }
pub struct Uri { pub id: Ghost<int> }
pub struct HeaderValue { pub id: Ghost<int> }
pub struct TlsConnector { pub id: Ghost<int> }
pub struct SharedExec { pub id: Ghost<int> }
pub struct IpAddr { pub id: Ghost<int> }
''')
    u.item(E, 'struct', 'Endpoint')
    efields = re.findall(r'^\s+(?:pub(?:\(crate\))?\s+)?(\w+):', src[src.index('pub struct Endpoint {'):src.index('}', src.index('pub struct Endpoint {'))], re.M)
    setters = [(m.group(1), m.group(2)) for m in re.finditer(r'pub fn (\w+)\(self(?:, [^)]*)?\) -> Self \{\s*Endpoint \{\s*(\w+):', src)]
    u._emit('impl Endpoint {'); u._open_header = 'impl Endpoint {'
    for name, own in setters:
        keep = ' && '.join('r.%s == self.%s' % (f, f) for f in efields if f != own)
        ens = [Clause('F1_every_other_setting_is_kept', keep)]
        if name == 'timeout':
            ens.append(Clause('F2_the_configured_timeout_is_stored', 'r.timeout == Some(dur)'))
        u.fn(E, name, within='impl Endpoint', ensures=ens)
    u.close('}')
    return u
