"""U12 — tonic/src/transport/server/mod.rs: the Server builder as a record of settings.  Every setter changes its own field
only (frame), `timeout()` stores the given value, and `layer()` — which rebuilds the struct field by field for the new
layer type — carries every setting over.  Carries C09 (the locally configured timeout that GrpcTimeout later sees is the
one the user configured)."""
from vxlib import Unit, Clause

S = 'tonic/src/transport/server/mod.rs'

SHIMS = r'''
// A-std-time-02: Duration is a plain value here (only moved/copied by the builder)
#[derive(Clone, Copy, PartialEq, Eq)]
pub struct Duration { pub secs: u64, pub sub: u32 }
// opaque configuration payloads (moved, never inspected, by the functions under contract)
pub struct TraceInterceptor { pub id: Ghost<int> }
pub struct TlsAcceptor { pub id: Ghost<int> }
pub struct Identity { }
// A-tonic-link-30: ServerTlsConfig::tls_acceptor / ClientTlsConfig::into_tls_connector build the acceptor / connector the
// configuration describes: under contract in unit tls (S3, S4 / T1-T3); here opaque functions of the configuration
pub struct BoxError { pub id: Ghost<int> }
pub struct ServerTlsConfig { pub id: Ghost<int> }
pub uninterp spec fn acceptor_of(c: ServerTlsConfig) -> Option<TlsAcceptor>;
impl ServerTlsConfig {
    #[verifier::external_body]
    pub fn tls_acceptor(&self) -> (r: Result<TlsAcceptor, BoxError>) ensures r is Ok <==> acceptor_of(*self) is Some, r matches Ok(a) ==> Some(a) == acceptor_of(*self) { unimplemented!() }
}
// tonic::transport::Error as far as the builders make it (error.rs: kind + source; not under contract)
pub mod error { pub enum Kind { Transport, InvalidUri, InvalidUserAgent, InvalidTlsConfigForUds } }
pub struct Error { pub kind: error::Kind }
impl Error {
    pub fn new(kind: error::Kind) -> (r: Error) ensures r.kind == kind { Error { kind } }
    pub fn from_source(source: BoxError) -> (r: Error) ensures r.kind is Transport { Error { kind: error::Kind::Transport } }
}
pub exec const DEFAULT_HTTP2_KEEPALIVE_TIMEOUT: Duration ensures DEFAULT_HTTP2_KEEPALIVE_TIMEOUT.secs == 20 { Duration { secs: 20, sub: 0 } }
impl<L: Default> Default for ServiceBuilder<L> { fn default() -> (r: Self) { ServiceBuilder { layer: L::default() } } }
impl Default for Identity { fn default() -> (r: Self) { Identity { } } }
pub struct Stack<Inner, Outer> { pub inner: Inner, pub outer: Outer }
// A-tower-05: tower::ServiceBuilder::layer wraps the stack; nothing else is part of the builder
pub struct ServiceBuilder<L> { pub layer: L }
impl<L> ServiceBuilder<L> {
    pub fn layer<T>(self, layer: T) -> (r: ServiceBuilder<Stack<T, L>>)
        ensures r.layer.inner == layer, r.layer.outer == self.layer
    { ServiceBuilder { layer: Stack { inner: layer, outer: self.layer } } }
}
'''

FIELDS = ['trace_interceptor', 'concurrency_limit', 'timeout', 'tls', 'init_stream_window_size', 'init_connection_window_size',
          'max_concurrent_streams', 'tcp_keepalive', 'tcp_nodelay', 'http2_keepalive_interval', 'http2_keepalive_timeout',
          'http2_adaptive_window', 'http2_max_pending_accept_reset_streams', 'http2_max_header_list_size', 'max_frame_size',
          'accept_http1', 'max_connection_age']

# setter -> (field it owns, value expression in terms of the parameters)
SETTERS = {
    'concurrency_limit_per_connection': ('concurrency_limit', 'Some(limit)'),
    'timeout': ('timeout', 'Some(timeout)'),
    'initial_stream_window_size': ('init_stream_window_size', None),
    'initial_connection_window_size': ('init_connection_window_size', None),
    'max_concurrent_streams': ('max_concurrent_streams', None),
    'max_connection_age': ('max_connection_age', 'Some(max_connection_age)'),
    'http2_keepalive_interval': ('http2_keepalive_interval', 'http2_keepalive_interval'),
    'http2_keepalive_timeout': ('http2_keepalive_timeout', 'match http2_keepalive_timeout { Some(t) => t, None => self.http2_keepalive_timeout }'),
    'http2_adaptive_window': ('http2_adaptive_window', 'enabled'),
    'http2_max_pending_accept_reset_streams': ('http2_max_pending_accept_reset_streams', 'max'),
    'tcp_keepalive': ('tcp_keepalive', 'tcp_keepalive'),
    'tcp_nodelay': ('tcp_nodelay', 'enabled'),
    'http2_max_header_list_size': ('http2_max_header_list_size', None),
    'max_frame_size': ('max_frame_size', None),
    'accept_http1': ('accept_http1', 'accept_http1'),
}


def frame(own):
    return ' && '.join('r.%s == self.%s' % (f, f) for f in FIELDS if f != own)


def build():
    u = Unit('serverconfig', ['C09'])
    u.prelude('base.rs')
    u.raw(SHIMS)
    u.item(S, 'struct', 'Server', edits=[lambda t: t.sub_code('R12', r'<L = Identity>', '<L>')])
    u._emit('impl<L> Server<L> {'); u._open_header = 'impl<L> Server<L> {'
    W = 'impl<L> Server<L>'
    for name, (own, val) in SETTERS.items():
        ens = [Clause('F1_every_other_setting_is_kept' if name != 'timeout' else 'F1_every_other_setting_is_kept',
                      frame(own) + ' && r.service_builder == self.service_builder')]
        if val:
            ens.append(Clause('F2_the_setting_is_stored', 'r.%s == %s' % (own, val)))
        u.fn(S, name, within=W, ensures=ens)
    u.fn(S, 'tls_config', within=W, props=['C15'], display='Server::tls_config',
         body_edits=[lambda t: t.sub_code('R3', r'\.map_err\(Error::from_source\)', '.map_err(|e| Error::from_source(e))')],
         closures={0: dict(params='e: BoxError', ret='(x: Error)', ensures=['x.kind is Transport'])},
         ensures=[Clause('T1_the_server_accepts_with_the_acceptor_the_configuration_describes_every_other_setting_kept',
                         'r matches Ok(s) ==> s.tls == acceptor_of(tls_config) && s.tls is Some && ' + ' && '.join('s.%s == self.%s' % (f, f) for f in FIELDS if f != 'tls') + ' && s.service_builder == self.service_builder', ['C15']),
                  Clause('T2_a_configuration_that_yields_no_acceptor_is_an_error_not_a_server_without_tls', 'acceptor_of(tls_config) is None ==> r is Err', ['C15'])])
    u.fn(S, 'layer', within=W, ensures=[
        Clause('L1_layer_carries_every_setting_over_including_the_configured_timeout', frame(None)),
        Clause('L2_the_new_layer_wraps_the_old_stack', 'r.service_builder.layer.inner == new_layer && r.service_builder.layer.outer == self.service_builder.layer')])
    u.close('}')
    u.fn(S, 'default', within='impl Default for Server<Identity>', header='impl Default for Server<Identity> {', close=True, display='Server::default', vacuity=False,
         ensures=[Clause('D1_a_fresh_server_has_no_timeout_no_tls_and_no_limits', 'r.timeout is None && r.tls is None && r.concurrency_limit is None && r.max_connection_age is None && !r.accept_http1')])
    u.fn(S, 'builder', within='impl Server', header='impl Server<Identity> {', close=True, display='Server::builder',
         ensures=[Clause('D2_the_builder_starts_without_timeout_and_without_tls', 'r.timeout is None && r.tls is None && r.concurrency_limit is None && !r.accept_http1')])

    # ---- client side: tonic/src/transport/channel/endpoint.rs, the Endpoint builder (same idea: Endpoint::timeout is the
    # configured timeout that Connection::new hands to GrpcTimeout::new) ----
    E = 'tonic/src/transport/channel/endpoint.rs'
    import re
    import vxlib
    src = vxlib.read_src(E)
    u.raw('''
// opaque configuration payloads of Endpoint (moved, never inspected, by its setters)
pub struct Uri { pub id: Ghost<int> }
impl Clone for Uri { #[verifier::external_body] fn clone(&self) -> (r: Self) ensures r == *self { unimplemented!() } }
impl Uri { #[verifier::external_body] pub fn from_static(s: &'static str) -> (r: Uri) { unimplemented!() } }
pub struct ClientTlsConfig { pub id: Ghost<int> }
pub uninterp spec fn connector_of(c: ClientTlsConfig, u: Uri) -> Option<TlsConnector>;
impl ClientTlsConfig {
    #[verifier::external_body]
    pub fn into_tls_connector(self, uri: &Uri) -> (r: Result<TlsConnector, BoxError>) ensures r is Ok <==> connector_of(self, *uri) is Some, r matches Ok(c) ==> Some(c) == connector_of(self, *uri) { unimplemented!() }
}
impl Clone for TlsConnector { #[verifier::external_body] fn clone(&self) -> (r: Self) ensures r == *self { unimplemented!() } }
pub mod service {
    use super::*;
    // A-tonic-link-31: Connector::new stores the TLS option it is given: under contract in unit tls (Y0)
    pub struct Connector<C> { pub inner: C, pub tls: Option<TlsConnector> }
    impl<C> Connector<C> { #[verifier::external_body] pub fn new(inner: C, tls: Option<TlsConnector>) -> (r: Self) ensures r.inner == inner, r.tls == tls { unimplemented!() } }
}
impl SharedExec { #[verifier::external_body] pub fn tokio() -> (r: SharedExec) { unimplemented!() } }
#[verifier::external_body]
pub fn verif_to_string(s: &str) -> (r: String) ensures r@ == s@ { unimplemented!() }
pub struct HeaderValue { pub id: Ghost<int> }
pub struct TlsConnector { pub id: Ghost<int> }
pub struct SharedExec { pub id: Ghost<int> }
pub struct IpAddr { pub id: Ghost<int> }
''')
    u.item(E, 'enum', 'EndpointType')
    u.item(E, 'struct', 'Endpoint')
    efields = re.findall(r'^\s+(?:pub(?:\(crate\))?\s+)?(\w+):', src[src.index('pub struct Endpoint {'):src.index('}', src.index('pub struct Endpoint {'))], re.M)
    setters = [(m.group(1), m.group(2)) for m in re.finditer(r'pub fn (\w+)\(self(?:, [^)]*)?\) -> Self \{\s*Endpoint \{\s*(\w+):', src)]
    u._emit('impl Endpoint {'); u._open_header = 'impl Endpoint {'
    for name, own in setters:
        keep = ' && '.join('r.%s == self.%s' % (f, f) for f in efields if f != own)
        ens = [Clause('F1_every_other_setting_is_kept', keep)]
        if name == 'timeout':
            ens.append(Clause('F2_the_configured_timeout_is_stored', 'r.timeout == Some(dur)'))
        u.fn(E, name, within='impl Endpoint', ensures=ens)
    ekeep = lambda me, own: ' && '.join('%s.%s == self.%s' % (me, f, f) for f in efields if f != own)
    u.fn(E, 'tls_config', within='impl Endpoint', props=['C15'], display='Endpoint::tls_config',
         body_edits=[lambda t: t.sub_code('R3', r'\.map_err\(Error::from_source\)', '.map_err(|e| Error::from_source(e))')],
         closures={0: dict(params='e: BoxError', ret='(x: Error)', ensures=['x.kind is Transport'])},
         ensures=[Clause('T3_the_endpoint_connects_with_the_connector_the_configuration_describes_for_its_uri_every_other_setting_kept',
                         'r matches Ok(e) ==> (self.uri matches EndpointType::Uri(u) && e.tls == connector_of(tls_config, u) && e.tls is Some && %s)' % ekeep('e', 'tls'), ['C15']),
                  Clause('T4_no_connector_or_a_unix_socket_endpoint_is_an_error_not_an_endpoint_without_tls',
                         '(self.uri is Uds || (self.uri matches EndpointType::Uri(u) && connector_of(tls_config, u) is None)) ==> r is Err', ['C15'])])
    u.fn(E, 'connector', within='impl Endpoint', props=['C15'], display='Endpoint::connector',
         ensures=[Clause('T5_the_connector_gets_the_tls_configuration_of_the_endpoint', 'r.tls == self.tls && r.inner == c', ['C15'])])
    for nm in ('new_uri', 'new_uds'):
        u.fn(E, nm, within='impl Endpoint', display='Endpoint::' + nm, body_edits=[lambda t: t.sub_code('R17', r'uds_filepath\.to_string\(\)', 'verif_to_string(uds_filepath)')],
             ensures=[Clause('D3_a_fresh_endpoint_has_no_timeout_and_no_tls', 'r.timeout is None && r.tls is None && r.concurrency_limit is None && r.connect_timeout is None', ['C09', 'C15'])])
    u.close('}')
    return u
