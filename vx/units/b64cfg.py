"""U22 — tonic/src/util.rs: the two base64 engines tonic uses.  STANDARD pads what it encodes, STANDARD_NO_PAD does not, and both
accept padded and unpadded input (DecodePaddingMode::Indifferent) over the standard alphabet.  This is the configuration the
base64 assumption of the other units (A-b64-01) speaks about; here the real constants are checked against it.  Carries the
configuration half of C08 ("restored whether or not the peer pads them") and C04 (details are written unpadded)."""
from vxlib import Unit, Clause

U = 'tonic/src/util.rs'

SHIMS = r'''
// ---- the base64 crate's engine configuration as a record (A-b64-02: GeneralPurposeConfig::new() is {pad on encode, canonical
// padding required on decode}; the with_* methods set one field) ----
pub mod alphabet {
    pub struct Alphabet { pub standard: bool }
    pub const STANDARD: Alphabet = Alphabet { standard: true };
    pub const URL_SAFE: Alphabet = Alphabet { standard: false };
}
#[derive(PartialEq, Eq, Clone, Copy, Structural)]
pub enum DecodePaddingMode { Indifferent, RequireCanonical, RequireNone }
#[derive(Clone, Copy)]
pub struct GeneralPurposeConfig { pub encode_padding: bool, pub decode_padding_mode: DecodePaddingMode }
impl GeneralPurposeConfig {
    pub const fn new() -> (r: Self) ensures r.encode_padding && r.decode_padding_mode == DecodePaddingMode::RequireCanonical
    { GeneralPurposeConfig { encode_padding: true, decode_padding_mode: DecodePaddingMode::RequireCanonical } }
    pub const fn with_encode_padding(self, padding: bool) -> (r: Self) ensures r.encode_padding == padding && r.decode_padding_mode == self.decode_padding_mode
    { GeneralPurposeConfig { encode_padding: padding, decode_padding_mode: self.decode_padding_mode } }
    pub const fn with_decode_padding_mode(self, mode: DecodePaddingMode) -> (r: Self) ensures r.decode_padding_mode == mode && r.encode_padding == self.encode_padding
    { GeneralPurposeConfig { encode_padding: self.encode_padding, decode_padding_mode: mode } }
}
pub struct GeneralPurpose { pub standard_alphabet: bool, pub config: GeneralPurposeConfig }
impl GeneralPurpose {
    pub const fn new(alphabet: &alphabet::Alphabet, config: GeneralPurposeConfig) -> (r: Self) ensures r.standard_alphabet == alphabet.standard && r.config == config
    { GeneralPurpose { standard_alphabet: alphabet.standard, config } }
}
'''


def build():
    # the engines of tonic/src/util.rs code status details and binary metadata: every property that relies on those headers relies on them
    u = Unit('b64cfg', ['C08', 'C04', 'C02', 'C03', 'C12', 'C20'])
    u.prelude('base.rs')
    u.raw(SHIMS)
    u.exec_const(U, 'STANDARD', indent='', ensures=[
        Clause('B1_the_padding_engine_pads_and_accepts_padded_and_unpadded_input',
               'STANDARD.standard_alphabet && STANDARD.config.encode_padding && STANDARD.config.decode_padding_mode == DecodePaddingMode::Indifferent')])
    u.exec_const(U, 'STANDARD_NO_PAD', indent='', ensures=[
        Clause('B2_the_unpadded_engine_does_not_pad_and_accepts_padded_and_unpadded_input',
               'STANDARD_NO_PAD.standard_alphabet && !STANDARD_NO_PAD.config.encode_padding && STANDARD_NO_PAD.config.decode_padding_mode == DecodePaddingMode::Indifferent')])
    # tonic-web keeps its own copy of the padding engine (grpc-web-text bodies: C16 / C17)
    u._emit('pub mod web {\nuse super::*;')
    u.exec_const('tonic-web/src/lib.rs', 'STANDARD', indent='', props=['C16', 'C17'], ensures=[
        Clause('B3_the_grpc_web_text_engine_pads_and_accepts_padded_and_unpadded_input',
               'STANDARD.standard_alphabet && STANDARD.config.encode_padding && STANDARD.config.decode_padding_mode == DecodePaddingMode::Indifferent', ['C16', 'C17'])])
    u._emit('}')
    return u
