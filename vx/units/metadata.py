"""U5b — tonic/src/metadata/{encoding,key,value,map}.rs: key validity (ascii vs -bin partition), value coding
(binary values are base64 on the wire and come back as the original bytes, padded or not), typed accessors and the iterator
never cross the partition, insert/append keep per-key order.  Carries C08."""
from vxlib import Unit, Clause
from units import common, mdentry

EN = 'tonic/src/metadata/encoding.rs'
KY = 'tonic/src/metadata/key.rs'
VL = 'tonic/src/metadata/value.rs'
MP = 'tonic/src/metadata/map.rs'

TRAITS = r'''
// `-bin` suffix: the partition of metadata keys stated by the gRPC spec and the property.  A key given as text denotes the
// entry stored under its lower-case form (header names are case-insensitive), so its side is that of the lower-case form
pub open spec fn ends_with_spec(s: Seq<char>, p: Seq<char>) -> bool { s.len() >= p.len() && s.skip(s.len() - p.len()) == p }
pub open spec fn is_bin_key(k: Seq<char>) -> bool { ends_with_spec(k, "-bin"@) }
// A-std-str-03 (R17): str::ends_with(&str) (generic over the unstable Pattern trait, so it is called through this shim)
#[verifier::external_body]
pub fn verif_str_ends_with(s: &str, pat: &str) -> (r: bool) ensures r == ends_with_spec(s@, pat@) { unimplemented!() }

// The two sealed traits of encoding.rs, DECLARED here with spec functions added (the method lists mirror the source;
// the impl bodies below are extracted verbatim from /repo).
#[derive(Debug)]
pub struct InvalidMetadataValue { pub _priv: () }
#[derive(Debug)]
pub struct InvalidMetadataValueBytes(pub InvalidMetadataValue);
impl InvalidMetadataValue { pub fn new() -> (r: Self) { InvalidMetadataValue { _priv: () } } }
impl InvalidMetadataValueBytes { pub fn new() -> (r: Self) { InvalidMetadataValueBytes(InvalidMetadataValue::new()) } }
#[derive(Debug)]
pub struct InvalidMetadataKey { pub _priv: () }
impl InvalidMetadataKey { pub fn new() -> (r: Self) { InvalidMetadataKey { _priv: () } } }
pub mod value_encoding {
    use crate::*;
    pub trait Sealed {
        // what a value looks like on the wire / what a wire value denotes
        spec fn enc(v: Seq<u8>) -> Seq<u8>;
        spec fn dec(h: Seq<u8>) -> Option<Seq<u8>>;
        fn from_bytes(value: &[u8]) -> (r: Result<HeaderValue, InvalidMetadataValueBytes>)
            ensures r matches Ok(h) ==> h@ == Self::enc(value@), r is Ok <==> legal_value(Self::enc(value@));
        fn decode(value: &[u8]) -> (r: Result<Bytes, InvalidMetadataValueBytes>)
            ensures r matches Ok(b) ==> Self::dec(value@) == Some(b@), r is Err <==> Self::dec(value@) is None;
        // an owned buffer is coded like a borrowed one
        fn from_shared(value: Bytes) -> (r: Result<HeaderValue, InvalidMetadataValueBytes>)
            ensures r matches Ok(h) ==> h@ == Self::enc(value@), r is Ok <==> legal_value(Self::enc(value@));
        fn is_empty(value: &[u8]) -> (r: bool);
        fn equals(a: &HeaderValue, b: &[u8]) -> (r: bool);
        // two wire values are the same metadata value exactly when they denote the same bytes (or both denote none)
        fn values_equal(a: &HeaderValue, b: &HeaderValue) -> (r: bool)
            ensures r == (Self::dec(a@) == Self::dec(b@));
    }
}
pub trait ValueEncoding: value_encoding::Sealed {
    spec fn valid_key(key: Seq<char>) -> bool;
    // the side of a key does not depend on how its letters are cased (each encoding proves it of its own rule)
    proof fn law_case(key: Seq<char>) ensures Self::valid_key(key) == Self::valid_key(lower(key));
    fn is_valid_key(key: &str) -> (r: bool) ensures r == Self::valid_key(key@);
}
impl HeaderValue {
    // A-http-16: HeaderValue::from_bytes accepts exactly the legal byte strings
    #[verifier::external_body]
    pub fn from_bytes(src: &[u8]) -> (r: Result<HeaderValue, InvalidHeaderValue>)
        ensures r is Ok <==> legal_value(src@), r matches Ok(v) ==> v@ == src@
    { unimplemented!() }
}
impl HeaderName {
    // A-http-17: HeaderName::from_bytes normalises (lower-cases) a valid name, rejects anything else
    pub uninterp spec fn parse(src: Seq<u8>) -> Option<Seq<char>>;
    #[verifier::external_body]
    pub fn from_bytes(src: &[u8]) -> (r: Result<HeaderName, InvalidHeaderName>)
        ensures r is Ok <==> HeaderName::parse(src@) is Some, r matches Ok(n) ==> Some(n@) == HeaderName::parse(src@)
    { unimplemented!() }
}
pub struct InvalidHeaderName { pub x: u8 }
impl Bytes {
    // A-bytes-24: Bytes::from(String) / copy_from_slice / Vec<u8>::into keep the bytes
    #[verifier::external_body]
    pub fn copy_from_slice(s: &[u8]) -> (r: Bytes) ensures r@ == s@ { unimplemented!() }
    #[verifier::external_body]
    pub fn as_ref(&self) -> (r: &[u8]) ensures r@ == self@ { unimplemented!() }
}
pub use core::marker::PhantomData;
// A-core-42: slice equality is equality of the contents (R17: `a == b` on byte slices / vectors goes through these)
#[verifier::external_body]
pub fn verif_slice_eq(a: &[u8], b: &[u8]) -> (r: bool) ensures r == (a@ == b@) { a == b }
// A-http-19 / A-bytes-25: `==` on HeaderValue / Bytes compares the bytes
impl vstd::std_specs::cmp::PartialEqSpecImpl for HeaderValue { open spec fn obeys_eq_spec() -> bool { true } open spec fn eq_spec(&self, other: &HeaderValue) -> bool { self@ == other@ } }
impl PartialEq for HeaderValue { #[verifier::external_body] fn eq(&self, other: &HeaderValue) -> (r: bool) { unimplemented!() } }
impl vstd::std_specs::cmp::PartialEqSpecImpl for Bytes { open spec fn obeys_eq_spec() -> bool { true } open spec fn eq_spec(&self, other: &Bytes) -> bool { self@ == other@ } }
impl PartialEq for Bytes { #[verifier::external_body] fn eq(&self, other: &Bytes) -> (r: bool) { unimplemented!() } }
impl HeaderValue {
    // A-http-18: HeaderValue::from_str accepts exactly the texts whose UTF-8 bytes are visible ASCII / tab / obs-text
    #[verifier::external_body]
    pub fn from_str(s: &str) -> (r: Result<HeaderValue, InvalidHeaderValue>)
        ensures r is Ok <==> legal_value(vstd::utf8::encode_utf8(s@)), r matches Ok(v) ==> v@ == vstd::utf8::encode_utf8(s@)
    { unimplemented!() }
}
// the byte-level suffix test of Binary::is_valid_key
pub open spec fn lower_byte(b: u8) -> u8 { if 65 <= b && b <= 90 { (b + 32) as u8 } else { b } }
pub open spec fn lower_bytes(s: Seq<u8>) -> Seq<u8> { s.map_values(|b: u8| lower_byte(b)) }
// A-core-41: <[u8]>::eq_ignore_ascii_case: equal after ASCII lower-casing of both sides
pub assume_specification[ <[u8]>::eq_ignore_ascii_case ](a: &[u8], b: &[u8]) -> (r: bool)
    ensures r == (lower_bytes(a@) == lower_bytes(b@));
// R15: a byte-string literal (A-lit-01: its bytes are those of the ASCII text)
#[verifier::external_body]
pub fn verif_bytes_lit(s: &'static str) -> (r: &'static [u8]) ensures r@ == ascii_bytes(s@) { unimplemented!() }
// UTF-8 is self-synchronising (an ASCII byte never occurs inside a multi-byte character): the encoding of a text ends with the
// bytes of an ASCII word, compared ignoring ASCII case, exactly when the text ends with that word ignoring case.  PROVED here
// from vstd's UTF-8 theory (encode_utf8_push, encode_scalar) by induction on the word - it used to be an assumption (A-utf8-01)
pub open spec fn is_ascii_word(w: Seq<char>) -> bool { forall|i: int| 0 <= i < w.len() ==> (#[trigger] w[i] as u32) < 128 }
pub open spec fn bytes_end(b: Seq<u8>, wb: Seq<u8>) -> bool { b.len() >= wb.len() && lower_bytes(b.skip(b.len() - wb.len())) == lower_bytes(wb) }
use vstd::utf8::{encode_utf8, encode_scalar, encode_utf8_push};
proof fn lemma_scalar_last(c: char)
    ensures
        encode_scalar(c as u32).len() >= 1,
        (c as u32) < 128 ==> encode_scalar(c as u32) =~= seq![c as u8],
        (c as u32) >= 128 ==> encode_scalar(c as u32).last() >= 128,
{
    let x = c as u32;
    let e = encode_scalar(x);
    if x < 128 {
        assert(e.len() == 1);
        assert(e[0] == (x & 0x7f) as u8);
        assert((x & 0x7f) == x) by (bit_vector) requires x < 128;
    } else if x < 0x800 {
        assert(e.len() == 2);
        assert(e[1] == 0x80u8 | ((x & 0x3f) as u8));
        let y = (x & 0x3f) as u8;
        assert((0x80u8 | y) >= 128) by (bit_vector);
    } else if x < 0x10000 {
        assert(e.len() == 3);
        assert(e[2] == 0x80u8 | ((x & 0x3f) as u8));
        let y = (x & 0x3f) as u8;
        assert((0x80u8 | y) >= 128) by (bit_vector);
    } else {
        assert(e.len() == 4);
        assert(e[3] == 0x80u8 | ((x & 0x3f) as u8));
        let y = (x & 0x3f) as u8;
        assert((0x80u8 | y) >= 128) by (bit_vector);
    }
}
// ASCII characters and their bytes lower-case alike
proof fn lemma_lower_ascii(c: char, d: char)
    requires (c as u32) < 128, (d as u32) < 128
    ensures
        lower_byte(c as u8) == lower_char(c) as u8,
        (lower_byte(c as u8) == lower_byte(d as u8)) <==> (lower_char(c) == lower_char(d)),
        (lower_char(c) as u32) < 128,
{
}
proof fn lemma_lower_char_ascii(c: char)
    ensures (lower_char(c) as u32) < 128 ==> (c as u32) < 128, lower_byte(200u8) == 200u8
{
}
proof fn lemma_empty()
    ensures encode_utf8(Seq::<char>::empty()) =~= Seq::<u8>::empty()
{
}

pub proof fn lemma_ascii_suffix_utf8(s: Seq<char>, w: Seq<char>)
    requires is_ascii_word(w)
    ensures bytes_end(encode_utf8(s), ascii_bytes(w)) <==> ends_with_spec(lower(s), lower(w))
    decreases w.len()
{
    let b = encode_utf8(s);
    let wb = ascii_bytes(w);
    let n = w.len() as int;
    if n == 0 {
        assert(b.skip(b.len() as int) =~= Seq::<u8>::empty());
        assert(lower_bytes(Seq::<u8>::empty()) =~= lower_bytes(wb));
        assert(lower(s).skip(lower(s).len() as int) =~= lower(w));
    } else if s.len() == 0 {
        lemma_empty();
        assert(s =~= Seq::<char>::empty());
    } else {
        let s1 = s.drop_last(); let cs = s.last();
        let w1 = w.drop_last(); let cw = w.last();
        assert(s =~= s1.push(cs));
        assert(w =~= w1.push(cw));
        encode_utf8_push(s1, cs);
        let b1 = encode_utf8(s1);
        let e = encode_scalar(cs as u32);
        assert(b == b1 + e);
        lemma_scalar_last(cs);
        lemma_ascii_suffix_utf8(s1, w1);
        let wb1 = ascii_bytes(w1);
        assert(wb =~= wb1.push(cw as u8));
        assert((cw as u32) < 128);
        lemma_lower_char_ascii(cs);
        // left to right
        if bytes_end(b, wb) {
            let t = b.skip(b.len() - n);
            assert(lower_bytes(t).last() == lower_bytes(wb).last());
            assert(lower_bytes(t).last() == lower_byte(t.last()));
            assert(t.last() == b.last());
            assert(b.last() == e.last());
            assert(lower_bytes(wb).last() == lower_byte(cw as u8));
            lemma_lower_ascii(cw, cw);
            assert(lower_byte(cw as u8) < 128);
            assert(lower_byte(e.last()) < 128);
            assert(e.last() < 128);
            assert((cs as u32) < 128);
            assert(e =~= seq![cs as u8]);
            assert(b =~= b1.push(cs as u8));
            assert(b1.len() >= n - 1);
            assert(b1.skip(b1.len() - (n - 1)) =~= t.drop_last());
            assert(lower_bytes(t.drop_last()) =~= lower_bytes(t).drop_last());
            assert(lower_bytes(wb1) =~= lower_bytes(wb).drop_last());
            assert(bytes_end(b1, wb1));
            assert(ends_with_spec(lower(s1), lower(w1)));
            lemma_lower_ascii(cs, cw);
            assert(lower_char(cs) == lower_char(cw));
            assert(lower(s) =~= lower(s1).push(lower_char(cs)));
            assert(lower(w) =~= lower(w1).push(lower_char(cw)));
            assert(lower(s).skip(lower(s).len() - n) =~= lower(s1).skip(lower(s1).len() - (n - 1)).push(lower_char(cs)));
            assert(ends_with_spec(lower(s), lower(w)));
        }
        // right to left
        if ends_with_spec(lower(s), lower(w)) {
            assert(lower(s) =~= lower(s1).push(lower_char(cs)));
            assert(lower(w) =~= lower(w1).push(lower_char(cw)));
            let u = lower(s).skip(lower(s).len() - n);
            assert(u.last() == lower(w).last());
            assert(u.last() == lower_char(cs));
            assert(lower(w).last() == lower_char(cw));
            lemma_lower_ascii(cw, cw);
            assert((lower_char(cs) as u32) < 128);
            assert((cs as u32) < 128);
            assert(e =~= seq![cs as u8]);
            assert(b =~= b1.push(cs as u8));
            assert(lower(s1).skip(lower(s1).len() - (n - 1)) =~= u.drop_last());
            assert(lower(w1) =~= lower(w).drop_last());
            assert(ends_with_spec(lower(s1), lower(w1)));
            assert(bytes_end(b1, wb1));
            lemma_lower_ascii(cs, cw);
            assert(lower_byte(cs as u8) == lower_byte(cw as u8));
            let t = b.skip(b.len() - n);
            assert(t =~= b1.skip(b1.len() - (n - 1)).push(cs as u8));
            assert(lower_bytes(t) =~= lower_bytes(b1.skip(b1.len() - (n - 1))).push(lower_byte(cs as u8)));
            assert(lower_bytes(wb) =~= lower_bytes(wb1).push(lower_byte(cw as u8)));
            assert(bytes_end(b, wb));
        }
    }
}

'''

KEYSPEC = r'''
impl<VE: ValueEncoding> MetadataKey<VE> {
    // representation invariant of a typed key: its name belongs to its encoding's side of the partition
    pub open spec fn wf(&self) -> bool { VE::valid_key(self.inner@) }
    // A-tonic-unsafe-01: the repr(transparent) pointer casts HeaderName <-> MetadataKey, HeaderValue <-> MetadataValue
    #[verifier::external_body]
    pub fn unchecked_from_header_name_ref(header_name: &HeaderName) -> (r: &Self) ensures r.inner@ == header_name@ { unimplemented!() }
}
impl<VE: ValueEncoding> MetadataValue<VE> {
    #[verifier::external_body]
    pub fn unchecked_from_header_value_ref(header_value: &HeaderValue) -> (r: &Self) ensures r.inner@ == header_value@ { unimplemented!() }
}
// C08, binary half: whatever bytes a handler attaches come back as the same bytes, whether the peer pads base64 or not
pub proof fn lemma_binary_value_roundtrip(v: Seq<u8>, pad: bool)
    ensures
        <Binary as value_encoding::Sealed>::dec(<Binary as value_encoding::Sealed>::enc(v)) == Some(v),
        <Binary as value_encoding::Sealed>::dec(b64_enc(pad, v)) == Some(v),
        <Ascii as value_encoding::Sealed>::dec(<Ascii as value_encoding::Sealed>::enc(v)) == Some(v),
{
    broadcast use axiom_b64_roundtrip;
}
// the partition (C08): no key is on both sides
pub proof fn lemma_partition(k: Seq<char>)
    ensures <Ascii as ValueEncoding>::valid_key(k) <==> !<Binary as ValueEncoding>::valid_key(k)
{}
'''

MAPSHIM = r'''
// A-http-30: HeaderMap::get_all(name) is a view of every value of the name, in insertion order; its iterator yields them in
// that order (ghost sequences of what is there / still to come)
pub open spec fn values_at(m: HMap, k: Seq<char>) -> Seq<Seq<u8>> { if m.contains_key(k) { m[k] } else { Seq::<Seq<u8>>::empty() } }
pub struct HGetAll<'a> { pub vals: Ghost<Seq<Seq<u8>>>, pub m: &'a HeaderMap }
pub struct HValueIter<'a> { pub rest: Ghost<Seq<Seq<u8>>>, pub m: &'a HeaderMap }
impl HeaderMap {
    #[verifier::external_body]
    pub fn get_all<K: AsHeaderName>(&self, k: K) -> (r: HGetAll<'_>) ensures r.vals@ == values_at(self@, k.hname()) { unimplemented!() }
}
impl HeaderMap {
    // A-http-31: get_mut hands out the first value of the name; iter_mut yields every (name, value) pair once, in order
    #[verifier::external_body]
    pub fn get_mut<K: AsHeaderName>(&mut self, k: K) -> (r: Option<&mut HeaderValue>)
        ensures r is Some <==> old(self)@.contains_key(k.hname()), r matches Some(v) ==> old(self)@[k.hname()].len() > 0 && (*v)@ == old(self)@[k.hname()][0]
    { unimplemented!() }
}
pub struct HIterMut<'a> { pub rest: Ghost<Seq<(Seq<char>, Seq<u8>)>>, pub m: &'a mut HeaderMap }
impl<'a> HIterMut<'a> {
    #[verifier::external_body]
    pub fn next(&mut self) -> (r: Option<(&'a HeaderName, &'a mut HeaderValue)>)
        ensures
            old(self).rest@.len() == 0 ==> r is None && final(self).rest@ == old(self).rest@,
            old(self).rest@.len() > 0 ==> (r matches Some(p) && p.0@ == old(self).rest@[0].0 && (*p.1)@ == old(self).rest@[0].1 && final(self).rest@ == old(self).rest@.skip(1)),
    { unimplemented!() }
}
impl<VE: ValueEncoding> MetadataValue<VE> {
    // A-tonic-unsafe-01 (as for the shared-reference twin): the repr(transparent) cast of a mutable header value
    #[verifier::external_body]
    pub fn unchecked_from_mut_header_value_ref(header_value: &mut HeaderValue) -> (r: &mut Self) ensures (*r).inner@ == (*old(header_value))@, (*final(header_value))@ == (*final(r)).inner@ { unimplemented!() }
}
impl<'a> HGetAll<'a> {
    #[verifier::external_body]
    pub fn iter(&self) -> (r: HValueIter<'a>) ensures r.rest@ == self.vals@ { unimplemented!() }
}
impl<'a> HValueIter<'a> {
    #[verifier::external_body]
    pub fn next(&mut self) -> (r: Option<&'a HeaderValue>)
        ensures
            old(self).rest@.len() == 0 ==> r is None && final(self).rest@ == old(self).rest@,
            old(self).rest@.len() > 0 ==> (r matches Some(v) && v@ == old(self).rest@[0] && final(self).rest@ == old(self).rest@.skip(1)),
    { unimplemented!() }
}
pub mod as_metadata_key {
    use crate::*;
    // declared with its spec function; `key_name` is the header name the key denotes
    pub trait Sealed<VE: ValueEncoding>: Sized {
        // the (lower-case) name the key denotes; whether the key passes the check made for it; the representation invariant
        // of a typed key (a MetadataKey<VE> holds a name of VE's side: established by every public constructor, K1 / K3)
        spec fn key_name(&self) -> Seq<char>;
        spec fn key_ok(&self) -> bool;
        spec fn key_inv(&self) -> bool;
        fn get(self, map: &MetadataMap) -> (r: Option<&MetadataValue<VE>>)
            requires self.key_inv()
            ensures
                r is Some ==> self.key_ok() && VE::valid_key(self.key_name()) && map.headers@.contains_key(self.key_name()),
                r matches Some(v) ==> v.inner@ == map.headers@[self.key_name()][0],
                r is None ==> !self.key_ok() || !map.headers@.contains_key(self.key_name());
        fn remove(self, map: &mut MetadataMap) -> (r: Option<MetadataValue<VE>>)
            requires self.key_inv()
            ensures
                self.key_ok() ==> final(map).headers@ == old(map).headers@.remove(self.key_name()),
                !self.key_ok() ==> final(map).headers@ == old(map).headers@ && r is None,
                !VE::valid_key(self.key_name()) ==> final(map).headers@ == old(map).headers@ && r is None;
        fn get_mut(self, map: &mut MetadataMap) -> (r: Option<&mut MetadataValue<VE>>)
            requires self.key_inv()
            ensures
                r is Some ==> self.key_ok() && VE::valid_key(self.key_name()) && old(map).headers@.contains_key(self.key_name()),
                r matches Some(v) ==> (*v).inner@ == old(map).headers@[self.key_name()][0],
                r is None ==> !self.key_ok() || !old(map).headers@.contains_key(self.key_name());
        // every value of the name, in order - and only for a key of this side of the partition
        fn get_all(self, map: &MetadataMap) -> (r: Option<HGetAll<'_>>)
            requires self.key_inv()
            ensures
                r is Some <==> self.key_ok(),
                r is Some ==> VE::valid_key(self.key_name()),
                r matches Some(g) ==> g.vals@ == values_at(map.headers@, self.key_name());
__TRAIT_ENTRY__    }
    pub trait AsMetadataKey<VE: ValueEncoding>: Sealed<VE> {}
}
pub mod into_metadata_key {
    use crate::*;
    pub trait Sealed<VE: ValueEncoding>: Sized {
        spec fn key_name(&self) -> Seq<char>;
        spec fn key_ok(&self) -> bool;
        fn insert(self, map: &mut MetadataMap, val: MetadataValue<VE>) -> (r: Option<MetadataValue<VE>>)
            requires self.key_ok()
            ensures final(map).headers@ == old(map).headers@.insert(self.key_name(), seq![val.inner@]);
        fn append(self, map: &mut MetadataMap, val: MetadataValue<VE>) -> (r: bool)
            requires self.key_ok()
            ensures final(map).headers@ == hmap_append(old(map).headers@, self.key_name(), val.inner@);
    }
    pub trait IntoMetadataKey<VE: ValueEncoding>: Sealed<VE> {}
}
pub use as_metadata_key::AsMetadataKey;
pub use into_metadata_key::IntoMetadataKey;
pub struct Iter<'a> { pub inner: HIter<'a> }
// Values wraps the same (name, value) iterator (it needs the name to tell the side); Keys wraps http::header::Keys, seen here
// as a ghost sequence of the names still to come (A-http-29)
pub struct Values<'a> { pub inner: HIter<'a> }
pub struct HKeys<'a> { pub rest: Ghost<Seq<Seq<char>>>, pub m: &'a HeaderMap }
impl<'a> HKeys<'a> {
    #[verifier::external_body]
    pub fn next(&mut self) -> (r: Option<&'a HeaderName>)
        ensures
            old(self).rest@.len() == 0 ==> r is None && final(self).rest@ == old(self).rest@,
            old(self).rest@.len() > 0 ==> (r matches Some(k) && k@ == old(self).rest@[0] && final(self).rest@ == old(self).rest@.skip(1)),
    { unimplemented!() }
}
pub struct Keys<'a> { pub inner: HKeys<'a> }
// A-http-33: HeaderMap::keys yields every name once (hmap_keys: some order of the domain); iter_mut starts with every entry
// like iter; clear empties the map; keys_len / capacity / reserve change nothing observable here
pub uninterp spec fn hmap_keys(m: HMap) -> Seq<Seq<char>>;
pub broadcast axiom fn axiom_hmap_keys(m: HMap, k: Seq<char>) ensures #[trigger] hmap_keys(m).contains(k) <==> m.contains_key(k);
impl HeaderMap {
    #[verifier::external_body] pub fn keys(&self) -> (r: HKeys<'_>) ensures r.rest@ == hmap_keys(self@) { unimplemented!() }
    #[verifier::external_body] pub fn iter_mut(&mut self) -> (r: HIterMut<'_>) ensures r.rest@ == hmap_entries(old(self)@) { unimplemented!() }
    #[verifier::external_body] pub fn clear(&mut self) ensures final(self)@ == Map::<Seq<char>, Seq<Seq<u8>>>::empty() { unimplemented!() }
    #[verifier::external_body] pub fn keys_len(&self) -> (r: usize) { unimplemented!() }
    #[verifier::external_body] pub fn reserve(&mut self, additional: usize) ensures final(self)@ == old(self)@ { unimplemented!() }
}
pub mod as_encoding_agnostic_metadata_key {
    use crate::*;
    pub trait Sealed {
        spec fn key_name(&self) -> Seq<char>;
        fn contains_key(&self, map: &MetadataMap) -> (r: bool) ensures r == map.headers@.contains_key(self.key_name());
    }
    pub trait AsEncodingAgnosticMetadataKey: Sealed {}
}
pub use as_encoding_agnostic_metadata_key::AsEncodingAgnosticMetadataKey;
'''


def build():
    u = Unit('metadata', ['C08'])
    common.http_base(u, fold_case=True)
    common.metadata_core(u, fold_case=True)
    u.raw(TRAITS)
    # R18: uninhabited marker enums (`enum Ascii {}`) become unit structs: they are only used at the type level
    mk = [lambda t: t.sub_code('R18', r'\benum\b', 'struct')]
    u.item(EN, 'enum', 'Ascii', edits=mk)
    u.item(EN, 'enum', 'Binary', edits=mk)
    u.item(KY, 'struct', 'MetadataKey', attrs=['#[verifier::reject_recursive_types(VE)]'])
    u.item(VL, 'struct', 'MetadataValue', attrs=['#[verifier::reject_recursive_types(VE)]'])
    ew = [lambda t: t.sub_code('R17', r'(\w+)\.ends_with\(', r'verif_str_ends_with(\1, ')]

    # ---- encoding.rs ----
    u._emit('impl value_encoding::Sealed for Ascii {\n    open spec fn enc(v: Seq<u8>) -> Seq<u8> { v }\n    open spec fn dec(h: Seq<u8>) -> Option<Seq<u8>> { Some(h) }')
    u._open_header = 'impl value_encoding::Sealed for Ascii {'
    u.fn(EN, 'from_bytes', within='impl self::value_encoding::Sealed for Ascii')
    u.fn(EN, 'decode', within='impl self::value_encoding::Sealed for Ascii')
    sl = [lambda t: t.sub_code('R17', r'a\.as_bytes\(\) == b', 'verif_slice_eq(a.as_bytes(), b)'), lambda t: t.sub_code('R17', r'decoded == b', 'verif_slice_eq(decoded.as_slice(), b)')]
    WA = 'impl self::value_encoding::Sealed for Ascii'
    u.fn(EN, 'from_shared', within=WA, display='Ascii::from_shared')
    u.fn(EN, 'is_empty', within=WA, display='Ascii::is_empty', ensures=[Clause('E2_empty_means_no_bytes', 'r == (value@.len() == 0)')])
    u.fn(EN, 'equals', within=WA, body_edits=sl, display='Ascii::equals', ensures=[Clause('E3_the_same_bytes', 'r == (a@ == b@)')])
    u.fn(EN, 'values_equal', within=WA, display='Ascii::values_equal')
    u.close('}')
    u._emit('impl value_encoding::Sealed for Binary {\n    open spec fn enc(v: Seq<u8>) -> Seq<u8> { b64_enc(false, v) }\n    open spec fn dec(h: Seq<u8>) -> Option<Seq<u8>> { b64_dec(h) }')
    u._open_header = 'impl value_encoding::Sealed for Binary {'
    u.fn(EN, 'from_bytes', within='impl self::value_encoding::Sealed for Binary',
         body_start='        broadcast use axiom_b64_legal, axiom_bytes_of_string;')
    u.fn(EN, 'decode', within='impl self::value_encoding::Sealed for Binary',
         closures={0: dict(params='bytes_vec: Vec<u8>', ret='(x: Bytes)', ensures=['x@ == bytes_vec@'])})
    WB = 'impl self::value_encoding::Sealed for Binary'
    u.fn(EN, 'from_shared', within=WB, display='Binary::from_shared')
    u.fn(EN, 'is_empty', within=WB, display='Binary::is_empty',
         loops={0: dict(iter='it', invariant=['it.seq().len() == value@.len()', 'forall|i: int| 0 <= i < it.seq().len() ==> *(#[trigger] it.seq()[i]) == value@[i]', 'forall|i: int| 0 <= i < it.index@ ==> value@[i] == 61u8'])},
         ensures=[Clause('E4_empty_means_nothing_but_padding', 'r == (forall|i: int| 0 <= i < value@.len() ==> value@[i] == 61u8)')])
    u.fn(EN, 'equals', within=WB, body_edits=sl, display='Binary::equals',
         ensures=[Clause('E5_the_bytes_it_denotes_else_the_raw_text', 'r == (match b64_dec(a@) { Some(d) => d == b@, None => a@ == b@ })')])
    u.fn(EN, 'values_equal', within=WB, display='Binary::values_equal')
    u.close('}')
    u._emit('impl ValueEncoding for Ascii {\n    open spec fn valid_key(key: Seq<char>) -> bool { !is_bin_key(lower(key)) }\n    proof fn law_case(key: Seq<char>) { broadcast use case_facts::lemma_lower_idem; }')
    u._open_header = 'impl ValueEncoding for Ascii {'
    u.fn(EN, 'is_valid_key', within='impl ValueEncoding for Ascii', body_edits=ew,
         ensures=[Clause('E0_a_key_is_ascii_exactly_when_it_is_not_binary', 'r == Self::valid_key(key@)')])
    u.close('}')
    u._emit('impl ValueEncoding for Binary {\n    open spec fn valid_key(key: Seq<char>) -> bool { is_bin_key(lower(key)) }\n    proof fn law_case(key: Seq<char>) { broadcast use case_facts::lemma_lower_idem; }')
    u._open_header = 'impl ValueEncoding for Binary {'
    u.fn(EN, 'is_valid_key', within='impl ValueEncoding for Binary',
         body_edits=ew + [lambda t: t.sub_code('R15', r'b"([a-z-]+)"', r'verif_bytes_lit("\1")')],
         body_start='        proof { reveal_strlit("-bin"); assert(lower("-bin"@) =~= "-bin"@); lemma_ascii_suffix_utf8(key@, "-bin"@); assert(ascii_bytes("-bin"@).len() == 4); }',
         ensures=[Clause('E1_a_key_is_binary_exactly_when_its_lower_case_form_ends_in_bin', 'r == Self::valid_key(key@)')])
    u.close('}')

    # ---- key.rs / value.rs ----
    u.raw(KEYSPEC)
    u._emit('impl<VE: ValueEncoding> MetadataKey<VE> {'); u._open_header = 'impl<VE: ValueEncoding> MetadataKey<VE> {'
    u.fn(KY, 'from_bytes', within='impl<VE: ValueEncoding> MetadataKey<VE>',
         ensures=[Clause('K1_only_keys_of_this_encoding', 'r matches Ok(k) ==> k.wf() && Some(k.inner@) == HeaderName::parse(src@)'),
                  Clause('K2_rejects_the_other_side', 'HeaderName::parse(src@) matches Some(n) ==> (r is Ok <==> VE::valid_key(n))')])
    u.fn(KY, 'from_static', within='impl<VE: ValueEncoding> MetadataKey<VE>',
         requires=['VE::valid_key(src@)'],
         ensures=[Clause('K3_static_key', 'r.wf() && r.inner@ == src@')])
    u.fn(KY, 'as_str', within='impl<VE: ValueEncoding> MetadataKey<VE>', ensures=[Clause('name', 'r@ == self.inner@')])
    u.fn(KY, 'unchecked_from_header_name', within='impl<VE: ValueEncoding> MetadataKey<VE>', ensures=[Clause('name', 'r.inner@ == name@')])
    u.close('}')
    u.fn(KY, 'from_str', within='impl<VE: ValueEncoding> FromStr for MetadataKey<VE>', header='impl<VE: ValueEncoding> MetadataKey<VE> {', close=True, display='MetadataKey::from_str',
         sig_edits=[lambda t: t.sub_code('R9', r'Self::Err', 'InvalidMetadataKey')],
         ensures=[Clause('K4_a_key_parsed_from_text_is_on_the_side_of_its_type', 'r matches Ok(k) ==> k.wf() && Some(k.inner@) == HeaderName::parse(vstd::utf8::encode_utf8(s@))')])
    u._emit('impl<VE: ValueEncoding> MetadataValue<VE> {'); u._open_header = 'impl<VE: ValueEncoding> MetadataValue<VE> {'
    u.fn(VL, 'to_bytes', within='impl<VE: ValueEncoding> MetadataValue<VE>',
         ensures=[Clause('V1_decodes_the_wire_form', 'r matches Ok(b) ==> VE::dec(self.inner@) == Some(b@)'), Clause('V2_err_iff_undecodable', 'r is Err <==> VE::dec(self.inner@) is None')])
    u.fn(VL, 'as_encoded_bytes', within='impl<VE: ValueEncoding> MetadataValue<VE>', ensures=[Clause('wire', 'r@ == self.inner@')])
    u.fn(VL, 'unchecked_from_header_value', within='impl<VE: ValueEncoding> MetadataValue<VE>', ensures=[Clause('wire', 'r.inner@ == value@')])
    u.fn(VL, 'is_empty', within='impl<VE: ValueEncoding> MetadataValue<VE>', display='MetadataValue::is_empty')
    u.close('}')
    cl_mv = {0: dict(params='value: HeaderValue', ret='(x: MetadataValue<VE>)', ensures=['x.inner@ == value@'])}
    u.fn(VL, 'try_from', within='impl<VE: ValueEncoding> TryFrom<Bytes> for MetadataValue<VE>',
         header='impl<VE: ValueEncoding> MetadataValue<VE> {', close=True, display='MetadataValue::try_from(Bytes)',
         sig_edits=[lambda t: t.sub_code('R9', r'Self::Error', 'InvalidMetadataValueBytes'), lambda t: t.sub_code('R9', r'fn try_from\(', 'fn try_from_shared(')], closures=cl_mv,
         ensures=[Clause('V5_wire_form_is_the_encoding', 'r matches Ok(v) ==> v.inner@ == VE::enc(src@)'), Clause('V6_ok_iff_legal', 'r is Ok <==> legal_value(VE::enc(src@))')])
    u.fn(VL, 'eq', within='impl<VE: ValueEncoding> PartialEq for MetadataValue<VE>', header='impl<VE: ValueEncoding> MetadataValue<VE> {', close=True, display='MetadataValue::eq',
         ensures=[Clause('V7_equal_exactly_when_they_denote_the_same_bytes', 'r == (VE::dec(self.inner@) == VE::dec(other.inner@))')])
    # tonic's own ToStrError (the prelude already has http's under that name): R12 renames it here
    mdt = [lambda t: t.sub_code('R12', r'\bToStrError\b', 'MdToStrError')]
    u.item(VL, 'struct', 'ToStrError', edits=mdt)
    u.fn(VL, 'new', within='impl ToStrError', header='impl MdToStrError {', close=True, display='ToStrError::new', vacuity=False, body_edits=mdt)
    u._emit('impl MetadataValue<Ascii> {'); u._open_header = 'impl MetadataValue<Ascii> {'
    u.fn(VL, 'len', within='impl MetadataValue<Ascii>', display='MetadataValue<Ascii>::len', ensures=[Clause('V8_length_of_the_wire_form', 'r == self.inner@.len()')])
    u.fn(VL, 'to_str', within='impl MetadataValue<Ascii>', display='MetadataValue<Ascii>::to_str', sig_edits=mdt, body_edits=mdt,
         ensures=[Clause('V9_the_text_of_a_visible_ascii_value', 'r is Ok <==> visible_ascii(self.inner@)'), Clause('V9b_spells_the_same_bytes', 'r matches Ok(t) ==> ascii_bytes(t@) == self.inner@')])
    u.fn(VL, 'as_bytes', within='impl MetadataValue<Ascii>', display='MetadataValue<Ascii>::as_bytes', ensures=[Clause('V10_the_wire_form', 'r@ == self.inner@')])
    u.fn(VL, 'from_str', within='impl FromStr for MetadataValue<Ascii>', display='MetadataValue<Ascii>::from_str', sig_edits=[lambda t: t.sub_code('R9', r'Self::Err', 'InvalidMetadataValue')],
         closures={0: dict(params='value: HeaderValue', ret='(x: MetadataValue<Ascii>)', ensures=['x.inner@ == value@'])},
         ensures=[Clause('V11_the_bytes_of_the_text_if_they_are_legal', '(r is Ok <==> legal_value(vstd::utf8::encode_utf8(s@))) && (r matches Ok(v) ==> v.inner@ == vstd::utf8::encode_utf8(s@))')])
    u.close('}')
    u._emit('impl MetadataValue<Binary> {'); u._open_header = 'impl MetadataValue<Binary> {'
    u.fn(VL, 'from_bytes', within='impl MetadataValue<Binary>', display='MetadataValue<Binary>::from_bytes',
         body_start='        broadcast use axiom_b64_legal;',
         ensures=[Clause('V12_any_bytes_make_a_binary_value_whose_wire_form_is_their_unpadded_base64', 'r.inner@ == b64_enc(false, src@)')])
    u.close('}')
    u.fn(VL, 'try_from', within='impl<VE: ValueEncoding> TryFrom<&[u8]> for MetadataValue<VE>',
         header='impl<VE: ValueEncoding> MetadataValue<VE> {', close=True, display='MetadataValue::try_from(&[u8])',
         sig_edits=[lambda t: t.sub_code('R9', r'Self::Error', 'InvalidMetadataValueBytes')],
         closures={0: dict(params='value: HeaderValue', ret='(x: MetadataValue<VE>)', ensures=['x.inner@ == value@'])},
         ensures=[Clause('V3_wire_form_is_the_encoding', 'r matches Ok(v) ==> v.inner@ == VE::enc(src@)'), Clause('V4_ok_iff_legal', 'r is Ok <==> legal_value(VE::enc(src@))')])

    # ---- map.rs: sealed key traits, typed accessors, iterator ----
    u.raw(MAPSHIM.replace('__TRAIT_ENTRY__', mdentry.TRAIT_ENTRY))
    mdentry.structs(u)
    get_post = []
    u._emit('''impl<VE: ValueEncoding> as_metadata_key::Sealed<VE> for &str {
    open spec fn key_name(&self) -> Seq<char> { lower(self@) }
    open spec fn key_ok(&self) -> bool { VE::valid_key(self@) }
    open spec fn key_inv(&self) -> bool { true }''')
    u._open_header = 'impl<VE: ValueEncoding> as_metadata_key::Sealed<VE> for &str {'
    cl_mut = {0: dict(params='e: &mut HeaderValue', ret='(x: &mut MetadataValue<VE>)', ensures=['(*x).inner@ == (*old(e))@'])}
    r3mut = [lambda t: t.sub_code('R3', r'\.map\(MetadataValue::unchecked_from_mut_header_value_ref\)', '.map(|e| MetadataValue::unchecked_from_mut_header_value_ref(e))')]
    ga = [lambda t: t.sub_code('R12', r"GetAll<'_, HeaderValue>", "HGetAll<'_>")]
    cl_ref = {0: dict(params='e: &HeaderValue', ret='(x: &MetadataValue<VE>)', ensures=['x.inner@ == e@'])}
    cl_val = {0: dict(params='e: HeaderValue', ret='(x: MetadataValue<VE>)', ensures=['x.inner@ == e@'])}
    r3ref = [lambda t: t.sub_code('R3', r'\.map\(MetadataValue::unchecked_from_header_value_ref\)', '.map(|e| MetadataValue::unchecked_from_header_value_ref(e))')]
    r3val = [lambda t: t.sub_code('R3', r'\.map\(MetadataValue::unchecked_from_header_value\)', '.map(|e| MetadataValue::unchecked_from_header_value(e))')]
    W = 'impl<VE: ValueEncoding> Sealed<VE> for &str'
    u.fn(MP, 'get', within=W, nth=0, body_edits=r3ref, closures=cl_ref, body_start='        proof { VE::law_case(self@); }', display='as_metadata_key::Sealed for &str::get')
    u.fn(MP, 'remove', within=W, nth=0, body_edits=r3val, closures=cl_val, body_start='        proof { VE::law_case(self@); }', display='as_metadata_key::Sealed for &str::remove')
    u.fn(MP, 'get_all', within=W, nth=0, sig_edits=ga, body_start='        proof { VE::law_case(self@); }', display='as_metadata_key::Sealed for &str::get_all')
    u.fn(MP, 'get_mut', within=W, nth=0, body_edits=r3mut, closures=cl_mut, body_start='        proof { VE::law_case(self@); }', display='as_metadata_key::Sealed for &str::get_mut')
    mdentry.entry_fn(u, W, '&str', True)
    u.close('}')
    u._emit('''impl<VE: ValueEncoding> as_metadata_key::Sealed<VE> for MetadataKey<VE> {
    open spec fn key_name(&self) -> Seq<char> { self.inner@ }
    open spec fn key_ok(&self) -> bool { true }
    open spec fn key_inv(&self) -> bool { self.wf() }''')
    u._open_header = 'impl<VE: ValueEncoding> as_metadata_key::Sealed<VE> for MetadataKey<VE> {'
    WK = 'impl<VE: ValueEncoding> Sealed<VE> for MetadataKey<VE>'
    u.fn(MP, 'get', within=WK, nth=0, body_edits=r3ref, closures=cl_ref, display='as_metadata_key::Sealed for MetadataKey::get')
    u.fn(MP, 'remove', within=WK, nth=0, body_edits=r3val, closures=cl_val, display='as_metadata_key::Sealed for MetadataKey::remove')
    u.fn(MP, 'get_all', within=WK, nth=0, sig_edits=ga, display='as_metadata_key::Sealed for MetadataKey::get_all')
    u.fn(MP, 'get_mut', within=WK, nth=0, body_edits=r3mut, closures=cl_mut, display='as_metadata_key::Sealed for MetadataKey::get_mut')
    mdentry.entry_fn(u, WK, 'MetadataKey', False)
    u.close('}')
    u._emit('''impl<VE: ValueEncoding> into_metadata_key::Sealed<VE> for MetadataKey<VE> {
    open spec fn key_name(&self) -> Seq<char> { self.inner@ }
    open spec fn key_ok(&self) -> bool { true }''')
    u._open_header = 'impl<VE: ValueEncoding> into_metadata_key::Sealed<VE> for MetadataKey<VE> {'
    u.fn(MP, 'insert', within=WK, nth=0, body_edits=r3val, closures=cl_val, display='into_metadata_key::Sealed for MetadataKey::insert')
    u.fn(MP, 'append', within=WK, nth=0, display='into_metadata_key::Sealed for MetadataKey::append')
    u.close('}')
    u._emit('''impl<VE: ValueEncoding> into_metadata_key::Sealed<VE> for &'static str {
    open spec fn key_name(&self) -> Seq<char> { self@ }
    open spec fn key_ok(&self) -> bool { VE::valid_key(self@) }''')
    u._open_header = "impl<VE: ValueEncoding> into_metadata_key::Sealed<VE> for &'static str {"
    WS = "impl<VE: ValueEncoding> Sealed<VE> for &'static str"
    u.fn(MP, 'insert', within=WS, nth=0, body_edits=r3val, closures=cl_val, display="into_metadata_key::Sealed for &'static str::insert")
    u.fn(MP, 'append', within=WS, nth=0, display="into_metadata_key::Sealed for &'static str::append")
    u.close('}')

    # the remaining key types: a borrowed MetadataKey (both traits), String and &String (lookups)
    u._emit('''impl<'k, VE: ValueEncoding> into_metadata_key::Sealed<VE> for &'k MetadataKey<VE> {
    open spec fn key_name(&self) -> Seq<char> { self.inner@ }
    open spec fn key_ok(&self) -> bool { true }''')
    u._open_header = "impl<'k, VE: ValueEncoding> into_metadata_key::Sealed<VE> for &'k MetadataKey<VE> {"
    WR = 'impl<VE: ValueEncoding> Sealed<VE> for &MetadataKey<VE>'
    u.fn(MP, 'insert', within=WR, nth=0, body_edits=r3val, closures=cl_val, display='into_metadata_key::Sealed for &MetadataKey::insert')
    u.fn(MP, 'append', within=WR, nth=0, display='into_metadata_key::Sealed for &MetadataKey::append')
    u.close('}')
    u._emit('''impl<'k, VE: ValueEncoding> as_metadata_key::Sealed<VE> for &'k MetadataKey<VE> {
    open spec fn key_name(&self) -> Seq<char> { self.inner@ }
    open spec fn key_ok(&self) -> bool { true }
    open spec fn key_inv(&self) -> bool { self.wf() }''')
    u._open_header = "impl<'k, VE: ValueEncoding> as_metadata_key::Sealed<VE> for &'k MetadataKey<VE> {"
    u.fn(MP, 'get', within=WR, nth=0, body_edits=r3ref, closures=cl_ref, display='as_metadata_key::Sealed for &MetadataKey::get')
    u.fn(MP, 'remove', within=WR, nth=0, body_edits=r3val, closures=cl_val, display='as_metadata_key::Sealed for &MetadataKey::remove')
    u.fn(MP, 'get_all', within=WR, nth=0, sig_edits=ga, display='as_metadata_key::Sealed for &MetadataKey::get_all')
    u.fn(MP, 'get_mut', within=WR, nth=0, body_edits=r3mut, closures=cl_mut, display='as_metadata_key::Sealed for &MetadataKey::get_mut')
    mdentry.entry_fn(u, WR, '&MetadataKey', False)
    u.close('}')
    for ty, hdr_ty, disp in (('String', 'String', 'String'), ("&'k String", '&String', '&String')):
        lt = "<'k, VE: ValueEncoding>" if "'k" in ty else '<VE: ValueEncoding>'
        u._emit('''impl%s as_metadata_key::Sealed<VE> for %s {
    open spec fn key_name(&self) -> Seq<char> { lower(self@) }
    open spec fn key_ok(&self) -> bool { VE::valid_key(self@) }
    open spec fn key_inv(&self) -> bool { true }''' % (lt, ty))
        u._open_header = 'impl%s as_metadata_key::Sealed<VE> for %s {' % (lt, ty)
        WT = 'impl<VE: ValueEncoding> Sealed<VE> for %s' % hdr_ty
        u.fn(MP, 'get', within=WT, nth=0, body_edits=r3ref, closures=cl_ref, body_start='        proof { VE::law_case(self@); }', display='as_metadata_key::Sealed for %s::get' % disp)
        u.fn(MP, 'remove', within=WT, nth=0, body_edits=r3val, closures=cl_val, body_start='        proof { VE::law_case(self@); }', display='as_metadata_key::Sealed for %s::remove' % disp)
        u.fn(MP, 'get_all', within=WT, nth=0, sig_edits=ga, body_start='        proof { VE::law_case(self@); }', display='as_metadata_key::Sealed for %s::get_all' % disp)
        u.fn(MP, 'get_mut', within=WT, nth=0, body_edits=r3mut, closures=cl_mut, body_start='        proof { VE::law_case(self@); }', display='as_metadata_key::Sealed for %s::get_mut' % disp)
        mdentry.entry_fn(u, WT, disp, True)
        u.close('}')

    u._emit('impl MetadataMap {'); u._open_header = 'impl MetadataMap {'
    for name, enc in [('get', 'Ascii'), ('get_bin', 'Binary')]:
        u.fn(MP, name, within='impl MetadataMap', nth=0, requires=['key.key_inv()'],
             ensures=[
                 Clause('G1_typed_accessor_never_crosses_the_partition', 'r is Some ==> <%s as ValueEncoding>::valid_key(key.key_name()) && self.headers@.contains_key(key.key_name())' % enc),
                 Clause('G2_first_value', 'r matches Some(v) ==> v.inner@ == self.headers@[key.key_name()][0]'),
                 Clause('G3_none_only_if_absent_or_wrong_kind', 'r is None ==> !key.key_ok() || !self.headers@.contains_key(key.key_name())'),
             ])
    for name in ['insert', 'insert_bin']:
        u.fn(MP, name, within='impl MetadataMap', nth=0, requires=['key.key_ok()'],
             ensures=[Clause('I1_replaces_the_values_of_that_key_only', 'final(self).headers@ == old(self).headers@.insert(key.key_name(), seq![val.inner@])')])
    for name in ['append', 'append_bin']:
        u.fn(MP, name, within='impl MetadataMap', nth=0, requires=['key.key_ok()'],
             ensures=[Clause('I2_appends_after_existing_values_same_key', 'final(self).headers@ == hmap_append(old(self).headers@, key.key_name(), value.inner@)')])
    for name, enc in [('remove', 'Ascii'), ('remove_bin', 'Binary')]:
        u.fn(MP, name, within='impl MetadataMap', nth=0, requires=['key.key_inv()'],
             ensures=[Clause('I3_removes_only_that_key', 'key.key_ok() ==> final(self).headers@ == old(self).headers@.remove(key.key_name())'),
                      Clause('I4_wrong_kind_is_a_no_op', '!key.key_ok() ==> final(self).headers@ == old(self).headers@ && r is None'),
                      Clause('I5_an_entry_of_the_other_side_is_never_removed', '!<%s as ValueEncoding>::valid_key(key.key_name()) ==> final(self).headers@ == old(self).headers@ && r is None' % enc)])
    u.fn(MP, 'merge', within='impl MetadataMap', ensures=[Clause('M1_union_other_wins', 'final(self).headers@ == old(self).headers@.union_prefer_right(other.headers@)', ['C08', 'C02'])])
    u.fn(MP, 'iter', within='impl MetadataMap', nth=0, display='MetadataMap::iter', ensures=[Clause('M2_the_iterator_starts_with_every_entry_of_the_map', 'r.inner.rest@ == hmap_entries(self.headers@)')])
    u.fn(MP, 'values', within='impl MetadataMap', nth=0, display='MetadataMap::values', ensures=[Clause('M3_the_iterator_starts_with_every_entry_of_the_map', 'r.inner.rest@ == hmap_entries(self.headers@)')])
    u.fn(MP, 'keys', within='impl MetadataMap', nth=0, display='MetadataMap::keys', ensures=[Clause('M4_the_iterator_starts_with_every_name_of_the_map', 'r.inner.rest@ == hmap_keys(self.headers@)')])
    u.fn(MP, 'iter_mut', within='impl MetadataMap', nth=0, display='MetadataMap::iter_mut', ensures=[Clause('M5_the_iterator_starts_with_every_entry_of_the_map', 'r.inner.rest@ == hmap_entries(old(self).headers@)')])
    u.fn(MP, 'values_mut', within='impl MetadataMap', nth=0, display='MetadataMap::values_mut', ensures=[Clause('M6_the_iterator_starts_with_every_entry_of_the_map', 'r.inner.rest@ == hmap_entries(old(self).headers@)')])
    u.fn(MP, 'clear', within='impl MetadataMap', nth=0, display='MetadataMap::clear', ensures=[Clause('M7_nothing_is_left', 'final(self).headers@ == Map::<Seq<char>, Seq<Seq<u8>>>::empty()')])
    u.fn(MP, 'is_empty', within='impl MetadataMap', nth=0, display='MetadataMap::is_empty', ensures=[Clause('M8_empty_exactly_when_there_is_no_name', 'r == (self.headers@.dom() =~= Set::<Seq<char>>::empty())')])
    u.fn(MP, 'keys_len', within='impl MetadataMap', nth=0, display='MetadataMap::keys_len')
    u.fn(MP, 'reserve', within='impl MetadataMap', nth=0, display='MetadataMap::reserve', ensures=[Clause('M9_reserving_changes_no_entry', 'final(self).headers@ == old(self).headers@')])
    u.fn(MP, 'contains_key', within='impl MetadataMap', nth=0, display='MetadataMap::contains_key',
         ensures=[Clause('M10_true_exactly_when_an_entry_is_stored_under_the_name_the_key_denotes', 'r == self.headers@.contains_key(key.key_name())')])
    u.close('}')
    for ty, hdr, kn in (('MetadataKey<VE>', 'impl<VE: ValueEncoding> Sealed for MetadataKey<VE>', 'self.inner@'), ("&'k MetadataKey<VE>", 'impl<VE: ValueEncoding> Sealed for &MetadataKey<VE>', 'self.inner@'),
                        ('&str', 'impl Sealed for &str', 'lower(self@)'), ('String', 'impl Sealed for String', 'lower(self@)'), ("&'k String", 'impl Sealed for &String', 'lower(self@)')):
        gen = ('<' + ', '.join(x for x in (("'k" if "'k" in ty else ''), ('VE: ValueEncoding' if 'VE' in ty else '')) if x) + '>') if ("'k" in ty or 'VE' in ty) else ''
        h = 'impl%s as_encoding_agnostic_metadata_key::Sealed for %s {' % (gen, ty)
        u._emit(h + '\n    open spec fn key_name(&self) -> Seq<char> { %s }' % kn); u._open_header = h
        # the agnostic impls are the LAST `contains_key` of that header in map.rs: pick within the agnostic module
        u.fn(MP, 'contains_key', within=hdr, nth={'impl<VE: ValueEncoding> Sealed for MetadataKey<VE>': 0}.get(hdr, 0), display='as_encoding_agnostic_metadata_key::Sealed for %s::contains_key' % ty.replace("'k ", ''))
        u.close('}')

    tyed = [lambda t: t.sub_code('R12', r"http::header::GetAll<'a, http::header::HeaderValue>", "HGetAll<'a>"),
            lambda t: t.sub_code('R12', r"http::header::ValueIter<'a, http::header::HeaderValue>", "HValueIter<'a>"),
            lambda t: t.sub_code('R12', r'PhantomData<VE>', 'core::marker::PhantomData<VE>')]
    u.item(MP, 'struct', 'GetAll', edits=tyed, attrs=['#[verifier::reject_recursive_types(VE)]'])
    u.item(MP, 'struct', 'ValueIter', edits=tyed, attrs=['#[verifier::reject_recursive_types(VE)]'])
    u._emit('impl MetadataMap {'); u._open_header = 'impl MetadataMap {'
    for name, enc in (('get_all', 'Ascii'), ('get_all_bin', 'Binary')):
        u.fn(MP, name, within='impl MetadataMap', nth=0, requires=['key.key_inv()'],
             ensures=[Clause('A1_every_value_of_the_key_in_order_and_never_across_the_partition',
                             '(r.inner is Some <==> key.key_ok()) && (r.inner is Some ==> <%s as ValueEncoding>::valid_key(key.key_name())) && (r.inner matches Some(g) ==> g.vals@ == values_at(self.headers@, key.key_name()))' % enc)])
    u.close('}')
    u._emit("impl<'a, VE: ValueEncoding> GetAll<'a, VE> {"); u._open_header = "impl<'a, VE: ValueEncoding> GetAll<'a, VE> {"
    u.fn(MP, 'iter', within="impl<'a, VE: ValueEncoding> GetAll<'a, VE>", display='GetAll::iter',
         closures={0: dict(params="inner: &HGetAll<'a>", ret="(x: HValueIter<'a>)", ensures=['x.rest@ == inner.vals@'])},
         ensures=[Clause('A2_the_iterator_starts_with_all_the_values', '(r.inner is Some <==> self.inner is Some) && (r.inner matches Some(it) ==> it.rest@ == self.inner->Some_0.vals@)')])
    u.close('}')
    def ref_mut_arm(t):
        # R31: `match self.inner { Some(ref mut inner) => .. }` is `match &mut self.inner { Some(inner) => .. }` (match ergonomics)
        t.sub_code('R31', r'match self\.inner \{\s*Some\(ref mut inner\) =>', 'match &mut self.inner {\n            Some(inner) =>')
    u.fn(MP, 'next', within="impl<'a, VE: ValueEncoding> Iterator for ValueIter<'a, VE>", header="impl<'a, VE: ValueEncoding> ValueIter<'a, VE> {", close=True, display='ValueIter::next',
         sig_edits=[lambda t: t.sub_code('R9', r'Self::Item', "&'a MetadataValue<VE>")],
         body_edits=[ref_mut_arm] + r3ref, closures=cl_ref,
         ensures=[Clause('A3_values_come_out_in_order_unchanged',
                         '''(old(self).inner is Some && old(self).inner->Some_0.rest@.len() > 0) ==> (r is Some && r->Some_0.inner@ == old(self).inner->Some_0.rest@[0]
                && final(self).inner is Some && final(self).inner->Some_0.rest@ == old(self).inner->Some_0.rest@.skip(1))'''),
                  Clause('A4_end', '(old(self).inner is None || old(self).inner->Some_0.rest@.len() == 0) ==> r is None')])
    u._emit('impl MetadataMap {'); u._open_header = 'impl MetadataMap {'
    for name, enc in (('get_mut', 'Ascii'), ('get_bin_mut', 'Binary')):
        u.fn(MP, name, within='impl MetadataMap', nth=0, requires=['key.key_inv()'],
             ensures=[Clause('G1m_the_mutable_accessor_never_crosses_the_partition', 'r is Some ==> <%s as ValueEncoding>::valid_key(key.key_name()) && old(self).headers@.contains_key(key.key_name())' % enc),
                      Clause('G2m_first_value', 'r matches Some(v) ==> (*v).inner@ == old(self).headers@[key.key_name()][0]')])
    u.close('}')
    u.item(MP, 'enum', 'KeyAndMutValueRef')
    u.item(MP, 'enum', 'ValueRefMut')
    u.raw("pub struct IterMut<'a> { pub inner: HIterMut<'a> }\npub struct ValuesMut<'a> { pub inner: HIterMut<'a> }")
    u.fn(MP, 'next', within="impl<'a> Iterator for IterMut<'a>", header="impl<'a> IterMut<'a> {", close=True, display='IterMut::next',
         sig_edits=[lambda t: t.sub_code('R9', r'Self::Item', "KeyAndMutValueRef<'a>")],
         closures={0: dict(params="item: (&'a HeaderName, &'a mut HeaderValue)", ret="(x: KeyAndMutValueRef<'a>)",
                           ensures=['''match x {
                    KeyAndMutValueRef::Ascii(k, v) => !is_bin_key(item.0@) && k.inner@ == item.0@ && (*v).inner@ == (*old(item.1))@,
                    KeyAndMutValueRef::Binary(k, v) => is_bin_key(item.0@) && k.inner@ == item.0@ && (*v).inner@ == (*old(item.1))@,
                }'''])},
         ensures=[Clause('N1m_the_mutable_iterator_presents_each_entry_on_its_own_side',
                         '''old(self).inner.rest@.len() > 0 ==> (r matches Some(x) && (match x {
                    KeyAndMutValueRef::Ascii(k, v) => !is_bin_key(old(self).inner.rest@[0].0) && k.inner@ == old(self).inner.rest@[0].0 && (*v).inner@ == old(self).inner.rest@[0].1,
                    KeyAndMutValueRef::Binary(k, v) => is_bin_key(old(self).inner.rest@[0].0) && k.inner@ == old(self).inner.rest@[0].0 && (*v).inner@ == old(self).inner.rest@[0].1,
                }))'''),
                  Clause('N2m_end', 'old(self).inner.rest@.len() == 0 ==> r is None')])
    u.fn(MP, 'next', within="impl<'a> Iterator for ValuesMut<'a>", header="impl<'a> ValuesMut<'a> {", close=True, display='ValuesMut::next',
         sig_edits=[lambda t: t.sub_code('R9', r'Self::Item', "ValueRefMut<'a>")],
         closures={0: dict(params="item: (&'a HeaderName, &'a mut HeaderValue)", ret="(x: ValueRefMut<'a>)",
                           ensures=['''match x {
                    ValueRefMut::Ascii(v) => !is_bin_key(item.0@) && (*v).inner@ == (*old(item.1))@,
                    ValueRefMut::Binary(v) => is_bin_key(item.0@) && (*v).inner@ == (*old(item.1))@,
                }'''])},
         ensures=[Clause('V1m_each_mutable_value_is_presented_on_the_side_of_its_key',
                         '''old(self).inner.rest@.len() > 0 ==> (r matches Some(x) && (match x {
                    ValueRefMut::Ascii(v) => !is_bin_key(old(self).inner.rest@[0].0) && (*v).inner@ == old(self).inner.rest@[0].1,
                    ValueRefMut::Binary(v) => is_bin_key(old(self).inner.rest@[0].0) && (*v).inner@ == old(self).inner.rest@[0].1,
                }))'''),
                  Clause('V2m_end', 'old(self).inner.rest@.len() == 0 ==> r is None')])
    u.item(MP, 'enum', 'KeyAndValueRef')
    u.fn(MP, 'next', within="impl<'a> Iterator for Iter<'a>", header="impl<'a> Iter<'a> {", close=True,
         sig_edits=[lambda t: t.sub_code('R9', r'Self::Item', "KeyAndValueRef<'a>")],
         closures={0: dict(params="item: (&'a HeaderName, &'a HeaderValue)", ret="(x: KeyAndValueRef<'a>)",
                           ensures=['''match x {
                    KeyAndValueRef::Ascii(k, v) => !is_bin_key(item.0@) && k.inner@ == item.0@ && v.inner@ == item.1@,
                    KeyAndValueRef::Binary(k, v) => is_bin_key(item.0@) && k.inner@ == item.0@ && v.inner@ == item.1@,
                }'''])},
         ensures=[
             Clause('N1_iterator_presents_each_entry_on_its_own_side',
                    '''old(self).inner.rest@.len() > 0 ==> (r matches Some(x) && (match x {
                    KeyAndValueRef::Ascii(k, v) => !is_bin_key(old(self).inner.rest@[0].0) && k.inner@ == old(self).inner.rest@[0].0 && v.inner@ == old(self).inner.rest@[0].1,
                    KeyAndValueRef::Binary(k, v) => is_bin_key(old(self).inner.rest@[0].0) && k.inner@ == old(self).inner.rest@[0].0 && v.inner@ == old(self).inner.rest@[0].1,
                }) && final(self).inner.rest@ == old(self).inner.rest@.skip(1))'''),
             Clause('N2_end', 'old(self).inner.rest@.len() == 0 ==> r is None'),
         ])
    u.item(MP, 'enum', 'KeyRef')
    u.fn(MP, 'next', within="impl<'a> Iterator for Keys<'a>", header="impl<'a> Keys<'a> {", close=True, display='Keys::next',
         sig_edits=[lambda t: t.sub_code('R9', r'Self::Item', "KeyRef<'a>")],
         closures={0: dict(params="key: &'a HeaderName", ret="(x: KeyRef<'a>)",
                           ensures=['''match x {
                    KeyRef::Ascii(k) => !is_bin_key(key@) && k.inner@ == key@,
                    KeyRef::Binary(k) => is_bin_key(key@) && k.inner@ == key@,
                }'''])},
         ensures=[
             Clause('K1_each_key_is_presented_on_its_own_side',
                    '''old(self).inner.rest@.len() > 0 ==> (r matches Some(x) && (match x {
                    KeyRef::Ascii(k) => !is_bin_key(old(self).inner.rest@[0]) && k.inner@ == old(self).inner.rest@[0],
                    KeyRef::Binary(k) => is_bin_key(old(self).inner.rest@[0]) && k.inner@ == old(self).inner.rest@[0],
                }) && final(self).inner.rest@ == old(self).inner.rest@.skip(1))'''),
             Clause('K2_end', 'old(self).inner.rest@.len() == 0 ==> r is None'),
         ])
    u.item(MP, 'enum', 'ValueRef')
    u.fn(MP, 'next', within="impl<'a> Iterator for Values<'a>", header="impl<'a> Values<'a> {", close=True, display='Values::next',
         sig_edits=[lambda t: t.sub_code('R9', r'Self::Item', "ValueRef<'a>")],
         closures={0: dict(params="item: (&'a HeaderName, &'a HeaderValue)", ret="(x: ValueRef<'a>)",
                           ensures=['''match x {
                    ValueRef::Ascii(v) => !is_bin_key(item.0@) && v.inner@ == item.1@,
                    ValueRef::Binary(v) => is_bin_key(item.0@) && v.inner@ == item.1@,
                }'''])},
         ensures=[
             Clause('V1_each_value_is_presented_on_the_side_of_its_key',
                    '''old(self).inner.rest@.len() > 0 ==> (r matches Some(x) && (match x {
                    ValueRef::Ascii(v) => !is_bin_key(old(self).inner.rest@[0].0) && v.inner@ == old(self).inner.rest@[0].1,
                    ValueRef::Binary(v) => is_bin_key(old(self).inner.rest@[0].0) && v.inner@ == old(self).inner.rest@[0].1,
                }) && final(self).inner.rest@ == old(self).inner.rest@.skip(1))'''),
             Clause('V2_end', 'old(self).inner.rest@.len() == 0 ==> r is None'),
         ])
    mdentry.api(u)
    return u
