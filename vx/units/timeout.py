"""U6 — deadlines: tonic/src/transport/service/grpc_timeout.rs (parser, shortest-deadline rule, race between the call and
the timer) and tonic/src/request.rs (grpc-timeout writer).  Carries C09 (partial: virtual-time schedules are out of reach)."""
from vxlib import Unit, Clause, r15_bytes_match
from units import common

T = 'tonic/src/transport/service/grpc_timeout.rs'
RQ = 'tonic/src/request.rs'

SPEC = r'''
// ---- std::time::Duration as a number of nanoseconds (A-std-time-01) ----
#[derive(Clone, Copy, PartialEq, Eq)]
pub struct Duration { pub secs: u64, pub sub: u32 }
impl Duration {
    pub open spec fn nanos(&self) -> nat { (self.secs as nat) * 1_000_000_000 + self.sub as nat }
    #[verifier::external_body] pub fn from_secs(s: u64) -> (r: Duration) ensures r.nanos() == s * 1_000_000_000 { unimplemented!() }
    #[verifier::external_body] pub fn from_millis(s: u64) -> (r: Duration) ensures r.nanos() == s * 1_000_000 { unimplemented!() }
    #[verifier::external_body] pub fn from_micros(s: u64) -> (r: Duration) ensures r.nanos() == s * 1_000 { unimplemented!() }
    #[verifier::external_body] pub fn from_nanos(s: u64) -> (r: Duration) ensures r.nanos() == s { unimplemented!() }
    #[verifier::external_body] pub fn as_nanos(&self) -> (r: u128) ensures r == self.nanos() { unimplemented!() }
    #[verifier::external_body] pub fn as_micros(&self) -> (r: u128) ensures r == self.nanos() / 1000 { unimplemented!() }
    #[verifier::external_body] pub fn as_millis(&self) -> (r: u128) ensures r == self.nanos() / 1_000_000 { unimplemented!() }
    #[verifier::external_body] pub fn as_secs(&self) -> (r: u64) ensures r == self.secs, r as nat == self.nanos() / 1_000_000_000 { unimplemented!() }
}
// ---- grpc-timeout syntax, from PROTOCOL-HTTP2.md: TimeoutValue (at most 8 ASCII digits) TimeoutUnit (H M S m u n) ----
pub open spec fn is_digit(c: char) -> bool { '0' <= c && c <= '9' }
pub open spec fn all_digits(s: Seq<char>) -> bool { forall|i: int| 0 <= i < s.len() ==> is_digit(#[trigger] s[i]) }
pub open spec fn digits_val(s: Seq<char>) -> nat decreases s.len() {
    if s.len() == 0 { 0 } else { digits_val(s.drop_last()) * 10 + ((s.last() as u32 - '0' as u32) as nat) }
}
pub open spec fn unit_nanos(u: char) -> Option<nat> {
    if u == 'H' { Some(3_600_000_000_000nat) } else if u == 'M' { Some(60_000_000_000nat) } else if u == 'S' { Some(1_000_000_000nat) }
    else if u == 'm' { Some(1_000_000nat) } else if u == 'u' { Some(1_000nat) } else if u == 'n' { Some(1nat) } else { None }
}
// the duration a header value denotes; None = not spec-conformant
pub open spec fn timeout_denotes(v: Seq<char>) -> Option<nat> {
    if v.len() >= 2 && v.len() <= 9 && all_digits(v.drop_last()) && unit_nanos(v.last()) is Some {
        Some(digits_val(v.drop_last()) * unit_nanos(v.last())->Some_0)
    } else { None }
}
pub proof fn lemma_digits_bound(s: Seq<char>)
    requires all_digits(s)
    ensures digits_val(s) < pow10(s.len())
    decreases s.len()
{
    if s.len() > 0 {
        assert(all_digits(s.drop_last())) by { assert forall|i: int| 0 <= i < s.drop_last().len() implies is_digit(#[trigger] s.drop_last()[i]) by { assert(s.drop_last()[i] == s[i]); } }
        lemma_digits_bound(s.drop_last());
        assert(is_digit(s.last()));
    }
}
pub open spec fn pow10(n: nat) -> nat decreases n { if n == 0 { 1 } else { 10 * pow10((n - 1) as nat) } }

// A-std-parse-01: <u64 as FromStr>::from_str through str::parse: an optional '+', then one or more decimal digits, no overflow
pub open spec fn u64_syntax(s: Seq<char>) -> Option<nat> {
    if s.len() > 0 && all_digits(s) { Some(digits_val(s)) }
    else if s.len() > 1 && s[0] == '+' && all_digits(s.skip(1)) { Some(digits_val(s.skip(1))) } else { None }
}
pub struct ParseIntError { pub k: u8 }
#[verifier::external_body]
pub fn verif_parse_u64(s: &str) -> (r: Result<u64, ParseIntError>)
    ensures r is Ok <==> (u64_syntax(s@) is Some && u64_syntax(s@)->Some_0 <= u64::MAX), r matches Ok(v) ==> u64_syntax(s@) == Some(v as nat)
{ unimplemented!() }
// A-std-str-04 (R17): str::split_at(mid) on an ASCII string (byte index == char index); vstd's own spec is phrased over
// UTF-8 char boundaries, so the call goes through this extension method
pub open spec fn ascii_chars(s: Seq<char>) -> bool { forall|i: int| 0 <= i < s.len() ==> (#[trigger] s[i] as u32) < 128 }
pub trait VerifStrExt {
    spec fn chars(&self) -> Seq<char>;
    fn verif_split_at(&self, mid: usize) -> (r: (&str, &str))
        requires mid <= self.chars().len(), ascii_chars(self.chars())
        ensures r.0@ == self.chars().take(mid as int), r.1@ == self.chars().skip(mid as int);
    fn verif_len(&self) -> (r: usize)
        requires ascii_chars(self.chars())
        ensures r == self.chars().len();
}
impl VerifStrExt for str {
    open spec fn chars(&self) -> Seq<char> { self@ }
    #[verifier::external_body]
    fn verif_split_at(&self, mid: usize) -> (r: (&str, &str))
    { unimplemented!() }
    #[verifier::external_body]
    fn verif_len(&self) -> (r: usize)
    { unimplemented!() }
}
// A-core-10 (R15): `match s { "lit" => .. }` compares strings: s == "lit"
#[verifier::external_body]
pub fn verif_str_eq(a: &str, lit: &str) -> (r: bool) ensures r == (a@ == lit@) { unimplemented!() }
pub proof fn lemma_pow10_le8(n: nat)
    requires n <= 8
    ensures pow10(n) <= 100_000_000
{
    reveal_with_fuel(pow10, 10);
}
// A-tonic-timeout-01: is_ascii_digits(s) (s.bytes().all(|b| b.is_ascii_digit())): Kani-complete for every s of at most 8 bytes
// (kx harness timeout_digits); linked as a callee contract
#[verifier::external_body]
pub fn is_ascii_digits(s: &str) -> (r: bool) requires s@.len() <= 8 ensures r == all_digits(s@) { unimplemented!() }
// A-core-08: Result::and_then / map_err / unwrap_or_else in closure requires/ensures form
pub assume_specification<T, E, U, F: FnOnce(T) -> Result<U, E>>[ Result::<T, E>::and_then ](res: Result<T, E>, f: F) -> (r: Result<U, E>)
    requires res matches Ok(t) ==> f.requires((t,)),
    ensures res matches Ok(t) ==> f.ensures((t,), r), res matches Err(e) ==> r == Err::<U, E>(e);
pub assume_specification<T, E, F: FnOnce(E) -> T>[ Result::<T, E>::unwrap_or_else ](res: Result<T, E>, f: F) -> (r: T)
    requires res matches Err(e) ==> f.requires((e,)),
    ensures res matches Ok(t) ==> r == t, res matches Err(e) ==> f.ensures((e,), r);
'''

WRITER_SPEC = r'''
// A-fmt-01: Display of an unsigned integer is its decimal text (no sign, no leading zeros); Display of a char is the char
pub uninterp spec fn dec_chars(n: nat) -> Seq<char>;
pub broadcast axiom fn axiom_dec_chars(n: nat)
    ensures all_digits(#[trigger] dec_chars(n)), dec_chars(n).len() >= 1, digits_val(dec_chars(n)) == n,
        n <= 99_999_999 ==> dec_chars(n).len() <= 8;
pub trait DisplaySpec { spec fn shown(&self) -> Seq<char>; }
impl DisplaySpec for u128 { open spec fn shown(&self) -> Seq<char> { dec_chars(*self as nat) } }
impl DisplaySpec for char { open spec fn shown(&self) -> Seq<char> { seq![*self] } }
#[verifier::external_body]
pub fn verif_format2<A: DisplaySpec, B: DisplaySpec>(a: &A, b: &B) -> (r: String) ensures r@ == a.shown() + b.shown() { unimplemented!() }
// A-core-11: Into<u128> for u128 / u64 is the value
pub uninterp spec fn into_u128<T>(t: T) -> u128;
pub broadcast axiom fn axiom_into_u128_u128(t: u128) ensures #[trigger] into_u128::<u128>(t) == t;
pub broadcast axiom fn axiom_into_u128_u64(t: u64) ensures #[trigger] into_u128::<u64>(t) == t as u128;
pub trait IntoU128: Sized { fn into(self) -> (r: u128) ensures r == into_u128(self); }
impl IntoU128 for u128 { fn into(self) -> (r: u128) { broadcast use axiom_into_u128_u128; self } }
impl IntoU128 for u64 { fn into(self) -> (r: u128) { broadcast use axiom_into_u128_u64; self as u128 } }
// A-core-12: Option::or_else in closure requires/ensures form
pub assume_specification<T, F: FnOnce() -> Option<T>>[ Option::<T>::or_else ](o: Option<T>, f: F) -> (r: Option<T>)
    requires o is None ==> f.requires(()),
    ensures o is Some ==> r == o, o is None ==> f.ensures((), r);
pub proof fn lemma_written(d: Duration, u: char, s: Seq<char>)
    requires unit_nanos(u) is Some, d.nanos() / unit_nanos(u)->Some_0 <= 99_999_999, s == dec_chars(d.nanos() / unit_nanos(u)->Some_0) + seq![u]
    ensures
        timeout_denotes(s) == Some((d.nanos() / unit_nanos(u)->Some_0) * unit_nanos(u)->Some_0), s.last() == u,
        (d.nanos() / unit_nanos(u)->Some_0) * unit_nanos(u)->Some_0 <= d.nanos(),
        d.nanos() - (d.nanos() / unit_nanos(u)->Some_0) * unit_nanos(u)->Some_0 < unit_nanos(u)->Some_0,
{
    broadcast use axiom_dec_chars;
    let q = d.nanos() / unit_nanos(u)->Some_0;
    let un = unit_nanos(u)->Some_0;
    assert(s.drop_last() =~= dec_chars(q));
    assert(q * un <= d.nanos() && d.nanos() - q * un < un) by (nonlinear_arith) requires q == d.nanos() / un, un > 0;
}
// what try_format must answer for one unit (from the statement: at most 8 digits, rounded down)
pub open spec fn tf_post(d: Duration, unit: char, r: Option<String>) -> bool {
    let q = d.nanos() / unit_nanos(unit)->Some_0;
    (q > 99_999_999 ==> r is None) && (q <= 99_999_999 ==> (r is Some && r->Some_0@ == dec_chars(q) + seq![unit]))
}
'''

SVC = r'''
pub struct BoxError { pub timeout_expired: bool, pub id: Ghost<int> }
pub struct TimeoutExpired(pub ());
// A-tonic-err-01: `TimeoutExpired(()).into()` is a BoxError that downcasts to TimeoutExpired
impl vstd::std_specs::convert::FromSpecImpl<TimeoutExpired> for BoxError {
    open spec fn obeys_from_spec() -> bool { true }
    open spec fn from_spec(v: TimeoutExpired) -> Self { BoxError { timeout_expired: true, id: Ghost(0) } }
}
impl From<TimeoutExpired> for BoxError { fn from(t: TimeoutExpired) -> (r: BoxError) { BoxError { timeout_expired: true, id: Ghost(0) } } }
pub trait IntoBox { spec fn boxed(self) -> BoxError; }
// tower Service / Future
pub trait Service<Request> {
    type Response;
    type Error;
    type Future;
    spec fn fut_of(&self, req: Request) -> Self::Future;
    spec fn ready_now(&self) -> Poll<Result<(), Self::Error>>;
    // A-tower-03: poll_ready reports the readiness of the service (a ghost property of its state)
    fn poll_ready(&mut self, cx: &mut Context) -> (r: Poll<Result<(), Self::Error>>) ensures r == old(self).ready_now();
    // A-tower-02: Service::call returns the service's future for that request
    fn call(&mut self, req: Request) -> (f: Self::Future) ensures f == old(self).fut_of(req);
}
pub mod tokio { pub mod time {
    use crate::*;
    // A-tokio-01: tokio::time::sleep(d) is a timer for exactly d; polling it is Ready once it has fired
    pub struct Sleep { pub d: Duration, pub fired: Ghost<bool> }
    #[verifier::external_body]
    pub fn sleep(d: Duration) -> (r: Sleep) ensures r.d == d { unimplemented!() }
} }
pub use tokio::time::Sleep;
pub mod cmp_shim {}
'''

STD_CMP = r'''
// A-std-cmp-01: std::cmp::min on Duration is the shorter one
#[verifier::external_body]
pub fn verif_min(a: Duration, b: Duration) -> (r: Duration) ensures r == (if a.nanos() <= b.nanos() { a } else { b }) { unimplemented!() }
#[verifier::external_body]
pub fn verif_max(a: Duration, b: Duration) -> (r: Duration) ensures r == (if a.nanos() >= b.nanos() { a } else { b }) { unimplemented!() }
'''

POLL = r'''
// pin-project projection of ResponseFuture (A-pinproject-04)
pub struct PinMutF<'a, F> { pub p: &'a mut F }
pub struct RfProj<'a, F> { pub inner: PinMutF<'a, F>, pub sleep: PinMutOpt<'a> }
pub struct PinMutOpt<'a> { pub p: &'a mut Option<Sleep> }
pub struct PinMutSleep<'a> { pub p: &'a mut Sleep }
impl<F> ResponseFuture<F> {
    #[verifier::external_body]
    pub fn project(&mut self) -> (r: RfProj<'_, F>)
        ensures *r.inner.p == old(self).inner, *final(r.inner.p) == final(self).inner, *r.sleep.p == old(self).sleep, *final(r.sleep.p) == final(self).sleep
    { unimplemented!() }
}
impl<'a> PinMutOpt<'a> {
    #[verifier::external_body]
    pub fn as_pin_mut(self) -> (r: Option<PinMutSleep<'a>>)
        ensures r is Some <==> (*old(self.p)) is Some, r matches Some(s) ==> *s.p == (*old(self.p))->Some_0
    { unimplemented!() }
}
impl<'a> PinMutSleep<'a> {
    #[verifier::external_body]
    pub fn poll(self, cx: &mut Context) -> (r: Poll<()>) ensures r is Ready <==> old(self.p).fired@ { unimplemented!() }
}
// the inner future: its one-poll behaviour is a ghost outcome (A-future-02)
pub trait InnerFut<Res, E> {
    spec fn now(&self) -> Option<Result<Res, E>>;
    fn poll(&mut self, cx: &mut Context) -> (r: Poll<Result<Res, E>>)
        ensures r matches Poll::Ready(x) ==> old(self).now() == Some(x), r is Pending ==> old(self).now() is None;
}
impl<'a, F> PinMutF<'a, F> {
    pub fn poll<Res, E>(self, cx: &mut Context) -> (r: Poll<Result<Res, E>>) where F: InnerFut<Res, E>
        ensures r matches Poll::Ready(x) ==> old(self.p).now() == Some(x), r is Pending ==> old(self.p).now() is None
    { self.p.poll(cx) }
}
pub trait IntoBoxError { spec fn as_box(self) -> BoxError; fn into(self) -> (r: BoxError) ensures r == self.as_box(); }
impl<T, E> Poll<Result<T, E>> {
    // A-core-09: Poll::map_err maps the Err of a ready result
    #[verifier::external_body]
    pub fn map_err<U, G: FnOnce(E) -> U>(self, f: G) -> (r: Poll<Result<T, U>>)
        requires self matches Poll::Ready(Err(e)) ==> f.requires((e,))
        ensures
            self is Pending ==> r is Pending,
            self matches Poll::Ready(Ok(t)) ==> r == Poll::<Result<T, U>>::Ready(Ok(t)),
            self matches Poll::Ready(Err(e)) ==> r matches Poll::Ready(Err(u)) && f.ensures((e,), u),
    { unimplemented!() }
}
'''


def build():
    u = Unit('timeout', ['C09'])
    common.http_base(u)
    u.raw(SPEC)
    u.exec_const('tonic/src/metadata/map.rs', 'GRPC_TIMEOUT_HEADER', ensures=[Clause('is_grpc_timeout', 'GRPC_TIMEOUT_HEADER@ == "grpc-timeout"@')], indent='')
    u.item(T, 'const', 'SECONDS_IN_HOUR')
    u.item(T, 'const', 'SECONDS_IN_MINUTE')

    den = 'timeout_denotes(bytes_as_chars(headers@["grpc-timeout"@][0]))'
    u.fn(T, 'try_parse_grpc_timeout',
         sig_edits=[lambda t: t.sub_code('R12', r'HeaderMap<HeaderValue>', 'HeaderMap')],
         body_edits=[lambda t: t.sub_code('R17', r'timeout_value\.parse\(\)', 'verif_parse_u64(timeout_value)'),
                     lambda t: t.sub_code('R17', r'\.split_at\(', '.verif_split_at('),
                     lambda t: t.sub_code('R17', r'timeout_value\.len\(\)', 'timeout_value.verif_len()'),
                     lambda t: r15_bytes_match(t, strs=True)],
         hints=[('before', 'let timeout_value: u64', 'let ghost tv = timeout_value@; proof { lemma_digits_bound(timeout_value@); lemma_pow10_le8(timeout_value@.len()); }'),
                ('before', 'Ok(Some(duration))', 'proof { let v = bytes_as_chars(val@); assert(timeout_value as nat == digits_val(tv)); assert(unit_nanos(v.last()) is Some); let n = timeout_value as nat; assert((n * 3600) * 1_000_000_000 == n * 3_600_000_000_000) by (nonlinear_arith); assert((n * 60) * 1_000_000_000 == n * 60_000_000_000) by (nonlinear_arith); if timeout_unit@ == "H"@ { assert(v.last() == \'H\'); assert(duration.nanos() == n * 3_600_000_000_000); assert(duration.nanos() == digits_val(tv) * unit_nanos(v.last())->Some_0); } else if timeout_unit@ == "M"@ { assert(v.last() == \'M\'); assert(duration.nanos() == n * 60_000_000_000); assert(duration.nanos() == digits_val(tv) * unit_nanos(v.last())->Some_0); } else if timeout_unit@ == "S"@ { assert(v.last() == \'S\'); assert(unit_nanos(v.last()) == Some(1_000_000_000nat)); assert(duration.nanos() == n * 1_000_000_000); assert(duration.nanos() == digits_val(tv) * unit_nanos(v.last())->Some_0); } else if timeout_unit@ == "m"@ { assert(v.last() == \'m\'); assert(unit_nanos(v.last()) == Some(1_000_000nat)); assert(duration.nanos() == n * 1_000_000); assert(duration.nanos() == digits_val(tv) * unit_nanos(v.last())->Some_0); } else if timeout_unit@ == "u"@ { assert(v.last() == \'u\'); assert(unit_nanos(v.last()) == Some(1_000nat)); assert(duration.nanos() == n * 1_000); assert(duration.nanos() == digits_val(tv) * unit_nanos(v.last())->Some_0); } else { assert(timeout_unit@ == "n"@); assert(v.last() == \'n\'); assert(unit_nanos(v.last()) == Some(1nat)); assert(duration.nanos() == n); assert(digits_val(tv) * 1 == digits_val(tv)); assert(duration.nanos() == digits_val(tv) * unit_nanos(v.last())->Some_0); } assert(duration.nanos() == digits_val(tv) * unit_nanos(v.last())->Some_0); assert(v.len() >= 2 && v.len() <= 9); assert(all_digits(v.drop_last())); }'),
                ('before', 'let duration =', 'proof { let v = bytes_as_chars(val@); assert(tv =~= v.drop_last()); assert(timeout_unit@ =~= seq![v.last()]); assert(timeout_unit@[0] == v.last()); assert(v.last() == \'H\' ==> timeout_unit@ =~= "H"@); assert(v.last() == \'M\' ==> timeout_unit@ =~= "M"@); assert(v.last() == \'S\' ==> timeout_unit@ =~= "S"@); assert(v.last() == \'m\' ==> timeout_unit@ =~= "m"@); assert(v.last() == \'u\' ==> timeout_unit@ =~= "u"@); assert(v.last() == \'n\' ==> timeout_unit@ =~= "n"@); }')],
         closures={0: dict(params='_e: ToStrError', ret='(x: &HeaderValue)', ensures=['x == val']),
                   1: dict(params='s: &str', ret="(x: Result<&str, &HeaderValue>)", ensures=['x matches Ok(t) ==> t == s && s@.len() > 0', 'x is Ok <==> s@.len() > 0', 'x matches Err(e) ==> e == val']),
                   2: dict(params='_e: ParseIntError', ret='(x: &HeaderValue)', ensures=['x == val'])},
         body_start='    proof { reveal_strlit("H"); reveal_strlit("M"); reveal_strlit("S"); reveal_strlit("m"); reveal_strlit("u"); reveal_strlit("n"); }',
         ensures=[
             Clause('P1_absent_header_is_no_deadline', '!headers@.contains_key("grpc-timeout"@) ==> r matches Ok(None)'),
             Clause('P2_a_parsed_value_is_spec_conformant_and_denotes_exactly_that_duration',
                    f'r matches Ok(Some(d)) ==> headers@.contains_key("grpc-timeout"@) && visible_ascii(headers@["grpc-timeout"@][0]) && {den} == Some(d.nanos())'),
             Clause('P3_present_header_never_silently_dropped', 'headers@.contains_key("grpc-timeout"@) ==> !(r matches Ok(None))'),
             Clause('P5_every_spec_conformant_value_is_parsed',
                    f'headers@.contains_key("grpc-timeout"@) && visible_ascii(headers@["grpc-timeout"@][0]) && {den} is Some ==> r is Ok'),
             Clause('P4_malformed_values_are_errors_not_panics',
                    f'headers@.contains_key("grpc-timeout"@) && (!visible_ascii(headers@["grpc-timeout"@][0]) || {den} is None) ==> r is Err'),
         ])

    u.raw(SVC)
    u.raw(STD_CMP)
    u.item(T, 'struct', 'GrpcTimeout')
    u.item(T, 'struct', 'ResponseFuture')
    u.raw(POLL)
    eff = '''({ let c = match timeout_of(req.headers@) { Some(n) => Some(n), None => None::<nat> };
                match (c, old(self).server_timeout) {
                    (None, None) => None::<nat>, (Some(a), None) => Some(a), (None, Some(b)) => Some(b.nanos()),
                    (Some(a), Some(b)) => Some(if a <= b.nanos() { a } else { b.nanos() }) } })'''
    u.raw('''// the caller's deadline: what a conformant grpc-timeout denotes; a malformed or absent one means none
pub open spec fn timeout_of(h: HMap) -> Option<nat> {
    if h.contains_key("grpc-timeout"@) && visible_ascii(h["grpc-timeout"@][0]) { timeout_denotes(bytes_as_chars(h["grpc-timeout"@][0])) } else { None }
}
''')
    u._emit('impl<S> GrpcTimeout<S> {'); u._open_header = 'impl<S> GrpcTimeout<S> {'
    u.fn(T, 'new', within='impl<S> GrpcTimeout<S>', display='GrpcTimeout::new',
         ensures=[Clause('G0_the_layer_keeps_the_configured_timeout', 'r.inner == inner && r.server_timeout == server_timeout')])
    u.close('}')
    u.fn(T, 'poll_ready', within='impl<S, ReqBody> Service<Request<ReqBody>> for GrpcTimeout<S>', header='impl<S> GrpcTimeout<S> {', close=True, display='GrpcTimeout::poll_ready',
         sig_edits=[lambda t: t.sub_code('R9', r'Self::Error', 'BoxError'), lambda t: t.sub_code('R12', r'fn poll_ready\(', 'fn poll_ready<ReqBody>('),
                    lambda t: t.edit('R12', len(t.t.rstrip()), len(t.t.rstrip()), ' where S: Service<http::Request<ReqBody>>, S::Error: IntoBoxError')],
         body_edits=[lambda t: t.sub_code('R3', r'\.map_err\(Into::into\)', '.map_err(|e| IntoBoxError::into(e))')],
         closures={0: dict(params='e: S::Error', ret='(x: BoxError)', ensures=['x == e.as_box()'])},
         ensures=[Clause('T0_ready_exactly_when_the_wrapped_service_is_its_error_boxed_and_the_configured_timeout_untouched',
                         '''(match old(self).inner.ready_now() { Poll::Pending => r is Pending, Poll::Ready(Ok(_)) => r matches Poll::Ready(Ok(_)), Poll::Ready(Err(e)) => r == Poll::<Result<(), BoxError>>::Ready(Err(e.as_box())) })
                && final(self).server_timeout == old(self).server_timeout''')])
    u.fn(T, 'call', within='impl<S, ReqBody> Service<Request<ReqBody>> for GrpcTimeout<S>',
         header='impl<S> GrpcTimeout<S> {', close=True,
         sig_edits=[lambda t: t.sub_code('R9', r'Self::Future', 'ResponseFuture<S::Future>'),
                    lambda t: t.sub_code('R12', r'fn call\(', 'fn call<ReqBody>('),
                    lambda t: t.sub_code('R12', r'req: Request<ReqBody>', 'req: http::Request<ReqBody>'),
                    lambda t: t.edit('R12', len(t.t.rstrip()), len(t.t.rstrip()), ' where S: Service<http::Request<ReqBody>>')],
         body_edits=[lambda t: t.sub_code('R17', r'std::cmp::(min|max)\(', r'verif_\1('),
                     lambda t: t.sub_code('R3', r'\.map\(tokio::time::sleep\)', '.map(|e| tokio::time::sleep(e))')],
         closures={0: dict(params='e: &HeaderValue', ret='(o: Option<Duration>)', ensures=['o is None']),
                   1: dict(params='e: Duration', ret='(x: Sleep)', ensures=['x.d == e'])},
         ensures=[
             Clause('T1_deadline_is_the_shorter_of_header_and_configured', f'''match {eff} {{
                Some(n) => r.sleep is Some && r.sleep->Some_0.d.nanos() == n,
                None => r.sleep is None,
            }}'''),
             Clause('T2_the_call_itself_is_forwarded_untouched', 'r.inner == old(self).inner.fut_of(req)'),
         ])
    u.fn(T, 'poll', within='impl<F, Res, E> Future for ResponseFuture<F>',
         header='impl<F> ResponseFuture<F> {', close=True,
         sig_edits=[lambda t: t.sub_code('R9', r'Self::Output', 'Result<Res, BoxError>'),
                    lambda t: t.sub_code('R12', r'fn poll\(', 'fn poll<Res, E: IntoBoxError>('),
                    lambda t: t.edit('R12', len(t.t.rstrip()), len(t.t.rstrip()), ' where F: InnerFut<Res, E>')],
         body_edits=[lambda t: t.sub_code('R3', r'\.map_err\(Into::into\)', '.map_err(|e| e.into())')],
         closures={0: dict(params='e: E', ret='(x: BoxError)', ensures=['x == e.as_box()'])},
         ensures=[
             Clause('R1_a_finished_call_wins_even_if_the_timer_fired',
                    '''old(self).inner.now() matches Some(x) ==> r == Poll::Ready(match x { Ok(v) => Ok::<Res, BoxError>(v), Err(e) => Err::<Res, BoxError>(e.as_box()) })'''),
             Clause('R2_timeout_only_when_the_timer_fired_and_the_call_is_not_done',
                    '''old(self).inner.now() is None ==> (match old(self).sleep {
                    Some(s) => if s.fired@ { r matches Poll::Ready(Err(e)) && e.timeout_expired } else { r is Pending },
                    None => r is Pending })'''),
         ])

    u.raw(WRITER_SPEC)
    cl = {}
    # closure ordinals in source order: |d| d.as_nanos() ; || try_format(..'u'..) ; |d| d.as_micros() ; ...
    conv = [('x == d.nanos()', 'n'), ('x == d.nanos() / 1000', 'u'), ('x == d.nanos() / 1_000_000', 'm'),
            ('x as nat == d.nanos() / 1_000_000_000', 'S'), ('x as nat == d.nanos() / 60_000_000_000', 'M'), ('x as nat == d.nanos() / 3_600_000_000_000', 'H')]
    tys = ['u128', 'u128', 'u128', 'u64', 'u64', 'u64']
    k = 0
    for i, (ens, unit) in enumerate(conv):
        if i > 0:
            cl[k] = dict(params='', ret='(o: Option<String>)', ensures=['tf_post(duration, \'%s\', o)' % unit])
            k += 1
        cl[k] = dict(params='d: Duration', ret='(x: %s)' % tys[i], ensures=[ens])
        k += 1
    u.fn(RQ, 'duration_to_grpc_timeout',
         requires=['duration.nanos() <= 99_999_999 * 3_600_000_000_000'],
         closures=cl,
         sig_edits=[],
         body_edits=[lambda t: t.sub_code('R12', r'T: Into<u128>', 'T: IntoU128')],
         body_start='''    broadcast use axiom_into_u128_u128, axiom_into_u128_u64;
    proof {
        let d = duration;
        if d.nanos() / 1 <= 99_999_999 { lemma_written(d, 'n', dec_chars(d.nanos() / 1) + seq!['n']); }
        if d.nanos() / 1000 <= 99_999_999 { lemma_written(d, 'u', dec_chars(d.nanos() / 1000) + seq!['u']); }
        if d.nanos() / 1_000_000 <= 99_999_999 { lemma_written(d, 'm', dec_chars(d.nanos() / 1_000_000) + seq!['m']); }
        if d.nanos() / 1_000_000_000 <= 99_999_999 { lemma_written(d, 'S', dec_chars(d.nanos() / 1_000_000_000) + seq!['S']); }
        if d.nanos() / 60_000_000_000 <= 99_999_999 { lemma_written(d, 'M', dec_chars(d.nanos() / 60_000_000_000) + seq!['M']); }
        if d.nanos() / 3_600_000_000_000 <= 99_999_999 { lemma_written(d, 'H', dec_chars(d.nanos() / 3_600_000_000_000) + seq!['H']); }
    }''',
         hints=[('replace', ') -> Option<String> {', ''') -> (r: Option<String>)
        requires convert.requires((duration,)), unit_nanos(unit) is Some,
            forall|t: T| convert.ensures((duration,), t) ==> #[trigger] into_u128(t) as nat == duration.nanos() / unit_nanos(unit)->Some_0,
        ensures tf_post(duration, unit, r),
    {''')],
         ensures=[
             Clause('W1_written_value_is_spec_conformant', 'timeout_denotes(r@) is Some'),
             Clause('W2_never_longer_than_requested', 'timeout_denotes(r@)->Some_0 <= duration.nanos()'),
             Clause('W3_loses_less_than_one_unit_of_the_chosen_precision', 'duration.nanos() - timeout_denotes(r@)->Some_0 < unit_nanos(r@.last())->Some_0'),
         ])

    # ---- Request::set_timeout: the written value goes into the grpc-timeout metadata entry and the conversion never panics ----
    common.metadata_core(u, props_sanitize=('C09',))
    u.raw('''
// MetadataValue<Ascii> / MetadataMap::insert as used here (A-tonic-meta-01; the generic key plumbing is proved in unit metadata)
pub struct MetadataValue { pub inner: HeaderValue }
#[derive(Debug)]
pub struct InvalidMetadataValue { pub x: u8 }
// A-tonic-meta-02 (R17): str::parse::<MetadataValue<Ascii>>() is HeaderValue::from_str: Ok exactly for visible ASCII (32..=126) text
pub open spec fn visible_text(s: Seq<char>) -> bool { forall|i: int| 0 <= i < s.len() ==> 32 <= (#[trigger] s[i]) as u32 && (s[i] as u32) < 127 }
#[verifier::external_body]
pub fn verif_parse_metadata_value(s: &String) -> (r: Result<MetadataValue, InvalidMetadataValue>)
    ensures r is Ok <==> visible_text(s@), r matches Ok(v) ==> v.inner@ == ascii_bytes(s@)
{ unimplemented!() }
impl MetadataMap {
    #[verifier::external_body]
    pub fn insert(&mut self, key: &'static str, val: MetadataValue) -> (r: Option<MetadataValue>)
        ensures final(self).headers@ == old(self).headers@.insert(key@, seq![val.inner@])
    { unimplemented!() }
    #[verifier::external_body]
    pub fn append(&mut self, key: &'static str, val: MetadataValue) -> (r: bool)
        ensures final(self).headers@ == hmap_append(old(self).headers@, key@, val.inner@)
    { unimplemented!() }
}
pub use crate::httpmsg::Extensions;
pub mod metadata { pub use crate::GRPC_TIMEOUT_HEADER; }
pub proof fn lemma_timeout_text_is_visible(v: Seq<char>)
    requires timeout_denotes(v) is Some
    ensures visible_text(v)
{
    assert forall|i: int| 0 <= i < v.len() implies 32 <= (#[trigger] v[i]) as u32 && (v[i] as u32) < 127 by {
        if i < v.len() - 1 { assert(is_digit(v.drop_last()[i])); } else { assert(v[i] == v.last()); }
    }
}
''')
    u.item(RQ, 'struct', 'Request')
    u._emit('impl<T> Request<T> {'); u._open_header = 'impl<T> Request<T> {'
    u.fn(RQ, 'metadata_mut', within='impl<T> Request<T>',
         ensures=[Clause('borrow', '*r == old(self).metadata && *final(r) == final(self).metadata && final(self).message == old(self).message && final(self).extensions == old(self).extensions')])
    u.fn(RQ, 'set_timeout', within='impl<T> Request<T>',
         requires=['deadline.nanos() <= 99_999_999 * 3_600_000_000_000'],
         body_edits=[lambda t: t.sub_code('R17', r'duration_to_grpc_timeout\(deadline\)\.parse\(\)', 'verif_parse_metadata_value(&duration_to_grpc_timeout(deadline))'),
                     lambda t: t.sub_code('R20', r'let value: MetadataValue<_> = verif_parse_metadata_value\(&duration_to_grpc_timeout\(deadline\)\)\.unwrap\(\);',
                                          'let verif_text = duration_to_grpc_timeout(deadline); proof { lemma_timeout_text_is_visible(verif_text@); } let value: MetadataValue = verif_parse_metadata_value(&verif_text).unwrap();')],
         ensures=[Clause('T1_the_grpc_timeout_entry_is_a_conformant_value_never_longer_than_the_deadline_and_within_one_unit_of_it',
                         '''exists|v: Seq<char>| #[trigger] timeout_denotes(v) is Some && timeout_denotes(v)->Some_0 <= deadline.nanos() && deadline.nanos() - timeout_denotes(v)->Some_0 < unit_nanos(v.last())->Some_0
                            && final(self).metadata.headers@ == old(self).metadata.headers@.insert("grpc-timeout"@, seq![ascii_bytes(v)])'''),
                  Clause('T2_nothing_else_changes', 'final(self).message == old(self).message && final(self).extensions == old(self).extensions')])
    u.close('}')
    return u
