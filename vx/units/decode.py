"""U2 — decoder side: tonic/src/codec/decode.rs + buffer.rs (DecodeBuf).
Carries C01 (chunking independence), C05 (flag rule), C06 (limit before reserve), C07 (hostile input)."""
from vxlib import Unit, Clause
from units import common

D = 'tonic/src/codec/decode.rs'

SHIMS = r'''
// ---- shims local to the decoder unit ----
// A-fmt-11: Debug for HeaderMap is diagnostics only
#[verifier::external]
impl core::fmt::Debug for HeaderMap { fn fmt(&self, f: &mut core::fmt::Formatter<'_>) -> core::fmt::Result { unimplemented!() } }
#[derive(Debug)]
pub enum Frame { Data(Bytes), Trailers(HeaderMap) }
impl Frame {
    // A-httpbody-01: http_body::Frame is either data or trailers; is_*/into_* agree with the variant
    pub fn is_data(&self) -> (r: bool) ensures r == (self is Data) { match self { Frame::Data(_) => true, _ => false } }
    pub fn is_trailers(&self) -> (r: bool) ensures r == (self is Trailers) { match self { Frame::Trailers(_) => true, _ => false } }
    pub fn into_data(self) -> (r: Result<Bytes, Frame>) ensures self is Data ==> r is Ok && r->Ok_0 == self->Data_0
    { match self { Frame::Data(b) => Ok(b), f => Err(f) } }
    pub fn into_trailers(self) -> (r: Result<HeaderMap, Frame>) ensures self is Trailers ==> r is Ok && r->Ok_0 == self->Trailers_0
    { match self { Frame::Trailers(b) => Ok(b), f => Err(f) } }
}
// The inner body with a ghost history: every DATA byte it has delivered so far, whether it reported its end,
// how often it was polled, and how many DATA frames / trailers frames / errors it has delivered.
// `left`: the (ghost) number of frames the body will still deliver - a body is finite (A-httpbody-03); it is what makes "every
// poll completes" (C07) a checkable statement: each turn of the decoding loop must take a frame of the body or enter the error state
pub struct Body { pub received: Ghost<Seq<u8>>, pub ended: Ghost<bool>, pub polls: Ghost<nat>,
    pub data_frames: Ghost<nat>, pub trailer_frames: Ghost<nat>, pub errors: Ghost<nat>, pub left: Ghost<nat> }
pub open spec fn body_step(pre: Body, post: Body, r: Poll<Option<Result<Frame, Status>>>) -> bool {
    &&& post.polls@ == pre.polls@ + 1
    &&& match r {
        Poll::Ready(Some(Ok(Frame::Data(b)))) => post.received@ == pre.received@ + b@ && post.ended@ == pre.ended@,
        Poll::Ready(None) => post.received@ == pre.received@ && post.ended@,
        _ => post.received@ == pre.received@ && post.ended@ == pre.ended@,
    }
    &&& post.data_frames@ == pre.data_frames@ + (if r matches Poll::Ready(Some(Ok(Frame::Data(_)))) { 1nat } else { 0nat })
    &&& post.trailer_frames@ == pre.trailer_frames@ + (if r matches Poll::Ready(Some(Ok(Frame::Trailers(_)))) { 1nat } else { 0nat })
    &&& post.errors@ == pre.errors@ + (if r matches Poll::Ready(Some(Err(_))) { 1nat } else { 0nat })
    &&& (if r matches Poll::Ready(Some(_)) { post.left@ < pre.left@ } else { post.left@ == pre.left@ })
}
pub struct Pin<P> { pub p: P }
impl<'a> Pin<&'a mut Body> {
    pub fn new(p: &'a mut Body) -> (r: Pin<&'a mut Body>) ensures *r.p == *old(p), *final(r.p) == *final(p) { Pin { p } }
    // A-httpbody-02: polling the body either delivers a frame (DATA bytes are appended to the ghost history),
    // reports an error, reports its end, or is pending; nothing else about it is assumed (any chunking, any readiness).
    #[verifier::external_body]
    pub fn poll_frame(self, cx: &mut Context) -> (r: Poll<Option<Result<Frame, Status>>>)
        ensures body_step(*old(self.p), *final(self.p), r)
    { unimplemented!() }
}
// Codec-side contract (ASSUMED about the user's Decoder, e.g. ProstDecoder): decode() reads the whole DecodeBuf and
// returns the message it denotes, or fails; it never answers Ok(None) on a complete payload.
pub trait Decoder {
    type Item;
    type Error;
    spec fn dec(&self, payload: Seq<u8>) -> Option<Self::Item>;
    // A-codec-01: Decoder::decode contract
    fn decode(&mut self, src: &mut DecodeBuf<'_>) -> (r: Result<Option<Self::Item>, Self::Error>)
        requires old(src).wf()
        ensures
            r matches Ok(Some(m)) ==> old(self).dec(old(src).payload()) == Some(m) && final(src).len == 0
                && (*final(src).buf)@ == (*old(src).buf)@.skip(old(src).len as int),
            !(r matches Ok(None)),
            r is Err ==> old(self).dec(old(src).payload()) is None,
            *final(final(src).buf) == *final(old(src).buf),
            final(src).buf.reserve_bound == old(src).buf.reserve_bound,
            forall|p: Seq<u8>| final(self).dec(p) == old(self).dec(p);
    // A-codec-02: Decoder::buffer_settings has no side effect
    fn buffer_settings(&self) -> (r: BufferSettings) ensures sane(r);
}
'''

TRACE = r'''
// ---- whole-stream statement (C01, first sentence): chunking independence of the decoder ----
// dec_step is the conjunction of the PROVED clauses I, H, M1, P1, N1 of the real Streaming::poll_next (generated from the same
// clause text).  For ANY history of polls that yields messages or is pending - however the body cuts the bytes into DATA
// frames, however readiness interleaves - the bytes received so far are exactly: the frames of the messages handed out, in
// order, followed by what is still unparsed; and every message handed out is the decoding of its frame's payload.
pub open spec fn dec_step<T, DEC: Decoder<Item = T, Error = Status>>(pre: Streaming<T, DEC>, post: Streaming<T, DEC>, r: Poll<Option<Result<T, Status>>>) -> bool {
    &&& /*STEP*/
}
pub open spec fn dec_trace<T, DEC: Decoder<Item = T, Error = Status>>(ss: Seq<Streaming<T, DEC>>, rs: Seq<Poll<Option<Result<T, Status>>>>) -> bool {
    ss.len() == rs.len() + 1 && forall|i: int| 0 <= i < rs.len() ==> #[trigger] dec_step(ss[i], ss[i + 1], rs[i])
}
// the bytes available to poll i: what was unparsed before it plus what the body delivered during it
pub open spec fn avail<T, DEC: Decoder<Item = T, Error = Status>>(ss: Seq<Streaming<T, DEC>>, i: int) -> Seq<u8> {
    ss[i].inner.unparsed() + ss[i + 1].inner.body.received@.skip(ss[i].inner.body.received@.len() as int)
}
// concatenation of the frames of the messages handed out by the first n polls
pub open spec fn taken<T, DEC: Decoder<Item = T, Error = Status>>(ss: Seq<Streaming<T, DEC>>, rs: Seq<Poll<Option<Result<T, Status>>>>, n: int) -> Seq<u8>
    decreases n
{
    if n <= 0 || n > rs.len() { Seq::<u8>::empty() }
    else { taken(ss, rs, n - 1) + (if rs[n - 1] matches Poll::Ready(Some(Ok(_))) { avail(ss, n - 1).take(5 + hdr_len(avail(ss, n - 1))) } else { Seq::<u8>::empty() }) }
}
pub proof fn lemma_dec_chunking_independent<T, DEC: Decoder<Item = T, Error = Status>>(ss: Seq<Streaming<T, DEC>>, rs: Seq<Poll<Option<Result<T, Status>>>>, n: int)
    requires
        dec_trace(ss, rs), 0 <= n <= rs.len(), !(ss[0].inner.state is Error),
        forall|i: int| 0 <= i < n ==> !(#[trigger] rs[i] matches Poll::Ready(Some(Err(_)))),
    ensures
        !(ss[n].inner.state is Error),
        ss[n].inner.body.received@.len() >= ss[0].inner.body.received@.len(),
        ss[n].inner.body.received@.take(ss[0].inner.body.received@.len() as int) == ss[0].inner.body.received@,
        // conservation: input so far == frames handed out ++ still unparsed
        ss[0].inner.unparsed() + ss[n].inner.body.received@.skip(ss[0].inner.body.received@.len() as int) == taken(ss, rs, n) + ss[n].inner.unparsed(),
        // each message handed out is the decoding of the payload of the first frame of what was available
        forall|i: int| 0 <= i < n ==> (#[trigger] rs[i] matches Poll::Ready(Some(Ok(m))) ==> complete(avail(ss, i))
            && ss[0].decoder.dec(plain_payload(avail(ss, i), ss[0].inner.encoding)->Some_0) == Some(m)),
        forall|p: Seq<u8>| ss[n].decoder.dec(p) == ss[0].decoder.dec(p), ss[n].inner.encoding == ss[0].inner.encoding,
    decreases n
{
    let r0 = ss[0].inner.body.received@; let l0 = r0.len() as int;
    if n == 0 {
        assert(ss[0].inner.body.received@.skip(l0) =~= Seq::<u8>::empty());
        assert(ss[0].inner.unparsed() + Seq::<u8>::empty() =~= Seq::<u8>::empty() + ss[0].inner.unparsed());
        assert(r0.take(l0) =~= r0);
    } else {
        lemma_dec_chunking_independent(ss, rs, n - 1);
        let i0 = n - 1;
        assert(dec_step(ss[i0], ss[i0 + 1], rs[i0]));
        let pre = ss[i0]; let post = ss[i0 + 1]; let r = rs[i0];
        let r1 = pre.inner.body.received@; let r2 = post.inner.body.received@;
        let w = avail(ss, i0);
        assert(!(rs[i0] matches Poll::Ready(Some(Err(_)))));
        assert(r2.take(l0) =~= r0) by { assert(r2.take(r1.len() as int).take(l0) =~= r2.take(l0)); }
        assert(r2.skip(l0) =~= r1.skip(l0) + r2.skip(r1.len() as int)) by { assert(r2 =~= r2.take(r1.len() as int) + r2.skip(r1.len() as int)); }
        let inp1 = ss[0].inner.unparsed() + r1.skip(l0);
        assert(ss[0].inner.unparsed() + r2.skip(l0) =~= inp1 + r2.skip(r1.len() as int));
        assert(inp1 + r2.skip(r1.len() as int) =~= taken(ss, rs, n - 1) + w) by {
            assert((taken(ss, rs, n - 1) + pre.inner.unparsed()) + r2.skip(r1.len() as int) =~= taken(ss, rs, n - 1) + (pre.inner.unparsed() + r2.skip(r1.len() as int)));
        }
        match r {
            Poll::Ready(Some(Ok(m))) => {
                assert(complete(w));
                assert(w =~= w.take(5 + hdr_len(w)) + after_first(w));
                assert(taken(ss, rs, n) == taken(ss, rs, n - 1) + w.take(5 + hdr_len(w)));
                assert(taken(ss, rs, n - 1) + w =~= (taken(ss, rs, n - 1) + w.take(5 + hdr_len(w))) + after_first(w));
            },
            _ => {
                assert(taken(ss, rs, n) =~= taken(ss, rs, n - 1) + Seq::<u8>::empty());
                assert(taken(ss, rs, n - 1) + Seq::<u8>::empty() =~= taken(ss, rs, n - 1));
            },
        }
    }
}
// ---- whole-stream statement (C07): the first error is final ----
// once a poll has yielded an error, every later poll of any history answers "end of stream" and changes nothing
pub proof fn lemma_first_error_is_final<T, DEC: Decoder<Item = T, Error = Status>>(ss: Seq<Streaming<T, DEC>>, rs: Seq<Poll<Option<Result<T, Status>>>>, k: int, j: int)
    requires dec_trace(ss, rs), 0 <= k < j < rs.len(), rs[k] matches Poll::Ready(Some(Err(_)))
    ensures rs[j] == Poll::<Option<Result<T, Status>>>::Ready(None), ss[j + 1] == ss[k + 1], ss[j].inner.state matches State::Error(None)
    decreases j - k
{
    assert(dec_step(ss[k], ss[k + 1], rs[k]));
    if j == k + 1 {
        assert(dec_step(ss[j], ss[j + 1], rs[j]));
    } else {
        lemma_first_error_is_final(ss, rs, k, j - 1);
        let i0 = j - 1;
        assert(ss[i0 + 1] == ss[k + 1]);
        assert(dec_step(ss[j], ss[j + 1], rs[j]));
    }
}
'''

SPECS = r'''
impl<'a> DecodeBuf<'a> {
    pub open spec fn wf(&self) -> bool { self.len <= (*self.buf)@.len() }
    pub open spec fn payload(&self) -> Seq<u8> { (*self.buf)@.take(self.len as int) }
}
impl StreamingInner {
    pub open spec fn limit(&self) -> int {
        match self.max_message_size { Some(l) => l as int, None => DEFAULT_MAX_RECV_MESSAGE_SIZE as int }
    }
    // representation invariant: the ghost reserve budget of `buf` is the effective limit (C06: nothing larger is ever
    // reserved), and a header that has been accepted was legal.
    pub open spec fn wf(&self) -> bool {
        &&& self.buf.reserve_bound@ == self.limit()
        &&& match self.state {
            State::ReadBody { compression, len } => len <= self.limit() && len < 0x1_0000_0000 && (compression is Some ==> compression == self.encoding),
            _ => true,
        }
    }
    // the bytes received and not yet handed out as a message, INCLUDING a header that was already consumed
    pub open spec fn unparsed(&self) -> Seq<u8> {
        match self.state {
            State::ReadBody { compression, len } => hdr(flag_of(compression), len as int) + self.buf@,
            _ => self.buf@,
        }
    }
    // what changed besides buffers
    pub open spec fn same_config(&self, o: &StreamingInner) -> bool {
        self.encoding == o.encoding && self.max_message_size == o.max_message_size && self.direction == o.direction
    }
}
// legality of the first frame header of w, as the protocol (and the property) states it
pub open spec fn header_error(w: Seq<u8>, encoding: Option<CompressionEncoding>, limit: int) -> Option<Code> {
    if hdr_flag(w) > 1 { Some(Code::Internal) }
    else if hdr_flag(w) == 1 && encoding is None { Some(Code::Internal) }
    else if hdr_len(w) > limit { Some(Code::OutOfRange) }
    else { None }
}
// the plain (decompressed) payload of the first frame of w
pub open spec fn plain_payload(w: Seq<u8>, encoding: Option<CompressionEncoding>) -> Option<Seq<u8>> {
    if hdr_flag(w) == 0 { Some(first_payload(w)) } else { decompress_spec(encoding->Some_0, first_payload(w)) }
}
'''


def build():
    u = Unit('decode', ['C01', 'C05', 'C06', 'C07'])
    common.http_base(u)
    u.prelude('wire.rs')
    common.metadata_core(u)
    common.status_decls(u)
    common.status_assumed(u)
    u.item('tonic/src/codec/compression.rs', 'enum', 'CompressionEncoding', derives='Clone, Copy, PartialEq, Eq')
    u.prelude('codec_specs.rs', 'codec.rs')
    u.const_guard('tonic/src/codec/mod.rs', 'HEADER_SIZE', 'const HEADER_SIZE: usize = std::mem::size_of::<u8>() + std::mem::size_of::<u32>();', 'pub const HEADER_SIZE: usize = 5;')
    u.item('tonic/src/codec/mod.rs', 'const', 'DEFAULT_MAX_RECV_MESSAGE_SIZE')
    u.raw('''// C06: "4 MiB by default"
pub proof fn lemma_default_decoding_limit_is_4_mib() ensures DEFAULT_MAX_RECV_MESSAGE_SIZE == 4194304usize {}
''', props=['C06'])
    u.item('tonic/src/codec/buffer.rs', 'struct', 'DecodeBuf')
    u.raw(SHIMS)
    u.item(D, 'enum', 'State')
    u.item(D, 'enum', 'Direction', derives='PartialEq, Eq, Structural')
    u.item(D, 'struct', 'StreamingInner')
    u.item(D, 'struct', 'Streaming', attrs=['#[verifier::reject_recursive_types(T)]'], edits=[
        lambda t: t.sub_code('R12', r"Box<dyn Decoder<Item = T, Error = Status> \+ Send \+ 'static>", 'DEC'),
        lambda t: t.sub_code('R12', r'Streaming<T>', 'Streaming<T, DEC: Decoder<Item = T, Error = Status>>')])
    u.raw(SPECS)
    u.raw('''
// ---- Streaming::new: wrapping the transport body (A-httpbody-07: BodyExt::map_frame / map_err adapt every frame / error with
// the given function; tonic::body::Body::new boxes the adapted body - a fresh history).  The frame mapper tonic passes in is a
// closure of Streaming::new: its own contract (every DATA frame keeps ALL its bytes, contiguous or not; trailers untouched) is an
// obligation of this unit.
pub enum RawFrame<D> { Data(D), Trailers(HeaderMap) }
impl<D> RawFrame<D> {
    #[verifier::external_body]
    pub fn map_data<U, G: FnOnce(D) -> U>(self, f: G) -> (r: RawFrame<U>)
        requires self matches RawFrame::Data(d) ==> f.requires((d,))
        ensures self matches RawFrame::Data(d) ==> r matches RawFrame::Data(u) && f.ensures((d,), u), self matches RawFrame::Trailers(t) ==> r == RawFrame::<U>::Trailers(t),
    { unimplemented!() }
}
pub struct MapFrame<B, F> { pub inner: B, pub f: F }
pub struct MapErr<B, F> { pub inner: B, pub f: F }
pub trait RawBody: Sized { type Error; }
pub trait RawBodyExt: RawBody {
    fn map_frame<F: Fn(RawFrame<BufData>) -> RawFrame<Bytes>>(self, f: F) -> (r: MapFrame<Self, F>)
        requires forall|fr: RawFrame<BufData>| f.requires((fr,)),
                 // what tonic owes the decoder: the mapper loses nothing
                 forall|fr: RawFrame<BufData>, out: RawFrame<Bytes>| f.ensures((fr,), out) ==> lossless(fr, out),
        ensures r.inner == self;
}
impl<B: RawBody> RawBodyExt for B { #[verifier::external_body] fn map_frame<F: Fn(RawFrame<BufData>) -> RawFrame<Bytes>>(self, f: F) -> (r: MapFrame<Self, F>) { unimplemented!() } }
impl<B: RawBody, F> MapFrame<B, F> {
    #[verifier::external_body]
    pub fn map_err<G: Fn(B::Error) -> Status>(self, g: G) -> (r: MapErr<Self, G>) requires forall|e: B::Error| g.requires((e,)) ensures r.inner == self { unimplemented!() }
}
pub open spec fn lossless(fr: RawFrame<BufData>, out: RawFrame<Bytes>) -> bool {
    match fr { RawFrame::Data(d) => out matches RawFrame::Data(o) && o@ == d@, RawFrame::Trailers(t) => out == RawFrame::<Bytes>::Trailers(t) }
}
impl Body {
    #[verifier::external_body]
    pub fn new<X>(x: X) -> (r: Body) ensures r.received@ == Seq::<u8>::empty(), !r.ended@, r.polls@ == 0, r.data_frames@ == 0, r.trailer_frames@ == 0, r.errors@ == 0 { unimplemented!() }
}
pub struct BoxError { pub id: Ghost<int> }
impl Status {
    // A-tonic-status-03: Status::map_error turns a body error into a status
    #[verifier::external_body]
    pub fn map_error(e: BoxError) -> (r: Status) { unimplemented!() }
}
''')
    u.fn(D, 'new', within='impl<T> Streaming<T>', header='impl<T, DEC: Decoder<Item = T, Error = Status>> Streaming<T, DEC> {', close=True,
         props=['C01', 'C02', 'C06', 'C07'],
         sig_edits=[lambda t: t.sub_code('R12', r'fn new<B, D>\(', 'fn new<B: RawBody>('),
                    lambda t: t.sub_code('R12', r'decoder: D,', 'decoder: DEC,'),
                    lambda t: t.sub_code('R12', r'\bwhere\s+B: HttpBody[^{]*', 'where BoxError: From<B::Error>')],
         body_edits=[lambda t: t.sub_code('R12', r'decoder: Box::new\(decoder\),', 'decoder: decoder,')],
         closures={0: dict(params='frame: RawFrame<BufData>', ret='(o: RawFrame<Bytes>)', ensures=['lossless(frame, o)']),
                   1: dict(params='mut buf: BufData', ret='(x: Bytes)', ensures=['x@ =~= buf@']),
                   2: dict(params='err: B::Error', ret='(o: Status)')},
         ensures=[Clause('C1_a_fresh_stream_with_the_given_settings_reads_a_header_first',
                         '''r.decoder == decoder && r.inner.state is ReadHeader && r.inner.direction == direction && r.inner.encoding == encoding && r.inner.max_message_size == max_message_size
                            && r.inner.trailers is None && r.inner.buf@ == Seq::<u8>::empty() && r.inner.body.received@ == Seq::<u8>::empty() && !r.inner.body.ended@''')])

    u.fn('tonic/src/codec/buffer.rs', 'new', within="impl<'a> DecodeBuf<'a>", header="impl<'a> DecodeBuf<'a> {",
         ensures=[('new', 'r.len == len && *r.buf == *old(buf) && *final(r.buf) == *final(buf)')])

    unp = 'old(self).unparsed()'
    u.fn(D, 'decode_chunk', within='impl StreamingInner', header='impl StreamingInner {', close=False,
         requires=['old(self).wf()', '!(old(self).state is Error)', 'sane(buffer_settings)'],
         body_start='        broadcast use lemma_hdr_prefix, lemma_hdr_rebuild;',
         hints=[('before', 'let decode_buf = if let Some(encoding) = compression {',
                 'proof { lemma_hdr_prefix(flag_of(compression), len as int, self.buf@); lemma_hdr_subrange(flag_of(compression), len as int, self.buf@, len as int); }')],
         ensures=[
             Clause('N1_need_more_changes_nothing',
                    f'''r matches Ok(None) ==> final(self).wf() && final(self).unparsed() == {unp}
                && final(self).same_config(old(self)) && final(self).body == old(self).body && final(self).trailers == old(self).trailers
                && !(final(self).state is Error)
                && !complete({unp})''', ['C01', 'C07']),
             Clause('E_errors_are_exactly_illegal_headers',
                    f'''r matches Err(st) ==> {unp}.len() >= 5 && ({{
                let u = {unp};
                ||| (header_error(u, old(self).encoding, old(self).limit()) == Some(st.code))
                ||| (header_error(u, old(self).encoding, old(self).limit()) is None && hdr_flag(u) == 1 && complete(u)
                        && decompress_spec(old(self).encoding->Some_0, first_payload(u)) is None && st.code == Code::Internal)
            }})''', ['C05', 'C06', 'C07']),
             Clause('E_conv_illegal_header_never_accepted',
                    f'''{unp}.len() >= 5 && header_error({unp}, old(self).encoding, old(self).limit()) is Some ==> r is Err''',
                    ['C05', 'C06', 'C07']),
             Clause('E_frame_config_untouched', 'final(self).same_config(old(self)) && final(self).body == old(self).body && final(self).trailers == old(self).trailers && (!(r matches Ok(Some(_))) ==> final(self).buf.reserve_bound == old(self).buf.reserve_bound)', ['C01', 'C07']),
             Clause('S1_complete_frame_handed_out_exactly',
                    f'''r matches Ok(Some(db)) ==> ({{
                let u = {unp};
                &&& complete(u) && header_error(u, old(self).encoding, old(self).limit()) is None
                &&& hdr_flag(u) == 0 ==> db.len == hdr_len(u) && (*db.buf)@ == u.skip(5) && *final(db.buf) == final(self).buf
                        && db.buf.reserve_bound == old(self).buf.reserve_bound
                        && final(self).state == (State::ReadBody {{ compression: None, len: hdr_len(u) as usize }})
                &&& hdr_flag(u) == 1 ==> old(self).encoding is Some
                        && decompress_spec(old(self).encoding->Some_0, first_payload(u)) == Some((*db.buf)@)
                        && db.len == (*db.buf)@.len()
                        && final(self).buf@ == u.skip(5 + hdr_len(u)) && final(self).buf.reserve_bound == old(self).buf.reserve_bound
                        && final(self).state == (State::ReadBody {{ compression: old(self).encoding, len: hdr_len(u) as usize }})
                &&& db.wf()
            }})''', ['C01', 'C05', 'C06', 'C07']),
         ])

    u.fn(D, 'poll_frame', within='impl StreamingInner', try_macro=None,
         requires=['old(self).wf()'],
         body_start='        broadcast use lemma_add_skip, lemma_add_take;',
         ensures=[
             Clause('PF_body_polled_once', 'body_step(old(self).body, final(self).body, Poll::Ready(None)) || final(self).body.polls@ == old(self).body.polls@ + 1', ['C07']),
             Clause('PF_a_buffered_frame_cost_a_frame_of_the_body', 'final(self).body.left@ <= old(self).body.left@ && (r matches Poll::Ready(Ok(Some(_))) ==> final(self).body.left@ < old(self).body.left@)', ['C07']),
             Clause('PF_data_appended',
                    '''r matches Poll::Ready(Ok(Some(_))) ==> final(self).state == old(self).state && final(self).wf()
                && final(self).same_config(old(self))
                && final(self).buf@.len() >= old(self).buf@.len()
                && final(self).buf@ == old(self).buf@ + final(self).body.received@.skip(old(self).body.received@.len() as int)
                && final(self).body.received@ == old(self).body.received@ + final(self).body.received@.skip(old(self).body.received@.len() as int)
                && final(self).body.received@.take(old(self).body.received@.len() as int) == old(self).body.received@''', ['C01', 'C07']),
             Clause('PF_otherwise_buffers_untouched',
                    '''!(r matches Poll::Ready(Ok(Some(_)))) ==> final(self).buf == old(self).buf && final(self).state == old(self).state
                && final(self).same_config(old(self)) && final(self).body.received@ == old(self).body.received@''', ['C01', 'C07']),
             Clause('PF_every_data_frame_is_buffered_even_an_empty_one',
                    '(r matches Poll::Ready(Ok(Some(_)))) <==> final(self).body.data_frames@ == old(self).body.data_frames@ + 1', ['C01', 'C02', 'C07']),
             Clause('PF_stream_end_is_reported_only_at_the_end_of_the_body_on_a_trailers_frame_or_on_a_cancelled_request',
                    '''r matches Poll::Ready(Ok(None)) ==> final(self).body.ended@ || final(self).body.trailer_frames@ == old(self).body.trailer_frames@ + 1
                || (old(self).direction == Direction::Request && final(self).body.errors@ == old(self).body.errors@ + 1)''', ['C01', 'C02', 'C07']),
             Clause('PF_eof_with_leftover_is_error',
                    '''r matches Poll::Ready(Ok(None)) && final(self).body.ended@ && !old(self).body.ended@ && final(self).trailers == old(self).trailers
                ==> old(self).buf@.len() == 0''', ['C07']),
         ])

    u.fn(D, 'response', within='impl StreamingInner',
         ensures=[
             Clause('R_status_from_trailers',
                    '''match old(self).direction {
                Direction::Response(sc) => (old(self).trailers is Some && old(self).trailers->Some_0@.contains_key("grpc-status"@)) ==> (match r {
                    Ok(()) => msg_ok(old(self).trailers->Some_0@) && det_ok(old(self).trailers->Some_0@) && code_of_bytes(old(self).trailers->Some_0@["grpc-status"@][0]) == Code::Ok && final(self).trailers == old(self).trailers,
                    Err(st) => read(old(self).trailers->Some_0@, Some(st)) && st.code != Code::Ok,
                }),
                _ => r is Ok && final(self).trailers == old(self).trailers,
            }''', ['C02', 'C07']),
             Clause('R_no_trailers_means_http_status_table',
                    '''old(self).direction is Response && (old(self).trailers is None || !old(self).trailers->Some_0@.contains_key("grpc-status"@)) ==> (match r {
                    Ok(()) => old(self).direction->Response_0.0 == 200,
                    Err(st) => old(self).direction->Response_0.0 != 200 && st.code == code_of_http(old(self).direction->Response_0),
                })''', ['C02', 'C04']),
             Clause('R_frame', 'final(self).buf == old(self).buf && final(self).state == old(self).state && final(self).body == old(self).body && final(self).same_config(old(self))', ['C07']),
         ])
    u.close('}')

    # outer Streaming<T>
    u.fn(D, 'decode_chunk', within='impl<T> Streaming<T>', header='impl<T, DEC: Decoder<Item = T, Error = Status>> Streaming<T, DEC> {', close=True,
         requires=['old(self).inner.wf()', '!(old(self).inner.state is Error)'],
         body_start='        broadcast use lemma_skip_take_subrange, lemma_hdr_prefix, lemma_take_all;',
         ensures=[
             Clause('N1', '''r matches Ok(None) ==> final(self).inner.wf() && final(self).inner.unparsed() == old(self).inner.unparsed()
                && !complete(old(self).inner.unparsed()) && !(final(self).inner.state is Error)''', ['C01', 'C07']),
             Clause('frame', 'final(self).inner.buf.reserve_bound == old(self).inner.buf.reserve_bound && final(self).inner.same_config(&old(self).inner) && final(self).inner.body == old(self).inner.body && final(self).inner.trailers == old(self).inner.trailers && (forall|p: Seq<u8>| final(self).decoder.dec(p) == old(self).decoder.dec(p))', ['C01', 'C07']),
             Clause('S1_message_is_first_frame',
                    '''r matches Ok(Some(m)) ==> ({
                let u = old(self).inner.unparsed();
                &&& complete(u) && header_error(u, old(self).inner.encoding, old(self).inner.limit()) is None
                &&& plain_payload(u, old(self).inner.encoding) is Some
                &&& old(self).decoder.dec(plain_payload(u, old(self).inner.encoding)->Some_0) == Some(m)
                &&& final(self).inner.state is ReadHeader
                &&& final(self).inner.unparsed() == after_first(u)
                &&& final(self).inner.wf()
            })''', ['C01', 'C07']),
             Clause('E_errors', '''r matches Err(st) ==> old(self).inner.unparsed().len() >= 5 && ({
                let u = old(self).inner.unparsed();
                ||| header_error(u, old(self).inner.encoding, old(self).inner.limit()) == Some(st.code)
                ||| (header_error(u, old(self).inner.encoding, old(self).inner.limit()) is None && complete(u)
                    && (plain_payload(u, old(self).inner.encoding) is None
                        || old(self).decoder.dec(plain_payload(u, old(self).inner.encoding)->Some_0) is None))
            })''', ['C06', 'C07']),
             Clause('E_conv', '''old(self).inner.unparsed().len() >= 5 && header_error(old(self).inner.unparsed(), old(self).inner.encoding, old(self).inner.limit()) is Some ==> r is Err''', ['C05', 'C06', 'C07']),
         ])

    W = 'old(self).inner.unparsed() + final(self).inner.body.received@.skip(old(self).inner.body.received@.len() as int)'
    ENC = 'old(self).inner.encoding'
    LIM = 'old(self).inner.limit()'
    CL_F1 = 'old(self).inner.state matches State::Error(None) ==> r == Poll::<Option<Result<T, Status>>>::Ready(None) && *final(self) == *old(self)'
    CL_F2 = 'r matches Poll::Ready(Some(Err(_))) ==> final(self).inner.state matches State::Error(None)'
    CL_I = 'final(self).inner.wf() && final(self).inner.same_config(&old(self).inner) && (forall|p: Seq<u8>| final(self).decoder.dec(p) == old(self).decoder.dec(p))'
    CL_H = 'final(self).inner.body.received@.len() >= old(self).inner.body.received@.len() && final(self).inner.body.received@.take(old(self).inner.body.received@.len() as int) == old(self).inner.body.received@'
    CL_M1 = f'''!(old(self).inner.state is Error) ==> (r matches Poll::Ready(Some(Ok(m))) ==> {{
                let w = {W};
                &&& complete(w) && header_error(w, {ENC}, {LIM}) is None
                &&& plain_payload(w, {ENC}) is Some
                &&& old(self).decoder.dec(plain_payload(w, {ENC})->Some_0) == Some(m)
                &&& final(self).inner.state is ReadHeader
                &&& final(self).inner.unparsed() == after_first(w)
            }})'''
    CL_P1 = f'''!(old(self).inner.state is Error) && r is Pending ==> !(final(self).inner.state is Error)
                && final(self).inner.unparsed() == {W} && !complete({W})'''
    CL_N1 = f'''!(old(self).inner.state is Error) ==> (r matches Poll::Ready(None) ==> !complete({W}) && !(final(self).inner.state is Error)
                && final(self).inner.unparsed() == {W})'''
    # the step relation of the whole-stream lemma is the conjunction of these PROVED clauses, with old(self) / final(self) renamed
    def as_step(c):
        return c.replace('*final(self)', 'post').replace('*old(self)', 'pre').replace('&old(self)', '&pre').replace('old(self)', 'pre').replace('final(self)', 'post')
    STEP_TEXT = ' &&& '.join('(%s)' % as_step(c) for c in (CL_I, CL_H, CL_M1, CL_P1, CL_N1, CL_F1, CL_F2))
    u.fn(D, 'poll_next', within='impl<T> Stream for Streaming<T>',
         header='impl<T, DEC: Decoder<Item = T, Error = Status>> Streaming<T, DEC> {', close=True,
         sig_edits=[lambda t: t.sub_code('R9', r'Self::Item', 'Result<T, Status>')],
         closures={0: dict(params='e: Status', ret='(x: Result<T, Status>)', ensures=['x == Err::<T, Status>(e)'])},
         requires=['old(self).inner.wf()'],
         loops={0: dict(invariant=[
             'self.inner.wf()',
             'self.inner.same_config(&old(self).inner)',
             'forall|p: Seq<u8>| self.decoder.dec(p) == old(self).decoder.dec(p)',
             'old(self).inner.state is Error ==> *self == *old(self)',
             'self.inner.body.left@ <= old(self).inner.body.left@',
             'self.inner.body.received@.len() >= old(self).inner.body.received@.len()',
             'self.inner.body.received@.take(old(self).inner.body.received@.len() as int) == old(self).inner.body.received@',
             '!(self.inner.state is Error) ==> self.inner.unparsed() == old(self).inner.unparsed() + self.inner.body.received@.skip(old(self).inner.body.received@.len() as int)',
             '!(old(self).inner.state is Error) && self.inner.state is Error ==> (self.inner.state matches State::Error(Some(_)))',
             '!(old(self).inner.state is Error) && self.inner.state is Error ==> !complete(old(self).inner.unparsed() + self.inner.body.received@.skip(old(self).inner.body.received@.len() as int)) && ((old(self).inner.unparsed() + self.inner.body.received@.skip(old(self).inner.body.received@.len() as int)).len() < 5 || header_error(old(self).inner.unparsed() + self.inner.body.received@.skip(old(self).inner.body.received@.len() as int), self.inner.encoding, self.inner.limit()) is None)',
         ],
             # every poll completes: each turn takes a frame of the body or enters the error state
             decreases=['self.inner.body.left@', '(if self.inner.state is Error { 0int } else { 1int })'])},
         body_start='        broadcast use lemma_add_skip, lemma_add_take, lemma_take_all;',
         hints=[('before', 'match self.decode_chunk() {', 'let ghost r1 = self.inner.body.received@; let ghost u1 = self.inner.unparsed();'),
                ('replace', 'Ok(Some(())) => {}', '''Ok(Some(())) => { proof {
                    let r0 = old(self).inner.body.received@; let n0 = r0.len() as int; let r2 = self.inner.body.received@;
                    assert(r2 =~= r1 + r2.skip(r1.len() as int));
                    assert(r2.take(n0) =~= r0);
                    assert(r2.skip(n0) =~= r1.skip(n0) + r2.skip(r1.len() as int));
                    assert(self.inner.unparsed() =~= u1 + r2.skip(r1.len() as int));
                    assert((old(self).inner.unparsed() + r1.skip(n0)) + r2.skip(r1.len() as int) =~= old(self).inner.unparsed() + (r1.skip(n0) + r2.skip(r1.len() as int)));
                } }''')],
         ensures=[
             Clause('F1_after_error_nothing_more', CL_F1, ['C07']),
             Clause('F2_first_error_is_final', CL_F2, ['C07']),
             Clause('F3_parked_status_yielded_once',
                    'old(self).inner.state matches State::Error(Some(s)) ==> r == Poll::Ready(Some(Err::<T, Status>(s))) && final(self).inner.body == old(self).inner.body', ['C02', 'C07']),
             Clause('I_invariant_kept', CL_I, ['C01', 'C07']),
             Clause('H_history_only_grows', CL_H, ['C01', 'C07']),
             Clause('M1_message_is_next_frame_of_input', CL_M1, ['C01', 'C02', 'C07']),
             Clause('P1_pending_keeps_everything', CL_P1, ['C01', 'C07']),
             Clause('N1_clean_end_skips_no_complete_frame', CL_N1, ['C01', 'C02', 'C07']),
             Clause('E1_illegal_header_refused_at_once',
                    f'''!(old(self).inner.state is Error) && ({W}).len() >= 5 && header_error({W}, {ENC}, {LIM}) is Some
                ==> (r matches Poll::Ready(Some(Err(st))) && header_error({W}, {ENC}, {LIM}) == Some(st.code))''', ['C05', 'C06', 'C07']),
             Clause('E2_status_after_buffered_messages',
                    f'''!(old(self).inner.state is Error) && complete({W}) ==> (r matches Poll::Ready(Some(Err(st))) ==>
                header_error({W}, {ENC}, {LIM}) is Some || plain_payload({W}, {ENC}) is None
                || old(self).decoder.dec(plain_payload({W}, {ENC})->Some_0) is None)''', ['C02', 'C07']),
         ])
    u.raw(TRACE.replace('/*STEP*/', STEP_TEXT), props=['C01', 'C07'])
    # ---- the async API on top of poll_next: Streaming::message / Streaming::trailers ----
    u.raw('''
// A-future-04: (R24) awaiting `future::poll_fn(|cx| Pin::new(&mut *self).poll_next(cx))` is: poll_next is called (with some
// context) until it answers Ready, and that answer is the value of the await.  Written out as a loop over the REAL poll_next, so
// that what it returns is tied to poll_next's proved clauses: `driven(pre, x, post)` says there is a finite poll history
// pre -> post in which every poll but the last was Pending and the last answered Ready(x).
pub open spec fn driven<T, DEC: Decoder<Item = T, Error = Status>>(pre: Streaming<T, DEC>, x: Option<Result<T, Status>>, post: Streaming<T, DEC>) -> bool {
    exists|ss: Seq<Streaming<T, DEC>>, rs: Seq<Poll<Option<Result<T, Status>>>>| #[trigger] dec_trace(ss, rs) && rs.len() >= 1 && ss[0] == pre && ss[rs.len() as int] == post
        && rs[rs.len() - 1] == Poll::Ready(x) && forall|i: int| 0 <= i < rs.len() - 1 ==> #[trigger] rs[i] is Pending
}
impl Context {
    #[verifier::external_body]
    pub fn verif_some() -> (r: Context) { unimplemented!() }
}
impl<T, DEC: Decoder<Item = T, Error = Status>> Streaming<T, DEC> {
    #[verifier::exec_allows_no_decreases_clause]
    pub async fn verif_poll_until_ready(&mut self) -> (x: Option<Result<T, Status>>)
        requires old(self).inner.wf()
        ensures driven(*old(self), x, *final(self)), final(self).inner.wf()
    {
        let ghost mut ss = seq![*self];
        let ghost mut rs = Seq::<Poll<Option<Result<T, Status>>>>::empty();
        loop
            invariant
                self.inner.wf(), ss.len() == rs.len() + 1, ss[0] == *old(self), ss[rs.len() as int] == *self,
                forall|i: int| 0 <= i < rs.len() ==> #[trigger] dec_step(ss[i], ss[i + 1], rs[i]),
                forall|i: int| 0 <= i < rs.len() ==> #[trigger] rs[i] is Pending,
        {
            let ghost pre = *self;
            let mut cx = Context::verif_some();
            let r = self.poll_next(&mut cx);
            proof {
                assert(dec_step(pre, *self, r));
                let ss2 = ss.push(*self); let rs2 = rs.push(r);
                assert forall|i: int| 0 <= i < rs2.len() implies #[trigger] dec_step(ss2[i], ss2[i + 1], rs2[i]) by {
                    if i < rs.len() { assert(ss2[i] == ss[i] && ss2[i + 1] == ss[i + 1] && rs2[i] == rs[i]); assert(dec_step(ss[i], ss[i + 1], rs[i])); }
                }
                ss = ss2; rs = rs2;
            }
            match r {
                Poll::Ready(x) => {
                    proof { assert(dec_trace(ss, rs)); }
                    return x;
                }
                Poll::Pending => {}
            }
        }
    }
}
''')
    u.raw('''
// ---- message() under any chunking (C01 / C07 at the level of the async API) ----
pub proof fn lemma_taken_pending<T, DEC: Decoder<Item = T, Error = Status>>(ss: Seq<Streaming<T, DEC>>, rs: Seq<Poll<Option<Result<T, Status>>>>, n: int)
    requires 0 <= n <= rs.len(), forall|i: int| 0 <= i < n ==> #[trigger] rs[i] is Pending
    ensures taken(ss, rs, n) =~= Seq::<u8>::empty()
    decreases n
{
    if n > 0 { lemma_taken_pending(ss, rs, n - 1); assert(rs[n - 1] is Pending); }
}
// whatever number of polls (and body chunks) it took: a message handed out by message() is the decoding of the first frame of
// "what was unparsed before ++ everything the body delivered meanwhile", and exactly that frame is consumed
pub proof fn lemma_message_is_the_next_frame<T, DEC: Decoder<Item = T, Error = Status>>(pre: Streaming<T, DEC>, m: T, post: Streaming<T, DEC>)
    requires driven(pre, Some(Ok(m)), post), !(pre.inner.state is Error)
    ensures
        post.inner.body.received@.len() >= pre.inner.body.received@.len(),
        ({ let w = pre.inner.unparsed() + post.inner.body.received@.skip(pre.inner.body.received@.len() as int);
           complete(w) && header_error(w, pre.inner.encoding, pre.inner.limit()) is None && plain_payload(w, pre.inner.encoding) is Some
           && pre.decoder.dec(plain_payload(w, pre.inner.encoding)->Some_0) == Some(m) && post.inner.unparsed() == after_first(w) }),
{
    let (ss, rs) = choose|ss: Seq<Streaming<T, DEC>>, rs: Seq<Poll<Option<Result<T, Status>>>>| #[trigger] dec_trace(ss, rs) && rs.len() >= 1 && ss[0] == pre && ss[rs.len() as int] == post
        && rs[rs.len() - 1] == Poll::Ready(Some(Ok::<T, Status>(m))) && forall|i: int| 0 <= i < rs.len() - 1 ==> #[trigger] rs[i] is Pending;
    let n = rs.len() - 1;
    assert forall|i: int| 0 <= i < n implies !(#[trigger] rs[i] matches Poll::Ready(Some(Err(_)))) by { assert(rs[i] is Pending); }
    lemma_dec_chunking_independent(ss, rs, n);
    lemma_taken_pending(ss, rs, n);
    let i0 = n;
    assert(dec_step(ss[i0], ss[i0 + 1], rs[i0]));
    let l0 = pre.inner.body.received@.len() as int;
    let r1 = ss[n].inner.body.received@; let r2 = post.inner.body.received@;
    assert(pre.inner.unparsed() + r1.skip(l0) =~= ss[n].inner.unparsed());
    assert(r2.skip(l0) =~= r1.skip(l0) + r2.skip(r1.len() as int)) by { assert(r2 =~= r2.take(r1.len() as int) + r2.skip(r1.len() as int)); assert(r2.take(r1.len() as int) == r1); }
    assert(pre.inner.unparsed() + r2.skip(l0) =~= ss[n].inner.unparsed() + r2.skip(r1.len() as int)) by {
        assert((pre.inner.unparsed() + r1.skip(l0)) + r2.skip(r1.len() as int) =~= pre.inner.unparsed() + (r1.skip(l0) + r2.skip(r1.len() as int)));
    }
    assert(ss[n].inner.limit() == pre.inner.limit()) by { lemma_config_kept(ss, rs, n); }
}
pub proof fn lemma_config_kept<T, DEC: Decoder<Item = T, Error = Status>>(ss: Seq<Streaming<T, DEC>>, rs: Seq<Poll<Option<Result<T, Status>>>>, n: int)
    requires dec_trace(ss, rs), 0 <= n <= rs.len()
    ensures ss[n].inner.same_config(&ss[0].inner)
    decreases n
{
    if n > 0 { lemma_config_kept(ss, rs, n - 1); let i0 = n - 1; assert(dec_step(ss[i0], ss[i0 + 1], rs[i0])); }
}
''', props=['C01', 'C07'])
    hdr2 = 'impl<T, DEC: Decoder<Item = T, Error = Status>> Streaming<T, DEC> {'
    u.fn(D, 'message', within='impl<T> Streaming<T>', header=hdr2, close=False, props=['C01', 'C02', 'C07'],
         body_edits=[lambda t: t.sub_code('R24', r'future::poll_fn\(\|cx\| Pin::new\(&mut \*self\)\.poll_next\(cx\)\)\.await', 'self.verif_poll_until_ready().await')],
         requires=['old(self).inner.wf()'],
         ensures=[Clause('A1_message_is_what_poll_next_answers_when_driven_to_readiness',
                         'exists|x: Option<Result<T, Status>>| #[trigger] driven(*old(self), x, *final(self)) && r == (match x { Some(Ok(m)) => Ok::<Option<T>, Status>(Some(m)), Some(Err(e)) => Err::<Option<T>, Status>(e), None => Ok::<Option<T>, Status>(None) })'),
                  Clause('A2_invariant_kept', 'final(self).inner.wf()')])
    u.fn(D, 'trailers', within='impl<T> Streaming<T>', props=['C02'],
         attrs=['#[verifier::exec_allows_no_decreases_clause]'],
         requires=['old(self).inner.wf()'],
         loops={0: dict(invariant=['self.inner.wf()', 'old(self).inner.trailers is None'])},
         ensures=[Clause('TR1_cached_trailers_are_handed_out_without_touching_the_stream',
                         'old(self).inner.trailers matches Some(t) ==> (r matches Ok(Some(m)) && m.headers@ == t@) && final(self).inner.trailers is None && final(self).inner.body == old(self).inner.body && final(self).inner.state == old(self).inner.state && final(self).inner.buf == old(self).inner.buf'),
                  Clause('TR2_trailers_are_handed_out_once', 'r is Ok ==> final(self).inner.trailers is None'),
                  Clause('TR3_invariant_kept', 'final(self).inner.wf()')])
    u.close('}')
    return u
