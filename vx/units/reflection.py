"""U10 — tonic-reflection/src/server/mod.rs: the symbol / file index.  Every fully-qualified name a registered file declares
(messages, nested messages, fields, oneofs, enums, enum values, services, methods) maps to that file, nothing else is
indexed, duplicates of a file name are ignored, lookups answer NOT_FOUND exactly for unknown names.  Carries C19 (partial:
the async request loop of v1.rs / v1alpha.rs and prost's wire format are out of reach)."""
import re
from vxlib import Unit, Clause, r23_continue_guard

M = 'tonic-reflection/src/server/mod.rs'

SHIMS = r'''
// ---- prost_types descriptors: only the fields the index reads (A-prost-01) ----
pub struct EnumValueDescriptorProto { pub name: Option<String> }
pub struct EnumDescriptorProto { pub name: Option<String>, pub value: Vec<EnumValueDescriptorProto> }
pub struct FieldDescriptorProto { pub name: Option<String> }
pub struct OneofDescriptorProto { pub name: Option<String> }
pub struct DescriptorProto { pub name: Option<String>, pub field: Vec<FieldDescriptorProto>, pub nested_type: Vec<DescriptorProto>,
    pub enum_type: Vec<EnumDescriptorProto>, pub oneof_decl: Vec<OneofDescriptorProto> }
pub struct MethodDescriptorProto { pub name: Option<String> }
pub struct ServiceDescriptorProto { pub name: Option<String>, pub method: Vec<MethodDescriptorProto> }
pub struct FileDescriptorProto { pub name: Option<String>, pub package: Option<String>, pub message_type: Vec<DescriptorProto>,
    pub enum_type: Vec<EnumDescriptorProto>, pub service: Vec<ServiceDescriptorProto> }
pub struct FileDescriptorSet { pub file: Vec<FileDescriptorProto> }
pub mod prost { pub struct DecodeError { pub x: u8 } }
pub use prost::DecodeError;
// std::sync::Arc as a transparent box (A-std-arc-01): clone is the same value, deref reads it
pub struct Arc<T> { pub t: T }
impl<T> Arc<T> {
    pub fn new(t: T) -> (r: Arc<T>) ensures r.t == t { Arc { t } }
    #[verifier::external_body] pub fn clone(&self) -> (r: Arc<T>) ensures r == *self { unimplemented!() }
}
impl<T> core::ops::Deref for Arc<T> { type Target = T; fn deref(&self) -> (r: &T) ensures *r == self.t { &self.t } }
// std::collections::HashMap<String, V> as a map from the key text (A-std-hashmap-01)
pub struct HashMap<K, V> { pub m: Ghost<Map<Seq<char>, V>>, pub _k: core::marker::PhantomData<K> }
impl<V> HashMap<String, V> {
    pub open spec fn view(&self) -> Map<Seq<char>, V> { self.m@ }
    #[verifier::external_body]
    pub fn new() -> (r: Self) ensures r@ == Map::<Seq<char>, V>::empty() { unimplemented!() }
    #[verifier::external_body]
    pub fn insert(&mut self, k: String, v: V) -> (r: Option<V>) ensures final(self)@ == old(self)@.insert(k@, v) { unimplemented!() }
    #[verifier::external_body]
    pub fn contains_key(&self, k: &String) -> (r: bool) ensures r == self@.contains_key(k@) { unimplemented!() }
    #[verifier::external_body]
    pub fn get(&self, k: &str) -> (r: Option<&V>) ensures r is Some <==> self@.contains_key(k@), r matches Some(v) ==> *v == self@[k@] { unimplemented!() }
}
// text of the things format!/Display can print here
pub trait Text { spec fn text(&self) -> Seq<char>; }
impl Text for String { open spec fn text(&self) -> Seq<char> { self@ } }
impl<'a> Text for &'a str { open spec fn text(&self) -> Seq<char> { (*self)@ } }
impl<'a> Text for &'a String { open spec fn text(&self) -> Seq<char> { (**self)@ } }
// A-fmt-02: format!("{}.{}", a, b) is a, a dot, b
#[verifier::external_body]
pub fn verif_format_dot<A: Text, B: Text>(a: &A, b: &B) -> (r: String) ensures r@ == a.text() + seq!['.'] + b.text() { unimplemented!() }
// A-std-string-03: String::with_capacity is empty (push_str / push are specified by vstd)
pub assume_specification[ String::with_capacity ](n: usize) -> (r: String) ensures r@ == Seq::<char>::empty();
// A-std-string-04: String::len is the byte length of the text: at least its number of characters, at most isize::MAX (allocation limit)
pub assume_specification[ String::len ](s: &String) -> (r: usize) ensures r >= s@.len(), r <= isize::MAX as usize;
// A-std-string-01: String::to_string / clone copy the text; str::is_empty
#[verifier::external_body]
pub fn verif_to_string(s: &String) -> (r: String) ensures r@ == s@ { unimplemented!() }
#[verifier::external_body]
pub fn verif_is_empty(s: &str) -> (r: bool) ensures r == (s@.len() == 0) { unimplemented!() }
'''

SPEC = r'''
// ---- the names a descriptor declares (protobuf language guide: package.Outer.Inner.field ...), independent of tonic ----
pub open spec fn qual(prefix: Seq<char>, name: Seq<char>) -> Seq<char> { if prefix.len() == 0 { name } else { prefix + seq!['.'] + name } }
pub open spec fn in_enum(prefix: Seq<char>, en: EnumDescriptorProto, x: Seq<char>) -> bool {
    en.name is Some && (x == qual(prefix, en.name->Some_0@)
        || exists|i: int| 0 <= i < en.value@.len() && en.value@[i].name is Some && x == qual(qual(prefix, en.name->Some_0@), #[trigger] en.value@[i].name->Some_0@))
}
pub open spec fn enum_ok(en: EnumDescriptorProto) -> bool { en.name is Some && forall|i: int| 0 <= i < en.value@.len() ==> (#[trigger] en.value@[i]).name is Some }
// names declared by the first a nested messages, b enums, c fields, d oneofs of msg (and msg itself)
pub open spec fn msg_upto(prefix: Seq<char>, msg: DescriptorProto, a: int, b: int, c: int, d: int, x: Seq<char>) -> bool
    decreases msg, 0nat
{
    msg.name is Some && ({
        let mn = qual(prefix, msg.name->Some_0@);
        x == mn
        || (exists|i: int| 0 <= i < a && i < msg.nested_type@.len() && in_msg(mn, #[trigger] msg.nested_type@[i], x))
        || (exists|i: int| 0 <= i < b && i < msg.enum_type@.len() && in_enum(mn, #[trigger] msg.enum_type@[i], x))
        || (exists|i: int| 0 <= i < c && i < msg.field@.len() && msg.field@[i].name is Some && x == qual(mn, #[trigger] msg.field@[i].name->Some_0@))
        || (exists|i: int| 0 <= i < d && i < msg.oneof_decl@.len() && msg.oneof_decl@[i].name is Some && x == qual(mn, #[trigger] msg.oneof_decl@[i].name->Some_0@))
    })
}
pub open spec fn in_msg(prefix: Seq<char>, msg: DescriptorProto, x: Seq<char>) -> bool
    decreases msg, 1nat
{
    msg_upto(prefix, msg, msg.nested_type@.len() as int, msg.enum_type@.len() as int, msg.field@.len() as int, msg.oneof_decl@.len() as int, x)
}
// every name the traversal needs is present
pub open spec fn msg_ok(msg: DescriptorProto) -> bool
    decreases msg
{
    &&& msg.name is Some
    &&& forall|i: int| 0 <= i < msg.nested_type@.len() ==> msg_ok(#[trigger] msg.nested_type@[i])
    &&& forall|i: int| 0 <= i < msg.enum_type@.len() ==> enum_ok(#[trigger] msg.enum_type@[i])
    &&& forall|i: int| 0 <= i < msg.field@.len() ==> (#[trigger] msg.field@[i]).name is Some
    &&& forall|i: int| 0 <= i < msg.oneof_decl@.len() ==> (#[trigger] msg.oneof_decl@[i]).name is Some
}
pub proof fn lemma_upto_steps(prefix: Seq<char>, msg: DescriptorProto, a: int, b: int, c: int, d: int)
    requires msg.name is Some, a >= 0, b >= 0, c >= 0, d >= 0
    ensures
        forall|x: Seq<char>| #[trigger] msg_upto(prefix, msg, a + 1, b, c, d, x) <==> (msg_upto(prefix, msg, a, b, c, d, x) || (a < msg.nested_type@.len() && in_msg(qual(prefix, msg.name->Some_0@), msg.nested_type@[a], x))),
        forall|x: Seq<char>| #[trigger] msg_upto(prefix, msg, a, b + 1, c, d, x) <==> (msg_upto(prefix, msg, a, b, c, d, x) || (b < msg.enum_type@.len() && in_enum(qual(prefix, msg.name->Some_0@), msg.enum_type@[b], x))),
        forall|x: Seq<char>| #[trigger] msg_upto(prefix, msg, a, b, c + 1, d, x) <==> (msg_upto(prefix, msg, a, b, c, d, x) || (c < msg.field@.len() && msg.field@[c].name is Some && x == qual(qual(prefix, msg.name->Some_0@), msg.field@[c].name->Some_0@))),
        forall|x: Seq<char>| #[trigger] msg_upto(prefix, msg, a, b, c, d + 1, x) <==> (msg_upto(prefix, msg, a, b, c, d, x) || (d < msg.oneof_decl@.len() && msg.oneof_decl@[d].name is Some && x == qual(qual(prefix, msg.name->Some_0@), msg.oneof_decl@[d].name->Some_0@))),
{
}
pub open spec fn pkg(fd: FileDescriptorProto) -> Seq<char> { match fd.package { Some(p) => p@, None => Seq::<char>::empty() } }
pub open spec fn svc_upto(prefix: Seq<char>, svc: ServiceDescriptorProto, m: int, x: Seq<char>) -> bool {
    svc.name is Some && (x == qual(prefix, svc.name->Some_0@)
        || exists|j: int| 0 <= j < m && j < svc.method@.len() && svc.method@[j].name is Some && x == qual(qual(prefix, svc.name->Some_0@), #[trigger] svc.method@[j].name->Some_0@))
}
pub open spec fn in_service(prefix: Seq<char>, svc: ServiceDescriptorProto, x: Seq<char>) -> bool { svc_upto(prefix, svc, svc.method@.len() as int, x) }
pub open spec fn svc_ok(svc: ServiceDescriptorProto) -> bool { svc.name is Some && forall|j: int| 0 <= j < svc.method@.len() ==> (#[trigger] svc.method@[j]).name is Some }
// names declared by the first a messages, b enums, c services of the file
pub open spec fn file_upto(fd: FileDescriptorProto, a: int, b: int, c: int, x: Seq<char>) -> bool {
    (exists|i: int| 0 <= i < a && i < fd.message_type@.len() && in_msg(pkg(fd), #[trigger] fd.message_type@[i], x))
    || (exists|i: int| 0 <= i < b && i < fd.enum_type@.len() && in_enum(pkg(fd), #[trigger] fd.enum_type@[i], x))
    || (exists|i: int| 0 <= i < c && i < fd.service@.len() && in_service(pkg(fd), #[trigger] fd.service@[i], x))
}
pub open spec fn in_file(fd: FileDescriptorProto, x: Seq<char>) -> bool { file_upto(fd, fd.message_type@.len() as int, fd.enum_type@.len() as int, fd.service@.len() as int, x) }
pub open spec fn file_ok(fd: FileDescriptorProto) -> bool {
    &&& forall|i: int| 0 <= i < fd.message_type@.len() ==> msg_ok(#[trigger] fd.message_type@[i])
    &&& forall|i: int| 0 <= i < fd.enum_type@.len() ==> enum_ok(#[trigger] fd.enum_type@[i])
    &&& forall|i: int| 0 <= i < fd.service@.len() ==> svc_ok(#[trigger] fd.service@[i])
}
pub proof fn lemma_svc_step(prefix: Seq<char>, svc: ServiceDescriptorProto, m: int)
    requires svc.name is Some, m >= 0
    ensures forall|x: Seq<char>| #[trigger] svc_upto(prefix, svc, m + 1, x) <==> (svc_upto(prefix, svc, m, x)
        || (m < svc.method@.len() && svc.method@[m].name is Some && x == qual(qual(prefix, svc.name->Some_0@), svc.method@[m].name->Some_0@)))
{
}
pub proof fn lemma_svc_names_step(prefix: Seq<char>, s: Seq<ServiceDescriptorProto>, n: int)
    requires 0 <= n < s.len()
    ensures svc_names(prefix, s, n + 1) == svc_names(prefix, s, n).push(qual(prefix, s[n].name->Some_0@))
{
}
pub proof fn lemma_texts_push(v: Seq<String>, s: String)
    ensures texts(v.push(s)) == texts(v).push(s@)
{
    assert(texts(v.push(s)) =~= texts(v).push(s@));
}
pub proof fn lemma_file_steps(fd: FileDescriptorProto, a: int, b: int, c: int)
    requires a >= 0, b >= 0, c >= 0
    ensures
        forall|x: Seq<char>| #[trigger] file_upto(fd, a + 1, b, c, x) <==> (file_upto(fd, a, b, c, x) || (a < fd.message_type@.len() && in_msg(pkg(fd), fd.message_type@[a], x))),
        forall|x: Seq<char>| #[trigger] file_upto(fd, a, b + 1, c, x) <==> (file_upto(fd, a, b, c, x) || (b < fd.enum_type@.len() && in_enum(pkg(fd), fd.enum_type@[b], x))),
        forall|x: Seq<char>| #[trigger] file_upto(fd, a, b, c + 1, x) <==> (file_upto(fd, a, b, c, x) || (c < fd.service@.len() && in_service(pkg(fd), fd.service@[c], x))),
{
}
// the service names of the first n services, in order
pub open spec fn svc_names(prefix: Seq<char>, s: Seq<ServiceDescriptorProto>, n: int) -> Seq<Seq<char>>
    decreases n
{
    if n <= 0 || n > s.len() { Seq::empty() } else { svc_names(prefix, s, n - 1).push(qual(prefix, s[n - 1].name->Some_0@)) }
}
pub open spec fn texts(v: Seq<String>) -> Seq<Seq<char>> { v.map_values(|s: String| s@) }
// A-std-option-02: `opt.clone().unwrap_or_default()` on Option<String>: the text, or the empty string (R17)
#[verifier::external_body]
pub fn verif_string_or_empty(o: &Option<String>) -> (r: String) ensures r@ == (match *o { Some(p) => p@, None => Seq::<char>::empty() }) { unimplemented!() }
#[verifier::external_body]
pub fn verif_clone_string(s: &String) -> (r: String) ensures r@ == s@ { unimplemented!() }
// prost::Message::encode of a file descriptor into a Vec (A-prost-02): appends the wire form of the message
pub uninterp spec fn fd_wire(fd: FileDescriptorProto) -> Seq<u8>;
pub struct EncodeError { pub x: u8 }
impl Arc<FileDescriptorProto> {
    #[verifier::external_body]
    pub fn encode(&self, buf: &mut Vec<u8>) -> (r: Result<(), EncodeError>) ensures r is Ok ==> final(buf)@ == old(buf)@ + fd_wire(self.t) { unimplemented!() }
}
// tonic::Status as far as the lookups use it (A-status-01)
pub struct Status { pub code: u8 }
impl Status {
    #[verifier::external_body] pub fn not_found<M>(m: M) -> (r: Status) ensures r.code == 5 { unimplemented!() }
    #[verifier::external_body] pub fn internal<M>(m: M) -> (r: Status) ensures r.code == 13 { unimplemented!() }
}
// prost::Message::decode of an encoded FileDescriptorSet (A-prost-03): some function of the bytes
pub uninterp spec fn fds_decode(b: Seq<u8>) -> Result<FileDescriptorSet, DecodeError>;
impl FileDescriptorSet {
    #[verifier::external_body]
    pub fn decode(b: &[u8]) -> (r: Result<FileDescriptorSet, DecodeError>) ensures r == fds_decode(b@) { unimplemented!() }
}
impl vstd::std_specs::convert::FromSpecImpl<DecodeError> for Error {
    open spec fn obeys_from_spec() -> bool { true }
    open spec fn from_spec(e: DecodeError) -> Self { Error::DecodeError(e) }
}
// A-std-option-03: Option<String>::clone copies the text (R17)
#[verifier::external_body]
pub fn verif_clone_opt_string(o: &Option<String>) -> (r: Option<String>) ensures o is Some <==> r is Some, o matches Some(a) ==> r->Some_0@ == a@ { unimplemented!() }
// ---- the whole index (what ReflectionServiceState::new must establish) ----
// every registered set: the given ones, then the decoded ones, in order
pub open spec fn all_sets(given: Seq<FileDescriptorSet>, encoded: Seq<&[u8]>, n: int) -> Seq<FileDescriptorSet>
    decreases n
{
    if n <= 0 || n > encoded.len() { given } else { all_sets(given, encoded, n - 1).push(fds_decode(encoded[n - 1]@)->Ok_0) }
}
pub open spec fn is_input_file(sets: Seq<FileDescriptorSet>, f: FileDescriptorProto) -> bool {
    exists|s: int, i: int| 0 <= s < sets.len() && 0 <= i < sets[s].file@.len() && #[trigger] sets[s].file@[i] == f
}
// consistency of the two maps: every file is stored under its own name, every name a stored file declares resolves to a
// stored file that declares it, and nothing else is in the symbol table
pub open spec fn index_ok(st: ReflectionServiceState, sets: Seq<FileDescriptorSet>) -> bool {
    &&& forall|n: Seq<char>| #[trigger] st.files@.contains_key(n) ==> st.files@[n].t.name is Some && st.files@[n].t.name->Some_0@ == n && is_input_file(sets, st.files@[n].t)
    &&& forall|n: Seq<char>, x: Seq<char>| #![trigger st.files@.contains_key(n), in_file(st.files@[n].t, x)] st.files@.contains_key(n) && in_file(st.files@[n].t, x)
            ==> st.symbols@.contains_key(x) && in_file(st.symbols@[x].t, x)
    &&& forall|x: Seq<char>| #[trigger] st.symbols@.contains_key(x)
            ==> st.symbols@[x].t.name is Some && st.files@.contains_key(st.symbols@[x].t.name->Some_0@) && st.files@[st.symbols@[x].t.name->Some_0@] == st.symbols@[x] && in_file(st.symbols@[x].t, x)
}
// every file of the first s sets (and the first j files of set s) is retrievable by its name
pub open spec fn covered(st: ReflectionServiceState, sets: Seq<FileDescriptorSet>, s: int, j: int) -> bool {
    forall|a: int, i: int| 0 <= a < sets.len() && 0 <= i < sets[a].file@.len() && (a < s || (a == s && i < j))
        ==> (#[trigger] sets[a].file@[i]).name is Some && st.files@.contains_key(sets[a].file@[i].name->Some_0@)
}
// `post` is `pre` with every name of `decl` mapped to `fd` (and nothing else touched)
pub open spec fn indexed(pre: Map<Seq<char>, Arc<FileDescriptorProto>>, post: Map<Seq<char>, Arc<FileDescriptorProto>>, fd: Arc<FileDescriptorProto>, decl: spec_fn(Seq<char>) -> bool) -> bool {
    &&& forall|x: Seq<char>| #[trigger] post.contains_key(x) <==> (pre.contains_key(x) || decl(x))
    &&& forall|x: Seq<char>| #[trigger] decl(x) ==> post.contains_key(x) && post[x] == fd
    &&& forall|x: Seq<char>| pre.contains_key(x) && !decl(x) ==> #[trigger] post[x] == pre[x]
}
'''


BUILD = r'''
// ---- the public way in: Builder (registered sets are what the index is built from) ----
// the reflection protocol's own descriptor sets, `include_bytes!`-ed constants (A-refl-fds-01: some fixed byte strings)
pub uninterp spec fn own_fds_v1() -> &'static [u8];
pub uninterp spec fn own_fds_v1alpha() -> &'static [u8];
pub mod pb {
    pub mod v1 { use crate::*; #[verifier::external_body] pub exec const FILE_DESCRIPTOR_SET: &'static [u8] ensures FILE_DESCRIPTOR_SET == own_fds_v1() { &[] } }
    pub mod v1alpha { use crate::*; #[verifier::external_body] pub exec const FILE_DESCRIPTOR_SET: &'static [u8] ensures FILE_DESCRIPTOR_SET == own_fds_v1alpha() { &[] } }
}
// the sets a builder has been given: the decoded-form ones, then the encoded ones, then (unless switched off) the protocol's own
pub open spec fn builder_encoded<'a>(b: Builder<'a>, own: &'a [u8]) -> Seq<&'a [u8]> { if b.include_reflection_service { b.encoded_file_descriptor_sets@.push(own) } else { b.encoded_file_descriptor_sets@ } }
pub open spec fn builder_sets<'a>(b: Builder<'a>, own: &'a [u8]) -> Seq<FileDescriptorSet> { all_sets(b.file_descriptor_sets@, builder_encoded(b, own), builder_encoded(b, own).len() as int) }
pub open spec fn built_from<'a>(st: ReflectionServiceState, b: Builder<'a>, own: &'a [u8]) -> bool {
    &&& index_ok(st, builder_sets(b, own))
    &&& covered(st, builder_sets(b, own), builder_sets(b, own).len() as int, 0)
    &&& !b.use_all_service_names ==> texts(st.service_names@) == texts(b.service_names@)
}
'''


def svc_mod(u, ver):
    F = 'tonic-reflection/src/server/%s.rs' % ver
    u._emit('pub mod %s {\nuse crate::*;' % ver)
    u.item(F, 'struct', 'ReflectionService')
    u.raw('impl vstd::std_specs::convert::FromSpecImpl<ReflectionServiceState> for ReflectionService {\n'
          '    open spec fn obeys_from_spec() -> bool { true }\n'
          '    open spec fn from_spec(s: ReflectionServiceState) -> Self { ReflectionService { state: Arc { t: s } } }\n}\n'
          '// A-refl-codegen-01: the generated ServerReflectionServer::new wraps the service it is given (Arc::new + default settings)\n'
          'pub struct ServerReflectionServer<T> { pub inner: Arc<T> }\n'
          'impl<T> ServerReflectionServer<T> { #[verifier::external_body] pub fn new(inner: T) -> (r: Self) ensures r.inner.t == inner { unimplemented!() } }')
    u.fn(F, 'from', within='impl From<ReflectionServiceState> for ReflectionService', header='impl From<ReflectionServiceState> for ReflectionService {', close=True,
         vacuity=False, display='%s::ReflectionService::from' % ver)
    u._emit('} // mod %s' % ver)


def builder(u):
    u.item(M, 'struct', 'Builder')
    u.raw(BUILD)
    svc_mod(u, 'v1')
    svc_mod(u, 'v1alpha')
    W = "impl<'b> Builder<'b>"
    u._emit(W + ' {'); u._open_header = W + ' {'
    same = lambda *fs: ' && '.join('r.%s == self.%s' % (f, f) for f in fs)
    u.fn(M, 'configure', within=W, display='Builder::configure',
         ensures=[Clause('B0_nothing_registered_yet_own_service_included_all_services_advertised',
                         'r.file_descriptor_sets@.len() == 0 && r.encoded_file_descriptor_sets@.len() == 0 && r.include_reflection_service && r.service_names@.len() == 0 && r.use_all_service_names')])
    u.fn(M, 'register_file_descriptor_set', within=W, display='Builder::register_file_descriptor_set',
         ensures=[Clause('B1_the_set_is_added_after_the_ones_already_registered', 'r.file_descriptor_sets@ == self.file_descriptor_sets@.push(file_descriptor_set)'),
                  Clause('B1f_nothing_else_changes', same('encoded_file_descriptor_sets', 'include_reflection_service', 'service_names', 'use_all_service_names'))])
    u.fn(M, 'register_encoded_file_descriptor_set', within=W, display='Builder::register_encoded_file_descriptor_set',
         ensures=[Clause('B2_the_encoded_set_is_added_after_the_ones_already_registered', 'r.encoded_file_descriptor_sets@ == self.encoded_file_descriptor_sets@.push(encoded_file_descriptor_set)'),
                  Clause('B2f_nothing_else_changes', same('file_descriptor_sets', 'include_reflection_service', 'service_names', 'use_all_service_names'))])
    u.fn(M, 'include_reflection_service', within=W, display='Builder::include_reflection_service',
         ensures=[Clause('B3_the_switch_is_set', 'r.include_reflection_service == include'),
                  Clause('B3f_nothing_else_changes', same('file_descriptor_sets', 'encoded_file_descriptor_sets', 'service_names', 'use_all_service_names'))])
    u.fn(M, 'with_service_name', within=W, display='Builder::with_service_name',
         ensures=[Clause('B4_one_more_chosen_name_and_only_chosen_names_are_advertised',
                         '!r.use_all_service_names && r.service_names@.len() == self.service_names@.len() + 1 && r.service_names@.take(self.service_names@.len() as int) == self.service_names@'),
                  Clause('B4f_nothing_else_changes', same('file_descriptor_sets', 'encoded_file_descriptor_sets', 'include_reflection_service'))])
    for ver in ('v1', 'v1alpha'):
        own = 'own_fds_%s()' % ver
        u.fn(M, 'build_' + ver, within=W, display='Builder::build_' + ver,
             sig_edits=[lambda t, ver=ver: t.sub_code('R12', r'impl %s::ServerReflection' % ver, '%s::ReflectionService' % ver)],
             ensures=[Clause('B5_the_service_is_built_over_an_index_of_every_registered_set_and_the_protocols_own',
                             'r matches Ok(svc) ==> built_from(svc.inner.t.state.t, self, %s)' % own),
                      Clause('B6_an_undecodable_registered_set_is_an_error',
                             '(exists|k: int| 0 <= k < builder_encoded(self, %s).len() && fds_decode(#[trigger] builder_encoded(self, %s)[k]@) is Err) ==> r is Err' % (own, own))])
    u.close('}')


def idx3(label, decl):
    """`final(self).symbols` is `old(self).symbols` with every name x satisfying `decl` mapped to fd, nothing else touched"""
    return [Clause(label + '_exactly_the_declared_names_are_added', 'r is Ok ==> forall|x: Seq<char>| #[trigger] final(self).symbols@.contains_key(x) <==> (old(self).symbols@.contains_key(x) || %s)' % decl),
            Clause(label + '_every_declared_name_maps_to_the_declaring_file', 'r is Ok ==> forall|x: Seq<char>| #[trigger] %s ==> final(self).symbols@.contains_key(x) && final(self).symbols@[x] == fd' % decl),
            Clause(label + '_other_entries_untouched', 'r is Ok ==> forall|x: Seq<char>| old(self).symbols@.contains_key(x) && !%s ==> #[trigger] final(self).symbols@[x] == old(self).symbols@[x]' % decl)]


def build():
    u = Unit('reflection', ['C19'])
    u.prelude('base.rs')
    u.raw(SHIMS)
    u.item(M, 'enum', 'Error')
    u.raw(SPEC)
    u.item(M, 'struct', 'ReflectionServiceState')
    st = [lambda t: t.sub_code('R17', r'name\.to_string\(\)', 'verif_to_string(name)'),
          lambda t: t.sub_code('R17', r'prefix\.is_empty\(\)', 'verif_is_empty(prefix)')]
    u.fn(M, 'extract_name', body_edits=st,
         ensures=[Clause('X1_qualified_name_or_error_for_a_missing_name',
                         'match maybe_name { None => r is Err, Some(n) => r matches Ok(s) && s@ == qual(prefix@, n@) }')])
    W = 'impl ReflectionServiceState'
    u.fn(M, 'from', within='impl From<DecodeError> for Error', header='impl From<DecodeError> for Error {', close=True, vacuity=False)
    u._emit('impl ReflectionServiceState {'); u._open_header = 'impl ReflectionServiceState {'
    u.fn(M, 'process_field', within=W,
         ensures=[Clause('F1_the_field_name_maps_to_its_file_nothing_else_changes',
                         '''match field.name { None => r is Err,
                            Some(n) => r is Ok && final(self).symbols@ == old(self).symbols@.insert(qual(prefix@, n@), fd) }
                            && final(self).files == old(self).files && final(self).service_names == old(self).service_names''')])
    u.fn(M, 'process_enum', within=W,
         loops={0: dict(iter='it', invariant=[
             'en.name is Some', 'enum_name@ == qual(prefix@, en.name->Some_0@)', 'it.seq().len() == en.value@.len()', 'forall|i: int| 0 <= i < it.seq().len() ==> *(#[trigger] it.seq()[i]) == en.value@[i]',
             'self.files == old(self).files && self.service_names == old(self).service_names',
             'forall|x: Seq<char>| #[trigger] self.symbols@.contains_key(x) <==> (old(self).symbols@.contains_key(x) || x == enum_name@ || exists|i: int| 0 <= i < it.index@ && en.value@[i].name is Some && x == qual(enum_name@, #[trigger] en.value@[i].name->Some_0@))',
             'forall|x: Seq<char>| (x == enum_name@ || exists|i: int| 0 <= i < it.index@ && en.value@[i].name is Some && x == qual(enum_name@, #[trigger] en.value@[i].name->Some_0@)) ==> self.symbols@.contains_key(x) && self.symbols@[x] == fd',
             'forall|x: Seq<char>| old(self).symbols@.contains_key(x) && !(x == enum_name@ || exists|i: int| 0 <= i < it.index@ && en.value@[i].name is Some && x == qual(enum_name@, #[trigger] en.value@[i].name->Some_0@)) ==> self.symbols@[x] == old(self).symbols@[x]',
             'forall|i: int| 0 <= i < it.index@ ==> (#[trigger] en.value@[i]).name is Some',
         ])},
         ensures=idx3('E1', 'in_enum(prefix@, *en, x)') + [
                  Clause('E2_a_missing_name_is_an_error', 'r is Ok <==> en.name is Some && forall|i: int| 0 <= i < en.value@.len() ==> (#[trigger] en.value@[i]).name is Some'),
                  Clause('E3_frame', 'final(self).files == old(self).files && final(self).service_names == old(self).service_names')])

    def inv(A, B, C, D):
        U = 'msg_upto(prefix@, *msg, %s, %s, %s, %s, x)' % (A, B, C, D)
        return ['msg.name is Some', 'message_name@ == qual(prefix@, msg.name->Some_0@)',
                'self.files == old(self).files && self.service_names == old(self).service_names',
                'forall|x: Seq<char>| #[trigger] self.symbols@.contains_key(x) <==> (old(self).symbols@.contains_key(x) || %s)' % U,
                'forall|x: Seq<char>| #[trigger] %s ==> self.symbols@.contains_key(x) && self.symbols@[x] == fd' % U,
                'forall|x: Seq<char>| old(self).symbols@.contains_key(x) && !%s ==> #[trigger] self.symbols@[x] == old(self).symbols@[x]' % U]
    LEN = lambda f: '(msg.%s@.len() as int)' % f
    seqinv = lambda f: ['it.seq().len() == msg.%s@.len()' % f, 'forall|i: int| 0 <= i < it.seq().len() ==> *(#[trigger] it.seq()[i]) == msg.%s@[i]' % f]
    okn = lambda bound: 'forall|i: int| 0 <= i < %s ==> msg_ok(#[trigger] msg.nested_type@[i])' % bound
    oke = lambda bound: 'forall|i: int| 0 <= i < %s ==> enum_ok(#[trigger] msg.enum_type@[i])' % bound
    okf = lambda bound: 'forall|i: int| 0 <= i < %s ==> (#[trigger] msg.field@[i]).name is Some' % bound
    oko = lambda bound: 'forall|i: int| 0 <= i < %s ==> (#[trigger] msg.oneof_decl@[i]).name is Some' % bound
    IDX = 'it.index@ as int'
    loops = {
        0: dict(iter='it', invariant=inv(IDX, '0', '0', '0') + seqinv('nested_type') + [okn('it.index@')]),
        1: dict(iter='it', invariant=inv(LEN('nested_type'), IDX, '0', '0') + seqinv('enum_type') + [okn('msg.nested_type@.len()'), oke('it.index@')]),
        2: dict(iter='it', invariant=inv(LEN('nested_type'), LEN('enum_type'), IDX, '0') + seqinv('field') + [okn('msg.nested_type@.len()'), oke('msg.enum_type@.len()'), okf('it.index@')]),
        3: dict(iter='it', invariant=inv(LEN('nested_type'), LEN('enum_type'), LEN('field'), IDX) + seqinv('oneof_decl') + [okn('msg.nested_type@.len()'), oke('msg.enum_type@.len()'), okf('msg.field@.len()'), oko('it.index@')]),
    }
    STEP = lambda A, B, C, D: 'proof { lemma_upto_steps(prefix@, *msg, %s, %s, %s, %s); }' % (A, B, C, D)
    u.fn(M, 'process_message', within=W, decreases='msg', loops=loops, body_edits=[r23_continue_guard],
         hints=[('before', 'self.process_message(fd.clone(), &message_name, nested)?;', '            ' + STEP(IDX, '0', '0', '0')),
                ('before', 'self.process_enum(fd.clone(), &message_name, en)?;', '            ' + STEP(LEN('nested_type'), IDX, '0', '0')),
                ('before', 'self.process_field(fd.clone(), &message_name, field)?;', '            ' + STEP(LEN('nested_type'), LEN('enum_type'), IDX, '0')),
                ('before', 'let oneof_name = extract_name', '            ' + STEP(LEN('nested_type'), LEN('enum_type'), LEN('field'), IDX))],
         ensures=idx3('M1', 'in_msg(prefix@, *msg, x)') + [
                  Clause('M2_a_missing_name_anywhere_is_an_error', 'r is Ok <==> msg_ok(*msg)'),
                  Clause('M3_frame', 'final(self).files == old(self).files && final(self).service_names == old(self).service_names')])

    def finv(A, B, C):
        U = 'file_upto(fd.t, %s, %s, %s, x)' % (A, B, C)
        return ['prefix@ == pkg(fd.t)', 'self.files == old(self).files',
                'forall|x: Seq<char>| #[trigger] self.symbols@.contains_key(x) <==> (old(self).symbols@.contains_key(x) || %s)' % U,
                'forall|x: Seq<char>| #[trigger] %s ==> self.symbols@.contains_key(x) && self.symbols@[x] == fd' % U,
                'forall|x: Seq<char>| old(self).symbols@.contains_key(x) && !%s ==> #[trigger] self.symbols@[x] == old(self).symbols@[x]' % U]
    FL = lambda f: '(fd.t.%s@.len() as int)' % f
    fseq = lambda f: ['it.seq().len() == fd.t.%s@.len()' % f, 'forall|i: int| 0 <= i < it.seq().len() ==> *(#[trigger] it.seq()[i]) == fd.t.%s@[i]' % f]
    fokm = lambda b: 'forall|i: int| 0 <= i < %s ==> msg_ok(#[trigger] fd.t.message_type@[i])' % b
    foke = lambda b: 'forall|i: int| 0 <= i < %s ==> enum_ok(#[trigger] fd.t.enum_type@[i])' % b
    foks = lambda b: 'forall|i: int| 0 <= i < %s ==> svc_ok(#[trigger] fd.t.service@[i])' % b
    SN = 'texts(self.service_names@) == texts(old(self).service_names@) + (if use_all_service_names { svc_names(pkg(fd.t), fd.t.service@, %s) } else { Seq::<Seq<char>>::empty() })'
    MU = 'svc_upto(pkg(fd.t), *service, jt.index@ as int, x)'
    floops = {
        0: dict(iter='it', invariant=finv(IDX, '0', '0') + fseq('message_type') + [fokm('it.index@'), 'self.service_names == old(self).service_names']),
        1: dict(iter='it', invariant=finv(FL('message_type'), IDX, '0') + fseq('enum_type') + [fokm('fd.t.message_type@.len()'), foke('it.index@'), 'self.service_names == old(self).service_names']),
        2: dict(iter='it', invariant=finv(FL('message_type'), FL('enum_type'), IDX) + fseq('service') + [fokm('fd.t.message_type@.len()'), foke('fd.t.enum_type@.len()'), foks('it.index@'), SN % IDX]),
        3: dict(iter='jt', invariant=['prefix@ == pkg(fd.t)', 'self.files == old(self).files', 'service.name is Some', 'service_name@ == qual(pkg(fd.t), service.name->Some_0@)',
                                      '0 <= it.index@ < fd.t.service@.len()', '*service == fd.t.service@[it.index@ as int]',
                                      'jt.seq().len() == service.method@.len()', 'forall|j: int| 0 <= j < jt.seq().len() ==> *(#[trigger] jt.seq()[j]) == service.method@[j]',
                                      'forall|j: int| 0 <= j < jt.index@ ==> (#[trigger] service.method@[j]).name is Some',
                                      'forall|x: Seq<char>| #[trigger] self.symbols@.contains_key(x) <==> (old(self).symbols@.contains_key(x) || file_upto(fd.t, %s, %s, %s, x) || %s)' % (FL('message_type'), FL('enum_type'), IDX, MU),
                                      'forall|x: Seq<char>| (file_upto(fd.t, %s, %s, %s, x) || %s) ==> #[trigger] self.symbols@.contains_key(x) && self.symbols@[x] == fd' % (FL('message_type'), FL('enum_type'), IDX, MU),
                                      'forall|x: Seq<char>| old(self).symbols@.contains_key(x) && !(file_upto(fd.t, %s, %s, %s, x) || %s) ==> #[trigger] self.symbols@[x] == old(self).symbols@[x]' % (FL('message_type'), FL('enum_type'), IDX, MU),
                                      fokm('fd.t.message_type@.len()'), foke('fd.t.enum_type@.len()'), foks('it.index@'), SN % '(it.index@ + 1)']),
    }
    FSTEP = lambda A, B, C: 'proof { lemma_file_steps(fd.t, %s, %s, %s); }' % (A, B, C)
    u.fn(M, 'process_file', within=W, loops=floops,
         body_edits=[r23_continue_guard, lambda t: t.sub_code('R17', r'fd\.package\.clone\(\)\.unwrap_or_default\(\)', 'verif_string_or_empty(&fd.package)'),
                     lambda t: t.sub_code('R17', r'service_name\.clone\(\)', 'verif_clone_string(&service_name)')],
         hints=[('before', 'self.process_message(fd.clone(), prefix, msg)?;', '            ' + FSTEP(IDX, '0', '0')),
                ('before', 'self.process_enum(fd.clone(), prefix, en)?;', '            ' + FSTEP(FL('message_type'), IDX, '0')),
                ('before', 'let service_name = extract_name', '            ' + FSTEP(FL('message_type'), FL('enum_type'), IDX)),
                ('after', 'let service_name = extract_name(prefix, "service"', '            let ghost sn0 = self.service_names@;'),
                ('before', 'self.symbols.insert(verif_clone_string(&service_name), fd.clone());',
                 '            proof { lemma_svc_names_step(pkg(fd.t), fd.t.service@, it.index@ as int); if use_all_service_names { lemma_texts_push(sn0, self.service_names@.last()); assert(self.service_names@ =~= sn0.push(self.service_names@.last())); } }'),
                ('before', 'let method_name = extract_name', '                proof { lemma_svc_step(pkg(fd.t), *service, jt.index@ as int); }')],
         ensures=idx3('P1', 'in_file(fd.t, x)') + [
                  Clause('P2_a_missing_name_anywhere_is_an_error', 'r is Ok <==> file_ok(fd.t)'),
                  Clause('P3_service_list_gains_exactly_the_declared_services_in_order_when_all_services_are_advertised',
                         'r is Ok ==> texts(final(self).service_names@) == texts(old(self).service_names@) + (if use_all_service_names { svc_names(pkg(fd.t), fd.t.service@, fd.t.service@.len() as int) } else { Seq::<Seq<char>>::empty() })'),
                  Clause('P4_frame', 'final(self).files == old(self).files')])
    u.fn(M, 'new', within=W, body_edits=[r23_continue_guard, lambda t: t.sub_code('R17', r'fd\.name\.clone\(\)', 'verif_clone_opt_string(&fd.name)')],
         body_start='        let ghost given = file_descriptor_sets@; let ghost enc = encoded_file_descriptor_sets@;',
         loops={0: dict(iter='it', invariant=['it.seq() == enc', 'file_descriptor_sets@ == all_sets(given, enc, it.index@ as int)',
                                              'forall|k: int| 0 <= k < it.index@ ==> fds_decode(#[trigger] enc[k]@) is Ok']),
                1: dict(iter='it', invariant=['it.seq() == all_sets(given, enc, enc.len() as int)', 'index_ok(state, it.seq())', 'covered(state, it.seq(), it.index@ as int, 0)',
                                              '!use_all_service_names ==> texts(state.service_names@) == texts(service_names@)']),
                2: dict(iter='jt', invariant=['it.seq() == all_sets(given, enc, enc.len() as int)', '0 <= it.index@ < it.seq().len()', 'jt.seq() == it.seq()[it.index@ as int].file@',
                                              'index_ok(state, it.seq())', 'covered(state, it.seq(), it.index@ as int, jt.index@ as int)',
                                              '!use_all_service_names ==> texts(state.service_names@) == texts(service_names@)'])},
         hints=[('before', 'let fd = Arc::new(fd);', '                let ghost st0 = state; let ghost f0 = fd;'),
                ('after', 'state.process_file(fd, use_all_service_names)?;', '                proof { assert(is_input_file(it.seq(), f0)); assert(in_file(f0, name@) || true); }')],
         ensures=[
             Clause('N1_every_registered_file_is_retrievable_by_its_name', 'r matches Ok(st) ==> covered(st, all_sets(file_descriptor_sets@, encoded_file_descriptor_sets@, encoded_file_descriptor_sets@.len() as int), all_sets(file_descriptor_sets@, encoded_file_descriptor_sets@, encoded_file_descriptor_sets@.len() as int).len() as int, 0)'),
             Clause('N2_every_declared_name_resolves_to_a_registered_file_that_declares_it_and_nothing_else_is_indexed',
                    'r matches Ok(st) ==> index_ok(st, all_sets(file_descriptor_sets@, encoded_file_descriptor_sets@, encoded_file_descriptor_sets@.len() as int))'),
             Clause('N3_explicitly_chosen_service_names_are_the_service_list', 'r matches Ok(st) ==> !use_all_service_names ==> texts(st.service_names@) == texts(service_names@)'),
             Clause('N4_an_undecodable_set_is_an_error', '(exists|k: int| 0 <= k < encoded_file_descriptor_sets@.len() && fds_decode(#[trigger] encoded_file_descriptor_sets@[k]@) is Err) ==> r is Err'),
         ])
    u.fn(M, 'list_services', within=W, ensures=[Clause('L1_the_advertised_services', 'r@ == self.service_names@')])
    u.fn(M, 'symbol_by_name', within=W,
         ensures=[Clause('Y1_unknown_symbols_are_not_found', '!self.symbols@.contains_key(symbol@) ==> (r matches Err(st) && st.code == 5)'),
                  Clause('Y2_a_known_symbol_gives_the_descriptor_of_the_file_indexed_for_it', 'self.symbols@.contains_key(symbol@) ==> match r { Ok(b) => b@ == fd_wire(self.symbols@[symbol@].t), Err(st) => st.code == 13 }')])
    u.fn(M, 'file_by_filename', within=W,
         ensures=[Clause('Z1_unknown_files_are_not_found', '!self.files@.contains_key(filename@) ==> (r matches Err(st) && st.code == 5)'),
                  Clause('Z2_a_known_file_name_gives_its_descriptor', 'self.files@.contains_key(filename@) ==> match r { Ok(b) => b@ == fd_wire(self.files@[filename@].t), Err(st) => st.code == 13 }')])
    u.close('}')
    builder(u)
    return u
