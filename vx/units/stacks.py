"""U26 — the tower stacks every call goes through, as far as they are tonic's own code.
client (transport/channel/service/{add_origin,user_agent,connection}.rs): AddOrigin::call puts the configured scheme and authority
on the request and leaves path, method, headers, extensions and body alone (or fails the call when the endpoint has no origin,
without reaching the transport); UserAgent::call sets the user-agent header and nothing else; Connection::new builds
AddOrigin(UserAgent(GrpcTimeout(limits(Reconnect)))) with the endpoint's timeout and the laziness it was asked for.
server (transport/server/mod.rs): Svc::call hands the wrapped service exactly the request it was given (whether or not a trace
interceptor looks at its head), SvcFuture::poll returns the response head untouched around the boxed body, MakeSvc::call builds,
for each accepted connection, ConnectInfo(Svc(RecoverError(limit(GrpcTimeout(service))))) with the configured timeout and that
connection's connect info."""
import re
import vxlib
from vxlib import Unit, Clause, read_src, Infra
from units import common

AO = 'tonic/src/transport/channel/service/add_origin.rs'
UA = 'tonic/src/transport/channel/service/user_agent.rs'
CN = 'tonic/src/transport/channel/service/connection.rs'
SV = 'tonic/src/transport/server/mod.rs'

URI_MODEL = '''// A-http-50: an http::Uri is its three parts (scheme, authority, path-and-query); the parts themselves are opaque
    pub struct Scheme { pub id: Ghost<int> }
    pub struct Authority { pub id: Ghost<int> }
    pub struct PathAndQuery { pub id: Ghost<int> }
    impl Clone for Scheme { #[verifier::external_body] fn clone(&self) -> (r: Self) ensures r == *self { unimplemented!() } }
    impl Clone for Authority { #[verifier::external_body] fn clone(&self) -> (r: Self) ensures r == *self { unimplemented!() } }
    pub struct Uri { pub scheme: Option<Scheme>, pub authority: Option<Authority>, pub path_and_query: Option<PathAndQuery> }
    impl Clone for Uri { #[verifier::external_body] fn clone(&self) -> (r: Self) ensures r == *self { unimplemented!() } }
    #[derive(Debug)]
    pub struct InvalidUriParts { pub x: u8 }
    pub mod uri {
        use crate::*;
        pub use super::{Scheme, Authority, PathAndQuery};
        pub struct Parts { pub scheme: Option<Scheme>, pub authority: Option<Authority>, pub path_and_query: Option<PathAndQuery>, pub verif_private: () }
        // A-http-51: `impl From<Uri> for Parts` / Uri::into_parts split a Uri into its parts
        impl vstd::std_specs::convert::FromSpecImpl<super::Uri> for Parts {
            open spec fn obeys_from_spec() -> bool { true }
            open spec fn from_spec(u: super::Uri) -> Self { Parts { scheme: u.scheme, authority: u.authority, path_and_query: u.path_and_query, verif_private: () } }
        }
        impl From<super::Uri> for Parts { fn from(u: super::Uri) -> (r: Parts) { Parts { scheme: u.scheme, authority: u.authority, path_and_query: u.path_and_query, verif_private: () } } }
    }
    impl Uri {
        pub fn into_parts(self) -> (r: uri::Parts) ensures r.scheme == self.scheme, r.authority == self.authority, r.path_and_query == self.path_and_query
        { uri::Parts { scheme: self.scheme, authority: self.authority, path_and_query: self.path_and_query, verif_private: () } }
        // A-http-52: Uri::from_parts (http 1.x, uri/mod.rs): Err exactly when a scheme comes without authority or without path, or an
        // authority and a path come without a scheme; otherwise the Uri made of these parts
        #[verifier::external_body]
        pub fn from_parts(src: uri::Parts) -> (r: Result<Uri, InvalidUriParts>)
            ensures r is Err <==> ((src.scheme is Some && (src.authority is None || src.path_and_query is None)) || (src.scheme is None && src.authority is Some && src.path_and_query is Some)),
                    r matches Ok(u) ==> u.scheme == src.scheme && u.authority == src.authority && u.path_and_query == src.path_and_query
        { unimplemented!() }
    }'''

SHIMS = r'''
// ---- tower / futures as the stacks use them ----
pub use http::{Request, Response, Uri};
pub use http::header::USER_AGENT;
pub use http::uri::{Authority, Scheme};
pub use core::future::Future;
pub use vstd::future::FutureAdditionalSpecFns;
pub mod transport {
    use crate::*;
    // A-tonic-link-40: transport::Error::new_invalid_uri is the InvalidUri kind without a source: under contract in unit errmap (X4)
    pub enum Kind { Transport, InvalidUri, InvalidUserAgent }
    pub struct Error { pub kind: Kind, pub source: Ghost<Option<BoxError>> }
    impl Error {
        #[verifier::external_body] pub fn new_invalid_uri() -> (r: Error) ensures r.kind is InvalidUri, r.source@ is None { unimplemented!() }
        // A-tonic-link-44: transport::Error::from_source is the Transport kind around the given cause: under contract in unit errmap (X3)
        #[verifier::external_body] pub fn from_source(source: BoxError) -> (r: Error) ensures r.kind is Transport, r.source@ == Some(source) { unimplemented!() }
    }
}
// Box<dyn Error + Send + Sync>: what it was made from, when that matters (the transport error of an origin-less endpoint)
pub enum BoxError { Transport(transport::Error), Other(Ghost<int>) }
// A-core-30: `Into<BoxError>` of an error: some function of it; of a boxed error, itself (A-core-26)
pub trait IntoBoxError: Sized { spec fn as_box(self) -> BoxError; fn into(self) -> (r: BoxError) ensures r == self.as_box(); }
impl IntoBoxError for transport::Error { open spec fn as_box(self) -> BoxError { BoxError::Transport(self) } fn into(self) -> (r: BoxError) { BoxError::Transport(self) } }
impl IntoBoxError for BoxError { open spec fn as_box(self) -> BoxError { self } fn into(self) -> (r: BoxError) { self } }
// tower_service::Service with a ghost log of the requests the service has been called with (A-tower-01), a ghost readiness
// (A-tower-03) and the future a call returns as a function of state and request (A-tower-02)
pub trait Service<Request> {
    type Response;
    type Error;
    type Future;
    spec fn log(&self) -> Seq<Request>;
    spec fn ready_now(&self) -> Poll<Result<(), Self::Error>>;
    spec fn fut_of(&self, req: Request) -> Self::Future;
    fn poll_ready(&mut self, cx: &mut Context) -> (r: Poll<Result<(), Self::Error>>)
        ensures r == old(self).ready_now(), final(self).log() == old(self).log();
    fn call(&mut self, req: Request) -> (f: Self::Future)
        ensures final(self).log() == old(self).log().push(req), f == old(self).fut_of(req);
}
impl<T, E> Poll<Result<T, E>> {
    // A-core-09: Poll::map_err maps the Err of a ready result
    #[verifier::external_body]
    pub fn map_err<U, G: FnOnce(E) -> U>(self, f: G) -> (r: Poll<Result<T, U>>)
        requires self matches Poll::Ready(Err(e)) ==> f.requires((e,))
        ensures
            self is Pending ==> r is Pending,
            self matches Poll::Ready(Ok(t)) ==> r == Poll::<Result<T, U>>::Ready(Ok(t)),
            self matches Poll::Ready(Err(e)) ==> r matches Poll::Ready(Err(u)) && f.ensures((e,), u),
    { unimplemented!() }
}
// A-std-boxfut-01: Box::pin(f) as a BoxFuture<'static, T>: awaiting the box is awaiting f
pub mod verif_box {
    use crate::*;
    pub struct Box { pub x: u8 }
    #[verifier::external_body]
    #[verifier::reject_recursive_types(T)]
    pub struct BoxFuture<T> { p: core::marker::PhantomData<T> }
    impl<T> BoxFuture<T> {
        pub uninterp spec fn awaited(&self) -> bool;
        pub uninterp spec fn view(&self) -> T;
    }
    impl Box {
        #[verifier::external_body]
        pub fn pin<F: Future>(f: F) -> (r: BoxFuture<F::Output>) ensures r.awaited() == f.awaited(), r.awaited() ==> r@ == f@ { unimplemented!() }
    }
}
pub use verif_box::{Box, BoxFuture};
// what `fut.await.map_err(Into::into)` yields for the result of the wrapped call
pub open spec fn boxed_result<R, E: IntoBoxError>(x: Result<R, E>) -> Result<R, BoxError> {
    match x { Ok(v) => Ok(v), Err(e) => Err(e.as_box()) }
}
'''


def virt(u, file, tag, text):
    """register `text` as the virtual source `file#tag` (R28 liftings)"""
    ov = dict(getattr(vxlib.TLS, 'override', None) or {})
    ov[file + '#' + tag] = text
    vxlib.TLS.override = ov
    return file + '#' + tag


def lift_async(src, fn_pat, kinds):
    """R28: in the function matched by fn_pat, every `Box::pin(async move { BODY })` becomes `Box::pin(NAME(ARGS))`, where
    (NAME, ARGS) is chosen by the text of BODY: kinds = [(regex on BODY, NAME, ARGS)].  Returns (function text, {NAME: BODY}).
    However many blocks of a kind the function has (an early return added or removed by an edit of /repo), each kind is
    lifted once; a block of no known kind is an extraction failure (undecided), never an alarm."""
    code = vxlib.code_mask(src)
    mc = re.search(fn_pat, src)
    if not mc:
        raise Infra('%s not found' % fn_pat)
    fe = vxlib.match_brace(src, code, mc.end() - 1)
    out, bodies, pos = '', {}, mc.start()
    while True:
        m = re.compile(r'Box::pin\(async move \{').search(src, pos, fe)
        if not m:
            break
        bo = m.end() - 1
        be = vxlib.match_brace(src, code, bo)
        if src[be] != ')':
            raise Infra('async block is not the whole argument of Box::pin')
        body = src[bo:be]
        for rx, name, args in kinds:
            if re.fullmatch(rx, vxlib.norm_ws(body)):
                break
        else:
            raise Infra('async block of no known kind in %s: %s' % (fn_pat, vxlib.norm_ws(body)[:80]))
        if name in bodies and vxlib.norm_ws(bodies[name]) != vxlib.norm_ws(body):
            raise Infra('two different async blocks of kind %s' % name)
        bodies[name] = body
        out += src[pos:m.start()] + 'Box::pin(%s(%s))' % (name, args)
        pos = be + 1
    out += src[pos:fe]
    for rx, name, args in kinds:
        if name not in bodies:
            raise Infra('no async block of kind %s in %s' % (name, fn_pat))
    return out, bodies


def client_calls(u):
    # ---- AddOrigin ----
    src = read_src(AO)
    call_txt, bodies = lift_async(src, r'fn call\(&mut self, req: Request<ReqBody>\) -> Self::Future \{', [(r'\{ Err::<Self::Response, _>\(err\.into\(\)\) \}', 'verif_fail', 'err'), (r'\{ fut\.await\.map_err\(Into::into\) \}', 'verif_forward', 'fut')])
    VA = virt(u, AO, 'R28',
              'impl<T> AddOrigin<T> {\n    ' + call_txt + '\n}\n'
              'async fn verif_fail<R>(err: transport::Error) -> Result<R, BoxError> ' + bodies['verif_fail'].replace('Self::Response', 'R') + '\n'
              'async fn verif_forward<F: Future<Output = Result<R, E>>, R, E: IntoBoxError>(fut: F) -> Result<R, BoxError> ' + bodies['verif_forward'] + '\n')
    u.rewrites.append(dict(item='AddOrigin::call', rule='R28', old='Box::pin(async move { Err::<Self::Response, _>(err.into()) }) / Box::pin(async move { fut.await.map_err(Into::into) })',
                           new='Box::pin(verif_fail(err)) / Box::pin(verif_forward(fut))  + async fn verif_fail<R>(err) { Err::<R, _>(err.into()) } / async fn verif_forward(fut) { fut.await.map_err(Into::into) }'))
    into = [lambda t: t.sub_code('R3', r'\.map_err\(Into::into\)', '.map_err(|e| IntoBoxError::into(e))')]
    u.item(AO, 'struct', 'AddOrigin')
    u.fn(VA, 'verif_fail', display='AddOrigin::call::no_origin', props=['C14'], body_edits=[lambda t: t.sub_code('R3', r'\berr\.into\(\)', 'IntoBoxError::into(err)')],
         ensures=[Clause('F1_the_call_fails_with_the_invalid_uri_error', 'r == Err::<R, BoxError>(BoxError::Transport(err))', ['C14'])])
    u.fn(VA, 'verif_forward', display='AddOrigin::call::forward', body_edits=into, props=['C02', 'C14'],
         closures={0: dict(params='e: E', ret='(x: BoxError)', ensures=['x == e.as_box()'])},
         ensures=[Clause('F2_the_outcome_of_the_wrapped_call_with_its_error_boxed', 'r == boxed_result(fut@)', ['C02', 'C14'])])
    u.fn(AO, 'new', within='impl<T> AddOrigin<T>', header='impl<T> AddOrigin<T> {', close=True, display='AddOrigin::new', props=['C03'],
         ensures=[Clause('N1_scheme_and_authority_of_the_origin', 'r.inner == inner && r.scheme == origin.scheme && r.authority == origin.authority', ['C03'])])
    hdr = 'impl<T> AddOrigin<T> {'
    gen = [lambda t: t.sub_code('R12', r'fn (poll_ready|call)\(', r'fn \1<ReqBody>('),
           lambda t: t.edit('R12', len(t.t.rstrip()), len(t.t.rstrip()), ' where T: Service<Request<ReqBody>>, T::Error: IntoBoxError, T::Future: Future<Output = Result<T::Response, T::Error>>')]
    ready = '''(match old(self).inner.ready_now() { Poll::Pending => r is Pending, Poll::Ready(Ok(_)) => r matches Poll::Ready(Ok(_)), Poll::Ready(Err(e)) => r == Poll::<Result<(), BoxError>>::Ready(Err(e.as_box())) })'''
    u.fn(AO, 'poll_ready', within='impl<T, ReqBody> Service<Request<ReqBody>> for AddOrigin<T>', header=hdr, close=True, display='AddOrigin::poll_ready', props=['C14'],
         sig_edits=[lambda t: t.sub_code('R9', r'Self::Error', 'BoxError')] + gen, body_edits=into,
         closures={0: dict(params='e: T::Error', ret='(x: BoxError)', ensures=['x == e.as_box()'])},
         ensures=[Clause('P1_ready_exactly_when_the_wrapped_service_is_and_no_request_is_made_up', ready + ' && final(self).inner.log() == old(self).inner.log() && final(self).scheme == old(self).scheme && final(self).authority == old(self).authority', ['C14'])])
    # a request without a path (authority-form or empty URI) cannot be given a scheme (Uri::from_parts refuses it, A-http-52): such a
    # call fails like one on an endpoint without origin (fixed: it used to panic in `.expect("valid uri")`)
    sent = '(old(self).scheme is Some && old(self).authority is Some && req.uri.path_and_query is Some)'
    q = 'final(self).inner.log().last()'
    u.fn(VA, 'call', within='impl<T> AddOrigin<T>', header=hdr, close=True, display='AddOrigin::call', props=['C03', 'C08', 'C02', 'C14'],
         sig_edits=[lambda t: t.sub_code('R9', r'Self::Future', 'BoxFuture<Result<T::Response, BoxError>>')] + gen,
         ensures=[Clause('A1_without_an_origin_or_without_a_path_the_call_fails_and_nothing_reaches_the_transport',
                         '!%s ==> final(self).inner.log() == old(self).inner.log() && (r.awaited() ==> (r@ matches Err(BoxError::Transport(e)) && e.kind is InvalidUri))' % sent, ['C14']),
                  Clause('A2_exactly_one_request_is_passed_on', '%s ==> final(self).inner.log().len() == old(self).inner.log().len() + 1 && final(self).inner.log().drop_last() == old(self).inner.log()' % sent, ['C02', 'C14']),
                  Clause('A3_it_goes_to_the_configured_origin_with_the_path_it_came_with',
                         '%s ==> %s.uri.scheme == old(self).scheme && %s.uri.authority == old(self).authority && %s.uri.path_and_query == req.uri.path_and_query' % (sent, q, q, q), ['C03']),
                  Clause('A4_headers_and_extensions_are_passed_on_untouched', '%s ==> %s.headers == req.headers && %s.extensions == req.extensions' % (sent, q, q), ['C08', 'C03']),
                  Clause('A5_method_version_and_body_are_passed_on_untouched', '%s ==> %s.method == req.method && %s.version == req.version && %s.body == req.body' % (sent, q, q, q), ['C02', 'C03']),
                  Clause('A6_the_caller_gets_the_outcome_of_the_wrapped_call', '%s ==> (r.awaited() ==> r@ == boxed_result(old(self).inner.fut_of(%s)@))' % (sent, q), ['C02', 'C14']),
                  Clause('A7_the_origin_stays', 'final(self).scheme == old(self).scheme && final(self).authority == old(self).authority', ['C03'])])
    # ---- UserAgent ----
    u.item(UA, 'struct', 'UserAgent')
    hdr = 'impl<T> UserAgent<T> {'
    genu = [lambda t: t.sub_code('R12', r'fn (poll_ready|call)\(', r'fn \1<ReqBody>('),
            lambda t: t.edit('R12', len(t.t.rstrip()), len(t.t.rstrip()), ' where T: Service<Request<ReqBody>>')]
    u.fn(UA, 'poll_ready', within='impl<T, ReqBody> Service<Request<ReqBody>> for UserAgent<T>', header=hdr, close=True, display='UserAgent::poll_ready', props=['C14'],
         sig_edits=[lambda t: t.sub_code('R9', r'Self::Error', 'T::Error')] + genu,
         ensures=[Clause('P2_ready_exactly_when_the_wrapped_service_is_and_no_request_is_made_up',
                         'r == old(self).inner.ready_now() && final(self).inner.log() == old(self).inner.log() && final(self).user_agent == old(self).user_agent', ['C14'])])
    u.fn(UA, 'call', within='impl<T, ReqBody> Service<Request<ReqBody>> for UserAgent<T>', header=hdr, close=True, display='UserAgent::call', props=['C08', 'C02', 'C03'],
         sig_edits=[lambda t: t.sub_code('R9', r'Self::Future', 'T::Future')] + genu,
         ensures=[Clause('U1_exactly_one_request_is_passed_on_and_its_future_returned',
                         'final(self).inner.log().len() == old(self).inner.log().len() + 1 && final(self).inner.log().drop_last() == old(self).inner.log() && r == old(self).inner.fut_of(%s)' % q, ['C02']),
                  Clause('U2_only_the_user_agent_header_is_set', '%s.headers@ == req.headers@.insert("user-agent"@, seq![old(self).user_agent@])' % q, ['C08', 'C03']),
                  Clause('U3_everything_else_is_passed_on_untouched', '%s.uri == req.uri && %s.method == req.method && %s.version == req.version && %s.extensions == req.extensions && %s.body == req.body' % (q, q, q, q, q), ['C02', 'C03', 'C08']),
                  Clause('U4_the_configured_user_agent_stays', 'final(self).user_agent == old(self).user_agent', ['C03'])])


SERVER_SHIMS = r"""
// ---- server side: tracing, pin-project and the boxed body, as Svc / SvcFuture use them ----
pub mod verif_tracing {
    use crate::*;
    // A-tracing-01: spans are diagnostics: creating, entering and dropping one has no effect on requests or responses
    pub struct Span { pub id: Ghost<int> }
    pub struct Entered { pub x: u8 }
    impl Span {
        #[verifier::external_body] pub fn none() -> (r: Span) { unimplemented!() }
        #[verifier::external_body] pub fn enter(&self) -> (r: Entered) { unimplemented!() }
    }
}
// the server's trace interceptor: Arc<dyn Fn(&http::Request<()>) -> tracing::Span>; it is handed a shared reference to the
// bodyless request, so it cannot change it (A-tonic-trace-01)
pub struct TraceInterceptor { pub id: Ghost<int> }
impl TraceInterceptor { #[verifier::external_body] pub fn verif_call(&self, req: &Request<()>) -> (r: verif_tracing::Span) { unimplemented!() } }
impl Clone for TraceInterceptor { #[verifier::external_body] fn clone(&self) -> (r: Self) ensures r == *self { unimplemented!() } }
// tonic::body::Body::new(body.map_err(Into::into)): the type-erased body (Body::new is under contract in unit tbody, B5/B6): an
// opaque function of the body it wraps (A-tonic-link-41)
pub struct Body { pub id: Ghost<int> }
pub uninterp spec fn boxed_body<B>(b: B) -> Body;
#[verifier::external_body]
pub fn verif_boxed_body<B>(b: B) -> (r: Body) ensures r == boxed_body(b) { unimplemented!() }
impl<T> http::Response<T> {
    // A-http-37: Response::map replaces the body, keeps the head
    #[verifier::external_body]
    pub fn map<U, G: FnOnce(T) -> U>(self, f: G) -> (r: http::Response<U>)
        requires f.requires((self.body,))
        ensures f.ensures((self.body,), r.body), r.status == self.status, r.version == self.version, r.headers == self.headers, r.extensions == self.extensions
    { unimplemented!() }
}
// the wrapped future: its one-poll behaviour is a ghost outcome (A-future-02)
pub trait InnerFut<Res, E> {
    spec fn now(&self) -> Option<Result<Res, E>>;
    fn poll(&mut self, cx: &mut Context) -> (r: Poll<Result<Res, E>>)
        ensures r matches Poll::Ready(x) ==> old(self).now() == Some(x), r is Pending ==> old(self).now() is None;
}
pub struct PinMutF<'a, F> { pub p: &'a mut F }
impl<'a, F> PinMutF<'a, F> {
    pub fn poll<Res, E>(self, cx: &mut Context) -> (r: Poll<Result<Res, E>>) where F: InnerFut<Res, E>
        ensures r matches Poll::Ready(x) ==> old(self.p).now() == Some(x), r is Pending ==> old(self.p).now() is None
    { self.p.poll(cx) }
}
// A-pinproject-12: the pin-project projection of SvcFuture
pub struct SvcFutureProj<'a, F> { pub inner: PinMutF<'a, F>, pub span: &'a mut verif_tracing::Span }
impl<F> SvcFuture<F> {
    #[verifier::external_body]
    pub fn project(&mut self) -> (r: SvcFutureProj<'_, F>) ensures *r.inner.p == old(self).inner, *final(r.inner.p) == final(self).inner { unimplemented!() }
}
"""


def server_calls(u):
    span = [lambda t: t.sub_code('R12', r'\btracing::Span\b', 'verif_tracing::Span')]
    u.item(SV, 'struct', 'Svc')
    u.item(SV, 'struct', 'SvcFuture', edits=span)
    u.raw(SERVER_SHIMS)
    into = [lambda t: t.sub_code('R3', r'\.map_err\(Into::into\)', '.map_err(|e| IntoBoxError::into(e))')]
    hdr = 'impl<S> Svc<S> {'
    gen = [lambda t: t.edit('R12', len(t.t.rstrip()), len(t.t.rstrip()), ' where S: Service<Request<Body>>, S::Error: IntoBoxError')]
    ready = """(match old(self).inner.ready_now() { Poll::Pending => r is Pending, Poll::Ready(Ok(_)) => r matches Poll::Ready(Ok(_)), Poll::Ready(Err(e)) => r == Poll::<Result<(), BoxError>>::Ready(Err(e.as_box())) })"""
    W = 'impl<S, ResBody> Service<Request<Body>> for Svc<S>'
    u.fn(SV, 'poll_ready', within=W, header=hdr, close=True, display='Svc::poll_ready', props=['C02'],
         sig_edits=[lambda t: t.sub_code('R9', r'Self::Error', 'BoxError')] + gen, body_edits=into,
         closures={0: dict(params='e: S::Error', ret='(x: BoxError)', ensures=['x == e.as_box()'])},
         ensures=[Clause('V0_ready_exactly_when_the_wrapped_service_is_and_no_request_is_made_up', ready + ' && final(self).inner.log() == old(self).inner.log()', ['C02'])])
    u.fn(SV, 'call', within=W, header=hdr, close=True, display='Svc::call', props=['C02', 'C08', 'C12'],
         sig_edits=[lambda t: t.sub_code('R9', r'Self::Future', 'SvcFuture<S::Future>')] + gen,
         body_edits=span + [lambda t: t.sub_code('R17', r'\btrace_interceptor\((&\w+)\)', r'trace_interceptor.verif_call(\1)')],
         ensures=[Clause('V1_the_wrapped_service_is_called_once_with_exactly_the_request_that_came_in_traced_or_not',
                         'final(self).inner.log() == old(self).inner.log().push(req)', ['C02', 'C08', 'C12']),
                  Clause('V2_and_its_future_is_the_one_driven', 'r.inner == old(self).inner.fut_of(req)', ['C02'])])
    u.fn(SV, 'poll', within='impl<F, E, ResBody> Future for SvcFuture<F>', header='impl<F> SvcFuture<F> {', close=True, display='SvcFuture::poll', props=['C02', 'C08'],
         sig_edits=[lambda t: t.sub_code('R9', r'Self::Output', 'Result<Response<Body>, BoxError>'),
                    lambda t: t.sub_code('R12', r'fn poll\(', 'fn poll<ResBody, E: IntoBoxError>('),
                    lambda t: t.edit('R12', len(t.t.rstrip()), len(t.t.rstrip()), ' where F: InnerFut<Response<ResBody>, E>')],
         body_edits=[lambda t: t.sub_code('R20', r'let (\w+)(: [^=]+)? = vtry_r!\((.*\.map_err\(Into::into\))\);', r'let verif_polled = \3; let \1\2 = vtry_r!(verif_polled);')] + into + [lambda t: t.sub_code('R17', r'Body::new\(body\.map_err\(\|e\| IntoBoxError::into\(e\)\)\)', 'verif_boxed_body(body)')],
         closures={0: dict(params='e: E', ret='(x: BoxError)', ensures=['x == e.as_box()']),
                   1: dict(params='body: ResBody', ret='(x: Body)', ensures=['x == boxed_body(body)'])},
         ensures=[Clause('W1_a_response_keeps_its_head_around_the_boxed_body',
                         'old(self).inner.now() matches Some(Ok(x)) ==> (r matches Poll::Ready(Ok(y)) && y.status == x.status && y.version == x.version && y.headers == x.headers && y.extensions == x.extensions && y.body == boxed_body(x.body))', ['C02', 'C08']),
                  Clause('W2_an_error_is_passed_on_boxed', 'old(self).inner.now() matches Some(Err(e)) ==> r == Poll::<Result<Response<Body>, BoxError>>::Ready(Err(e.as_box()))', ['C02']),
                  Clause('W3_pending_while_the_wrapped_future_is', 'old(self).inner.now() is None ==> r is Pending', ['C02'])])


TOWER = r"""
// ---- tower's builder and layers (A-tower-30: ServiceBuilder wraps the service in its layers, the first one added outermost;
// option_layer is the layer or the identity; layer_fn applies the function; the limit layers store their parameters) ----
pub mod tower {
    use crate::*;
    pub trait Layer<S> {
        type Service;
        spec fn can_layer(&self, inner: S) -> bool;
        spec fn layered(&self, inner: S, out: Self::Service) -> bool;
        fn layer(&self, inner: S) -> (r: Self::Service) requires self.can_layer(inner) ensures self.layered(inner, r);
    }
    pub struct Identity { pub x: u8 }
    impl<S> Layer<S> for Identity {
        type Service = S;
        open spec fn can_layer(&self, inner: S) -> bool { true }
        open spec fn layered(&self, inner: S, out: S) -> bool { out == inner }
        fn layer(&self, inner: S) -> (r: S) { inner }
    }
    pub struct Stack<Inner, Outer> { pub inner: Inner, pub outer: Outer }
    impl<S, Inner: Layer<S>, Outer: Layer<Inner::Service>> Layer<S> for Stack<Inner, Outer> {
        type Service = Outer::Service;
        open spec fn can_layer(&self, s: S) -> bool { self.inner.can_layer(s) && forall|mid: Inner::Service| #[trigger] self.inner.layered(s, mid) ==> self.outer.can_layer(mid) }
        open spec fn layered(&self, s: S, out: Outer::Service) -> bool { exists|mid: Inner::Service| #[trigger] self.inner.layered(s, mid) && self.outer.layered(mid, out) }
        fn layer(&self, service: S) -> (r: Outer::Service) { let inner = self.inner.layer(service); self.outer.layer(inner) }
    }
    pub enum Either<A, B> { Left(A), Right(B) }
    impl<S, A: Layer<S>, B: Layer<S>> Layer<S> for Either<A, B> {
        type Service = Either<A::Service, B::Service>;
        open spec fn can_layer(&self, s: S) -> bool { match *self { Either::Left(a) => a.can_layer(s), Either::Right(b) => b.can_layer(s) } }
        open spec fn layered(&self, s: S, out: Either<A::Service, B::Service>) -> bool {
            match *self { Either::Left(a) => out matches Either::Left(x) && a.layered(s, x), Either::Right(b) => out matches Either::Right(x) && b.layered(s, x) }
        }
        fn layer(&self, inner: S) -> (r: Either<A::Service, B::Service>) { match self { Either::Left(a) => Either::Left(a.layer(inner)), Either::Right(b) => Either::Right(b.layer(inner)) } }
    }
    #[verifier::reject_recursive_types(S)]
    #[verifier::reject_recursive_types(Out)]
    pub struct LayerFn<F, S, Out> { pub f: F, pub p: core::marker::PhantomData<(S, Out)> }
    impl<F, S, Out> Layer<S> for LayerFn<F, S, Out> where F: Fn(S) -> Out {
        type Service = Out;
        open spec fn can_layer(&self, inner: S) -> bool { self.f.requires((inner,)) }
        open spec fn layered(&self, inner: S, out: Out) -> bool { self.f.ensures((inner,), out) }
        fn layer(&self, inner: S) -> (r: Out) { (self.f)(inner) }
    }
    pub struct ServiceBuilder<L> { pub layer: L }
    impl ServiceBuilder<Identity> { pub fn new() -> (r: Self) { ServiceBuilder { layer: Identity { x: 0 } } } }
    impl<L> ServiceBuilder<L> {
        pub fn layer<T>(self, layer: T) -> (r: ServiceBuilder<Stack<T, L>>) ensures r.layer.inner == layer, r.layer.outer == self.layer { ServiceBuilder { layer: Stack { inner: layer, outer: self.layer } } }
        pub fn option_layer<T>(self, layer: Option<T>) -> (r: ServiceBuilder<Stack<Either<T, Identity>, L>>)
            ensures r.layer.outer == self.layer, (match layer { Some(t) => r.layer.inner == Either::<T, Identity>::Left(t), None => r.layer.inner is Right })
        { ServiceBuilder { layer: Stack { inner: match layer { Some(t) => Either::Left(t), None => Either::Right(Identity { x: 0 }) }, outer: self.layer } } }
        pub fn layer_fn<F, S, Out>(self, f: F) -> (r: ServiceBuilder<Stack<LayerFn<F, S, Out>, L>>) where F: Fn(S) -> Out ensures r.layer.inner.f == f, r.layer.outer == self.layer { ServiceBuilder { layer: Stack { inner: LayerFn { f, p: core::marker::PhantomData }, outer: self.layer } } }
        pub fn into_inner(self) -> (r: L) ensures r == self.layer { self.layer }
        pub fn service<S>(&self, service: S) -> (r: L::Service) where L: Layer<S> requires self.layer.can_layer(service) ensures self.layer.layered(service, r) { self.layer.layer(service) }
    }
    pub struct ConcurrencyLimitLayer { pub max: usize }
    pub struct ConcurrencyLimit<S> { pub inner: S, pub max: usize }
    impl ConcurrencyLimitLayer { pub fn new(max: usize) -> (r: Self) ensures r.max == max { ConcurrencyLimitLayer { max } } }
    impl<S> Layer<S> for ConcurrencyLimitLayer {
        type Service = ConcurrencyLimit<S>;
        open spec fn can_layer(&self, inner: S) -> bool { true }
        open spec fn layered(&self, inner: S, out: ConcurrencyLimit<S>) -> bool { out.inner == inner && out.max == self.max }
        fn layer(&self, inner: S) -> (r: ConcurrencyLimit<S>) { ConcurrencyLimit { inner, max: self.max } }
    }
    pub struct RateLimitLayer { pub num: u64, pub per: Duration }
    pub struct RateLimit<S> { pub inner: S, pub num: u64, pub per: Duration }
    impl RateLimitLayer { pub fn new(num: u64, per: Duration) -> (r: Self) ensures r.num == num, r.per == per { RateLimitLayer { num, per } } }
    impl<S> Layer<S> for RateLimitLayer {
        type Service = RateLimit<S>;
        open spec fn can_layer(&self, inner: S) -> bool { true }
        open spec fn layered(&self, inner: S, out: RateLimit<S>) -> bool { out.inner == inner && out.num == self.num && out.per == self.per }
        fn layer(&self, inner: S) -> (r: RateLimit<S>) { RateLimit { inner, num: self.num, per: self.per } }
    }
    // BoxCloneService / BoxService: the type-erased service; it is the service it boxes (A-tower-31)
    pub struct BoxCloneService<S> { pub svc: S }
    pub struct BoxCloneLayer { pub x: u8 }
    impl BoxCloneService<()> { pub fn layer() -> (r: BoxCloneLayer) { BoxCloneLayer { x: 0 } } }
    impl<S> Layer<S> for BoxCloneLayer {
        type Service = BoxCloneService<S>;
        open spec fn can_layer(&self, inner: S) -> bool { true }
        open spec fn layered(&self, inner: S, out: BoxCloneService<S>) -> bool { out.svc == inner }
        fn layer(&self, inner: S) -> (r: BoxCloneService<S>) { BoxCloneService { svc: inner } }
    }
}
pub use tower::{Layer, ServiceBuilder, Either, ConcurrencyLimitLayer, ConcurrencyLimit, RateLimitLayer, RateLimit, BoxCloneService};
pub mod future {
    use crate::*;
    // A-std-future-01: std::future::ready(v) is a future of v
    pub struct Ready<T> { pub v: T }
    pub fn ready<T>(v: T) -> (r: Ready<T>) ensures r.v == v { Ready { v } }
}
#[derive(Clone, Copy)]
pub struct Duration { pub secs: u64, pub nanos: u32 }
pub use core::marker::PhantomData;
// ---- the accepted connection (server/service/io.rs; under contract in unit tls: O3, O4) ----
pub trait Connected { type ConnectInfo; }
pub struct ServerIo<IO> { pub io: IO }
#[verifier::reject_recursive_types(IO)]
pub struct ServerIoConnectInfo<IO> { pub id: Ghost<int>, pub p: PhantomData<IO> }
impl<IO> Clone for ServerIoConnectInfo<IO> { #[verifier::external_body] fn clone(&self) -> (r: Self) ensures r == *self { unimplemented!() } }
impl<IO: Connected> ServerIo<IO> {
    pub uninterp spec fn info(&self) -> ServerIoConnectInfo<IO>;
    // A-tonic-link-42: ServerIo::connect_info reports the connect info of this connection (its TLS connect info, certificates
    // included, on a TLS connection): under contract in unit tls (O3)
    #[verifier::external_body]
    pub fn connect_info(&self) -> (r: ServerIoConnectInfo<IO>) ensures r == self.info() { unimplemented!() }
}
pub type ServerStack<S, IO> = BoxCloneService<ConnectInfo<Svc<RecoverError<Either<ConcurrencyLimit<GrpcTimeout<S>>, GrpcTimeout<S>>>>, ServerIoConnectInfo<IO>>>;
// the GrpcTimeout at the bottom of the limit layer, whichever way the option went
pub open spec fn under_limit<S>(e: Either<ConcurrencyLimit<GrpcTimeout<S>>, GrpcTimeout<S>>) -> GrpcTimeout<S> {
    match e { Either::Left(l) => l.inner, Either::Right(t) => t }
}
"""


def server_stack(u):
    RE = 'tonic/src/service/recover_error.rs'
    GT = 'tonic/src/transport/service/grpc_timeout.rs'
    IO = 'tonic/src/transport/server/service/io.rs'
    u.raw(TOWER)
    u.item(GT, 'struct', 'GrpcTimeout')
    u.item(RE, 'struct', 'RecoverErrorLayer')
    u.item(RE, 'struct', 'RecoverError')
    u.item(IO, 'struct', 'ConnectInfoLayer')
    u.item(IO, 'struct', 'ConnectInfo')
    u.item(SV, 'struct', 'MakeSvc', edits=[lambda t: t.sub_code('R12', r'PhantomData<fn\(\) -> IO>', 'PhantomData<IO>')], attrs=('#[verifier::reject_recursive_types(IO)]',))
    u.fn(GT, 'new', within='impl<S> GrpcTimeout<S>', header='impl<S> GrpcTimeout<S> {', close=True, display='GrpcTimeout::new', props=['C09'],
         ensures=[Clause('G0_the_layer_keeps_the_configured_timeout', 'r.inner == inner && r.server_timeout == server_timeout', ['C09'])])
    u.fn(RE, 'new', within='impl<S> RecoverError<S>', header='impl<S> RecoverError<S> {', close=True, display='RecoverError::new', props=['C09'],
         ensures=[Clause('R0_wraps_the_service', 'r.inner == inner', ['C09'])])
    u.fn(RE, 'new', within='impl RecoverErrorLayer', header='impl RecoverErrorLayer {', close=True, display='RecoverErrorLayer::new', props=['C09'])
    hdr = """impl<S> Layer<S> for RecoverErrorLayer {
    type Service = RecoverError<S>;
    open spec fn can_layer(&self, inner: S) -> bool { true }
    open spec fn layered(&self, inner: S, out: RecoverError<S>) -> bool { out.inner == inner }"""
    u.fn(RE, 'layer', within='impl<S> Layer<S> for RecoverErrorLayer', header=hdr, close=True, display='RecoverErrorLayer::layer', props=['C09'],
         ensures=[Clause('R9_the_layer_wraps_the_service_it_is_given', 'r.inner == inner', ['C09'])])
    u.fn(IO, 'new', within='impl<T> ConnectInfoLayer<T>', header='impl<T> ConnectInfoLayer<T> {', close=True, display='ConnectInfoLayer::new', props=['C15'],
         ensures=[Clause('O5_the_layer_holds_the_connect_info', 'r.connect_info == connect_info', ['C15'])])
    u.fn(IO, 'new', within='impl<S, T> ConnectInfo<S, T>', header='impl<S, T> ConnectInfo<S, T> {', close=True, display='ConnectInfo::new', props=['C15'],
         ensures=[Clause('O6_service_and_connect_info_as_given', 'r.inner == inner && r.connect_info == connect_info', ['C15'])])
    hdr = """impl<S, T: Clone> Layer<S> for ConnectInfoLayer<T> {
    type Service = ConnectInfo<S, T>;
    open spec fn can_layer(&self, inner: S) -> bool { true }
    open spec fn layered(&self, inner: S, out: ConnectInfo<S, T>) -> bool { out.inner == inner && cloned(self.connect_info, out.connect_info) }"""
    u.fn(IO, 'layer', within='impl<S, T> Layer<S> for ConnectInfoLayer<T>', header=hdr, close=True, display='ConnectInfoLayer::layer', props=['C15'],
         ensures=[Clause('O7_the_wrapped_service_carries_a_clone_of_the_connect_info', 'r.inner == inner && cloned(self.connect_info, r.connect_info)', ['C15'])])
    W = 'impl<S, ResBody, IO> Service<&ServerIo<IO>> for MakeSvc<S, IO>'
    u.fn(SV, 'call', within=W, header='impl<S: Clone, IO: Connected> MakeSvc<S, IO> {', close=True, display='MakeSvc::call', props=['C09', 'C15'],
         sig_edits=[lambda t: t.sub_code('R9', r'Self::Future', 'future::Ready<Result<ServerStack<S, IO>, BoxError>>')],
         body_edits=[lambda t: t.sub_code('R3', r'\.map\(ConcurrencyLimitLayer::new\)', '.map(|n| ConcurrencyLimitLayer::new(n))')],
         closures={0: dict(params='n: usize', ret='(x: ConcurrencyLimitLayer)', ensures=['x.max == n']),
                   1: dict(params='s: S', ret='(x: GrpcTimeout<S>)', ensures=['x.inner == s', Clause('M0_the_timeout_layer_is_made_with_the_configured_timeout', 'x.server_timeout == self.timeout', ['C09'])])},
         ensures=[Clause('M1_every_connection_gets_the_configured_timeout_around_a_clone_of_the_service',
                         'r.v matches Ok(b) && under_limit(b.svc.inner.inner.inner).server_timeout == old(self).timeout && cloned(old(self).inner, under_limit(b.svc.inner.inner.inner).inner)', ['C09']),
                  Clause('M2_every_connection_serves_with_its_own_connect_info', 'r.v matches Ok(b) && b.svc.connect_info == io.info()', ['C15']),
                  Clause('M3_the_configuration_stays', 'final(self).timeout == old(self).timeout && final(self).concurrency_limit == old(self).concurrency_limit && final(self).inner == old(self).inner', ['C09'])])


CLIENT_STACK = r"""
// ---- client side: the endpoint's opaque payloads, hyper's connection builder, Reconnect ----
// A-http-11b: `impl Clone for HeaderValue` (the prelude states the inherent spelling)
impl Clone for HeaderValue { #[verifier::external_body] fn clone(&self) -> (r: Self) ensures r@ == self@ { unimplemented!() } }
pub struct TlsConnector { pub id: Ghost<int> }
pub struct SharedExec { pub id: Ghost<int> }
pub struct IpAddr { pub id: Ghost<int> }
impl Clone for SharedExec { #[verifier::external_body] fn clone(&self) -> (r: Self) ensures r == *self { unimplemented!() } }
// A-hyper-01: hyper::client::conn::http2::Builder: the HTTP/2 settings of a connection, as a ghost record of what the setters were
// given (what hyper does with them - e.g. noticing a dead peer through keep-alive pings - is hyper's business)
pub struct H2Cfg { pub stream_window: Option<u32>, pub conn_window: Option<u32>, pub ka_interval: Option<Duration>, pub ka_timeout: Option<Duration>,
                   pub ka_while_idle: Option<bool>, pub adaptive: Option<bool>, pub max_header_list: Option<u32> }
pub struct Builder<E> { pub ex: E, pub cfg: Ghost<H2Cfg> }
pub struct TokioTimer { pub x: u8 }
impl TokioTimer { pub fn new() -> (r: Self) { TokioTimer { x: 0 } } }
impl<E> Builder<E> {
    #[verifier::external_body] pub fn new(exec: E) -> (r: Self)
        ensures r.ex == exec, r.cfg@ == (H2Cfg { stream_window: None, conn_window: None, ka_interval: None, ka_timeout: None, ka_while_idle: None, adaptive: None, max_header_list: None }) { unimplemented!() }
    #[verifier::external_body] pub fn initial_stream_window_size(&mut self, sz: Option<u32>) -> (r: &mut Self)
        ensures (*r).ex == old(self).ex, (*r).cfg@ == (H2Cfg { stream_window: sz, ..old(self).cfg@ }), *final(r) == *final(self) { unimplemented!() }
    #[verifier::external_body] pub fn initial_connection_window_size(&mut self, sz: Option<u32>) -> (r: &mut Self)
        ensures (*r).ex == old(self).ex, (*r).cfg@ == (H2Cfg { conn_window: sz, ..old(self).cfg@ }), *final(r) == *final(self) { unimplemented!() }
    #[verifier::external_body] pub fn keep_alive_interval(&mut self, d: Option<Duration>) -> (r: &mut Self)
        ensures (*r).ex == old(self).ex, (*r).cfg@ == (H2Cfg { ka_interval: d, ..old(self).cfg@ }), *final(r) == *final(self) { unimplemented!() }
    #[verifier::external_body] pub fn timer(&mut self, t: TokioTimer) -> (r: &mut Self)
        ensures *r == *old(self), *final(r) == *final(self) { unimplemented!() }
    #[verifier::external_body] pub fn keep_alive_timeout(&mut self, d: Duration) -> (r: &mut Self)
        ensures (*r).ex == old(self).ex, (*r).cfg@ == (H2Cfg { ka_timeout: Some(d), ..old(self).cfg@ }), *final(r) == *final(self) { unimplemented!() }
    #[verifier::external_body] pub fn keep_alive_while_idle(&mut self, b: bool) -> (r: &mut Self)
        ensures (*r).ex == old(self).ex, (*r).cfg@ == (H2Cfg { ka_while_idle: Some(b), ..old(self).cfg@ }), *final(r) == *final(self) { unimplemented!() }
    #[verifier::external_body] pub fn adaptive_window(&mut self, b: bool) -> (r: &mut Self)
        ensures (*r).ex == old(self).ex, (*r).cfg@ == (H2Cfg { adaptive: Some(b), ..old(self).cfg@ }), *final(r) == *final(self) { unimplemented!() }
    #[verifier::external_body] pub fn max_header_list_size(&mut self, n: u32) -> (r: &mut Self)
        ensures (*r).ex == old(self).ex, (*r).cfg@ == (H2Cfg { max_header_list: Some(n), ..old(self).cfg@ }), *final(r) == *final(self) { unimplemented!() }
}
impl<E> Clone for Builder<E> { #[verifier::external_body] fn clone(&self) -> (r: Self) ensures r == *self { unimplemented!() } }
// A-tonic-link-43: Reconnect::new makes an idle, never-connected service around the connection maker and target it is given, lazy
// exactly if asked: under contract in unit reconnect (N1)
pub struct Reconnect<M, Target> { pub mk_service: M, pub target: Target, pub is_lazy: bool }
impl<M, Target> Reconnect<M, Target> {
    #[verifier::external_body]
    pub fn new(mk_service: M, target: Target, is_lazy: bool) -> (r: Self) ensures r.mk_service == mk_service && r.target == target && r.is_lazy == is_lazy { unimplemented!() }
}
// UserAgent::new (the user-agent text; no property speaks of it): not under contract; it wraps the service it is given
impl<T> UserAgent<T> {
    #[verifier::external_body]
    pub fn new(inner: T, user_agent: Option<HeaderValue>) -> (r: Self) ensures r.inner == inner { unimplemented!() }
}
pub struct BoxService<S> { pub svc: S }
impl<S> BoxService<S> { pub fn new(svc: S) -> (r: Self) ensures r.svc == svc { BoxService { svc } } }
// A-tower-31: a boxed service is the service it boxes
impl<R, S: Service<R>> Service<R> for BoxService<S> {
    type Response = S::Response; type Error = S::Error; type Future = S::Future;
    open spec fn log(&self) -> Seq<R> { self.svc.log() }
    open spec fn ready_now(&self) -> Poll<Result<(), S::Error>> { self.svc.ready_now() }
    open spec fn fut_of(&self, req: R) -> S::Future { self.svc.fut_of(req) }
    fn poll_ready(&mut self, cx: &mut Context) -> (r: Poll<Result<(), S::Error>>) { self.svc.poll_ready(cx) }
    fn call(&mut self, req: R) -> (f: S::Future) { self.svc.call(req) }
}
pub type L0<C> = Reconnect<MakeSendRequestService<C>, Uri>;
pub type L1<C> = Either<RateLimit<L0<C>>, L0<C>>;
pub type L2<C> = Either<ConcurrencyLimit<L1<C>>, L1<C>>;
pub type L3<C> = GrpcTimeout<L2<C>>;
pub type L4<C> = UserAgent<L3<C>>;
pub type ClientStack<C> = AddOrigin<L4<C>>;
// the Reconnect at the bottom of the two limit layers, whichever way the options went
pub open spec fn under_limits<C>(e: L2<C>) -> L0<C> {
    let l1 = match e { Either::Left(l) => l.inner, Either::Right(x) => x };
    match l1 { Either::Left(l) => l.inner, Either::Right(x) => x }
}
// the origin calls are sent to: the configured one, else the endpoint's own URI
pub open spec fn origin_of(e: Endpoint) -> Uri {
    match e.origin { Some(o) => o, None => (match e.uri { EndpointType::Uri(u) => u, EndpointType::Uds(_) => e.fallback_uri }) }
}
"""


def client_stack(u):
    EP = 'tonic/src/transport/channel/endpoint.rs'
    u.raw(CLIENT_STACK.split('// UserAgent::new')[0])
    u.item(EP, 'enum', 'EndpointType')
    u.item(EP, 'struct', 'Endpoint')
    u.item(CN, 'struct', 'MakeSendRequestService')
    u.item(CN, 'struct', 'Connection', edits=[lambda t: t.sub_code('R12', r'struct Connection\b', 'struct Connection<S>'),
                                              lambda t: t.sub_code('R12', r'BoxService<Request<Body>, Response<Body>, crate::BoxError>', 'BoxService<S>')])
    u.raw('// UserAgent::new' + CLIENT_STACK.split('// UserAgent::new')[1])
    u.fn(EP, 'uri', within='impl Endpoint', header='impl Endpoint {', close=True, display='Endpoint::uri', props=['C14', 'C03'],
         ensures=[Clause('E1_the_uri_of_the_endpoint_or_the_fallback_for_a_socket_path', '*r == (match self.uri { EndpointType::Uri(u) => u, EndpointType::Uds(_) => self.fallback_uri })', ['C14', 'C03'])])
    u.fn(CN, 'new', within='impl<C> MakeSendRequestService<C>', header='impl<C> MakeSendRequestService<C> {', close=True, display='MakeSendRequestService::new', props=['C14'],
         ensures=[Clause('S1_holds_the_connector_and_the_connection_settings_it_is_given', 'r.connector == connector && r.executor == executor && r.settings == settings', ['C14'])])
    gen = [lambda t: t.sub_code('R12', r'\bfn new<C>\(', 'fn new('), lambda t: t.sub_code('R12', r'\bwhere\b[^{]*', '')]
    core = 'under_limits(r.inner.svc.inner.inner.inner)'
    u.fn(CN, 'new', within='impl Connection', header='impl<C> Connection<ClientStack<C>> {', close=True, display='Connection::new', props=['C09', 'C14', 'C03'],
         sig_edits=gen,
         body_edits=[lambda t: t.sub_code('R3', r'\.map\(ConcurrencyLimitLayer::new\)', '.map(|n| ConcurrencyLimitLayer::new(n))'),
                     lambda t: t.sub_code('R22', r'\|\(l, d\)\| RateLimitLayer::new\(l, d\)', '|kv| { let (l, d) = kv; RateLimitLayer::new(l, d) }')],
         closures={0: dict(params='s: L4<C>', ret='(x: AddOrigin<L4<C>>)', ensures=['x.inner == s', Clause('K3a_the_origin_layer_is_made_with_the_configured_origin_else_the_endpoint_uri', 'x.scheme == origin_of(endpoint).scheme && x.authority == origin_of(endpoint).authority', ['C03'])]),
                   1: dict(params='s: L3<C>', ret='(x: UserAgent<L3<C>>)', ensures=['x.inner == s']),
                   2: dict(params='s: L2<C>', ret='(x: GrpcTimeout<L2<C>>)', ensures=['x.inner == s', Clause('K1a_the_timeout_layer_is_made_with_the_endpoint_timeout', 'x.server_timeout == endpoint.timeout', ['C09'])]),
                   3: dict(params='n: usize', ret='(x: ConcurrencyLimitLayer)', ensures=['x.max == n']),
                   4: dict(params='kv: (u64, Duration)', ret='(x: RateLimitLayer)', ensures=['x.num == kv.0 && x.per == kv.1'])},
         ensures=[Clause('K1_the_endpoint_timeout_is_the_configured_timeout_of_every_call', 'r.inner.svc.inner.inner.server_timeout == endpoint.timeout', ['C09']),
                  Clause('K2_the_channel_reconnects_to_the_endpoint_uri_through_the_connector_lazily_exactly_if_asked',
                         '%s.is_lazy == is_lazy && %s.target == (match endpoint.uri { EndpointType::Uri(u) => u, EndpointType::Uds(_) => endpoint.fallback_uri }) && %s.mk_service.connector == connector' % (core, core, core), ['C14']),
                  Clause('K4_connections_are_made_with_the_keep_alive_settings_of_the_endpoint',
                         '''({ let c = %s.mk_service.settings.cfg@; c.ka_interval == endpoint.http2_keep_alive_interval
                             && c.ka_timeout == endpoint.http2_keep_alive_timeout && c.ka_while_idle == endpoint.http2_keep_alive_while_idle })''' % core, ['C14']),
                  Clause('K3_calls_are_sent_to_the_configured_origin_else_to_the_endpoint_uri',
                         'r.inner.svc.scheme == origin_of(endpoint).scheme && r.inner.svc.authority == origin_of(endpoint).authority', ['C03'])])
    hdr = 'impl<S: Service<Request<Body>>> Connection<S> where S::Error: IntoBoxError {'
    into = [lambda t: t.sub_code('R3', r'\.map_err\(Into::into\)', '.map_err(|e| IntoBoxError::into(e))')]
    ready = """(match old(self).inner.svc.ready_now() { Poll::Pending => r is Pending, Poll::Ready(Ok(_)) => r matches Poll::Ready(Ok(_)), Poll::Ready(Err(e)) => r == Poll::<Result<(), BoxError>>::Ready(Err(e.as_box())) })"""
    W = 'impl Service<Request<Body>> for Connection'
    u.fn(CN, 'poll_ready', within=W, header=hdr, close=True, display='Connection::poll_ready', props=['C14'],
         sig_edits=[lambda t: t.sub_code('R9', r'Self::Error', 'BoxError')], body_edits=into,
         closures={0: dict(params='e: S::Error', ret='(x: BoxError)', ensures=['x == e.as_box()'])},
         ensures=[Clause('C1_ready_exactly_when_the_stack_is_and_no_request_is_made_up', ready + ' && final(self).inner.svc.log() == old(self).inner.svc.log()', ['C14'])])
    u.fn(CN, 'call', within=W, header=hdr, close=True, display='Connection::call', props=['C02', 'C14'],
         sig_edits=[lambda t: t.sub_code('R9', r'Self::Future', 'S::Future')],
         ensures=[Clause('C2_the_request_goes_to_the_stack_as_it_is_and_the_stack_future_comes_back',
                         'final(self).inner.svc.log() == old(self).inner.svc.log().push(req) && r == old(self).inner.svc.fut_of(req)', ['C02', 'C14'])])


CHANNEL = r"""
// ---- the Channel handle: tower::buffer::Buffer in front of the Connection (A-tower-20: a cloneable handle on the service
// driven by the worker task; as a Service it is opaque here: a log of the requests handed to it, a readiness, a future per call) ----
pub struct Buffer { pub id: Ghost<int> }
pub struct BufferResponseFuture { pub id: Ghost<int> }
impl Service<Request<Body>> for Buffer {
    type Response = Response<Body>; type Error = BoxError; type Future = BufferResponseFuture;
    uninterp spec fn log(&self) -> Seq<Request<Body>>;
    uninterp spec fn ready_now(&self) -> Poll<Result<(), BoxError>>;
    uninterp spec fn fut_of(&self, req: Request<Body>) -> BufferResponseFuture;
    #[verifier::external_body] fn poll_ready(&mut self, cx: &mut Context) -> (r: Poll<Result<(), BoxError>>) { unimplemented!() }
    #[verifier::external_body] fn call(&mut self, req: Request<Body>) -> (f: BufferResponseFuture) { unimplemented!() }
}
impl InnerFut<Response<Body>, BoxError> for BufferResponseFuture {
    uninterp spec fn now(&self) -> Option<Result<Response<Body>, BoxError>>;
    #[verifier::external_body] fn poll(&mut self, cx: &mut Context) -> (r: Poll<Result<Response<Body>, BoxError>>) { unimplemented!() }
}
pub mod verif_pin {
    use crate::*;
    pub struct Pin { pub x: u8 }
    // Pin::new(&mut f) of an Unpin future: the pinned reference (A-core-pin-01)
    impl Pin { pub fn new<F>(p: &mut F) -> (r: PinMutF<'_, F>) ensures *r.p == *old(p), *final(r.p) == *final(p) { PinMutF { p } } }
}
pub use verif_pin::Pin;
pub mod upper { pub use crate::transport::Error; }
"""


def channel_handle(u):
    CH = 'tonic/src/transport/channel/mod.rs'
    u.raw(CHANNEL)
    u.item(CH, 'struct', 'Channel', edits=[lambda t: t.sub_code('R12', r"Buffer<Request<Body>, BoxFuture<'static, Result<Response<Body>, crate::BoxError>>>", 'Buffer')])
    u.item(CH, 'struct', 'ResponseFuture', edits=[lambda t: t.sub_code('R12', r"BufferResponseFuture<BoxFuture<'static, Result<Response<Body>, crate::BoxError>>>", 'BufferResponseFuture')])
    err = [lambda t: t.sub_code('R12', r'super::Error', 'transport::Error'), lambda t: t.sub_code('R3', r'\.map_err\(transport::Error::from_source\)', '.map_err(|e| transport::Error::from_source(e))')]
    W = 'impl Service<http::Request<Body>> for Channel'
    wrapped = 'e2.kind is Transport && e2.source@ == Some(e)'
    u.fn(CH, 'poll_ready', within=W, header='impl Channel {', close=True, display='Channel::poll_ready', props=['C14'],
         sig_edits=[lambda t: t.sub_code('R9', r'Self::Error', 'transport::Error')], body_edits=err,
         closures={0: dict(params='e: BoxError', ret='(x: transport::Error)', ensures=['x.kind is Transport && x.source@ == Some(e)'])},
         ensures=[Clause('H5_ready_exactly_when_the_buffered_connection_is_its_error_wrapped_as_a_transport_error',
                         '(match old(self).svc.ready_now() { Poll::Pending => r is Pending, Poll::Ready(Ok(_)) => r matches Poll::Ready(Ok(_)), Poll::Ready(Err(e)) => r matches Poll::Ready(Err(e2)) && %s }) && final(self).svc.log() == old(self).svc.log()' % wrapped, ['C14'])])
    u.fn(CH, 'call', within=W, header='impl Channel {', close=True, display='Channel::call', props=['C02', 'C14'],
         sig_edits=[lambda t: t.sub_code('R9', r'Self::Future', 'ResponseFuture')],
         ensures=[Clause('H6_the_request_is_handed_to_the_buffered_connection_as_it_is_and_its_future_is_the_one_returned',
                         'final(self).svc.log() == old(self).svc.log().push(request) && r.inner == old(self).svc.fut_of(request)', ['C02', 'C14'])])
    u.fn(CH, 'poll', within='impl Future for ResponseFuture', header='impl ResponseFuture {', close=True, display='channel::ResponseFuture::poll', props=['C02', 'C14'],
         sig_edits=[lambda t: t.sub_code('R9', r'Self::Output', 'Result<Response<Body>, transport::Error>')], body_edits=err,
         closures={0: dict(params='e: BoxError', ret='(x: transport::Error)', ensures=['x.kind is Transport && x.source@ == Some(e)'])},
         ensures=[Clause('H7_the_response_of_the_connection_untouched', 'old(self).inner.now() matches Some(Ok(x)) ==> r == Poll::<Result<Response<Body>, transport::Error>>::Ready(Ok(x))', ['C02']),
                  Clause('H8_a_failure_of_the_connection_as_a_transport_error_with_that_cause', 'old(self).inner.now() matches Some(Err(e)) ==> (r matches Poll::Ready(Err(e2)) && %s)' % wrapped, ['C14']),
                  Clause('H9_pending_while_the_connection_is', 'old(self).inner.now() is None ==> r is Pending', ['C14'])])


SEND = r"""
// ---- hyper's HTTP/2 request sender (A-hyper-02: opaque: a log of the requests sent, a readiness, a future per request) ----
pub struct HyperError { pub id: Ghost<int> }
impl IntoBoxError for HyperError { uninterp spec fn as_box(self) -> BoxError; #[verifier::external_body] fn into(self) -> (r: BoxError) { unimplemented!() } }
pub struct Incoming { pub id: Ghost<int> }
pub trait HyperSend {
    type Fut: Future<Output = Result<Response<Incoming>, HyperError>>;
    spec fn log(&self) -> Seq<Request<Body>>;
    spec fn ready_now(&self) -> Poll<Result<(), HyperError>>;
    spec fn fut_of(&self, req: Request<Body>) -> Self::Fut;
    fn poll_ready(&mut self, cx: &mut Context) -> (r: Poll<Result<(), HyperError>>) ensures r == old(self).ready_now(), final(self).log() == old(self).log();
    fn send_request(&mut self, req: Request<Body>) -> (f: Self::Fut) ensures final(self).log() == old(self).log().push(req), f == old(self).fut_of(req);
}
impl Body {
    // A-tonic-link-41: Body::new (under contract in unit tbody, B5/B6): the type-erased body around the given one
    #[verifier::external_body] pub fn new<B>(b: B) -> (r: Body) ensures r == boxed_body(b) { unimplemented!() }
}
// what the caller of the transport gets for what hyper answered: the same head around the boxed body, or the boxed error
pub open spec fn client_result(x: Result<Response<Incoming>, HyperError>, r: Result<Response<Body>, BoxError>) -> bool {
    match x {
        Ok(a) => r matches Ok(b) && b.status == a.status && b.version == a.version && b.headers == a.headers && b.extensions == a.extensions && b.body == boxed_body(a.body),
        Err(e) => r == Err::<Response<Body>, BoxError>(e.as_box()),
    }
}
"""


def send_request(u):
    u.raw(SEND)
    src = read_src(CN)
    i = src.index('impl tower::Service<Request<Body>> for SendRequest')
    call_txt, bodies = lift_async(src[i:], r'fn call\(&mut self, req: Request<Body>\) -> Self::Future \{', [(r'\{ fut\.await\.map_err\(Into::into\)\.map\(\|res\| .*\) \}', 'verif_answer', 'fut')])
    VS = virt(u, CN, 'R28',
              'impl SendRequest {\n    ' + call_txt + '\n}\n'
              'async fn verif_answer<F: Future<Output = Result<Response<Incoming>, HyperError>>>(fut: F) -> Result<Response<Body>, BoxError> ' + bodies['verif_answer'] + '\n')
    u.rewrites.append(dict(item='SendRequest::call', rule='R28', old='Box::pin(async move { fut.await.map_err(Into::into).map(|res| res.map(Body::new)) })',
                           new='Box::pin(verif_answer(fut))  + async fn verif_answer(fut) { fut.await.map_err(Into::into).map(|res| res.map(Body::new)) }'))
    u.item(CN, 'struct', 'SendRequest', edits=[lambda t: t.sub_code('R12', r'struct SendRequest\b', 'struct SendRequest<H>'),
                                               lambda t: t.sub_code('R12', r'hyper::client::conn::http2::SendRequest<Body>', 'H')])
    into = [lambda t: t.sub_code('R3', r'\.map_err\(Into::into\)', '.map_err(|e| IntoBoxError::into(e))')]
    u.fn(VS, 'verif_answer', display='SendRequest::call::answer', props=['C02', 'C08'],
         body_edits=into + [lambda t: t.sub_code('R3', r'res\.map\(Body::new\)', 'res.map(|b| Body::new(b))')],
         closures={0: dict(params='e: HyperError', ret='(x: BoxError)', ensures=['x == e.as_box()']),
                   1: dict(params='res: Response<Incoming>', ret='(x: Response<Body>)', ensures=['x.status == res.status && x.version == res.version && x.headers == res.headers && x.extensions == res.extensions && x.body == boxed_body(res.body)']),
                   2: dict(params='b: Incoming', ret='(x: Body)', ensures=['x == boxed_body(b)'])},
         ensures=[Clause('Q1_the_response_keeps_its_head_around_the_boxed_body_an_error_is_boxed', 'client_result(fut@, r)', ['C02', 'C08'])])
    hdr = 'impl<H: HyperSend> SendRequest<H> {'
    W = 'impl tower::Service<Request<Body>> for SendRequest'
    u.fn(CN, 'poll_ready', within=W, header=hdr, close=True, display='SendRequest::poll_ready', props=['C14'],
         sig_edits=[lambda t: t.sub_code('R9', r'Self::Error', 'BoxError')], body_edits=into,
         closures={0: dict(params='e: HyperError', ret='(x: BoxError)', ensures=['x == e.as_box()'])},
         ensures=[Clause('Q0_ready_exactly_when_the_connection_is',
                         '(match old(self).inner.ready_now() { Poll::Pending => r is Pending, Poll::Ready(Ok(_)) => r matches Poll::Ready(Ok(_)), Poll::Ready(Err(e)) => r == Poll::<Result<(), BoxError>>::Ready(Err(e.as_box())) }) && final(self).inner.log() == old(self).inner.log()', ['C14'])])
    u.fn(VS, 'call', within='impl SendRequest', header=hdr, close=True, display='SendRequest::call', props=['C02', 'C08', 'C03'],
         sig_edits=[lambda t: t.sub_code('R9', r'Self::Future', 'BoxFuture<Result<Response<Body>, BoxError>>')],
         ensures=[Clause('Q2_the_request_is_sent_as_it_is', 'final(self).inner.log() == old(self).inner.log().push(req)', ['C02', 'C08', 'C03']),
                  Clause('Q3_the_caller_gets_what_the_connection_answered', 'r.awaited() ==> client_result(old(self).inner.fut_of(req)@, r@)', ['C02', 'C08'])])


def build():
    u = Unit('stacks', ['C02', 'C03', 'C08', 'C09', 'C12', 'C14', 'C15'])
    saved = getattr(vxlib.TLS, 'override', None)
    try:
        u.prelude('base.rs', 'bytes.rs', 'http.rs', 'httpmsg.rs', 'encodings.rs', 'stdshim.rs',
                  subst={'httpmsg.rs': [('pub struct Uri { pub s: Ghost<Seq<char>> }', URI_MODEL)]})
        u.raw(SHIMS)
        client_calls(u)
        server_calls(u)
        server_stack(u)
        client_stack(u)
        channel_handle(u)
        send_request(u)
    finally:
        vxlib.TLS.override = saved
    return u
