"""U17 — tonic-types/src/richer_error: the ten standard error details, their google.rpc.* (prost) counterparts, packing into
google.protobuf.Any, the google.rpc.Status envelope written into Status::details, and the way back.  Carries C20 (partial:
prost's wire format is an assumed inverse pair, A-prost-10; the header transport of Status::details is unit status / C12)."""
import re
from vxlib import Unit, Clause, read_src
from units import common

R = 'tonic-types/src/richer_error/'
MOD = R + 'mod.rs'
VEC = R + 'error_details/vec.rs'
ED = R + 'error_details/mod.rs'
PB = 'tonic-types/src/generated/google_rpc.rs'

# kind -> (file, pb struct, field layout).  layout: list of (field, kind) with kind in str | strs | map | dur | rows:<Sub>:<pbmod::Sub>:<f1,f2,..>
KINDS = [
    ('RetryInfo', 'retry_info.rs', [('retry_delay', 'dur')]),
    ('DebugInfo', 'debug_info.rs', [('stack_entries', 'strs'), ('detail', 'str')]),
    ('QuotaFailure', 'quota_failure.rs', [('violations', 'rows|QuotaViolation|quota_failure::Violation|subject,description')]),
    ('ErrorInfo', 'error_info.rs', [('reason', 'str'), ('domain', 'str'), ('metadata', 'map')]),
    ('PreconditionFailure', 'prec_failure.rs', [('violations', 'rows|PreconditionViolation|precondition_failure::Violation|r#type,subject,description')]),
    ('BadRequest', 'bad_request.rs', [('field_violations', 'rows|FieldViolation|bad_request::FieldViolation|field,description')]),
    ('RequestInfo', 'request_info.rs', [('request_id', 'str'), ('serving_data', 'str')]),
    ('ResourceInfo', 'resource_info.rs', [('resource_type', 'str'), ('resource_name', 'str'), ('owner', 'str'), ('description', 'str')]),
    ('Help', 'help.rs', [('links', 'rows|HelpLink|help::Link|description,url')]),
    ('LocalizedMessage', 'loc_message.rs', [('locale', 'str'), ('message', 'str')]),
]
FIELD_OF = {'RetryInfo': 'retry_info', 'DebugInfo': 'debug_info', 'QuotaFailure': 'quota_failure', 'ErrorInfo': 'error_info',
            'PreconditionFailure': 'precondition_failure', 'BadRequest': 'bad_request', 'RequestInfo': 'request_info',
            'ResourceInfo': 'resource_info', 'Help': 'help', 'LocalizedMessage': 'localized_message'}


def snake(k):
    return re.sub(r'(?<!^)([A-Z])', r'_\1', k).lower()


SHIMS = r'''
// ---- prost, as far as tonic-types uses it ----
// A-prost-10: prost's protobuf encoding of a message and its decoder are an inverse pair: decode(encode(m)) == m.  Nothing
// else about the wire format is assumed (pb_wire / pb_parse are uninterpreted); decode of other bytes is any total function.
pub uninterp spec fn pb_wire<M>(m: M) -> Seq<u8>;
pub uninterp spec fn pb_parse<M>(b: Seq<u8>) -> Option<M>;
pub broadcast axiom fn axiom_pb_roundtrip<M>(m: M) ensures #[trigger] pb_parse::<M>(pb_wire(m)) == Some(m);
pub mod prost {
    pub struct DecodeError { pub x: u8 }
    #[derive(Debug)]
    pub struct EncodeError { pub x: u8 }
}
// A-prost-11: prost::Message::{encode_to_vec, encoded_len, encode, decode} in terms of pb_wire / pb_parse; encode fails only
// for lack of room, and a BytesMut grows on demand (remaining_mut() is usize::MAX - len), so encoding into one succeeds
pub trait Message: Sized {
    fn encode_to_vec(&self) -> (r: Vec<u8>) ensures r@ == pb_wire(*self);
    fn encoded_len(&self) -> (r: usize) ensures r == pb_wire(*self).len();
    fn encode(&self, buf: &mut BytesMut) -> (r: Result<(), prost::EncodeError>)
        ensures r is Ok, final(buf)@ == old(buf)@ + pb_wire(*self);
    fn decode(buf: &[u8]) -> (r: Result<Self, prost::DecodeError>)
        ensures r is Ok <==> pb_parse::<Self>(buf@) is Some, r matches Ok(m) ==> Some(m) == pb_parse::<Self>(buf@);
}
pub mod prost_types {
    // google.protobuf.Any / Duration as prost-types declares them
    pub struct Any { pub type_url: String, pub value: Vec<u8> }
    pub struct Duration { pub seconds: i64, pub nanos: i32 }
    pub struct DurationError { pub x: u8 }
}
pub use prost_types::Any;
// A-std-time-03: std::time::Duration is a value (secs, nanos) with nanos < 10^9; ZERO is (0, 0)
pub mod time {
    use vstd::prelude::*;
    #[derive(Clone, Copy)]
    pub struct Duration { pub secs: u64, pub nanos: u32 }
    impl Duration {
        pub const ZERO: Duration = Duration { secs: 0, nanos: 0 };
        pub const fn new(secs: u64, nanos: u32) -> (r: Duration) requires nanos < 1_000_000_000 ensures r.secs == secs && r.nanos == nanos { Duration { secs, nanos } }
    }
    // ordering: by seconds, then nanos
    pub open spec fn dur_le(a: Duration, b: Duration) -> bool { a.secs < b.secs || (a.secs == b.secs && a.nanos <= b.nanos) }
    impl vstd::std_specs::cmp::PartialEqSpecImpl for Duration {
        open spec fn obeys_eq_spec() -> bool { true }
        open spec fn eq_spec(&self, other: &Duration) -> bool { self.secs == other.secs && self.nanos == other.nanos }
    }
    impl PartialEq for Duration { fn eq(&self, other: &Duration) -> (r: bool) { self.secs == other.secs && self.nanos == other.nanos } }
    impl vstd::std_specs::cmp::PartialOrdSpecImpl for Duration {
        open spec fn obeys_partial_cmp_spec() -> bool { true }
        open spec fn partial_cmp_spec(&self, other: &Duration) -> Option<core::cmp::Ordering> {
            if self.secs == other.secs && self.nanos == other.nanos { Some(core::cmp::Ordering::Equal) } else if dur_le(*self, *other) { Some(core::cmp::Ordering::Less) } else { Some(core::cmp::Ordering::Greater) }
        }
    }
    impl PartialOrd for Duration {
        #[verifier::external_body]
        fn partial_cmp(&self, other: &Duration) -> (r: Option<core::cmp::Ordering>) { unimplemented!() }
    }
}
pub open spec fn dur_ok(d: time::Duration) -> bool { d.nanos < 1_000_000_000 }
// A-prost-12: prost_types::Duration: TryFrom<std::time::Duration> succeeds exactly when the seconds fit i64 and then keeps
// (secs, nanos); std::time::Duration: TryFrom<prost_types::Duration> returns (seconds, nanos) for a normalised non-negative
// duration (other inputs: unspecified result, no panic)
impl vstd::std_specs::convert::TryFromSpecImpl<time::Duration> for prost_types::Duration {
    open spec fn obeys_try_from_spec() -> bool { false }
    open spec fn try_from_spec(v: time::Duration) -> Result<Self, Self::Error> { arbitrary() }
}
impl TryFrom<time::Duration> for prost_types::Duration {
    type Error = prost_types::DurationError;
    #[verifier::external_body]
    fn try_from(d: time::Duration) -> (r: Result<Self, Self::Error>)
        ensures dur_ok(d) ==> (r is Ok <==> d.secs <= i64::MAX),
                dur_ok(d) ==> (r matches Ok(p) ==> p.seconds == d.secs && p.nanos == d.nanos),
    { unimplemented!() }
}
impl vstd::std_specs::convert::TryFromSpecImpl<prost_types::Duration> for time::Duration {
    open spec fn obeys_try_from_spec() -> bool { false }
    open spec fn try_from_spec(v: prost_types::Duration) -> Result<Self, Self::Error> { arbitrary() }
}
impl TryFrom<prost_types::Duration> for time::Duration {
    type Error = prost_types::DurationError;
    #[verifier::external_body]
    fn try_from(p: prost_types::Duration) -> (r: Result<Self, Self::Error>)
        ensures pb_dur_ok(p) ==> (r matches Ok(d) && d.secs == p.seconds && d.nanos == p.nanos),
                r matches Ok(d) ==> dur_ok(d),
    { unimplemented!() }
}
pub open spec fn pb_dur_ok(p: prost_types::Duration) -> bool { 0 <= p.seconds && 0 <= p.nanos < 1_000_000_000 }
// A-std-string-02: str::to_string / to_owned copy the text; comparing two &str compares their text
#[verifier::external_body]
pub fn verif_str_eq(a: &str, b: &str) -> (r: bool) ensures r == (a@ == b@) { a == b }
// A-core-25: Option::filter keeps the value exactly when the predicate answers true for it
pub assume_specification<T, P: FnOnce(&T) -> bool>[ Option::<T>::filter ](o: Option<T>, f: P) -> (r: Option<T>)
    requires o matches Some(x) ==> f.requires((&x,)),
    ensures o is None ==> r is None, r matches Some(y) ==> o == Some(y), o matches Some(x) ==> (r is Some <==> f.ensures((&x,), true));
// A-core-24: Result::unwrap_or: the value, or the given default
pub assume_specification<T, E>[ Result::<T, E>::unwrap_or ](res: Result<T, E>, d: T) -> (r: T)
    ensures res matches Ok(t) ==> r == t, res is Err ==> r == d;
pub mod sealed { pub trait Sealed {} }
// A-std-default-03: what Result::unwrap_or_default falls back to: the derived ErrorDetails::default() (all None), Vec::default() (empty)
pub broadcast axiom fn axiom_default_vec<T>() ensures (#[trigger] default_of::<Vec<T>>())@ == Seq::<T>::empty();
// A-tonic-status-02: tonic::Status::with_details_and_metadata stores its arguments (proved on the real body in unit status
// for code / details / metadata; the message is a String here, `Into<String> for String` being the identity) and
// Status::details() returns the stored bytes
impl Status {
    #[verifier::external_body]
    pub fn with_details_and_metadata(code: Code, message: String, details: Bytes, metadata: MetadataMap) -> (r: Status)
        ensures r.code == code, r.message@ == message@, r.details@ == details@, r.metadata == metadata
    { unimplemented!() }
    #[verifier::external_body]
    pub fn details(&self) -> (r: &[u8]) ensures r@ == self.details@ { unimplemented!() }
}
pub mod tonic { pub use crate::Status; pub use crate::Code; pub use crate::MetadataMap; }
'''


PB_TYPES = ['Status'] + [k for k, _, _ in KINDS]
PB_MESSAGE = '// A-prost-13: #[derive(::prost::Message)] on the generated structs (the derive is dropped with the attributes)\n' + '\n'.join('''impl Message for pb::%s {
    #[verifier::external_body] fn encode_to_vec(&self) -> (r: Vec<u8>) { unimplemented!() }
    #[verifier::external_body] fn encoded_len(&self) -> (r: usize) { unimplemented!() }
    #[verifier::external_body] fn encode(&self, buf: &mut BytesMut) -> (r: Result<(), prost::EncodeError>) { unimplemented!() }
    #[verifier::external_body] fn decode(buf: &[u8]) -> (r: Result<Self, DecodeError>) { unimplemented!() }
}''' % t for t in PB_TYPES)



def dv_enum():
    arms = []
    for k, _, lay in KINDS:
        tys = []
        for f, kind in lay:
            tys.append({'str': 'Seq<char>', 'strs': 'Seq<Seq<char>>', 'map': 'HashMap<String, String>', 'dur': 'Option<(int, int)>'}.get(kind, 'Seq<Seq<Seq<char>>>'))
        arms.append('    %s(%s),' % (k, ', '.join(tys)))
    same = []
    for k, _, lay in KINDS:
        n = len(lay)
        same.append('        (DV::%s(%s), DV::%s(%s)) => %s,' % (k, ', '.join('a%d' % i for i in range(n)), k, ', '.join('b%d' % i for i in range(n)),
                                                        ' && '.join('a%d =~~= b%d' % (i, i) for i in range(n))))
    SAME = ('// equality of two values, spelled so that the solver compares sequences pointwise (=~~= does not look inside an enum)\n'
            'pub open spec fn dv_same(a: DV, b: DV) -> bool {\n    match (a, b) {\n' + '\n'.join(same) + '\n        _ => false,\n    }\n}\n'
            'pub broadcast proof fn lemma_dv_same(a: DV, b: DV) ensures #[trigger] dv_same(a, b) <==> a == b {}\n')
    return ('// ---- what "unchanged" means (from the property: same kinds, order and field values): the value of a detail, with\n'
            '// strings as their text, lists as sequences of rows, a retry delay as (seconds, nanos) ----\n'
            'pub enum DV {\n' + '\n'.join(arms) + '\n}\n' + SAME)


def view_fns(k, lay):
    """xv_k (tonic-types struct) and pbv_k (google.rpc message): the same abstract value, field by field"""
    def comp(var, pbside):
        out = []
        for f, kind in lay:
            if kind == 'str':
                out.append('%s.%s@' % (var, f))
            elif kind == 'strs':
                out.append('%s.%s@.map_values(|s: String| s@)' % (var, f))
            elif kind == 'map':
                out.append('%s.%s' % (var, f))
            elif kind == 'dur':
                a, b = ('seconds', 'nanos') if pbside else ('secs', 'nanos')
                out.append('match %s.%s { None => None, Some(d) => Some((d.%s as int, d.%s as int)) }' % (var, f, a, b))
            else:
                _, sub, pbsub, fs = kind.split('|')
                row = ', '.join('%s.%s@[i].%s@' % (var, f, x) for x in fs.split(','))
                out.append('Seq::new(%s.%s@.len(), |i: int| seq![%s])' % (var, f, row))
        return ', '.join(out)
    sn = snake(k)
    return ('pub open spec fn xv_%s(x: %s) -> DV { DV::%s(%s) }\n' % (sn, k, k, comp('x', False)) +
            'pub open spec fn pbv_%s(p: pb::%s) -> DV { DV::%s(%s) }\n' % (sn, k, k, comp('p', True)))


RANGE = r"""
// the protobuf range of a retry delay (google.protobuf.Duration: at most 315,576,000,000 s) -- the property quantifies over
// "durations within the protobuf range"; every other detail is in range
pub open spec fn max_delay() -> time::Duration { time::Duration { secs: 315_576_000_000, nanos: 999_999_999 } }
pub open spec fn in_range_retry_info(x: RetryInfo) -> bool { x.retry_delay matches Some(d) ==> dur_ok(d) && d.secs <= 315_576_000_000 }
pub open spec fn pb_in_range_retry_info(p: pb::RetryInfo) -> bool { p.retry_delay matches Some(d) ==> pb_dur_ok(d) }
"""


def in_range(k, var, pbside=False):
    if k == 'RetryInfo':
        return '%sin_range_retry_info(%s)' % ('pb_' if pbside else '', var)
    return 'true'



def dec_spec():
    arms_xv = '\n'.join('        ErrorDetail::%s(x) => xv_%s(x),' % (k, snake(k)) for k, _, _ in KINDS)
    kind_chain = ' else '.join('if url == %s::TYPE_URL@ { %d }' % (k, i) for i, (k, _, _) in enumerate(KINDS)) + ' else { -1 }'
    any_chain = ' else '.join(
        'if k == %d { Some(match pb_parse::<pb::%s>(a.value@) { Some(p) => Some(pbv_%s(p)), None => None }) }' % (i, k, snake(k))
        for i, (k, _, _) in enumerate(KINDS)) + ' else { None }'
    holds = '\n'.join(
        '        ErrorDetail::%s(x) => a.type_url@ == %s::TYPE_URL@ && (pb_parse::<pb::%s>(a.value@) matches Some(p) && (%s ==> dv_same(pbv_%s(p), xv_%s(x)))),' % (
            k, k, k, in_range(k, 'x'), snake(k), snake(k)) for k, _, _ in KINDS)
    present = ' || '.join('(k == %d && d.%s is Some)' % (i, FIELD_OF[k]) for i, (k, _, _) in enumerate(KINDS))
    value = ' else '.join('if k == %d { xv_%s(d.%s->Some_0) }' % (i, snake(k), FIELD_OF[k]) for i, (k, _, _) in enumerate(KINDS[:-1])) + \
        ' else { xv_%s(d.%s->Some_0) }' % (snake(KINDS[-1][0]), FIELD_OF[KINDS[-1][0]])
    okchain = ' else '.join('if k == %d { a.type_url@ == %s::TYPE_URL@ && pb_parse::<pb::%s>(a.value@) is Some }' % (i, k, k) for i, (k, _, _) in enumerate(KINDS)) + ' else { false }'
    setv_fields = ', '.join('pub k%d: Option<DV>' % i for i in range(10))
    setv_none = ', '.join('k%d: None' % i for i in range(10))
    setv_put = ' else '.join('if k == %d { SetV { k%d: Some(v), ..m } }' % (i, i) for i in range(10)) + ' else { m }'
    setv_view = ', '.join('k%d: match d.%s { Some(x) => Some(xv_%s(x)), None => None }' % (i, FIELD_OF[k], snake(k)) for i, (k, _, _) in enumerate(KINDS))
    puts = 'Map::<int, DV>::empty()'
    for i, (k, _, _) in enumerate(KINDS):
        puts = 'put_if(%s,\n        d.%s is Some, %d, xv_%s(d.%s->Some_0))' % (puts, FIELD_OF[k], i, snake(k), FIELD_OF[k])
    optchain = ' else '.join('if k == %d { match d.%s { Some(x) => Some(ErrorDetail::%s(x)), None => None } }' % (i, FIELD_OF[k], k) for i, (k, _, _) in enumerate(KINDS)) + ' else { None }'
    setseq = 'Seq::<ErrorDetail>::empty()' + ''.join('\n        + (if d.%s is Some { seq![ErrorDetail::%s(d.%s->Some_0)] } else { Seq::<ErrorDetail>::empty() })' % (FIELD_OF[k], k, FIELD_OF[k]) for k, _, _ in KINDS)
    return r"""
// ---- writing: what an Any must hold for a given detail (type URL of its kind; a payload that decodes to the same value) ----
pub open spec fn xv_detail(d: ErrorDetail) -> DV {
    match d {
%(arms_xv)s
    }
}
pub open spec fn detail_in_range(d: ErrorDetail) -> bool { d matches ErrorDetail::RetryInfo(x) ==> in_range_retry_info(x) }
pub open spec fn any_holds(a: Any, d: ErrorDetail) -> bool {
    match d {
%(holds)s
    }
}
#[verifier::opaque]
pub open spec fn anys_hold(s: Seq<Any>, ds: Seq<ErrorDetail>) -> bool {
    s.len() == ds.len() && forall|i: int| 0 <= i < s.len() ==> any_holds(#[trigger] s[i], ds[i])
}
pub proof fn lemma_holds_push(s: Seq<Any>, a: Any, ds: Seq<ErrorDetail>, d: ErrorDetail)
    requires anys_hold(s, ds), any_holds(a, d)
    ensures anys_hold(s.push(a), ds + seq![d]), anys_hold(s.push(a), ds.push(d))
{
    reveal(anys_hold);
    assert(ds + seq![d] =~= ds.push(d));
}
pub proof fn lemma_holds_step(c0: Seq<Any>, c1: Seq<Any>, ds: Seq<ErrorDetail>, d: Option<ErrorDetail>)
    requires anys_hold(c0, ds),
        d is None ==> c1 == c0,
        d matches Some(x) ==> exists|a: Any| c1 == #[trigger] c0.push(a) && any_holds(a, x),
    ensures anys_hold(c1, match d { Some(x) => ds.push(x), None => ds })
{
    reveal(anys_hold);
    if d is Some { let a = choose|a: Any| c1 == #[trigger] c0.push(a) && any_holds(a, d->Some_0); assert(c1.last() == a); }
}
pub proof fn lemma_holds_empty() ensures anys_hold(Seq::<Any>::empty(), Seq::<ErrorDetail>::empty()) { reveal(anys_hold); }
// the details of an ErrorDetails set, in the fixed order of its fields
pub open spec fn opt_detail(d: ErrorDetails, k: int) -> Option<ErrorDetail> {
    %(optchain)s
}
pub open spec fn set_details_upto(d: ErrorDetails, k: int) -> Seq<ErrorDetail> decreases k {
    if k <= 0 { Seq::<ErrorDetail>::empty() } else {
        match opt_detail(d, k - 1) { Some(x) => set_details_upto(d, k - 1).push(x), None => set_details_upto(d, k - 1) }
    }
}
pub open spec fn set_details(d: ErrorDetails) -> Seq<ErrorDetail> { set_details_upto(d, 10) }
// ---- reading: the ten kinds by type URL, tried in this order; any other URL is skipped ----
pub open spec fn kind_of(url: Seq<char>) -> int { %(kind_chain)s }
// None: not one of the ten; Some(None): one of the ten with an undecodable payload; Some(Some(v)): the value it holds
pub open spec fn any_dv(a: Any) -> Option<Option<DV>> {
    let k = kind_of(a.type_url@);
    %(any_chain)s
}
pub open spec fn any_in_range(a: Any) -> bool {
    kind_of(a.type_url@) == 0 ==> (pb_parse::<pb::RetryInfo>(a.value@) matches Some(p) ==> pb_in_range_retry_info(p))
}
pub open spec fn all_in_range(s: Seq<Any>) -> bool { forall|i: int| 0 <= i < s.len() ==> any_in_range(#[trigger] s[i]) }
// the list a google.rpc.Status decodes to: the known details in order, None if one of them is undecodable
pub open spec fn dec_vec(s: Seq<Any>) -> Option<Seq<DV>> decreases s.len() {
    if s.len() == 0 { Some(Seq::<DV>::empty()) } else {
        match dec_vec(s.drop_last()) {
            None => None,
            Some(pre) => match any_dv(s.last()) { None => Some(pre), Some(None) => None, Some(Some(v)) => Some(pre.push(v)) },
        }
    }
}
// the set it decodes to: per kind, the last detail of that kind
pub open spec fn dec_set(s: Seq<Any>) -> Option<SetV> decreases s.len() {
    if s.len() == 0 { Some(set_empty()) } else {
        match dec_set(s.drop_last()) {
            None => None,
            Some(pre) => match any_dv(s.last()) { None => Some(pre), Some(None) => None, Some(Some(v)) => Some(set_put(pre, kind_of(s.last().type_url@), v)) },
        }
    }
}
// the single-kind getters: the first detail of kind k that decodes
pub open spec fn ok_kind(k: int, a: Any) -> bool { %(okchain)s }
pub open spec fn first_ok(s: Seq<Any>, k: int, i: int) -> int decreases s.len() - i {
    if i < 0 || i >= s.len() { s.len() as int } else if ok_kind(k, s[i]) { i } else { first_ok(s, k, i + 1) }
}
pub open spec fn dvs(v: Seq<ErrorDetail>) -> Seq<DV> { v.map_values(|d: ErrorDetail| xv_detail(d)) }
// an ErrorDetails set as ten optional values
pub ghost struct SetV { %(setv_fields)s }
pub open spec fn set_empty() -> SetV { SetV { %(setv_none)s } }
pub open spec fn set_put(m: SetV, k: int, v: DV) -> SetV { %(setv_put)s }
pub open spec fn set_view(d: ErrorDetails) -> SetV { SetV { %(setv_view)s } }
pub proof fn lemma_dec_step(s: Seq<Any>, k: int)
    requires 0 <= k < s.len()
    ensures
        dec_vec(s.take(k + 1)) == (match dec_vec(s.take(k)) { None => None, Some(pre) => match any_dv(s[k]) { None => Some(pre), Some(None) => None, Some(Some(v)) => Some(pre.push(v)) } }),
        dec_set(s.take(k + 1)) == (match dec_set(s.take(k)) { None => None, Some(pre) => match any_dv(s[k]) { None => Some(pre), Some(None) => None, Some(Some(v)) => Some(set_put(pre, kind_of(s[k].type_url@), v)) } }),
{
    assert(s.take(k + 1).drop_last() =~= s.take(k));
    assert(s.take(k + 1).last() == s[k]);
}
pub proof fn lemma_dec_none_extends(s: Seq<Any>, k: int)
    requires 0 <= k <= s.len()
    ensures dec_vec(s.take(k)) is None ==> dec_vec(s) is None, dec_set(s.take(k)) is None ==> dec_set(s) is None,
    decreases s.len() - k
{
    if k < s.len() { lemma_dec_step(s, k); lemma_dec_none_extends(s, k + 1); } else { assert(s.take(k) =~= s); }
}
""" % dict(okchain=okchain, setv_fields=setv_fields, setv_none=setv_none, setv_put=setv_put, setv_view=setv_view, puts=puts, arms_xv=arms_xv, holds=holds, kind_chain=kind_chain, any_chain=any_chain, present=present, value=value, setseq=setseq, optchain=optchain)


def urls_lemma():
    """the ten type URLs are pairwise different: generated from the literals that are in /repo right now"""
    lits = []
    for k, f, _ in KINDS:
        src = read_src(R + 'std_messages/' + f)
        m = re.search(r'pub const TYPE_URL: &\'static str = "([^"\\]*)";', src)
        if not m:
            from vxlib import Infra
            raise Infra('TYPE_URL literal of %s not found' % k)
        lits.append((k, m.group(1)))
    body = ['    ' + ' '.join('reveal_strlit("%s");' % l for _, l in lits)]
    ens = []
    for i in range(len(lits)):
        for j in range(i + 1, len(lits)):
            (ka, a), (kb, b) = lits[i], lits[j]
            ens.append('%s::TYPE_URL@ != %s::TYPE_URL@' % (ka, kb))
            if a == b:
                continue      # genuinely equal: the lemma fails, as it should
            if len(a) != len(b):
                body.append('    assert("%s"@.len() == %d && "%s"@.len() == %d);' % (a, len(a), b, len(b)))
            else:
                d = next(x for x in range(len(a)) if a[x] != b[x])
                body.append('    assert("%s"@[%d] != "%s"@[%d]);' % (a, d, b, d))
    return ('// the ten type URLs are pairwise different (checked on the literals of the current tree)\n'
            'pub proof fn lemma_urls_distinct()\n    ensures\n' + '\n'.join('        %s,' % e for e in ens) + '\n{\n' + '\n'.join(body) + '\n}\n')


LEMMAS = r"""
// ---- the round trip (C20) over the contracts above ----
pub open spec fn all_details_in_range(ds: Seq<ErrorDetail>) -> bool { forall|i: int| 0 <= i < ds.len() ==> detail_in_range(#[trigger] ds[i]) }
pub open spec fn kind_of_detail(d: ErrorDetail) -> int { match d { %(kindarms)s } }
// an Any that holds a detail is read back as that detail's value, under its own kind
pub proof fn lemma_any_holds_decodes(a: Any, d: ErrorDetail)
    requires any_holds(a, d), detail_in_range(d)
    ensures any_dv(a) == Some(Some(xv_detail(d))), kind_of(a.type_url@) == kind_of_detail(d), any_in_range(a)
{
    broadcast use lemma_dv_same;
    lemma_urls_distinct();
}
// LIST: the details written one Any each, in order, are read back as the same values in the same order
pub proof fn lemma_list_roundtrip(s: Seq<Any>, ds: Seq<ErrorDetail>)
    requires anys_hold(s, ds), all_details_in_range(ds)
    ensures dec_vec(s) == Some(dvs(ds)), all_in_range(s)
    decreases s.len()
{
    reveal(anys_hold);
    if s.len() == 0 {
        assert(dvs(ds) =~= Seq::<DV>::empty());
    } else {
        assert(anys_hold(s.drop_last(), ds.drop_last()));
        lemma_list_roundtrip(s.drop_last(), ds.drop_last());
        lemma_any_holds_decodes(s.last(), ds.last());
        assert(dvs(ds) =~= dvs(ds.drop_last()).push(xv_detail(ds.last())));
        assert forall|i: int| 0 <= i < s.len() implies any_in_range(#[trigger] s[i]) by {
            if i < s.len() - 1 { assert(s.drop_last()[i] == s[i]); }
        }
    }
}
// SET: reading a list of Anys into a set keeps, per kind, the last value
pub open spec fn fold_set(ds: Seq<ErrorDetail>) -> SetV decreases ds.len() {
    if ds.len() == 0 { set_empty() } else { set_put(fold_set(ds.drop_last()), kind_of_detail(ds.last()), xv_detail(ds.last())) }
}
pub proof fn lemma_set_read(s: Seq<Any>, ds: Seq<ErrorDetail>)
    requires anys_hold(s, ds), all_details_in_range(ds)
    ensures dec_set(s) == Some(fold_set(ds)), all_in_range(s)
    decreases s.len()
{
    reveal(anys_hold);
    if s.len() > 0 {
        assert(anys_hold(s.drop_last(), ds.drop_last()));
        lemma_set_read(s.drop_last(), ds.drop_last());
        lemma_any_holds_decodes(s.last(), ds.last());
        assert forall|i: int| 0 <= i < s.len() implies any_in_range(#[trigger] s[i]) by {
            if i < s.len() - 1 { assert(s.drop_last()[i] == s[i]); }
        }
    }
}
// the set written field by field folds back to itself
pub open spec fn set_view_upto(d: ErrorDetails, k: int) -> SetV { SetV { %(uptoview)s } }
pub proof fn lemma_fold_step(d: ErrorDetails, k: int)
    requires 0 <= k < 10, fold_set(set_details_upto(d, k)) == set_view_upto(d, k)
    ensures fold_set(set_details_upto(d, k + 1)) == set_view_upto(d, k + 1)
{
    let pre = set_details_upto(d, k);
    match opt_detail(d, k) {
        Some(x) => { assert(pre.push(x).drop_last() =~= pre); assert(pre.push(x).last() == x); assert(kind_of_detail(x) == k); }
        None => {}
    }
}
pub proof fn lemma_fold_of_set_details(d: ErrorDetails)
    ensures fold_set(set_details(d)) == set_view(d)
{
    assert(fold_set(set_details_upto(d, 0)) == set_view_upto(d, 0));
    %(foldsteps)s
}
pub open spec fn set_in_range(d: ErrorDetails) -> bool { d.retry_info matches Some(x) ==> in_range_retry_info(x) }
pub proof fn lemma_set_details_in_range(d: ErrorDetails, k: int)
    requires set_in_range(d), 0 <= k <= 10
    ensures all_details_in_range(set_details_upto(d, k))
    decreases k
{
    if k > 0 { lemma_set_details_in_range(d, k - 1); }
}
// C20, set: a status built from an ErrorDetails set d (E2 of with_error_details*) decodes, as a set, to d
pub proof fn lemma_c20_set_roundtrip(bytes: Seq<u8>, d: ErrorDetails)
    requires pb_parse::<pb::Status>(bytes) matches Some(st) && anys_hold(st.details@, set_details(d)), set_in_range(d)
    ensures pb_parse::<pb::Status>(bytes) matches Some(st) && dec_set(st.details@) == Some(set_view(d)) && all_in_range(st.details@)
        && dec_vec(st.details@) == Some(dvs(set_details(d)))
{
    let st = pb_parse::<pb::Status>(bytes)->Some_0;
    lemma_set_details_in_range(d, 10);
    lemma_set_read(st.details@, set_details(d));
    lemma_fold_of_set_details(d);
    lemma_list_roundtrip(st.details@, set_details(d));
}
// C20, list: a status built from a list ds (E2 of with_error_details_vec*) decodes, as a list, to the same values in order
pub proof fn lemma_c20_list_roundtrip(bytes: Seq<u8>, ds: Seq<ErrorDetail>)
    requires pb_parse::<pb::Status>(bytes) matches Some(st) && anys_hold(st.details@, ds), all_details_in_range(ds)
    ensures pb_parse::<pb::Status>(bytes) matches Some(st) && dec_vec(st.details@) == Some(dvs(ds)) && all_in_range(st.details@)
        && dec_set(st.details@) == Some(fold_set(ds))
{
    let st = pb_parse::<pb::Status>(bytes)->Some_0;
    lemma_list_roundtrip(st.details@, ds);
    lemma_set_read(st.details@, ds);
}
// C20, through the header encoding: the status a peer reads from the headers this status was written to has the same
// details bytes (unit status: base64 without padding, A-b64-01), hence decodes to the same list
pub proof fn lemma_c20_through_headers(s: Status, h: HMap, r: Option<Status>, ds: Seq<ErrorDetail>)
    requires
        written(s, Map::<Seq<char>, Seq<Seq<u8>>>::empty(), h), read(h, r),
        forall|k: Seq<char>| status_names(k) ==> !s.metadata.headers@.contains_key(k),
        pb_parse::<pb::Status>(s.details@) matches Some(st) && anys_hold(st.details@, ds), all_details_in_range(ds),
    ensures
        r matches Some(got) && got.code == s.code && got.message@ == s.message@
            && (pb_parse::<pb::Status>(got.details@) matches Some(st) && dec_vec(st.details@) == Some(dvs(ds)) && all_in_range(st.details@)),
{
    lemma_status_roundtrip(s, h, r);
    lemma_c20_list_roundtrip(s.details@, ds);
}
"""


def lemmas():
    kindarms = ' '.join('ErrorDetail::%s(_) => %d,' % (k, i) for i, (k, _, _) in enumerate(KINDS))
    uptoview = ', '.join('k%d: if k > %d { match d.%s { Some(x) => Some(xv_%s(x)), None => None } } else { None }' % (i, i, FIELD_OF[k], snake(k)) for i, (k, _, _) in enumerate(KINDS))
    foldsteps = '\n    '.join('lemma_fold_step(d, %d);' % i for i in range(10))
    return urls_lemma() + LEMMAS % dict(kindarms=kindarms, uptoview=uptoview, foldsteps=foldsteps)

def build():
    u = Unit('richerror', ['C20'])
    common.http_base(u)
    common.metadata_core(u, props_sanitize=('C08',))
    common.status_decls(u)
    u.raw(SHIMS)
    u._emit('pub mod tt {\nuse super::*;\nuse crate::prost::DecodeError;\nuse ::std::collections::HashMap;')
    # ---- the generated google.rpc messages, verbatim (derives and #[prost] attributes dropped: R8) ----
    def paths(t):
        t.sub_code('R25', r'::prost::alloc::string::String', 'String')
        t.sub_code('R25', r'::prost::alloc::vec::Vec', 'Vec')
        t.sub_code('R25', r'::prost_types::', 'prost_types::')
    u._emit('pub mod pb {\nuse super::*;')
    pbsrc = read_src(PB)
    for kind, name in re.findall(r'^pub (struct|mod) (\w+)', pbsrc, re.M):
        u.item(PB, kind, name, edits=[paths])
    u._emit('} // mod pb')
    u.raw(PB_MESSAGE)
    for tr in ('IntoAny', 'FromAny', 'FromAnyRef'):
        u.item(MOD, 'trait', tr)
    # ---- the ten details ----
    for k, f, lay in KINDS:
        F = R + 'std_messages/' + f
        for _, kind in lay:
            if kind.startswith('rows|'):
                u.item(F, 'struct', kind.split('|')[1])
        u.item(F, 'struct', k)
        u._emit('impl %s {' % k)
        u.item(F, 'const', 'TYPE_URL')
        if k == 'RetryInfo':
            u.exec_const(F, 'MAX_RETRY_DELAY', ensures=[Clause('M1_the_largest_delay_is_the_protobuf_maximum', 'Self::MAX_RETRY_DELAY.secs == 315_576_000_000 && Self::MAX_RETRY_DELAY.nanos == 999_999_999')])
        u._emit('}')
    u.item(VEC, 'enum', 'ErrorDetail')
    u.item(ED, 'struct', 'ErrorDetails')
    flds = re.findall(r'pub\(crate\) (\w+): Option<', read_src(ED)[read_src(ED).index('pub struct ErrorDetails'):])[:10]
    if flds != [FIELD_OF[k] for k, _, _ in KINDS]:
        from vxlib import Infra
        raise Infra('ErrorDetails fields changed: %r' % flds)
    u.raw('// A-std-default-02: #[derive(Default)] on ErrorDetails (the derive is dropped with the attributes): every field is None\n'
          'impl Default for ErrorDetails {\n    fn default() -> (r: Self) ensures %s { ErrorDetails { %s } }\n}' % (
              ' && '.join('r.%s is None' % f for f in flds), ', '.join('%s: None' % f for f in flds)))
    u._emit('impl ErrorDetails {'); u._open_header = 'impl ErrorDetails {'
    u.fn(ED, 'new', within='impl ErrorDetails', ensures=[Clause('N1_a_new_set_is_empty', ' && '.join('r.%s is None' % f for f in flds))])
    u.close('}')
    u.raw('pub broadcast axiom fn axiom_default_error_details() ensures %s;' % ', '.join(
        '%sdefault_of::<ErrorDetails>().%s is None' % ('#[trigger] ' if i == 0 else '', f) for i, f in enumerate(flds)))
    u.raw(dv_enum() + ''.join(view_fns(k, lay) for k, _, lay in KINDS) + RANGE + dec_spec())
    for k, _, _ in KINDS:
        u.raw('impl vstd::std_specs::convert::FromSpecImpl<%s> for ErrorDetail {\n    open spec fn obeys_from_spec() -> bool { true }\n'
              '    open spec fn from_spec(v: %s) -> Self { ErrorDetail::%s(v) }\n}' % (k, k, k))
        hdr = 'impl From<%s> for ErrorDetail' % k
        u._emit(hdr + ' {'); u._open_header = hdr + ' {'
        u.fn(VEC, 'from', within=hdr, display='ErrorDetail::from<%s>' % k, ensures=[Clause('W1_wraps_the_detail_in_its_own_variant', 'r == ErrorDetail::%s(err_detail)' % k)])
        u.close('}')
    for k, f, lay in KINDS:
        F = R + 'std_messages/' + f
        sn = snake(k)
        NOSPEC = ('impl vstd::std_specs::convert::FromSpecImpl<%s> for %s {\n    open spec fn obeys_from_spec() -> bool { false }\n'
                  '    open spec fn from_spec(v: %s) -> Self { arbitrary() }\n}')
        # sub-structs (rows): plain field moves
        for fld, kind in lay:
            if not kind.startswith('rows|'):
                continue
            _, sub, pbsub, fs = kind.split('|')
            fs = fs.split(',')
            for a, b in (('pb::' + pbsub, sub), (sub, 'pb::' + pbsub)):
                u._emit(NOSPEC % (a, b, a))
                hdr = 'impl From<%s> for %s' % (a, b)
                u._emit(hdr + ' {'); u._open_header = hdr + ' {'
                u.fn(F, 'from', within=hdr, display='%s::from<%s>' % (b, a), ensures=[
                    Clause('V1_a_row_keeps_every_field', ' && '.join('r.%s@ == value.%s@' % (x, x) for x in fs))])
                u.close('}')
        # the conversions to and from the google.rpc message
        for a, b, cl in (('pb::' + k, k, 'pb_in_range'), (k, 'pb::' + k, 'in_range')):
            hdr = 'impl From<%s> for %s' % (a, b)
            src = read_src(F)
            from vxlib import find_fn
            loc = find_fn(src, 'from', 0, hdr)
            arg = re.search(r'fn from\((\w+):', src[loc['sig_start']:loc['body_open']]).group(1)
            lhs, rhs = ('xv_%s(r)' % sn, 'pbv_%s(%s)' % (sn, arg)) if b == k else ('pbv_%s(r)' % sn, 'xv_%s(%s)' % (sn, arg))
            guard = in_range(k, arg, pbside=(b == k))
            ens = [Clause('V1_the_value_is_kept_field_by_field', '%s ==> dv_same(%s, %s)' % (guard, lhs, rhs))]
            if k == 'RetryInfo':
                ens.append(Clause('V2_a_delay_stays_a_delay', 'r.retry_delay is Some <==> %s.retry_delay is Some' % arg))
            u._emit(NOSPEC % (a, b, a))
            hoist = any(kind.startswith('rows|') for _, kind in lay)
            if hoist:
                # R26: Verus cannot use vstd's specification of `Into::into` inside an impl of `From` (the trait-impl dependency
                # graph would be cyclic), so the body is verified as a free function with the same text; the impl itself is
                # emitted a second time, verbatim, as external_body with the clauses just proved (A-cut-03)
                fname = 'verif_from_%s_to_%s' % (snake(a.replace('::', '_')), snake(b.replace('::', '_')))
                u.fn(F, 'from', within=hdr, display='%s::from<%s>' % (b, a), ensures=ens,
                     sig_edits=[lambda t, fname=fname, b=b: (t.sub_code('R26', r'\bfn from\b', 'pub fn ' + fname), t.sub_code('R26', r'\bSelf\b', b))])
                body = src[loc['body_open']:loc['body_end']]
                u.raw('// A-cut-03: %s::from has the contract proved on %s (the same body text, copied in the same run)\n'
                      '%s {\n    #[verifier::external_body]\n    fn from(%s: %s) -> (r: Self)\n        ensures %s,\n    %s\n}' % (
                    b, fname, hdr, arg, a, ', '.join(c.text for c in ens), body))
            else:
                u._emit(hdr + ' {'); u._open_header = hdr + ' {'
                u.fn(F, 'from', within=hdr, display='%s::from<%s>' % (b, a), ensures=ens)
                u.close('}')
        if k == 'RetryInfo':
            u._emit('impl RetryInfo {'); u._open_header = 'impl RetryInfo {'
            u.fn(F, 'new', within='impl RetryInfo', ensures=[
                Clause('N1_a_new_retry_info_is_within_the_protobuf_range', '(retry_delay matches Some(d) ==> dur_ok(d)) ==> in_range_retry_info(r)'),
                Clause('N2_a_delay_within_the_range_is_kept', '(retry_delay is None ==> r.retry_delay is None) && (retry_delay matches Some(d) ==> (time::dur_le(d, max_delay()) ==> r.retry_delay == Some(d)))')])
            u.close('}')
        # is_empty ("carries nothing") is not part of C20; it is put under contract (obligations tagged `aux`, never reported for
        # C20) so that an edit of /repo that calls it stays decidable
        def empt(fld, kind):
            return {'dur': 'self.%s is None'}.get(kind, 'self.%s@.len() == 0') % fld
        u._emit('impl %s {' % k); u._open_header = 'impl %s {' % k
        u.fn(F, 'is_empty', within='impl %s' % k, props=['aux'], ensures=[Clause('I1_empty_means_every_field_is_empty', 'r == (%s)' % ' && '.join(empt(fl, kd) for fl, kd in lay), ['aux'])])
        u.close('}')
        hdr = 'impl IntoAny for %s' % k
        u._emit(hdr + ' {'); u._open_header = hdr + ' {'
        u.fn(F, 'into_any', within=hdr, body_start='        broadcast use axiom_pb_roundtrip;', ensures=[
            Clause('IA1_the_type_url_names_the_kind', 'r.type_url@ == %s::TYPE_URL@' % k),
            Clause('IA2_the_payload_decodes_to_the_same_value', 'pb_parse::<pb::%s>(r.value@) matches Some(p) && (%s ==> dv_same(pbv_%s(p), xv_%s(self)))' % (k, in_range(k, 'self'), sn, sn))])
        u.close('}')
        hdr = 'impl FromAnyRef for %s' % k
        u._emit(hdr + ' {'); u._open_header = hdr + ' {'
        FA = [Clause('FA1_fails_exactly_on_an_undecodable_payload', 'r is Ok <==> pb_parse::<pb::%s>(any.value@) is Some' % k),
              Clause('FA2_the_decoded_value_is_the_payload_s', 'r matches Ok(x) ==> (%s ==> dv_same(xv_%s(x), pbv_%s(pb_parse::<pb::%s>(any.value@)->Some_0)))' % (
                  in_range(k, 'pb_parse::<pb::%s>(any.value@)->Some_0' % k, pbside=True), sn, sn, k))]
        u.fn(F, 'from_any_ref', within=hdr, ensures=FA)
        u.close('}')
        hdr = 'impl FromAny for %s' % k
        u._emit(hdr + ' {'); u._open_header = hdr + ' {'
        u.fn(F, 'from_any', within=hdr, ensures=[Clause(c.label, c.text) for c in FA])
        u.close('}')
    # ---- the envelope ----
    u.fn(MOD, 'gen_details_bytes', body_start='    broadcast use axiom_pb_roundtrip;', ensures=[
        Clause('G1_the_bytes_are_a_google_rpc_status_with_this_code_message_and_details',
               'pb_parse::<pb::Status>(r@) matches Some(st) && st.code == code_num(code) && st.message@ == message@ && st.details == details')])
    def vec_param(t):
        t.sub_code('R12', r'impl IntoIterator<Item = ErrorDetail>', 'Vec<ErrorDetail>')
    u.item(MOD, 'trait', 'StatusExt', edits=[vec_param])
    u._emit('impl crate::sealed::Sealed for tonic::Status {}')
    from vxlib import r27_str_const_match, r23_continue_guard
    def r23_if_present(t):
        if re.search(r'\bcontinue\b', t.t):
            r23_continue_guard(t)
    PARSE = 'pb_parse::<pb::Status>(%s.details@)'
    def envelope(src_details, who='r'):
        P = PARSE % who
        return [Clause('E1_the_embedded_status_carries_the_code_and_message_of_the_outer_status',
                       '%s matches Some(st) && st.code == code_num(%s.code) && st.message@ == %s.message@' % (P, who, who)),
                Clause('E2_one_any_per_detail_in_order_each_of_its_kind_and_decoding_to_its_value',
                       '%s matches Some(st) && anys_hold(st.details@, %s)' % (P, src_details))]
    SEQINV = ['it.seq().len() == self.details@.len()', 'forall|i: int| 0 <= i < it.seq().len() ==> *(#[trigger] it.seq()[i]) == self.details@[i]']
    STEP = '            proof { lemma_urls_distinct(); lemma_dec_step(self.details@, it.index@ as int); lemma_dec_none_extends(self.details@, it.index@ + 1); }'
    FULL = '        proof { assert(self.details@.take(self.details@.len() as int) =~= self.details@); }'
    FIRST = 'if verif_str_eq(any.type_url.as_str(),'
    def set_contract(S):   # S: the Seq<Any> that is read
        return [Clause('RS1_fails_exactly_when_a_detail_of_a_known_kind_is_undecodable', 'r is Ok <==> %s' % S[0]),
                Clause('RS2_per_kind_the_last_detail_of_that_kind_unknown_kinds_skipped', 'r matches Ok(d) ==> (%s)' % S[1])]
    hdr = 'impl StatusExt for tonic::Status'
    u._emit(hdr + ' {'); u._open_header = hdr + ' {'
    names = [FIELD_OF[k] for k, _, _ in KINDS]
    kinds = [k for k, _, _ in KINDS]
    def step(i):   # facts about the i-th `if let` just passed
        return 'lemma_holds_step(c%d, conv_details@, set_details_upto(d0, %d), opt_detail(d0, %d)); ' % (i, i, i)
    def before_if(i):
        first = 'lemma_holds_empty(); assert(conv_details@ =~= Seq::<Any>::empty()); ' if i == 0 else step(i - 1)
        return '        proof { %sc%d = conv_details@; }' % (first, i)
    # the ghost snapshots c0..c9 are declared at the top of the body so that a hint that ends up in another scope (an edit of
    # /repo that nests or reorders the ifs) still compiles and simply fails to prove
    u.fn(MOD, 'with_error_details_and_metadata', within=hdr,
         body_start='        let ghost d0 = details; ' + ' '.join('let ghost mut c%d = Seq::<Any>::empty();' % i for i in range(10)),
         hints=[('before', '= details.%s' % names[i], before_if(i)) for i in range(10)] +
               [('before', 'let details = gen_details_bytes', '        proof { %s}' % step(9))],
         ensures=[
        Clause('W1_code_and_metadata_are_the_given_ones', 'r.code == code && r.metadata == metadata')] + envelope('set_details(details)'))
    u.fn(MOD, 'with_error_details', within=hdr, ensures=[Clause('W1_code_is_the_given_one', 'r.code == code')] + envelope('set_details(details)'))
    u.fn(MOD, 'with_error_details_vec_and_metadata', within=hdr, sig_edits=[vec_param], body_start='        reveal(anys_hold);',
         loops={0: dict(iter='it', invariant=['it.seq() == details@', 'anys_hold(conv_details@, details@.take(it.index@ as int))'])},
         hints=[('before', 'match error_detail {', '            reveal(anys_hold);'),
                ('before', 'let details = gen_details_bytes', '        proof { assert(details@.take(details@.len() as int) =~= details@); }')],
         ensures=[Clause('W1_code_and_metadata_are_the_given_ones', 'r.code == code && r.metadata == metadata')] + envelope('details@'))
    u.fn(MOD, 'with_error_details_vec', within=hdr, sig_edits=[vec_param],
         ensures=[Clause('W1_code_is_the_given_one', 'r.code == code')] + envelope('details@'))
    SP = PARSE % 'self'
    SET_S = ('(%s matches Some(st) && dec_set(st.details@) is Some)' % SP,
             '%s matches Some(st) && (all_in_range(st.details@) ==> set_view(d) == dec_set(st.details@)->Some_0)' % SP)
    VEC_S = ('(%s matches Some(st) && dec_vec(st.details@) is Some)' % SP,
             '%s matches Some(st) && (all_in_range(st.details@) ==> dvs(d@) =~= dec_vec(st.details@)->Some_0)' % SP)
    u.fn(MOD, 'check_error_details', within=hdr, ensures=set_contract(SET_S))
    u.fn(MOD, 'get_error_details', within=hdr, body_start='        broadcast use axiom_default_error_details;', ensures=[
        Clause('GS1_decodable_details_give_the_set', '%s ==> (%s)' % (SET_S[0], SET_S[1].replace('set_view(d)', 'set_view(r)'))),
        Clause('GS2_undecodable_details_give_the_empty_set', '!%s ==> set_view(r) == set_empty()' % SET_S[0])])
    u.fn(MOD, 'check_error_details_vec', within=hdr, ensures=set_contract(VEC_S))
    u.fn(MOD, 'get_error_details_vec', within=hdr, body_start='        broadcast use axiom_default_vec;', ensures=[
        Clause('GV1_decodable_details_give_the_list', '%s ==> (%s)' % (VEC_S[0], VEC_S[1].replace('dvs(d@)', 'dvs(r@)'))),
        Clause('GV2_undecodable_details_give_the_empty_list', '!%s ==> r@.len() == 0' % VEC_S[0])])
    def getter(i, S, pre=''):
        k = KINDS[i][0]; sn = snake(k)
        FI = 'first_ok(%s, %d, 0)' % (S, i)
        PARSED = 'pb_parse::<pb::%s>(%s[%s].value@)->Some_0' % (k, S, FI)
        return [Clause('GD1_some_exactly_when_a_detail_of_this_kind_decodes', 'r is Some <==> (%s%s < %s.len())' % (pre, FI, S)),
                Clause('GD2_it_is_the_first_such_detail', 'r matches Some(x) ==> (%s ==> dv_same(xv_%s(x), pbv_%s(%s)))' % (in_range(k, PARSED, pbside=True), sn, sn, PARSED))]
    ST = '(%s)->Some_0.details@' % SP
    for i, (k, _, _) in enumerate(KINDS):
        u.fn(MOD, 'get_details_' + FIELD_OF[k], within=hdr, ensures=getter(i, ST, pre='%s is Some && ' % SP))
    u.close('}')
    u.item(MOD, 'trait', 'RpcStatusExt')
    u._emit('impl crate::sealed::Sealed for pb::Status {}')
    hdr = 'impl RpcStatusExt for pb::Status'
    u._emit(hdr + ' {'); u._open_header = hdr + ' {'
    SET_P = ('dec_set(self.details@) is Some', 'all_in_range(self.details@) ==> set_view(d) == dec_set(self.details@)->Some_0')
    VEC_P = ('dec_vec(self.details@) is Some', 'all_in_range(self.details@) ==> dvs(d@) =~= dec_vec(self.details@)->Some_0')
    u.fn(MOD, 'check_error_details', within=hdr, body_edits=[r23_if_present, r27_str_const_match], body_start='        broadcast use lemma_dv_same;',
         loops={0: dict(iter='it', invariant=SEQINV + [
             'dec_set(self.details@.take(it.index@ as int)) is Some',
             'all_in_range(self.details@) ==> set_view(details) == dec_set(self.details@.take(it.index@ as int))->Some_0'])},
         hints=[('before', FIRST, STEP), ('before', 'Ok(details)', FULL)],
         ensures=set_contract(SET_P))
    u.fn(MOD, 'get_error_details', within=hdr, body_start='        broadcast use axiom_default_error_details;', ensures=[
        Clause('GS1_decodable_details_give_the_set', '%s ==> (%s)' % (SET_P[0], SET_P[1].replace('set_view(d)', 'set_view(r)'))),
        Clause('GS2_undecodable_details_give_the_empty_set', '!(%s) ==> set_view(r) == set_empty()' % SET_P[0])])
    u.fn(MOD, 'check_error_details_vec', within=hdr, body_edits=[r23_if_present, r27_str_const_match], body_start='        broadcast use lemma_dv_same;',
         loops={0: dict(iter='it', invariant=SEQINV + [
             'dec_vec(self.details@.take(it.index@ as int)) is Some',
             'all_in_range(self.details@) ==> dvs(details@) =~= dec_vec(self.details@.take(it.index@ as int))->Some_0'])},
         hints=[('before', FIRST, STEP), ('before', 'Ok(details)', FULL)],
         ensures=set_contract(VEC_P))
    u.fn(MOD, 'get_error_details_vec', within=hdr, body_start='        broadcast use axiom_default_vec;', ensures=[
        Clause('GV1_decodable_details_give_the_list', '%s ==> (%s)' % (VEC_P[0], VEC_P[1].replace('dvs(d@)', 'dvs(r@)'))),
        Clause('GV2_undecodable_details_give_the_empty_list', '!(%s) ==> r@.len() == 0' % VEC_P[0])])
    for i, (k, _, _) in enumerate(KINDS):
        u.fn(MOD, 'get_details_' + FIELD_OF[k], within=hdr, body_start='        broadcast use lemma_dv_same;', body_edits=[r23_if_present],
             loops={0: dict(iter='it', invariant=SEQINV + ['first_ok(self.details@, %d, 0) == first_ok(self.details@, %d, it.index@ as int)' % (i, i)])},
             ensures=getter(i, 'self.details@'))
    u.close('}')
    u.raw(lemmas())
    u.close('} // mod tt')
    return u
