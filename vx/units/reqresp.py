"""U5/U7 — tonic/src/request.rs, response.rs, service/interceptor.rs.
Carries C12 (interceptor frame condition + veto), the header half of C08 (reserved names never emitted from user metadata)
and the head construction part of C03."""
from vxlib import Unit, Clause
from units import common

RQ = 'tonic/src/request.rs'
RS = 'tonic/src/response.rs'
IC = 'tonic/src/service/interceptor.rs'

SHIMS = r'''
pub use crate::httpmsg::Extensions;
impl Extensions {
    // A-http-35: Extensions::new is the empty type map
    pub uninterp spec fn empty_spec() -> Extensions;
    #[verifier::external_body]
    pub fn new() -> (r: Extensions) ensures r == Extensions::empty_spec() { unimplemented!() }
    // A-http-38: Extensions::clone is structural; extend merges (the entries of `other` win)
    pub uninterp spec fn merged(a: Extensions, b: Extensions) -> Extensions;
    #[verifier::external_body]
    pub fn clone(&self) -> (r: Extensions) ensures r == *self { unimplemented!() }
    #[verifier::external_body]
    pub fn extend(&mut self, other: Extensions) ensures *final(self) == Extensions::merged(*old(self), other) { unimplemented!() }
}
impl http::Uri {
    // A-http-36: Uri::clone is structural
    #[verifier::external_body]
    pub fn clone(&self) -> (r: http::Uri) ensures r == *self { unimplemented!() }
}
// tower_service::Service with a ghost log of the requests the service has been called with
pub trait Service<Request> {
    type Response;
    type Error;
    type Future;
    spec fn log(&self) -> Seq<Request>;
    spec fn ready_now(&self) -> Poll<Result<(), Self::Error>>;
    // A-tower-03: poll_ready reports the readiness of the service (a ghost property of its state) and hands it no request
    fn poll_ready(&mut self, cx: &mut Context) -> (r: Poll<Result<(), Self::Error>>)
        ensures r == old(self).ready_now(), final(self).log() == old(self).log();
    // A-tower-01: Service::call hands the request to the service (ghost log) and returns its future
    fn call(&mut self, req: Request) -> (f: Self::Future)
        ensures final(self).log() == old(self).log().push(req);
}
// core::future::Future seen through one call of poll: a ready result is one the future `resolves` to (A-future-01)
pub trait Future {
    type Output;
    spec fn resolves(&self, x: Self::Output) -> bool;
    fn poll(&mut self, cx: &mut Context) -> (r: Poll<Self::Output>)
        ensures r matches Poll::Ready(x) ==> old(self).resolves(x);
}
'''

FUT = r'''
// pin-project projections of ResponseFuture / Kind (A-pinproject-03)
pub enum KindProj<'a, F> { Future(PinMutF<'a, F>), Status(&'a mut Option<Status>) }
pub struct PinMutF<'a, F> { pub p: &'a mut F }
pub struct ResponseFutureProj<'a, F> { pub kind: &'a mut Kind<F> }
impl<F> ResponseFuture<F> {
    #[verifier::external_body]
    pub fn project(&mut self) -> (r: ResponseFutureProj<'_, F>)
        ensures *r.kind == old(self).kind, *final(r.kind) == final(self).kind
    { unimplemented!() }
}
impl<F> Kind<F> {
    #[verifier::external_body]
    pub fn project(&mut self) -> (r: KindProj<'_, F>)
        ensures
            (*old(self)) is Future ==> r is Future && *(r->Future_0).p == (*old(self))->Future_0 && (*final(self)) is Future && *final((r->Future_0).p) == (*final(self))->Future_0,
            (*old(self)) is Status ==> r is Status && *(r->Status_0) == (*old(self))->Status_0 && (*final(self)) is Status && *final(r->Status_0) == (*final(self))->Status_0,
    { unimplemented!() }
}
// R12: `F: Future<Output = Result<http::Response<B>, E>>` is written `F: HttpFuture<B, E>` (this Verus build crashes on impl
// type parameters that are constrained only through an associated-type binding)
pub trait HttpFuture<B, E> {
    spec fn resolves(&self, x: Result<http::Response<B>, E>) -> bool;
    fn poll(&mut self, cx: &mut Context) -> (r: Poll<Result<http::Response<B>, E>>)
        ensures r matches Poll::Ready(x) ==> old(self).resolves(x);
}
impl<'a, F> PinMutF<'a, F> {
    pub fn poll<B, E>(self, cx: &mut Context) -> (r: Poll<Result<http::Response<B>, E>>) where F: HttpFuture<B, E>
        ensures r matches Poll::Ready(x) ==> old(self.p).resolves(x)
    { self.p.poll(cx) }
}
impl<T, E> Poll<Result<T, E>> {
    // A-core-06: Poll::map_ok maps the Ok value of a ready result
    #[verifier::external_body]
    pub fn map_ok<U, G: FnOnce(T) -> U>(self, f: G) -> (r: Poll<Result<U, E>>)
        requires self matches Poll::Ready(Ok(t)) ==> f.requires((t,))
        ensures
            self is Pending ==> r is Pending,
            self matches Poll::Ready(Err(e)) ==> r == Poll::<Result<U, E>>::Ready(Err(e)),
            self matches Poll::Ready(Ok(t)) ==> r matches Poll::Ready(Ok(u)) && f.ensures((t,), u),
    { unimplemented!() }
}
impl<T> http::Response<T> {
    // A-http-37: Response::map replaces the body, keeps the head
    #[verifier::external_body]
    pub fn map<U, G: FnOnce(T) -> U>(self, f: G) -> (r: http::Response<U>)
        requires f.requires((self.body,))
        ensures f.ensures((self.body,), r.body), r.status == self.status, r.version == self.version, r.headers == self.headers, r.extensions == self.extensions
    { unimplemented!() }
}
impl DefaultBody for () { open spec fn default_spec() -> Self { () } fn default() -> (r: Self) { () } }
'''


def build():
    u = Unit('reqresp', ['C12'])
    common.http_base(u)
    common.metadata_core(u)
    common.status_decls(u)
    common.status_assumed(u)
    u.raw(SHIMS)
    u.item(RQ, 'struct', 'Request')
    u.item(RQ, 'enum', 'SanitizeHeaders')
    u.item(RS, 'struct', 'Response')

    u._emit('impl<T> Request<T> {'); u._open_header = 'impl<T> Request<T> {'
    P = ['C12', 'C08', 'C03', 'C02']
    u.fn(RQ, 'new', within='impl<T> Request<T>', props=P, ensures=[Clause('fields', 'r.message == message && r.metadata.headers@ == %s && r.extensions == Extensions::empty_spec()' % common.EMPTY)])
    u.fn(RQ, 'into_parts', within='impl<T> Request<T>', props=P, ensures=[Clause('fields', 'r.0 == self.metadata && r.1 == self.extensions && r.2 == self.message')])
    u.fn(RQ, 'from_parts', within='impl<T> Request<T>', props=P, ensures=[Clause('fields', 'r.metadata == metadata && r.extensions == extensions && r.message == message')])
    u.fn(RQ, 'from_http_parts', within='impl<T> Request<T>', props=P, ensures=[Clause('fields', 'r.metadata.headers@ == parts.headers@ && r.message == message && r.extensions == parts.extensions')])
    u.fn(RQ, 'from_http', within='impl<T> Request<T>', props=P, ensures=[Clause('nothing_dropped', 'r.metadata.headers@ == http.headers@ && r.message == http.body && r.extensions == http.extensions')])
    u.fn(RQ, 'into_http', within='impl<T> Request<T>', props=P,
         ensures=[
             Clause('Q1_head_is_what_was_asked', 'r.uri == uri && r.method == method && r.version == version && r.body == self.message && r.extensions == self.extensions'),
             Clause('Q2_sanitized_when_asked', 'sanitize_headers is Yes ==> sanitized_of(r.headers@, self.metadata.headers@)', ['C08', 'C03', 'C12']),
             Clause('Q3_untouched_otherwise', 'sanitize_headers is No ==> r.headers@ == self.metadata.headers@', ['C12']),
         ])
    u.close('}')

    # ---- what the generated clients accept as a request: a bare message / stream, or a Request carrying the caller's metadata ----
    u.raw('''
pub trait IntoRequest<T> { fn into_request(self) -> Request<T>; }
// the `T: Stream + Send + 'static` bound of the two streaming impls, as a marker (Request<T> is not a stream)
pub trait StreamLike {}
pub trait IntoStreamingRequest { type Stream; fn into_streaming_request(self) -> Request<Self::Stream>; }
''')
    PI = ['C02', 'C08', 'C12']
    fresh = 'r.message == self && r.metadata.headers@ == %s && r.extensions == Extensions::empty_spec()' % common.EMPTY
    u.fn(RQ, 'into_request', within='impl<T> IntoRequest<T> for T', header='impl<T> IntoRequest<T> for T {', close=True, display='IntoRequest for T::into_request', props=PI,
         ensures=[Clause('I1_a_bare_message_is_wrapped_in_a_fresh_request', fresh, PI)])
    u.fn(RQ, 'into_request', within='impl<T> IntoRequest<T> for Request<T>', header='impl<T> IntoRequest<T> for Request<T> {', close=True, display='IntoRequest for Request<T>::into_request', props=PI,
         ensures=[Clause('I2_a_request_is_passed_on_as_it_is_with_its_metadata_and_extensions', 'r == self', PI)])
    nob = [lambda t: t.sub_code('R12', r'\bwhere\b[^{]*', '')]
    u.fn(RQ, 'into_streaming_request', within='impl<T> IntoStreamingRequest for T', header='impl<T: StreamLike> IntoStreamingRequest for T {\n    type Stream = T;', close=True,
         display='IntoStreamingRequest for T::into_streaming_request', props=PI, sig_edits=nob,
         ensures=[Clause('I3_a_bare_stream_is_wrapped_in_a_fresh_request', fresh, PI)])
    u.fn(RQ, 'into_streaming_request', within='impl<T> IntoStreamingRequest for Request<T>', header='impl<T: StreamLike> IntoStreamingRequest for Request<T> {\n    type Stream = T;', close=True,
         display='IntoStreamingRequest for Request<T>::into_streaming_request', props=PI, sig_edits=nob,
         ensures=[Clause('I4_a_request_of_a_stream_is_passed_on_as_it_is', 'r == self', PI)])
    u._emit('impl<T> Request<T> {'); u._open_header = 'impl<T> Request<T> {'
    u.fn(RQ, 'get_mut', within='impl<T> Request<T>', props=PI, display='Request::get_mut',
         ensures=[Clause('borrow_msg', '*r == old(self).message && *final(r) == final(self).message && final(self).metadata == old(self).metadata && final(self).extensions == old(self).extensions', PI)])
    u.fn(RQ, 'extensions_mut', within='impl<T> Request<T>', props=PI, display='Request::extensions_mut',
         ensures=[Clause('borrow_ext', '*r == old(self).extensions && *final(r) == final(self).extensions && final(self).metadata == old(self).metadata && final(self).message == old(self).message', PI)])
    u.close('}')

    u._emit('impl<T> Response<T> {'); u._open_header = 'impl<T> Response<T> {'
    PR = ['C08', 'C03', 'C02']
    u.fn(RS, 'get_mut', within='impl<T> Response<T>', props=PR, display='Response::get_mut',
         ensures=[Clause('borrow_msg', '*r == old(self).message && *final(r) == final(self).message && final(self).metadata == old(self).metadata && final(self).extensions == old(self).extensions')])
    u.fn(RS, 'metadata_mut', within='impl<T> Response<T>', props=PR, display='Response::metadata_mut',
         ensures=[Clause('borrow_md', '*r == old(self).metadata && *final(r) == final(self).metadata && final(self).message == old(self).message && final(self).extensions == old(self).extensions')])
    u.fn(RS, 'new', within='impl<T> Response<T>', props=PR, ensures=[Clause('fields', 'r.message == message && r.metadata.headers@ == %s && r.extensions == Extensions::empty_spec()' % common.EMPTY)])
    u.fn(RS, 'into_parts', within='impl<T> Response<T>', props=PR, ensures=[Clause('fields', 'r.0 == self.metadata && r.1 == self.message && r.2 == self.extensions')])
    u.fn(RS, 'from_parts', within='impl<T> Response<T>', props=PR, ensures=[Clause('fields', 'r.metadata == metadata && r.extensions == extensions && r.message == message')])
    u.fn(RS, 'from_http', within='impl<T> Response<T>', props=PR, ensures=[Clause('nothing_dropped', 'r.metadata.headers@ == res.headers@ && r.message == res.body && r.extensions == res.extensions')])
    u.fn(RS, 'into_http', within='impl<T> Response<T>', props=PR,
         ensures=[
             Clause('P1_grpc_response_head', 'r.status == http::StatusCode::OK && r.version == http::Version::HTTP_2 && r.body == self.message && r.extensions == self.extensions', ['C03']),
             Clause('P2_user_metadata_minus_reserved', 'sanitized_of(r.headers@, self.metadata.headers@)', ['C08', 'C03']),
         ])
    u.close('}')

    # ---- interceptor ----
    u.item(IC, 'trait', 'Interceptor', edits=[
        # contract splice: an interceptor is any function of (its state, the request): `decides`
        lambda t: t.sub_code('S-contract', r'fn call\(&mut self, request: crate::Request<\(\)>\) -> Result<crate::Request<\(\)>, Status>;',
                             'spec fn decides(&self, request: crate::Request<()>) -> Result<crate::Request<()>, Status>;\n    fn call(&mut self, request: crate::Request<()>) -> (r: Result<crate::Request<()>, Status>)\n        ensures r == old(self).decides(request);')])
    u.item(IC, 'struct', 'InterceptedService')
    u.item(IC, 'enum', 'Kind')
    u.item(IC, 'struct', 'ResponseFuture')
    u.item(IC, 'enum', 'ResponseBodyKind')
    u.item(IC, 'struct', 'ResponseBody')
    u.raw(FUT)
    u._emit('impl<F> ResponseFuture<F> {'); u._open_header = 'impl<F> ResponseFuture<F> {'
    u.fn(IC, 'future', within='impl<F> ResponseFuture<F>', ensures=[Clause('kind', 'r.kind == Kind::Future(future)')])
    u.fn(IC, 'status', within='impl<F> ResponseFuture<F>', ensures=[Clause('kind', 'r.kind == Kind::<F>::Status(Some(status))')])
    u.close('}')
    u._emit('impl<B> ResponseBody<B> {'); u._open_header = 'impl<B> ResponseBody<B> {'
    u.fn(IC, 'new', within='impl<B> ResponseBody<B>', ensures=[Clause('kind', 'r.kind == kind')])
    u.fn(IC, 'empty', within='impl<B> ResponseBody<B>', ensures=[Clause('kind', 'r.kind is Empty')])
    u.fn(IC, 'wrap', within='impl<B> ResponseBody<B>', ensures=[Clause('kind', 'r.kind == ResponseBodyKind::Wrap(body)')])
    u.close('}')

    # the wiring: the layer installs an InterceptedService around the service, with (a clone of) its interceptor
    u.item(IC, 'struct', 'InterceptorLayer')
    u._emit('impl<S, I> InterceptedService<S, I> {'); u._open_header = 'impl<S, I> InterceptedService<S, I> {'
    u.fn(IC, 'new', within='impl<S, I> InterceptedService<S, I>', ensures=[Clause('W1_wraps_this_service_with_this_interceptor', 'r.inner == service && r.interceptor == interceptor')])
    u.close('}')
    u.raw('''
// A-core-28: Clone of an interceptor gives an interceptor that decides the same (closures / fn items are copied)
pub trait CloneSame: Sized { fn clone(&self) -> (r: Self) ensures r == *self; }
''')
    u.fn(IC, 'layer', within='impl<S, I> Layer<S> for InterceptorLayer<I>',
         header='impl<I: CloneSame> InterceptorLayer<I> {', close=True,
         sig_edits=[lambda t: t.sub_code('R9', r'Self::Service', 'InterceptedService<S, I>'),
                    lambda t: t.sub_code('R12', r'fn layer\(', 'fn layer<S>(')],
         ensures=[Clause('W2_the_layer_installs_its_interceptor_around_the_service', 'r.inner == service && r.interceptor == self.interceptor')])
    u.fn(IC, 'poll_ready', within='impl<S, I, ReqBody, ResBody> Service<http::Request<ReqBody>> for InterceptedService<S, I>',
         header='impl<S, I> InterceptedService<S, I> {', close=True, display='InterceptedService::poll_ready',
         sig_edits=[lambda t: t.sub_code('R9', r'Self::Error', '<S as Service<http::Request<ReqBody>>>::Error'), lambda t: t.sub_code('R12', r'fn poll_ready\(', 'fn poll_ready<ReqBody>('),
                    lambda t: t.edit('R12', len(t.t.rstrip()), len(t.t.rstrip()), ' where S: Service<http::Request<ReqBody>>')],
         ensures=[Clause('V0_ready_exactly_when_the_wrapped_service_is_and_the_interceptor_is_not_consulted', 'r == old(self).inner.ready_now() && final(self).inner.log() == old(self).inner.log() && final(self).interceptor == old(self).interceptor')])
    u.fn(IC, 'call', within='impl<S, I, ReqBody, ResBody> Service<http::Request<ReqBody>> for InterceptedService<S, I>',
         header='''impl<S, I> InterceptedService<S, I>
where
    I: Interceptor,
{''', close=True, vacuity=False,
         sig_edits=[lambda t: t.sub_code('R9', r'Self::Future', 'ResponseFuture<S::Future>'),
                    lambda t: t.sub_code('R12', r'fn call\(', 'fn call<ReqBody>('),
                    lambda t: t.edit('R12', len(t.t.rstrip()), len(t.t.rstrip()), ' where S: Service<http::Request<ReqBody>>')],
         ensures=[
             Clause('V1_veto_never_reaches_the_service_and_hands_back_that_status',
                    '''old(self).interceptor.decides(Request { metadata: MetadataMap { headers: req.headers }, extensions: req.extensions, message: () }) matches Err(st)
                ==> final(self).inner.log() == old(self).inner.log() && r.kind == Kind::<S::Future>::Status(Some(st))''', ['C12']),
             Clause('V0_outcome_follows_the_interceptor', '''r.kind is Status <==> old(self).interceptor.decides(Request { metadata: MetadataMap { headers: req.headers }, extensions: req.extensions, message: () }) is Err''', ['C12']),
             Clause('V2b_service_sees_the_interceptors_metadata_and_extensions',
                    '''old(self).interceptor.decides(Request { metadata: MetadataMap { headers: req.headers }, extensions: req.extensions, message: () }) matches Ok(rq)
                ==> final(self).inner.log().len() > 0 && final(self).inner.log().last().headers@ == rq.metadata.headers@ && final(self).inner.log().last().extensions == rq.extensions''', ['C12']),
             Clause('V2_accept_exactly_one_call_with_original_uri_method_version_body',
                    '''r.kind is Future ==> final(self).inner.log().len() == old(self).inner.log().len() + 1
                && final(self).inner.log().take(old(self).inner.log().len() as int) == old(self).inner.log() && ({
                let got = final(self).inner.log().last();
                got.uri == req.uri && got.method == req.method && got.version == req.version && got.body == req.body
            })''', ['C12']),
         ])
    u.fn(IC, 'poll', within='impl<F, E, B> Future for ResponseFuture<F>',
         header='impl<F> ResponseFuture<F> {', close=True,
         sig_edits=[lambda t: t.sub_code('R9', r'Self::Output', 'Result<http::Response<ResponseBody<B>>, E>'),
                    lambda t: t.sub_code('R12', r'fn poll\(', 'fn poll<E, B>('),
                    lambda t: t.edit('R12', len(t.t.rstrip()), len(t.t.rstrip()), ' where F: HttpFuture<B, E>')],
         requires=['old(self).kind matches Kind::Status(s) ==> s is Some'],
         closures={0: dict(params='res: http::Response<B>', ret='(x: http::Response<ResponseBody<B>>)',
                           ensures=['x.body.kind == ResponseBodyKind::Wrap(res.body)', 'x.status == res.status', 'x.headers == res.headers', 'x.version == res.version', 'x.extensions == res.extensions'])},
         ensures=[
             Clause('V3_rejection_is_precisely_that_status_as_trailers_only_response',
                    '''old(self).kind matches Kind::Status(Some(st)) ==> r matches Poll::Ready(Ok(resp)) && resp.status == http::StatusCode::OK
                && resp.body.kind is Empty
                && written(st, %s.insert("content-type"@, %s), resp.headers@)''' % (common.EMPTY, common.CT), ['C12']),
             Clause('V4_inner_response_passes_with_wrapped_body',
                    '''old(self).kind matches Kind::Future(f) ==> (r matches Poll::Ready(x) ==> match x {
                    Ok(out) => exists|res: http::Response<B>| f.resolves(Ok(res)) && out.body.kind == ResponseBodyKind::Wrap(res.body) && out.headers == res.headers && out.status == res.status,
                    Err(e) => f.resolves(Err(e)),
                })''', ['C12']),
         ])
    # ---- ResponseBody: an intercepted veto has no body frames; a forwarded response body is forwarded frame by frame ----
    u.raw('''
// A-httpbody-06: http_body::Body seen through one poll (some relation `polled` between the state before, the result and the state after)
// A-pinproject-09: pin-project projections of ResponseBody / ResponseBodyKind
pub trait FrameBody {
    type Data; type Error;
    spec fn polled(&self, r: Poll<Option<Result<http_body::Frame<Self::Data>, Self::Error>>>, post: &Self) -> bool;
    spec fn at_end(&self) -> bool;
    fn poll_frame(&mut self, cx: &mut Context) -> (r: Poll<Option<Result<http_body::Frame<Self::Data>, Self::Error>>>) ensures old(self).polled(r, final(self));
    fn is_end_stream(&self) -> (r: bool) ensures r == self.at_end();
}
pub mod http_body { pub struct Frame<T> { pub t: T } }
pub struct PinMutB<'a, B> { pub p: &'a mut B }
impl<'a, B: FrameBody> PinMutB<'a, B> {
    pub fn poll_frame(self, cx: &mut Context) -> (r: Poll<Option<Result<http_body::Frame<B::Data>, B::Error>>>) ensures old(self.p).polled(r, final(self.p)) { self.p.poll_frame(cx) }
}
pub enum ResponseBodyKindProj<'a, B> { Empty, Wrap(PinMutB<'a, B>) }
pub struct ResponseBodyProj<'a, B> { pub kind: &'a mut ResponseBodyKind<B> }
impl<B> ResponseBody<B> {
    #[verifier::external_body]
    pub fn project(&mut self) -> (r: ResponseBodyProj<'_, B>) ensures *r.kind == old(self).kind, *final(r.kind) == final(self).kind { unimplemented!() }
}
impl<B> ResponseBodyKind<B> {
    #[verifier::external_body]
    pub fn project(&mut self) -> (r: ResponseBodyKindProj<'_, B>)
        ensures
            (*old(self)) is Empty ==> r is Empty && (*final(self)) is Empty,
            (*old(self)) is Wrap ==> r is Wrap && *(r->Wrap_0).p == (*old(self))->Wrap_0 && (*final(self)) is Wrap && *final((r->Wrap_0).p) == (*final(self))->Wrap_0,
    { unimplemented!() }
}
''')
    BH = 'impl<B: FrameBody> ResponseBody<B> {'
    BW = 'impl<B: http_body::Body> http_body::Body for ResponseBody<B>'
    fb = [lambda t: t.sub_code('R9', r'Self::Data', 'B::Data'), lambda t: t.sub_code('R9', r'Self::Error', 'B::Error')]
    u.fn(IC, 'poll_frame', within=BW, header=BH, close=False, sig_edits=fb,
         ensures=[Clause('B1_a_veto_response_has_no_body_frames', 'old(self).kind is Empty ==> (r matches Poll::Ready(None)) && final(self).kind is Empty'),
                  Clause('B2_a_forwarded_body_is_forwarded_frame_by_frame', 'old(self).kind matches ResponseBodyKind::Wrap(b) ==> final(self).kind is Wrap && b.polled(r, &final(self).kind->Wrap_0)')])
    u.fn(IC, 'is_end_stream', within=BW,
         ensures=[Clause('B3_end_of_stream', 'r == (match self.kind { ResponseBodyKind::Empty => true, ResponseBodyKind::Wrap(b) => b.at_end() })')])
    u.close('}')
    return u
