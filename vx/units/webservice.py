"""U9c — tonic-web/src/service.rs (+ the content-type helpers of call.rs): request classification (grpc-web / other), the
405 / 400 / pass-through table, request coercion to gRPC, response coercion to grpc-web.  Carries C16 (third sentence of the
statement, and the header part of the first two)."""
import re
from vxlib import Unit, Clause, r21_ref_const_field_arms
from units import common

C = 'tonic-web/src/call.rs'
S = 'tonic-web/src/service.rs'

SHIMS = r'''
// A-core-07 (R15): comparison of a &str with a string constant / literal
#[verifier::external_body]
pub fn verif_str_eq(a: &str, b: &str) -> (r: bool) ensures r == (a@ == b@) { unimplemented!() }
// the four grpc-web content types (PROTOCOL-WEB.md), independent of tonic's constants
pub open spec fn web_ct(s: Seq<char>) -> bool {
    s == "application/grpc-web"@ || s == "application/grpc-web+proto"@ || s == "application/grpc-web-text"@ || s == "application/grpc-web-text+proto"@
}
pub open spec fn text_ct(s: Seq<char>) -> bool { s == "application/grpc-web-text"@ || s == "application/grpc-web-text+proto"@ }
// what a header lookup + to_str() sees: the first value of the name, if it is visible ASCII
pub open spec fn hdr_str(h: HMap, k: Seq<char>) -> Option<Seq<char>> {
    if h.contains_key(k) && h[k].len() > 0 && visible_ascii(h[k][0]) { Some(bytes_as_chars(h[k][0])) } else { None }
}
pub open spec fn is_web(h: HMap) -> bool { hdr_str(h, "content-type"@) matches Some(s) && web_ct(s) }
pub open spec fn enc_of(h: HMap, k: Seq<char>) -> Encoding { if hdr_str(h, k) matches Some(s) && text_ct(s) { Encoding::Base64 } else { Encoding::None } }
'''

SVC = r'''
// tonic::body::Body is type-erased: Body::new(b) is known only as "the erasure of b" (A-tonic-body-01)
pub struct Body { pub of: Ghost<int> }
pub uninterp spec fn erased<B>(b: B) -> int;
pub uninterp spec fn empty_body() -> int;
impl Body {
    #[verifier::external_body]
    pub fn new<B>(b: B) -> (r: Body) ensures r.of@ == erased(b) { unimplemented!() }
    #[verifier::external_body]
    pub fn empty() -> (r: Body) ensures r.of@ == empty_body() { unimplemented!() }
}
// tower_service::Service with a ghost log of the requests the service has been called with (A-tower-01)
pub trait Service<Request> {
    type Response;
    type Error;
    type Future;
    spec fn log(&self) -> Seq<Request>;
    spec fn ready_now(&self) -> Poll<Result<(), Self::Error>>;
    // A-tower-03: poll_ready reports the readiness of the service (a ghost property of its state) and hands it no request
    fn poll_ready(&mut self, cx: &mut Context) -> (r: Poll<Result<(), Self::Error>>)
        ensures r == old(self).ready_now(), final(self).log() == old(self).log();
    fn call(&mut self, req: Request) -> (f: Self::Future)
        ensures final(self).log() == old(self).log().push(req);
}
// Body::new(adapter around b)
pub open spec fn wraps_adapter<B>(o: Body, b: B, d: Direction, e: Encoding) -> bool {
    exists|c: GrpcWebCall<B>| adapter(c, b, d, e, false) && o.of@ == #[trigger] erased(c)
}
pub proof fn lemma_coerced_names_distinct()
    ensures "content-type"@ != "te"@, "content-type"@ != "accept-encoding"@, "te"@ != "accept-encoding"@,
        "content-length"@ != "content-type"@, "content-length"@ != "te"@, "content-length"@ != "accept-encoding"@,
{
    reveal_strlit("content-type"); reveal_strlit("te"); reveal_strlit("accept-encoding"); reveal_strlit("content-length");
    assert("content-type"@.len() == 12); assert("te"@.len() == 2); assert("accept-encoding"@.len() == 15); assert("content-length"@.len() == 14);
}
// what the inner service must see for a grpc-web request `req`: same request line and extensions, gRPC content-type,
// every other header kept (content-length / te / accept-encoding are rewritten), the body behind the decoding adapter
pub open spec fn grpc_image<B>(q: Request<Body>, req: Request<B>) -> bool {
    &&& q.method == req.method && q.uri == req.uri && q.version == req.version && q.extensions == req.extensions
    &&& q.headers@.contains_key("content-type"@) && q.headers@["content-type"@] == seq![ascii_bytes("application/grpc"@)]
    &&& q.headers@.contains_key("te"@) && q.headers@["te"@] == seq![ascii_bytes("trailers"@)]
    &&& forall|k: Seq<char>| k != "content-type"@ && k != "content-length"@ && k != "te"@ && k != "accept-encoding"@
            ==> (#[trigger] q.headers@.contains_key(k) <==> req.headers@.contains_key(k)) && (q.headers@.contains_key(k) ==> q.headers@[k] == req.headers@[k])
    &&& wraps_adapter(q.body, req.body, Direction::Decode, enc_of(req.headers@, "content-type"@))
}
pub open spec fn same_request<B>(q: Request<Body>, req: Request<B>) -> bool {
    q.method == req.method && q.uri == req.uri && q.version == req.version && q.extensions == req.extensions && q.headers == req.headers && q.body.of@ == erased(req.body)
}
impl<T> Request<T> {
    // A-http-37: Request::map replaces the body, keeps the head
    #[verifier::external_body]
    pub fn map<U, G: FnOnce(T) -> U>(self, f: G) -> (r: Request<U>)
        requires f.requires((self.body,))
        ensures f.ensures((self.body,), r.body), r.method == self.method, r.version == self.version, r.uri == self.uri, r.headers == self.headers, r.extensions == self.extensions
    { unimplemented!() }
}
impl<T> Response<T> {
    #[verifier::external_body]
    pub fn map<U, G: FnOnce(T) -> U>(self, f: G) -> (r: Response<U>)
        requires f.requires((self.body,))
        ensures f.ensures((self.body,), r.body), r.status == self.status, r.version == self.version, r.headers == self.headers, r.extensions == self.extensions
    { unimplemented!() }
}
// A-http-39: Response::builder().status(s).body(b) is Ok: status s, HTTP/1.1, no headers
pub struct Builder { pub status: StatusCode }
#[derive(Debug)]
pub struct HttpError { pub x: u8 }
impl Response<()> {
    pub fn builder() -> (r: Builder) ensures r.status == StatusCode::OK { Builder { status: StatusCode::OK } }
}
impl Builder {
    pub fn status(self, s: StatusCode) -> (r: Builder) ensures r.status == s { Builder { status: s } }
    #[verifier::external_body]
    pub fn body<T>(self, b: T) -> (r: Result<Response<T>, HttpError>)
        ensures r matches Ok(x) && x.status == self.status && x.body == b && x.headers@ == Map::<Seq<char>, Seq<Seq<u8>>>::empty()
    { unimplemented!() }
}
'''


CALLSPEC = r'''
// a freshly built adapter: empty buffers, no trailers seen, and the given mode
pub open spec fn adapter<B>(c: GrpcWebCall<B>, inner: B, d: Direction, e: Encoding, client: bool) -> bool {
    c.inner == inner && c.direction == d && c.encoding == e && c.client == client && c.trailers is None && !c.inner_done
        && c.buf@ == Seq::<u8>::empty() && c.decoded@ == Seq::<u8>::empty()
}
'''


FUT = r'''
// pin-project projections of ResponseFuture / Case (A-pinproject-07)
pub struct PinMutF<'a, F> { pub p: &'a mut F }
pub enum CaseProj<'a, F> {
    GrpcWeb { future: PinMutF<'a, F>, accept: &'a mut Encoding },
    Other { future: PinMutF<'a, F> },
    ImmediateResponse { res: &'a mut Option<http::response::Parts> },
}
pub struct ResponseFutureProj<'a, F> { pub case: &'a mut Case<F> }
impl<F> ResponseFuture<F> {
    #[verifier::external_body]
    pub fn project(&mut self) -> (r: ResponseFutureProj<'_, F>) ensures *r.case == old(self).case, *final(r.case) == final(self).case { unimplemented!() }
}
impl<F> Case<F> {
    #[verifier::external_body]
    pub fn project(&mut self) -> (r: CaseProj<'_, F>)
        ensures
            (*old(self)) is GrpcWeb ==> r is GrpcWeb && (*final(self)) is GrpcWeb
                && *(r->GrpcWeb_future).p == (*old(self))->GrpcWeb_future && *final((r->GrpcWeb_future).p) == (*final(self))->GrpcWeb_future
                && *(r->accept) == (*old(self))->accept && *final(r->accept) == (*final(self))->accept,
            (*old(self)) is Other ==> r is Other && (*final(self)) is Other
                && *(r->Other_future).p == (*old(self))->Other_future && *final((r->Other_future).p) == (*final(self))->Other_future,
            (*old(self)) is ImmediateResponse ==> r is ImmediateResponse && (*final(self)) is ImmediateResponse
                && *(r->res) == (*old(self))->res && *final(r->res) == (*final(self))->res,
    { unimplemented!() }
}
// R12: `F: Future<Output = Result<Response<B>, E>>` is written `F: HttpFuture<B, E>`; a ready result is one the future
// resolves to (A-future-01)
pub trait HttpFuture<B, E> {
    spec fn resolves(&self, x: Result<Response<B>, E>) -> bool;
    fn poll(&mut self, cx: &mut Context) -> (r: Poll<Result<Response<B>, E>>)
        ensures r matches Poll::Ready(x) ==> old(self).resolves(x);
}
impl<'a, F> PinMutF<'a, F> {
    pub fn poll<B, E>(self, cx: &mut Context) -> (r: Poll<Result<Response<B>, E>>) where F: HttpFuture<B, E>
        ensures r matches Poll::Ready(x) ==> old(self.p).resolves(x)
    { self.p.poll(cx) }
}
impl<T, E> Poll<Result<T, E>> {
    // A-core-06: Poll::map_ok maps the Ok value of a ready result
    #[verifier::external_body]
    pub fn map_ok<U, G: FnOnce(T) -> U>(self, f: G) -> (r: Poll<Result<U, E>>)
        requires self matches Poll::Ready(Ok(t)) ==> f.requires((t,))
        ensures
            self is Pending ==> r is Pending,
            self matches Poll::Ready(Err(e)) ==> r == Poll::<Result<U, E>>::Ready(Err(e)),
            self matches Poll::Ready(Ok(t)) ==> r matches Poll::Ready(Ok(u)) && f.ensures((t,), u),
    { unimplemented!() }
}
// the grpc-web image of a gRPC response head + body
pub open spec fn web_response<B>(out: Response<Body>, res: Response<B>, accept: Encoding) -> bool {
    &&& out.status == res.status && out.version == res.version && out.extensions == res.extensions
    &&& out.headers@ =~= res.headers@.insert("content-type"@, seq![ascii_bytes(if accept == Encoding::Base64 { "application/grpc-web-text+proto"@ } else { "application/grpc-web+proto"@ })])
    &&& wraps_adapter(out.body, res.body, Direction::Encode, accept)
}
pub open spec fn same_response<B>(out: Response<Body>, res: Response<B>) -> bool {
    out.status == res.status && out.version == res.version && out.extensions == res.extensions && out.headers == res.headers && out.body.of@ == erased(res.body)
}
'''


def some_const_alternatives(t):
    """R15: `match E { Some(A) | Some(B) => X, _ => Y }` and `matches!(E, Some(A) | Some(B) ..)` over &str constants become
    a match on the Option with an equality chain (string constants cannot be patterns in Verus)."""
    m = re.search(r'matches!\(\s*([^,]+),\s*((?:Some\(\w+\)\s*\|?\s*)+)\)', t.t)
    if m:
        names = re.findall(r'Some\((\w+)\)', m.group(2))
        chain = ' || '.join('verif_str_eq(v, %s)' % n for n in names)
        t.edit('R15', m.start(), m.end(), 'match %s { Some(v) => %s, None => false }' % (m.group(1).strip(), chain))
        return
    m = re.search(r'match (.+?) \{\s*((?:Some\(\w+\)\s*\|?\s*)+)=>\s*([^,]+),\s*_\s*=>\s*([^,]+),\s*\}', t.t, re.S)
    if m:
        names = re.findall(r'Some\((\w+)\)', m.group(2))
        chain = ' || '.join('verif_str_eq(v, %s)' % n for n in names)
        t.edit('R15', m.start(), m.end(), 'match %s { Some(v) => if %s { %s } else { %s }, None => %s }'
               % (m.group(1).strip(), chain, m.group(3).strip(), m.group(4).strip(), m.group(4).strip()))
        return
    t.lost.append('R15 anchor: match over Some(CONST) alternatives')


TOSTR = dict(params='val: &HeaderValue', ret='(o: Option<&str>)',
             ensures=['o is Some <==> visible_ascii(val@)', 'o matches Some(s) ==> s@ == bytes_as_chars(val@)'])


def build():
    u = Unit('webservice', ['C16'])
    common.http_base(u)
    u.raw('pub use crate::httpmsg::{Request, Response, Extensions, Uri};\npub use crate::header::CONTENT_TYPE;\n')
    u.item(C, 'enum', 'Encoding', derives='Copy, Clone, PartialEq, Structural')
    u.raw(SHIMS)
    for name, lit in (('GRPC_WEB', 'application/grpc-web'), ('GRPC_WEB_PROTO', 'application/grpc-web+proto'),
                      ('GRPC_WEB_TEXT', 'application/grpc-web-text'), ('GRPC_WEB_TEXT_PROTO', 'application/grpc-web-text+proto')):
        u.exec_const(C, name, ensures=[Clause('is_the_protocol_content_type', '%s@ == "%s"@' % (name, lit))], indent='')
    u.fn(C, 'content_type', closures={0: TOSTR},
         ensures=[Clause('first_value_as_text', 'r is Some <==> hdr_str(headers@, "content-type"@) is Some'),
                  Clause('first_value_as_text2', 'r matches Some(s) ==> hdr_str(headers@, "content-type"@) == Some(s@)')])
    u.fn(C, 'is_grpc_web', body_edits=[some_const_alternatives],
         ensures=[Clause('W1_exactly_the_four_grpc_web_content_types', 'r == is_web(headers@)')])
    u._emit('impl Encoding {'); u._open_header = 'impl Encoding {'
    u.fn(C, 'from_header', within='impl Encoding', closures={0: TOSTR}, body_edits=[some_const_alternatives],
         ensures=[Clause('W2_text_iff_a_text_content_type',
                         'r == (if value matches Some(v) && visible_ascii(v@) && text_ct(bytes_as_chars(v@)) { Encoding::Base64 } else { Encoding::None })')])
    u.fn(C, 'from_content_type', within='impl Encoding', ensures=[Clause('W3', 'r == enc_of(headers@, "content-type"@)')])
    u.fn(C, 'from_accept', within='impl Encoding', ensures=[Clause('W4', 'r == enc_of(headers@, "accept"@)')])
    u.fn(C, 'to_content_type', within='impl Encoding',
         ensures=[Clause('W5_response_content_type', 'r@ == (if self == Encoding::Base64 { "application/grpc-web-text+proto"@ } else { "application/grpc-web+proto"@ })')])
    u.close('}')

    # ---- call.rs: the body adapter as a record (its poll functions are in unit webserver) ----
    u.item(C, 'const', 'BUFFER_SIZE')
    u.item(C, 'enum', 'Direction', derives='Copy, Clone, PartialEq, Structural')
    u.item(C, 'struct', 'GrpcWebCall')
    u.raw(CALLSPEC)
    u._emit('impl<B> GrpcWebCall<B> {'); u._open_header = 'impl<B> GrpcWebCall<B> {'
    W = 'impl<B> GrpcWebCall<B>'
    u.fn(C, 'new', within=W, ensures=[Clause('G0_server_side_adapter', 'adapter(r, inner, direction, encoding, false)')])
    u.fn(C, 'request', within=W, ensures=[Clause('G1_request_bodies_are_decoded', 'adapter(r, inner, Direction::Decode, encoding, false)')])
    u.fn(C, 'response', within=W, ensures=[Clause('G2_response_bodies_are_encoded', 'adapter(r, inner, Direction::Encode, encoding, false)')])
    u.close('}')

    # ---- service.rs ----
    u.raw(SVC)
    u.item(S, 'struct', 'GrpcWebService')
    u.item(S, 'enum', 'RequestKind')
    u._emit("impl<'a> RequestKind<'a> {"); u._open_header = "impl<'a> RequestKind<'a> {"
    u.fn(S, 'new', within="impl<'a> RequestKind<'a>", ensures=[
        Clause('R1_grpc_web_iff_content_type', 'is_web(headers@) ==> r == (RequestKind::GrpcWeb { method, encoding: enc_of(headers@, "content-type"@), accept: enc_of(headers@, "accept"@) })'),
        Clause('R2_everything_else_is_other', '!is_web(headers@) ==> r == RequestKind::Other(version)')])
    u.close('}')

    u.exec_const('tonic/src/metadata/mod.rs', 'GRPC_CONTENT_TYPE', ensures=[Clause('is_application_grpc', 'GRPC_CONTENT_TYPE@ == ascii_bytes("application/grpc"@)')], indent='')
    nowhere = [lambda t: t.sub_code('R12', r'\bwhere\s+B: http_body::Body[^{]*', '')]
    u.fn(S, 'coerce_request', sig_edits=nowhere, body_start='    proof { lemma_coerced_names_distinct(); }',
         closures={0: dict(params='b: B', ret='(o: Body)', ensures=['wraps_adapter(o, b, Direction::Decode, encoding)'])},
         ensures=[
             Clause('Q1_request_line_and_extensions_untouched', 'r.method == req.method && r.uri == req.uri && r.version == req.version && r.extensions == req.extensions'),
             Clause('Q2_grpc_content_type_te_trailers_everything_else_kept',
                    '''r.headers@ =~= req.headers@.remove("content-length"@).insert("content-type"@, seq![ascii_bytes("application/grpc"@)])
                        .insert("te"@, seq![ascii_bytes("trailers"@)]).insert("accept-encoding"@, seq![ascii_bytes("identity,deflate,gzip"@)])'''),
             Clause('Q3_body_is_the_original_body_behind_the_decoding_adapter', 'wraps_adapter(r.body, req.body, Direction::Decode, encoding)'),
         ])
    u.fn(S, 'coerce_response', sig_edits=nowhere,
         closures={0: dict(params='b: B', ret='(o: GrpcWebCall<B>)', ensures=['adapter(o, b, Direction::Encode, encoding, false)'])},
         ensures=[
             Clause('P1_status_version_extensions_untouched', 'r.status == res.status && r.version == res.version && r.extensions == res.extensions'),
             Clause('P2_content_type_is_the_accepted_grpc_web_flavour_other_headers_kept',
                    'r.headers@ =~= res.headers@.insert("content-type"@, seq![ascii_bytes(if encoding == Encoding::Base64 { "application/grpc-web-text+proto"@ } else { "application/grpc-web+proto"@ })])'),
             Clause('P3_body_is_the_original_body_behind_the_encoding_adapter', 'wraps_adapter(r.body, res.body, Direction::Encode, encoding)'),
         ])

    u.item(S, 'struct', 'ResponseFuture')
    u.item(S, 'enum', 'Case')
    u._emit('impl<F> Case<F> {'); u._open_header = 'impl<F> Case<F> {'
    u.fn(S, 'immediate', within='impl<F> Case<F>', ensures=[
        Clause('I1_immediate_response_with_that_status_and_no_headers',
               'r matches Case::ImmediateResponse { res: Some(p) } && p.status == status && p.headers@ == Map::<Seq<char>, Seq<Seq<u8>>>::empty()')])
    u.close('}')
    u.raw(FUT)
    u.fn(S, 'poll', within='impl<F, B, E> Future for ResponseFuture<F>', header='impl<F> ResponseFuture<F> {',
         sig_edits=[lambda t: t.sub_code('R9', r'Self::Output', 'Result<Response<Body>, E>'),
                    lambda t: t.sub_code('R12', r'fn poll\(', 'fn poll<B, E>('),
                    lambda t: t.edit('R12', len(t.t.rstrip()), len(t.t.rstrip()), ' where F: HttpFuture<B, E>')],
         closures={0: dict(params='res: Response<B>', ret='(o: Response<Body>)', ensures=['same_response(o, res)'])},
         requires=['old(self).case matches Case::ImmediateResponse { res } ==> res is Some'],
         ensures=[
             Clause('F1_grpc_web_response_is_the_grpc_response_re_labelled_for_the_accepted_flavour',
                    '''old(self).case matches Case::GrpcWeb { future, accept } ==> match r {
                        Poll::Ready(Ok(out)) => exists|res: Response<B>| #[trigger] future.resolves(Ok(res)) && web_response(out, res, accept),
                        Poll::Ready(Err(e)) => future.resolves(Err(e)),
                        Poll::Pending => true }'''),
             Clause('F2_pass_through_response_is_untouched',
                    '''old(self).case matches Case::Other { future } ==> match r {
                        Poll::Ready(Ok(out)) => exists|res: Response<B>| #[trigger] future.resolves(Ok(res)) && same_response(out, res),
                        Poll::Ready(Err(e)) => future.resolves(Err(e)),
                        Poll::Pending => true }'''),
             Clause('F3_immediate_response_is_that_status_with_an_empty_body',
                    '''old(self).case matches Case::ImmediateResponse { res: Some(p) } ==> (r matches Poll::Ready(Ok(out)) && out.status == p.status && out.headers == p.headers && out.body.of@ == empty_body())'''),
         ])

    # the wiring: GrpcWebLayer::layer installs a GrpcWebService around the service
    L = 'tonic-web/src/layer.rs'
    u.item(L, 'struct', 'GrpcWebLayer')
    u._emit('impl<S> GrpcWebService<S> {'); u._open_header = 'impl<S> GrpcWebService<S> {'
    u.fn(S, 'new', within='impl<S> GrpcWebService<S>', ensures=[Clause('W1_wraps_the_service', 'r.inner == inner')])
    u.close('}')
    u.fn(L, 'layer', within='impl<S> Layer<S> for GrpcWebLayer', header='impl GrpcWebLayer {', close=True,
         sig_edits=[lambda t: t.sub_code('R9', r'Self::Service', 'GrpcWebService<S>'), lambda t: t.sub_code('R12', r'fn layer\(', 'fn layer<S>(')],
         ensures=[Clause('W2_the_layer_installs_the_translation_around_the_service', 'r.inner == inner')])
    hdr = 'impl<S> GrpcWebService<S> {'
    mg = [lambda t: t.sub_code('R9', r'Self::Future', 'ResponseFuture<S::Future>'),
          lambda t: t.sub_code('R12', r'fn call\(', 'fn call<ReqBody>('),
          lambda t: t.edit('R12', len(t.t.rstrip()), len(t.t.rstrip()), ' where S: Service<Request<Body>>')]
    WEB = 'is_web(req.headers@)'
    ONE = 'final(self).inner.log().len() == old(self).inner.log().len() + 1 && final(self).inner.log().drop_last() == old(self).inner.log()'
    NONE = 'final(self).inner.log() == old(self).inner.log()'
    pr = [lambda t: t.sub_code('R9', r'Self::Error', '<S as Service<Request<Body>>>::Error'),
          lambda t: t.edit('R12', len(t.t.rstrip()), len(t.t.rstrip()), ' where S: Service<Request<Body>>')]
    u.fn(S, 'poll_ready', within='impl<S, ReqBody, ResBody> Service<Request<ReqBody>> for GrpcWebService<S>', header=hdr, close=True, sig_edits=pr, display='GrpcWebService::poll_ready',
         ensures=[Clause('K0_ready_exactly_when_the_wrapped_service_is_and_no_request_is_handed_on', 'r == old(self).inner.ready_now() && final(self).inner.log() == old(self).inner.log()')])
    u.fn(S, 'call', within='impl<S, ReqBody, ResBody> Service<Request<ReqBody>> for GrpcWebService<S>', header=hdr, sig_edits=mg, body_edits=[r21_ref_const_field_arms],
         hints=[('before', 'match RequestKind::new', '        let ghost log0 = self.inner.log(); broadcast use lemma_push_drop_last; proof { lemma_coerced_names_distinct(); }')],
         ensures=[
             Clause('K1_grpc_web_post_reaches_the_service_exactly_once_as_a_grpc_request',
                    WEB + ' && req.method == Method::POST ==> ' + ONE + ' && grpc_image(final(self).inner.log().last(), req)'
                    + ' && (r.case matches Case::GrpcWeb { accept, .. } && accept == enc_of(req.headers@, "accept"@))'),
             Clause('K2_grpc_web_but_not_post_is_405_and_never_reaches_the_service',
                    WEB + ' && req.method != Method::POST ==> ' + NONE + ' && (r.case matches Case::ImmediateResponse { res: Some(p) } && p.status == StatusCode::METHOD_NOT_ALLOWED)'),
             Clause('K3_other_http2_requests_pass_through_untouched',
                    '!' + WEB + ' && req.version == Version::HTTP_2 ==> ' + ONE + ' && same_request(final(self).inner.log().last(), req) && r.case is Other'),
             Clause('K4_other_http1_requests_are_400_and_never_reach_the_service',
                    '!' + WEB + ' && req.version != Version::HTTP_2 ==> ' + NONE + ' && (r.case matches Case::ImmediateResponse { res: Some(p) } && p.status == StatusCode::BAD_REQUEST)'),
         ])

    # ---- client.rs: the grpc-web CLIENT layer (C17: what the transport is handed, what the caller gets back) ----
    CL = 'tonic-web/src/client.rs'
    u._emit('impl<B> GrpcWebCall<B> {'); u._open_header = 'impl<B> GrpcWebCall<B> {'
    u.fn(C, 'new_client', within='impl<B> GrpcWebCall<B>', props=['C17'], ensures=[Clause('G3_client_side_adapter', 'adapter(r, inner, direction, encoding, true)')])
    u.fn(C, 'client_request', within='impl<B> GrpcWebCall<B>', props=['C17'], ensures=[Clause('G4_client_request_bodies_pass_through_the_encoder_in_binary_mode', 'adapter(r, inner, Direction::Encode, Encoding::None, true)')])
    u.fn(C, 'client_response', within='impl<B> GrpcWebCall<B>', props=['C17'], ensures=[Clause('G5_client_response_bodies_are_decoded_in_binary_mode', 'adapter(r, inner, Direction::Decode, Encoding::None, true)')])
    u.close('}')
    u.raw('''
// A-http-17 (R17): <HeaderValue as TryFrom<&str>>::try_from is Ok exactly for visible ASCII text and keeps it
pub open spec fn visible_text(s: Seq<char>) -> bool { forall|i: int| 0 <= i < s.len() ==> 32 <= (#[trigger] s[i]) as u32 && (s[i] as u32) < 127 }
#[verifier::external_body]
pub fn verif_header_value_try_from(s: &str) -> (r: Result<HeaderValue, InvalidHeaderValue>)
    ensures r is Ok <==> visible_text(s@), r matches Ok(v) ==> v@ == ascii_bytes(s@)
{ unimplemented!() }
pub proof fn lemma_grpc_web_is_visible_text()
    ensures visible_text("application/grpc-web"@)
{
    reveal_strlit("application/grpc-web");
    let s = "application/grpc-web"@;
    assert(s =~= seq!['a', 'p', 'p', 'l', 'i', 'c', 'a', 't', 'i', 'o', 'n', '/', 'g', 'r', 'p', 'c', '-', 'w', 'e', 'b']);
}
pub open spec fn client_request_image<B>(q: Request<GrpcWebCall<B>>, req: Request<B>) -> bool {
    &&& q.method == req.method && q.uri == req.uri && q.extensions == req.extensions
    &&& q.version == (if req.version == Version::HTTP_2 { Version::HTTP_11 } else { req.version })
    &&& q.headers@ =~= req.headers@.insert("content-type"@, seq![ascii_bytes("application/grpc-web"@)])
    &&& adapter(q.body, req.body, Direction::Encode, Encoding::None, true)
}
pub mod client {
    use crate::*;
    pub trait HttpFuture<B, E> {
        spec fn resolves(&self, x: Result<Response<B>, E>) -> bool;
        fn poll(&mut self, cx: &mut Context) -> (r: Poll<Result<Response<B>, E>>) ensures r matches Poll::Ready(x) ==> old(self).resolves(x);
    }
    pub struct PinMutF<'a, F> { pub p: &'a mut F }
    impl<'a, F> PinMutF<'a, F> {
        pub fn poll<B, E>(self, cx: &mut Context) -> (r: Poll<Result<Response<B>, E>>) where F: HttpFuture<B, E>
            ensures r matches Poll::Ready(x) ==> old(self.p).resolves(x)
        { self.p.poll(cx) }
    }
    pub struct ResponseFutureProj<'a, F> { pub inner: PinMutF<'a, F> }
''')
    u.item(CL, 'struct', 'GrpcWebClientService')
    u.item(CL, 'struct', 'ResponseFuture')
    u.raw('''    impl<F> ResponseFuture<F> {
        // A-pinproject-08: pin-project projection of the client ResponseFuture
        #[verifier::external_body]
        pub fn project(&mut self) -> (r: ResponseFutureProj<'_, F>) ensures *r.inner.p == old(self).inner, *final(r.inner.p) == final(self).inner { unimplemented!() }
    }
''')
    u.item(CL, 'struct', 'GrpcWebClientLayer')
    u.fn(CL, 'new', within='impl<S> GrpcWebClientService<S>', header='impl<S> GrpcWebClientService<S> {', close=True, props=['C17'], display='client::GrpcWebClientService::new',
         ensures=[Clause('CN1_wraps_this_transport', 'r.inner == inner')])
    u.fn(CL, 'layer', within='impl<S> Layer<S> for GrpcWebClientLayer', header='impl GrpcWebClientLayer {', close=True, props=['C17'], display='client::GrpcWebClientLayer::layer',
         sig_edits=[lambda t: t.sub_code('R9', r'Self::Service', 'GrpcWebClientService<S>'), lambda t: t.sub_code('R9', r'fn layer\(', 'fn layer<S>(')],
         ensures=[Clause('CL1_the_layer_wraps_the_transport_in_the_grpc_web_client_service', 'r.inner == inner')])
    u.fn(CL, 'poll_ready', within='impl<S, B1, B2> Service<Request<B1>> for GrpcWebClientService<S>', header='impl<S> GrpcWebClientService<S> {', close=True, props=['C17'],
         display='client::GrpcWebClientService::poll_ready',
         sig_edits=[lambda t: t.sub_code('R9', r'Self::Error', '<S as Service<Request<GrpcWebCall<B1>>>>::Error'), lambda t: t.sub_code('R12', r'fn poll_ready\(', 'fn poll_ready<B1>('),
                    lambda t: t.edit('R12', len(t.t.rstrip()), len(t.t.rstrip()), ' where S: Service<Request<GrpcWebCall<B1>>>')],
         ensures=[Clause('CW0_ready_exactly_when_the_transport_is_and_no_request_is_handed_on', 'r == old(self).inner.ready_now() && final(self).inner.log() == old(self).inner.log()')])
    u.fn(CL, 'call', within='impl<S, B1, B2> Service<Request<B1>> for GrpcWebClientService<S>', header='impl<S> GrpcWebClientService<S> {', close=True, props=['C17'],
         display='client::GrpcWebClientService::call',
         sig_edits=[lambda t: t.sub_code('R9', r'Self::Future', 'ResponseFuture<S::Future>'),
                    lambda t: t.sub_code('R12', r'fn call\(', 'fn call<B1>('),
                    lambda t: t.edit('R12', len(t.t.rstrip()), len(t.t.rstrip()), ' where S: Service<Request<GrpcWebCall<B1>>>')],
         body_edits=[lambda t: t.sub_code('R17', r'GRPC_WEB\.try_into\(\)', 'verif_header_value_try_from(GRPC_WEB)')],
         body_start='        proof { lemma_grpc_web_is_visible_text(); }',
         ensures=[Clause('CW1_the_transport_gets_an_http1_grpc_web_request_around_the_encoding_adapter',
                         'final(self).inner.log().len() == old(self).inner.log().len() + 1 && final(self).inner.log().drop_last() == old(self).inner.log() && client_request_image(final(self).inner.log().last(), req)')])
    u.fn(CL, 'poll', within='impl<F, B, E> Future for ResponseFuture<F>', header='impl<F> ResponseFuture<F> {', close=True, props=['C17'],
         display='client::ResponseFuture::poll',
         sig_edits=[lambda t: t.sub_code('R9', r'Self::Output', 'Result<Response<GrpcWebCall<B>>, E>'),
                    lambda t: t.sub_code('R12', r'fn poll\(', 'fn poll<B, E>('),
                    lambda t: t.edit('R12', len(t.t.rstrip()), len(t.t.rstrip()), ' where F: HttpFuture<B, E>')],
         closures={0: dict(params='r: Response<B>', ret='(o: Response<GrpcWebCall<B>>)',
                           ensures=['o.status == r.status && o.version == r.version && o.headers == r.headers && o.extensions == r.extensions && adapter(o.body, r.body, Direction::Decode, Encoding::None, true)'])},
         ensures=[Clause('CW2_the_caller_gets_the_transport_response_around_the_decoding_adapter',
                         '''match r { Poll::Ready(Ok(out)) => exists|res: Response<B>| #[trigger] old(self).inner.resolves(Ok(res)) && out.status == res.status && out.version == res.version
                                    && out.headers == res.headers && out.extensions == res.extensions && adapter(out.body, res.body, Direction::Decode, Encoding::None, true),
                                Poll::Ready(Err(e)) => old(self).inner.resolves(Err(e)),
                                Poll::Pending => true }''')])
    u._emit('} // mod client')
    return u
