"""U20 — tonic's TLS wiring (tonic/src/transport/{channel,server}/service/tls.rs, channel/tls.rs, server/tls.rs): WHAT tonic
asks rustls to do.  Client: the connector trusts exactly the configured roots, checks the configured (else the URI's) domain,
offers h2 and refuses a connection on which h2 was not negotiated unless the caller opted out; a client certificate is presented
exactly when an identity was configured.  Server: clients are verified against the configured client CA - mandatory unless made
optional, not at all when none is configured - and h2 is offered.  Carries the part of C15 that is tonic's own code; certificate
validation, the handshake and ALPN negotiation themselves are rustls (assumed)."""
import re
import vxlib
from vxlib import Unit, Clause, read_src, Infra
from units import common

ST = 'tonic/src/transport/service/tls.rs'
CT = 'tonic/src/transport/channel/service/tls.rs'
CC = 'tonic/src/transport/channel/tls.rs'
SV = 'tonic/src/transport/server/service/tls.rs'
SC = 'tonic/src/transport/server/tls.rs'
TL = 'tonic/src/transport/tls.rs'

RUSTLS = r"""
// ---- rustls / tokio-rustls as tonic drives them: configuration objects are records of what was asked for (A-rustls-01) ----
pub struct Arc<T> { pub t: T }
impl<T> Arc<T> {
    pub fn new(t: T) -> (r: Arc<T>) ensures r.t == t { Arc { t } }
    pub fn as_ref(&self) -> (r: &T) ensures *r == self.t { &self.t }
}
impl<T> Clone for Arc<T> { #[verifier::external_body] fn clone(&self) -> (r: Arc<T>) ensures r == *self { unimplemented!() } }
impl<T> core::ops::Deref for Arc<T> { type Target = T; fn deref(&self) -> (r: &T) ensures *r == self.t { &self.t } }
pub struct BoxError { pub id: Ghost<int> }
pub mod error_kinds {
    pub struct RustlsError { pub x: u8 }
    pub struct InvalidDnsNameError { pub x: u8 }
    pub struct IoError { pub x: u8 }
    pub struct VerifierBuilderError { pub x: u8 }
}
pub use error_kinds::*;
impl core::fmt::Debug for RustlsError { #[verifier::external_body] fn fmt(&self, f: &mut core::fmt::Formatter<'_>) -> core::fmt::Result { Ok(()) } }
// A-core-30: `?` converts these error types into the boxed error (From impls; the value is opaque)
pub trait IntoBoxErr {}
impl IntoBoxErr for RustlsError {} impl IntoBoxErr for InvalidDnsNameError {} impl IntoBoxErr for IoError {} impl IntoBoxErr for VerifierBuilderError {} impl IntoBoxErr for TlsError {}
impl<E: IntoBoxErr> vstd::std_specs::convert::FromSpecImpl<E> for BoxError {
    open spec fn obeys_from_spec() -> bool { false }
    open spec fn from_spec(v: E) -> Self { arbitrary() }
}
impl<E: IntoBoxErr> From<E> for BoxError { #[verifier::external_body] fn from(e: E) -> (r: BoxError) { unimplemented!() } }
// a DER certificate / private key / trust anchor / server name: opaque values
pub struct CertificateDer { pub id: int }
pub struct PrivateKeyDer { pub id: int }
pub struct TrustAnchor { pub id: int }
pub struct ServerName { pub name: Seq<char> }
impl ServerName {
    // A-rustls-03: ServerName::try_from(&str) keeps the text (or refuses it); to_owned is the same name
    #[verifier::external_body]
    pub fn try_from(s: &str) -> (r: Result<ServerName, InvalidDnsNameError>) ensures r matches Ok(n) ==> n.name == s@ { unimplemented!() }
    #[verifier::external_body]
    pub fn to_owned(&self) -> (r: ServerName) ensures r.name == self.name { unimplemented!() }
}
// what a root store trusts: trust anchors given directly and certificates added to it, in the order they were added
pub enum Root { Anchor(TrustAnchor), Cert(CertificateDer) }
pub open spec fn anchors_of(s: Seq<TrustAnchor>) -> Seq<Root> { s.map_values(|a: TrustAnchor| Root::Anchor(a)) }
pub open spec fn certs_of(s: Seq<CertificateDer>) -> Seq<Root> { s.map_values(|c: CertificateDer| Root::Cert(c)) }
pub struct RootCertStore { pub roots: Ghost<Seq<Root>> }
impl RootCertStore {
    #[verifier::external_body]
    pub fn from_iter(anchors: Vec<TrustAnchor>) -> (r: RootCertStore) ensures r.roots@ == anchors_of(anchors@) { unimplemented!() }
    #[verifier::external_body]
    pub fn empty() -> (r: RootCertStore) ensures r.roots@ == Seq::<Root>::empty() { unimplemented!() }
    #[verifier::external_body]
    pub fn is_empty(&self) -> (r: bool) ensures r == (self.roots@.len() == 0) { unimplemented!() }
    #[verifier::external_body]
    pub fn len(&self) -> (r: usize) ensures r == self.roots@.len() { unimplemented!() }
    #[verifier::external_body]
    pub fn add_parsable_certificates(&mut self, certs: Vec<CertificateDer>) -> (r: (usize, usize)) ensures final(self).roots@ == old(self).roots@ + certs_of(certs@) { unimplemented!() }
    pub fn into(self) -> (r: Arc<RootCertStore>) ensures r.t == self { Arc::new(self) }
}
pub ghost struct ClientAuth { pub certs: Seq<CertificateDer>, pub key: PrivateKeyDer }
pub struct KeyLogFile { pub x: u8 }
impl KeyLogFile { pub fn new() -> KeyLogFile { KeyLogFile { x: 0 } } }
pub struct CryptoProvider { pub id: Ghost<int> }
pub mod crypto {
    pub use super::CryptoProvider;
    impl CryptoProvider {
        #[verifier::external_body]
        pub fn get_default() -> Option<&'static super::Arc<CryptoProvider>> { unimplemented!() }
    }
    pub mod ring { #[verifier::external_body] pub fn default_provider() -> super::CryptoProvider { unimplemented!() } }
}
pub struct ClientConfig { pub roots: Ghost<Seq<Root>>, pub client_auth: Ghost<Option<ClientAuth>>, pub alpn_protocols: Vec<Vec<u8>>, pub key_log: Arc<KeyLogFile> }
pub struct WantsVersions { pub x: u8 }
pub struct WantsVerifier { pub x: u8 }
pub struct WantsClientCert { pub x: u8 }
pub struct ConfigBuilder<C, S> { pub roots: Ghost<Seq<Root>>, pub verifier: Ghost<Option<ClientVerifier>>, pub s: S, pub _c: core::marker::PhantomData<C> }
impl ClientConfig {
    #[verifier::external_body]
    pub fn builder() -> (r: ConfigBuilder<ClientConfig, WantsVerifier>) { unimplemented!() }
    #[verifier::external_body]
    pub fn builder_with_provider(p: Arc<CryptoProvider>) -> (r: ConfigBuilder<ClientConfig, WantsVersions>) { unimplemented!() }
}
impl ConfigBuilder<ClientConfig, WantsVersions> {
    // A-rustls-04: the default protocol versions are supported by the provider in use
    #[verifier::external_body]
    pub fn with_safe_default_protocol_versions(self) -> (r: Result<ConfigBuilder<ClientConfig, WantsVerifier>, RustlsError>) ensures r is Ok { unimplemented!() }
}
impl ConfigBuilder<ClientConfig, WantsVerifier> {
    #[verifier::external_body]
    pub fn with_root_certificates(self, roots: RootCertStore) -> (r: ConfigBuilder<ClientConfig, WantsClientCert>) ensures r.roots@ == roots.roots@ { unimplemented!() }
}
impl ConfigBuilder<ClientConfig, WantsClientCert> {
    #[verifier::external_body]
    pub fn with_client_auth_cert(self, certs: Vec<CertificateDer>, key: PrivateKeyDer) -> (r: Result<ClientConfig, RustlsError>)
        ensures r matches Ok(c) ==> c.roots@ == self.roots@ && c.client_auth@ == Some(ClientAuth { certs: certs@, key }) && c.alpn_protocols@.len() == 0
    { unimplemented!() }
    #[verifier::external_body]
    pub fn with_no_client_auth(self) -> (r: ClientConfig) ensures r.roots@ == self.roots@ && r.client_auth@ is None && r.alpn_protocols@.len() == 0 { unimplemented!() }
}
// ---- server side ----
pub ghost struct ClientVerifier { pub roots: Seq<Root>, pub optional: bool }
pub struct WebPkiClientVerifier { pub v: Ghost<ClientVerifier> }
pub struct ClientCertVerifierBuilder { pub roots: Ghost<Seq<Root>>, pub optional: bool }
impl WebPkiClientVerifier {
    #[verifier::external_body]
    pub fn builder(roots: Arc<RootCertStore>) -> (r: ClientCertVerifierBuilder) ensures r.roots@ == roots.t.roots@ && !r.optional { unimplemented!() }
}
impl ClientCertVerifierBuilder {
    #[verifier::external_body]
    pub fn allow_unauthenticated(self) -> (r: ClientCertVerifierBuilder) ensures r.roots@ == self.roots@ && r.optional { unimplemented!() }
    #[verifier::external_body]
    pub fn build(self) -> (r: Result<Arc<WebPkiClientVerifier>, VerifierBuilderError>)
        ensures r matches Ok(v) ==> v.t.v@ == (ClientVerifier { roots: self.roots@, optional: self.optional })
    { unimplemented!() }
}
pub ghost struct ServerIdentity { pub certs: Seq<CertificateDer>, pub key: PrivateKeyDer }
pub struct ServerConfig { pub client_verifier: Ghost<Option<ClientVerifier>>, pub identity: Ghost<ServerIdentity>, pub alpn_protocols: Vec<Vec<u8>>, pub ignore_client_order: bool, pub key_log: Arc<KeyLogFile> }
pub struct WantsServerCert { pub x: u8 }
impl ServerConfig {
    #[verifier::external_body]
    pub fn builder() -> (r: ConfigBuilder<ServerConfig, WantsVerifier>) { unimplemented!() }
}
impl ConfigBuilder<ServerConfig, WantsVerifier> {
    #[verifier::external_body]
    pub fn with_no_client_auth(self) -> (r: ConfigBuilder<ServerConfig, WantsServerCert>) ensures r.verifier@ is None { unimplemented!() }
    #[verifier::external_body]
    pub fn with_client_cert_verifier(self, v: Arc<WebPkiClientVerifier>) -> (r: ConfigBuilder<ServerConfig, WantsServerCert>) ensures r.verifier@ == Some(v.t.v@) { unimplemented!() }
}
impl ConfigBuilder<ServerConfig, WantsServerCert> {
    #[verifier::external_body]
    pub fn with_single_cert(self, certs: Vec<CertificateDer>, key: PrivateKeyDer) -> (r: Result<ServerConfig, RustlsError>)
        ensures r matches Ok(c) ==> c.client_verifier@ == self.verifier@ && c.identity@ == (ServerIdentity { certs: certs@, key }) && c.alpn_protocols@.len() == 0
    { unimplemented!() }
}
// ---- the handshake (A-rustls-02): what a successfully established session was established UNDER ----
pub struct ClientConnection { pub config: Ghost<ClientConfig>, pub domain: Ghost<ServerName>, pub alpn: Option<Vec<u8>> }
impl ClientConnection {
    pub fn alpn_protocol(&self) -> (r: Option<&[u8]>) ensures r is Some <==> self.alpn is Some, r matches Some(s) ==> s@ == self.alpn->Some_0@
    { match &self.alpn { Some(v) => Some(v.as_slice()), None => None } }
}
pub mod client { pub struct TlsStream<I> { pub io: I, pub session: super::ClientConnection } }
impl<I> client::TlsStream<I> {
    pub fn get_ref(&self) -> (r: (&I, &ClientConnection)) ensures *r.0 == self.io, *r.1 == self.session { (&self.io, &self.session) }
}
pub struct RustlsConnector { pub config: Arc<ClientConfig> }
impl RustlsConnector {
    pub fn from(config: Arc<ClientConfig>) -> (r: RustlsConnector) ensures r.config == config { RustlsConnector { config } }
    // a session exists only if the handshake succeeded, and then it was run with this configuration against this name
    #[verifier::external_body]
    pub async fn connect<I>(&self, domain: ServerName, io: I) -> (r: Result<client::TlsStream<I>, IoError>)
        ensures r matches Ok(s) ==> s.session.config@ == self.config.t && s.session.domain@ == domain
    { unimplemented!() }
}
pub struct ServerConnection { pub config: Ghost<ServerConfig>, pub peer: Option<Vec<CertificateDer>> }
pub mod server { pub struct TlsStream<IO> { pub io: IO, pub session: super::ServerConnection } }
pub struct RustlsAcceptor { pub config: Arc<ServerConfig> }
impl RustlsAcceptor {
    pub fn from(config: Arc<ServerConfig>) -> (r: RustlsAcceptor) ensures r.config == config { RustlsAcceptor { config } }
    #[verifier::external_body]
    pub async fn accept<IO>(&self, io: IO) -> (r: Result<server::TlsStream<IO>, IoError>)
        ensures r matches Ok(s) ==> s.session.config@ == self.config.t
    { unimplemented!() }
}
pub use server::TlsStream;
pub struct TokioIo<T> { pub t: T }
impl<T> TokioIo<T> { pub fn new(t: T) -> (r: TokioIo<T>) ensures r.t == t { TokioIo { t } } }
// BoxedIo erases the stream type; what it was made from stays visible to the specification
pub struct BoxedIo { pub tls: Ghost<Option<ClientConnection>> }
pub trait MaybeTls { spec fn session(&self) -> Option<ClientConnection>; }
impl<I> MaybeTls for TokioIo<client::TlsStream<I>> { open spec fn session(&self) -> Option<ClientConnection> { Some(self.t.session) } }
impl BoxedIo {
    #[verifier::external_body]
    pub fn new<T: MaybeTls>(io: T) -> (r: BoxedIo) ensures r.tls@ == io.session() { unimplemented!() }
}
pub open spec fn h2() -> Seq<u8> { seq![104u8, 50u8] }
// PEM parsing (rustls-pki-types): a function of the bytes (A-rustls-05)
pub uninterp spec fn pem_certs(pem: Seq<u8>) -> Option<Seq<CertificateDer>>;
pub uninterp spec fn pem_key(pem: Seq<u8>) -> Option<PrivateKeyDer>;
#[verifier::external_body]
pub fn verif_slice_to_vec(s: &[u8]) -> (r: Vec<u8>) ensures r@ == s@ { s.into() }
#[verifier::external_body]
pub fn verif_opt_bytes_eq(a: Option<&[u8]>, b: Option<&[u8]>) -> (r: bool) ensures r == (match (a, b) { (Some(x), Some(y)) => x@ == y@, (None, None) => true, _ => false }) { a == b }
pub mod tokio_rustls { pub mod rustls { pub use crate::KeyLogFile; } }
pub trait AsyncRead {}
pub trait AsyncWrite {}
// ---- the connector (connector.rs): the plain stream the inner connector yields, and the error wrapper ----
pub struct PlainIo { pub id: Ghost<int> }
impl MaybeTls for PlainIo { open spec fn session(&self) -> Option<ClientConnection> { None } }
impl AsyncRead for TokioIo<PlainIo> {} impl AsyncWrite for TokioIo<PlainIo> {}
pub struct ConnectError(pub BoxError);
pub struct HttpsUriWithoutTlsSupport(pub ());
impl IntoBoxErr for HttpsUriWithoutTlsSupport {}
use core::future::Future;
use vstd::future::FutureAdditionalSpecFns;
// Box::pin only moves the future to the heap (A-core-33); tower Service over a Uri (A-tower-06: the inner connector's future)
pub mod verif_box { use vstd::prelude::*; pub struct Box { pub x: u8 } impl Box { pub fn pin<F>(f: F) -> (r: F) ensures r == f { f } } }
pub use verif_box::Box;
// the user's connector (tower Service<Uri>): what its next poll_ready will answer is a (ghost) property of its state
pub trait UriService: Sized {
    type Error: IntoBoxErr;
    type Future: Future<Output = Result<PlainIo, BoxError>>;
    spec fn ready_now(&self) -> Poll<Result<(), Self::Error>>;
    fn poll_ready(&mut self, cx: &mut Context) -> (r: Poll<Result<(), Self::Error>>) ensures r == old(self).ready_now();
    fn call(&mut self, uri: Uri) -> Self::Future;
}
impl<T, E> Poll<Result<T, E>> {
    // A-core-09: Poll::map_err maps the Err of a ready result
    #[verifier::external_body]
    pub fn map_err<U, G: FnOnce(E) -> U>(self, f: G) -> (r: Poll<Result<T, U>>)
        requires self matches Poll::Ready(Err(e)) ==> f.requires((e,))
        ensures
            self is Pending ==> r is Pending,
            self matches Poll::Ready(Ok(t)) ==> r == Poll::<Result<T, U>>::Ready(Ok(t)),
            self matches Poll::Ready(Err(e)) ==> r matches Poll::Ready(Err(u)) && f.ensures((e,), u),
    { unimplemented!() }
}
#[verifier::external_body]
pub fn verif_opt_str_eq(a: Option<&str>, b: Option<&str>) -> (r: bool) ensures r == (match (a, b) { (Some(x), Some(y)) => x@ == y@, (None, None) => true, _ => false }) { a == b }
pub open spec fn is_https(uri: Uri) -> bool { uri.scheme matches Some(s) && s@ == "https"@ }
// the three facts about a connection attempt (what C15 says of the connector)
pub open spec fn connect_ok(https: bool, tls: Option<TlsConnector>, r: Result<BoxedIo, ConnectError>) -> bool {
    &&& (https && tls is None) ==> r is Err
    &&& (https && r is Ok) ==> (tls is Some && r->Ok_0.tls@ is Some && r->Ok_0.tls@->Some_0.config@ == tls->Some_0.config.t && r->Ok_0.tls@->Some_0.domain@.name == tls->Some_0.domain.t.name
            && (tls->Some_0.assume_http2 || (r->Ok_0.tls@->Some_0.alpn is Some && r->Ok_0.tls@->Some_0.alpn->Some_0@ == h2())))
    &&& (!https && r is Ok) ==> r->Ok_0.tls@ is None
}
// the accepted stream and its session, as conn.rs reads them (A-rustls-06: peer_certificates() is the chain the peer presented
// and rustls verified; None when the client presented none)
impl<IO> server::TlsStream<IO> {
    pub fn get_ref(&self) -> (r: (&IO, &ServerConnection)) ensures *r.0 == self.io, *r.1 == self.session { (&self.io, &self.session) }
}
impl ServerConnection {
    pub fn peer_certificates(&self) -> (r: Option<&[CertificateDer]>) ensures r is Some <==> self.peer is Some, r matches Some(s) ==> s@ == self.peer->Some_0@
    { match &self.peer { Some(v) => Some(v.as_slice()), None => None } }
}
// A-core-34: Option::is_some_and: true exactly when there is a value the predicate accepts
pub assume_specification<T, F: FnOnce(T) -> bool>[ Option::<T>::is_some_and ](o: Option<T>, f: F) -> (r: bool)
    requires o matches Some(x) ==> f.requires((x,)),
    ensures o is None ==> !r, o matches Some(x) ==> f.ensures((x,), r);
pub assume_specification<T: Clone>[ <[T] as ToOwned>::to_owned ](s: &[T]) -> (r: Vec<T>) ensures r@.len() == s@.len(), forall|i: int| 0 <= i < s@.len() ==> call_ensures(T::clone, (&s@[i],), #[trigger] r@[i]);
// Arc<Vec<T>>: From<Vec<T>> (A-core-32)
impl vstd::std_specs::convert::FromSpecImpl<Vec<CertificateDer>> for Arc<Vec<CertificateDer>> {
    open spec fn obeys_from_spec() -> bool { true }
    open spec fn from_spec(v: Vec<CertificateDer>) -> Self { Arc { t: v } }
}
impl From<Vec<CertificateDer>> for Arc<Vec<CertificateDer>> { fn from(v: Vec<CertificateDer>) -> (r: Self) { Arc { t: v } } }
// A-core-32: <[T]>::to_owned().into(): the slice as a shared vector
#[verifier::external_body]
pub fn verif_arc_vec(s: &[CertificateDer]) -> (r: Arc<Vec<CertificateDer>>) ensures r.t@ == s@ { unimplemented!() }
impl Clone for CertificateDer { #[verifier::external_body] fn clone(&self) -> (r: Self) ensures r == *self { unimplemented!() } }
// A-core-26: `impl<T> From<T> for T` is the identity (a String argument's `.into()`)
pub assume_specification<T>[<T as From<T>>::from](t: T) -> (r: T) ensures r == t;
// A-core-31: Vec::extend with a Vec appends its elements in order
#[verifier::external_body]
pub fn verif_vec_extend<T>(v: &mut Vec<T>, more: Vec<T>) ensures final(v)@ == old(v)@ + more@ { v.extend(more) }
// A-http-40: http::Uri::host is the authority's host, if any
pub struct Uri { pub host: Option<String>, pub scheme: Option<String> }
impl Uri {
    pub fn scheme_str(&self) -> (r: Option<&str>) ensures r is Some <==> self.scheme is Some, r matches Some(h) ==> h@ == self.scheme->Some_0@ { match &self.scheme { Some(h) => Some(h.as_str()), None => None } }
    pub fn host(&self) -> (r: Option<&str>) ensures r is Some <==> self.host is Some, r matches Some(h) ==> h@ == self.host->Some_0@ { match &self.host { Some(h) => Some(h.as_str()), None => None } } }
pub struct Error { pub x: u8 }
impl Error { pub fn new_invalid_uri() -> Error { Error { x: 0 } } }
impl IntoBoxErr for Error {}
"""


SRVIO = r"""
// ---- the accept loop (io_stream.rs): tokio / futures / pin-project as it uses them ----
// A-tokio-10: a JoinSet is known by what each of its tasks may yield: spawning adds the promise of that future, nothing else does
#[verifier::reject_recursive_types(T)]
pub struct JoinSet<T> { pub promises: Ghost<Seq<spec_fn(T) -> bool>> }
impl<T> JoinSet<T> {
    #[verifier::external_body]
    pub fn new() -> (r: Self) ensures r.promises@.len() == 0 { unimplemented!() }
    #[verifier::external_body]
    pub fn spawn<F: Future<Output = T>>(&mut self, task: F)
        ensures final(self).promises@ == old(self).promises@.push(|v: T| task.awaited() && task@ == v)
    { unimplemented!() }
}
// A-core-40: Context::waker().wake_by_ref() asks to be polled again: no effect on any value here
pub struct Waker { pub x: u8 }
impl Context {
    #[verifier::external_body] pub fn waker(&self) -> (r: &Waker) { unimplemented!() }
}
impl Waker { #[verifier::external_body] pub fn wake_by_ref(&self) { unimplemented!() } }
pub enum ControlFlow<B, C = ()> { Continue(C), Break(B) }
// the listener: a stream of accepted connections (tokio_stream::Stream<Item = Result<IO, IE>>), polled through its pin
pub trait Incoming { type IO; type IE; fn poll_next(&mut self, cx: &mut Context) -> (r: Poll<Option<Result<Self::IO, Self::IE>>>); }
pub struct PinMutS<'a, S> { pub p: &'a mut S }
impl<'a, S> PinMutS<'a, S> {
    pub fn poll_next<IO, IE>(self, cx: &mut Context) -> (r: Poll<Option<Result<IO, IE>>>) where S: Incoming<IO = IO, IE = IE> { self.p.poll_next(cx) }
}
// A-pinproject-12: pin-project's projection of ServerIoStream (field-wise reborrow); Pin::as_mut is a reborrow
#[verifier::reject_recursive_types(IO)]
pub struct ServerIoStreamProj<'a, S, IO> { pub inner: PinMutS<'a, S>, pub state: &'a mut Option<State<IO>> }
impl<S: Incoming<IO = IO, IE = IE>, IO, IE> ServerIoStream<S, IO, IE> {
    #[verifier::external_body]
    pub fn project(&mut self) -> (r: ServerIoStreamProj<'_, S, IO>)
        ensures *r.state == old(self).state, *final(r.state) == final(self).state
    { unimplemented!() }
    pub fn as_mut(&mut self) -> (r: &mut Self) ensures *r == *old(self), *final(r) == *final(self) { self }
}
// A-derive-05: #[derive(Clone)] on TlsAcceptor (dropped with the attributes): the same acceptor
impl Clone for TlsAcceptor { #[verifier::external_body] fn clone(&self) -> (r: Self) ensures r == *self { unimplemented!() } }
// tonic's handle_tcp_accept_error (which accept errors are fatal): an opaque call, nothing is assumed of its answer
#[verifier::external_body]
pub fn handle_tcp_accept_error<E>(e: E) -> ControlFlow<BoxError> { unimplemented!() }
// what the property says of a connection a TLS server hands to the HTTP stack: it is a TLS stream whose handshake ran under
// the configured acceptor (so client certificates were checked as TlsAcceptor::new set it up, A1-A3)
pub open spec fn made_by<IO>(tls: TlsAcceptor, v: Result<ServerIo<IO>, BoxError>) -> bool {
    v matches Ok(io) ==> (io matches ServerIo::TlsIo(s) && s.session.config@ == tls.inner.t)
}
impl<S: Incoming<IO = IO, IE = IE>, IO, IE> ServerIoStream<S, IO, IE> {
    // every handshake task in flight was started with this stream's acceptor
    pub open spec fn wf(&self) -> bool {
        self.state matches Some(st) ==> forall|i: int, v: Result<ServerIo<IO>, BoxError>| 0 <= i < st.1.promises@.len() && #[trigger] st.1.promises@[i](v) ==> made_by(st.0, v)
    }
}
// A-tonic-select-01: tonic's `select` (tokio::select! over the listener and the handshake tasks: not expressible here, its text
// is pinned by a guard), created and polled once: a finished connection is one some task in the set yielded, and polling
// adds no task
#[verifier::external_body]
pub fn verif_poll_select<S, IO, IE>(incoming: &mut PinMutS<'_, S>, tasks: &mut JoinSet<Result<ServerIo<IO>, BoxError>>, cx: &mut Context) -> (r: Poll<SelectOutput<IO>>)
    where S: Incoming<IO = IO, IE = IE>
    ensures
        forall|i: int| 0 <= i < final(tasks).promises@.len() ==> exists|j: int| 0 <= j < old(tasks).promises@.len() && #[trigger] old(tasks).promises@[j] == #[trigger] final(tasks).promises@[i],
        r matches Poll::Ready(SelectOutput::Io(io)) ==> exists|i: int| 0 <= i < old(tasks).promises@.len() && #[trigger] old(tasks).promises@[i](Ok(io)),
{ unimplemented!() }
"""

SELECT_TEXT = """async fn select<IO: 'static, IE>( incoming: &mut (impl Stream<Item = Result<IO, IE>> + Unpin), tasks: &mut JoinSet<Result<ServerIo<IO>, crate::BoxError>>, ) -> SelectOutput<IO> where IE: Into<crate::BoxError>, { let incoming_stream_future = async { match incoming.try_next().await { Ok(Some(stream)) => SelectOutput::Incoming(stream), Ok(None) => SelectOutput::Done, Err(e) => SelectOutput::TcpErr(e.into()), } }; if tasks.is_empty() { return incoming_stream_future.await; } tokio::select! { stream = incoming_stream_future => stream, accept = tasks.join_next() => { match accept.expect("JoinSet should never end") { Ok(Ok(io)) => SelectOutput::Io(io), Ok(Err(e)) => SelectOutput::TlsErr(e), Err(e) => SelectOutput::TlsErr(e.into()), } } } }"""


def server_io(u):
    """tonic/src/transport/server/io_stream.rs: the accept loop.  With a TLS acceptor configured, nothing reaches the HTTP stack
    but streams whose handshake completed under that acceptor."""
    IO = 'tonic/src/transport/server/io_stream.rs'
    SI = 'tonic/src/transport/server/service/io.rs'
    be = [lambda t: t.sub_code('R12', r'crate::BoxError', 'BoxError')]
    # this unit shadows `Box` for Box::pin (the connector); here the real one is meant
    stdbox = [lambda t: t.sub_code('R12', r'\bBox(<|::new)', r'std::boxed::Box\1')]
    u.item(SI, 'enum', 'ServerIo', edits=stdbox)
    u.item(IO, 'struct', 'State', edits=be + [lambda t: t.sub_code('R7', r'\(TlsAcceptor, JoinSet', '(pub TlsAcceptor, pub JoinSet')], attrs=['#[verifier::reject_recursive_types(IO)]'])
    u.item(IO, 'struct', 'ServerIoStream', attrs=['#[verifier::reject_recursive_types(IO)]', '#[verifier::reject_recursive_types(IE)]'], edits=[lambda t: t.sub_code('R12', r'S: Stream<Item = Result<IO, IE>>,', 'S: Incoming<IO = IO, IE = IE>,')])
    u.item(IO, 'enum', 'SelectOutput', edits=be)
    u.fn_guard(IO, 'select', SELECT_TEXT, why='A-tonic-select-01')
    u.raw(SRVIO)
    u._emit('impl<IO> ServerIo<IO> {'); u._open_header = 'impl<IO> ServerIo<IO> {'
    u.fn(SI, 'new_io', within='impl<IO> ServerIo<IO>', display='ServerIo::new_io', ensures=[Clause('O1_a_plain_connection', 'r == ServerIo::Io(io)')])
    u.fn(SI, 'new_tls_io', within='impl<IO> ServerIo<IO>', display='ServerIo::new_tls_io', body_edits=stdbox, ensures=[Clause('O2_the_tls_stream_it_was_given', 'r matches ServerIo::TlsIo(s) && *s == io')])
    u.close('}')
    # R28: the handshake task handed to JoinSet::spawn, lifted into an async fn of the two variables it captures
    src = read_src(IO)
    code = vxlib.code_mask(src)
    m = re.search(r'tasks\.spawn\(async move \{', src)
    if not m:
        raise Infra('%s: `tasks.spawn(async move {` not found' % IO)
    bo = m.end() - 1
    bend = vxlib.match_brace(src, code, bo)
    if not src[bend:].lstrip().startswith(');'):
        raise Infra('%s: the spawn call does not end with `});`' % IO)
    block = src[bo:bend]
    stmt_end = src.index(');', bend) + 2
    task = '\nasync fn verif_accept_task<IO: AsyncRead + AsyncWrite + Unpin>(tls: TlsAcceptor, stream: IO) -> Result<ServerIo<IO>, crate::BoxError> ' + block + '\n'
    hoisted = src[:m.start()] + 'tasks.spawn(verif_accept_task(tls, stream));' + src[stmt_end:] + task
    V = IO + '#R28'
    saved_ov = getattr(vxlib.TLS, 'override', None)
    ov = dict(saved_ov or {})
    ov[V] = hoisted
    vxlib.TLS.override = ov
    u.rewrites.append(dict(item='ServerIoStream::poll_next', rule='R28', old='tasks.spawn(async move { .. });', new='tasks.spawn(verif_accept_task(tls, stream));  + async fn verif_accept_task(tls, stream) { .. }'))
    try:
        u.fn(V, 'verif_accept_task', display='ServerIoStream::poll_next::accept_task', sig_edits=be, body_edits=be,
             ensures=[Clause('K1_the_task_yields_a_connection_only_after_a_handshake_under_its_acceptor', 'made_by(tls, r)')])
        W = 'impl<S, IO, IE> ServerIoStream<S, IO, IE>'
        hdr = 'impl<S: Incoming<IO = IO, IE = IE>, IO: AsyncRead + AsyncWrite + Unpin, IE: Into<BoxError>> ServerIoStream<S, IO, IE> {'
        u._emit(hdr); u._open_header = hdr
        u.fn(V, 'new', within=W, display='ServerIoStream::new', sig_edits=be,
             closures={0: dict(params='tls: TlsAcceptor', ret='(x: State<IO>)', ensures=['x.0 == tls', 'x.1.promises@.len() == 0'])},
             ensures=[Clause('K2_the_stream_accepts_with_the_configured_acceptor_or_not_at_all',
                             'r.wf() && (match tls { Some(t) => r.state matches Some(st) && st.0 == t, None => r.state is None })')])
        u.fn(V, 'poll_next_without_tls', within=W, display='ServerIoStream::poll_next_without_tls', sig_edits=be, body_edits=be,
             ensures=[Clause('K3_the_acceptor_state_is_untouched', 'final(self).state == old(self).state'),
                      Clause('K4_plain_connections', 'r matches Poll::Ready(Some(Ok(io))) ==> io is Io', props=[])])
        u.fn(V, 'poll_next', within='impl<S, IO, IE> Stream for ServerIoStream<S, IO, IE>', nth=1, display='ServerIoStream::poll_next',
             sig_edits=be + [lambda t: t.sub_code('R9', r'Self::Item', 'Result<ServerIo<IO>, BoxError>')],
             body_edits=be + [lambda t: t.sub_code('R32', r'pin!\(select\(&mut projected\.inner, tasks\)\)\.poll\(cx\)', 'verif_poll_select(&mut projected.inner, tasks, cx)')],
             requires=['old(self).wf()'],
             ensures=[Clause('K5_with_an_acceptor_configured_only_connections_that_completed_a_handshake_under_it_are_handed_on',
                             'old(self).state matches Some(st) ==> (r matches Poll::Ready(Some(Ok(io))) ==> (io matches ServerIo::TlsIo(s) && s.session.config@ == st.0.inner.t))'),
                      Clause('K6_the_acceptor_never_changes_and_every_task_in_flight_uses_it',
                             'final(self).wf() && (match old(self).state { Some(st) => final(self).state matches Some(st2) && st2.0 == st.0, None => final(self).state is None })')])
        u.close('}')
    finally:
        vxlib.TLS.override = saved_ov


CHAIN = r"""
// ---- from the accepted connection to the request a handler sees (service/io.rs) ----
pub mod http {
    use super::*;
    // http::Request as far as the ConnectInfo service touches it
    pub struct Request<B> { pub extensions: Extensions, pub body: B }
    impl<B> Request<B> {
        pub fn extensions_mut(&mut self) -> (r: &mut Extensions) ensures *r == old(self).extensions, *final(r) == final(self).extensions, final(self).body == old(self).body { &mut self.extensions }
    }
}
// A-derive-06: #[derive(Clone)] on TcpConnectInfo / TlsConnectInfo (dropped with the attributes): the same value
impl Clone for TcpConnectInfo { #[verifier::external_body] fn clone(&self) -> (r: Self) ensures r == *self { unimplemented!() } }
impl<T: Clone> Clone for TlsConnectInfo<T> { #[verifier::external_body] fn clone(&self) -> (r: Self) ensures r == *self { unimplemented!() } }
// tower_layer::Layer / tower_service::Service with a ghost member: what one `call` does with the request it is handed
// (each implementation states it; a caller of a generic service sees only that)
pub trait Layer<S> { type Service; fn layer(&self, inner: S) -> Self::Service; }
pub trait Service<Request>: Sized {
    type Response; type Error; type Future;
    spec fn call_post(pre: Self, post: Self, req: Request) -> bool;
    fn poll_ready(&mut self, cx: &mut Context) -> Poll<Result<(), Self::Error>>;
    fn call(&mut self, req: Request) -> (r: Self::Future) ensures Self::call_post(*old(self), *final(self), req);
}
// what C15 says of the ConnectInfo service: on a TLS connection the wrapped service is handed the request with that
// connection's TlsConnectInfo in its extensions (body untouched); on a plain one the TLS entry is left as it came
pub open spec fn carries_info<IO: Connected<ConnectInfo = TcpConnectInfo>, B>(ci: ServerIoConnectInfo<IO>, req: http::Request<B>, q: http::Request<B>) -> bool {
    q.body == req.body && (match ci { ServerIoConnectInfo::TlsIo(i) => q.extensions.tls_info == Some(i), ServerIoConnectInfo::Io(i) => q.extensions.tls_info == req.extensions.tls_info })
}
"""


def peer_chain(u):
    """tonic/src/transport/server/service/io.rs: ServerIo::connect_info and the ConnectInfo service: every request served on a
    TLS connection carries that connection's TlsConnectInfo (hence the verified peer certificates) in its extensions."""
    SI = 'tonic/src/transport/server/service/io.rs'
    CN = 'tonic/src/transport/server/conn.rs'
    u.raw(CHAIN)
    u.item(SI, 'enum', 'ServerIoConnectInfo')
    u.item(SI, 'struct', 'ConnectInfoLayer')
    u.item(SI, 'struct', 'ConnectInfo')
    u._emit('impl<T> TlsConnectInfo<T> {'); u._open_header = 'impl<T> TlsConnectInfo<T> {'
    u.fn(CN, 'get_ref', within='impl<T> TlsConnectInfo<T>', display='TlsConnectInfo::get_ref', ensures=[Clause('P3_the_inner_connection_info', '*r == self.inner')])
    u.fn(CN, 'get_mut', within='impl<T> TlsConnectInfo<T>', display='TlsConnectInfo::get_mut',
         ensures=[Clause('P4_the_inner_connection_info_and_nothing_else_can_be_changed_through_it', '*r == old(self).inner && *final(r) == final(self).inner && final(self).certs == old(self).certs')])
    u.close('}')
    hdr = 'impl<IO: Connected> ServerIo<IO> {'
    u._emit(hdr); u._open_header = hdr
    u.fn(SI, 'connect_info', within='impl<IO> ServerIo<IO>', display='ServerIo::connect_info',
         ensures=[Clause('O3_the_connect_info_of_a_tls_connection_is_the_one_its_tls_stream_reports',
                         'match *self { ServerIo::Io(io) => r matches ServerIoConnectInfo::Io(i) && io.info_ok(i), ServerIo::TlsIo(s) => r matches ServerIoConnectInfo::TlsIo(i) && (*s).info_ok(i) }')])
    u.close('}')
    # the listener's own connect info is TcpConnectInfo in this unit (the Extensions model names the entries it holds)
    tcp = 'IO: Connected<ConnectInfo = TcpConnectInfo>'
    u.fn(SI, 'clone', within='impl<IO: Connected> Clone for ServerIoConnectInfo<IO>', header='impl<%s> Clone for ServerIoConnectInfo<IO> {' % tcp, close=True, vacuity=False,
         display='ServerIoConnectInfo::clone', ensures=[Clause('O4_the_same_connect_info', 'r == *self')])
    u._emit('impl<T> ConnectInfoLayer<T> {'); u._open_header = 'impl<T> ConnectInfoLayer<T> {'
    u.fn(SI, 'new', within='impl<T> ConnectInfoLayer<T>', display='ConnectInfoLayer::new', ensures=[Clause('O5_the_layer_holds_the_connect_info', 'r.connect_info == connect_info')])
    u.close('}')
    u._emit('impl<S, T> ConnectInfo<S, T> {'); u._open_header = 'impl<S, T> ConnectInfo<S, T> {'
    u.fn(SI, 'new', within='impl<S, T> ConnectInfo<S, T>', display='ConnectInfo::new', ensures=[Clause('O6_service_and_connect_info_as_given', 'r.inner == inner && r.connect_info == connect_info')])
    u.close('}')
    hdr = 'impl<S, T: Clone> Layer<S> for ConnectInfoLayer<T> {'
    u._emit(hdr + '\n    type Service = ConnectInfo<S, T>;'); u._open_header = hdr
    u.fn(SI, 'layer', within='impl<S, T> Layer<S> for ConnectInfoLayer<T>', display='ConnectInfoLayer::layer',
         ensures=[Clause('O7_the_wrapped_service_carries_a_clone_of_the_connect_info', 'r.inner == inner && cloned(self.connect_info, r.connect_info)')])
    u.close('}')
    hdr = 'impl<S: Service<http::Request<ReqBody>>, %s, ReqBody> Service<http::Request<ReqBody>> for ConnectInfo<S, ServerIoConnectInfo<IO>> {' % tcp
    u._emit(hdr + """
    type Response = S::Response;
    type Error = S::Error;
    type Future = S::Future;
    open spec fn call_post(pre: Self, post: Self, req: http::Request<ReqBody>) -> bool {
        post.connect_info == pre.connect_info && exists|q: http::Request<ReqBody>| #[trigger] S::call_post(pre.inner, post.inner, q) && carries_info(pre.connect_info, req, q)
    }"""); u._open_header = hdr
    W = 'impl<S, IO, ReqBody> Service<http::Request<ReqBody>> for ConnectInfo<S, ServerIoConnectInfo<IO>>'
    u.fn(SI, 'poll_ready', within=W, display='ConnectInfo::poll_ready')
    u.fn(SI, 'call', within=W, display='ConnectInfo::call',
         body_start='        let ghost req0 = req; let ghost pre = *self;',
         body_edits=[lambda t: vxlib.r20_let_intro(t, 'self.inner.call(req)', 'verif_fut')],
         hints=[('before', '{ let verif_fut = self.inner.call(req);', '        let ghost q0 = req;'),
                ('after', '{ let verif_fut = self.inner.call(req);', '        proof { assert(S::call_post(pre.inner, self.inner, q0)); assert(carries_info(pre.connect_info, req0, q0)); }')],
         ensures=[Clause('O8_every_request_on_a_tls_connection_carries_its_tls_connect_info_to_the_service',
                         'exists|q: http::Request<ReqBody>| #[trigger] S::call_post(old(self).inner, final(self).inner, q) && carries_info(old(self).connect_info, req, q)'),
                  Clause('O9_the_connect_info_stays', 'final(self).connect_info == old(self).connect_info')])
    u.close('}')


def build():
    u = Unit('tls', ['C15'])
    saved = set(vxlib.ENABLED_FEATURES)
    # the fixed configuration of this unit: TLS through ring, no extra root sources
    vxlib.ENABLED_FEATURES.discard('tls-aws-lc')
    try:
        return build_inner(u)
    finally:
        vxlib.ENABLED_FEATURES.clear(); vxlib.ENABLED_FEATURES.update(saved)


def build_inner(u):
    u.prelude('base.rs')
    u.item(TL, 'struct', 'Certificate')
    u.item(TL, 'struct', 'Identity')
    u.raw(RUSTLS)
    u.item(ST, 'enum', 'TlsError')
    def bytes_as_array(t):
        # R15: a byte-string literal becomes the array of its bytes
        m = re.search(r'b"([ -~]*)"', t.t)
        if not m or '\\' in m.group(1):
            raise Infra('ALPN_H2 is not a plain byte-string literal any more')
        t.edit('R15', m.start(), m.end(), '&[' + ', '.join('%du8' % ord(c) for c in m.group(1)) + ']', 'byte-string literal')
    u.exec_const(ST, 'ALPN_H2', indent='', edits=[bytes_as_array], ensures=[Clause('A1_the_alpn_identifier_of_http2', 'ALPN_H2@ == seq![104u8, 50u8]')])
    u.fn_guard(ST, 'convert_certificate_to_pki_types', 'pub(crate) fn convert_certificate_to_pki_types( certificate: &Certificate, ) -> Result<Vec<CertificateDer<\'static>>, TlsError> { CertificateDer::pem_reader_iter(&mut Cursor::new(certificate)) .collect::<Result<Vec<_>, _>>() .map_err(|_| TlsError::CertificateParseError) }', why='A-rustls-05')
    u.raw('''
// A-rustls-05: the PEM readers of service/tls.rs (iterator adapters over rustls-pki-types) as functions of the bytes
#[verifier::external_body]
pub fn convert_certificate_to_pki_types(certificate: &Certificate) -> (r: Result<Vec<CertificateDer>, TlsError>)
    ensures r is Ok <==> pem_certs(certificate.pem@) is Some, r matches Ok(v) ==> Some(v@) == pem_certs(certificate.pem@)
{ unimplemented!() }
#[verifier::external_body]
pub fn verif_key_from_pem(key: &Vec<u8>) -> (r: Result<PrivateKeyDer, TlsError>)
    ensures r is Ok <==> pem_key(key@) is Some, r matches Ok(k) ==> Some(k) == pem_key(key@)
{ unimplemented!() }
// the roots a list of CA certificates contributes, in order (None as soon as one of them does not parse)
pub open spec fn ca_roots(cs: Seq<Certificate>) -> Option<Seq<Root>> decreases cs.len() {
    if cs.len() == 0 { Some(Seq::<Root>::empty()) } else {
        match (ca_roots(cs.drop_last()), pem_certs(cs.last().pem@)) { (Some(a), Some(b)) => Some(a + certs_of(b)), _ => None }
    }
}
''')
    u.fn(ST, 'convert_identity_to_pki_types',
         body_edits=[lambda t: t.sub_code('R17', r'PrivateKeyDer::from_pem_reader\(&mut Cursor::new\(&identity\.key\)\)\s*\.map_err\(\|_e?\| TlsError::PrivateKeyParseError\)', 'verif_key_from_pem(&identity.key)')],
         sig_edits=[lambda t: t.sub_code('R12', r"<'static>", '')],
         ensures=[Clause('I1_certificate_chain_and_key_of_the_identity', 'r matches Ok(p) ==> Some(p.0@) == pem_certs(identity.cert.pem@) && Some(p.1) == pem_key(identity.key@)'),
                  Clause('I2_fails_exactly_when_one_of_them_does_not_parse', 'r is Ok <==> (pem_certs(identity.cert.pem@) is Some && pem_key(identity.key@) is Some)')])
    # ---- client ----
    u.item(CT, 'struct', 'TlsConnector', edits=[lambda t: t.sub_code('R12', r"ServerName<'static>", 'ServerName')])
    u._emit('impl TlsConnector {'); u._open_header = 'impl TlsConnector {'
    W = 'impl TlsConnector'
    lt = [lambda t: t.sub_code('R12', r"TrustAnchor<'static>", 'TrustAnchor'), lambda t: t.sub_code('R12', r'crate::BoxError', 'BoxError')]
    u.fn(CT, 'new', within=W, sig_edits=lt,
         body_edits=[lambda t: t.sub_code('R17', r'ALPN_H2\.into\(\)', 'verif_slice_to_vec(ALPN_H2)')],
         loops={0: dict(iter='it', invariant=['it.seq() == ca_certs@', 'ca_roots(ca_certs@.take(it.index@ as int)) == Some(roots.roots@.skip(trust_anchors@.len() as int))',
                                              'roots.roots@.len() >= trust_anchors@.len()', 'roots.roots@.take(trust_anchors@.len() as int) == anchors_of(trust_anchors@)'])},
         hints=[('before', 'roots.add_parsable_certificates(convert_certificate_to_pki_types(&cert)?);', '            proof { assert(ca_certs@.take(it.index@ + 1).drop_last() =~= ca_certs@.take(it.index@ as int)); lemma_ca_roots_none(ca_certs@, it.index@ + 1); }'),
                ('before', 'let builder = builder.with_root_certificates(roots);', '        proof { assert(ca_certs@.take(ca_certs@.len() as int) =~= ca_certs@); }')],
         ensures=[
             Clause('N1_the_connector_trusts_exactly_the_configured_roots', 'r matches Ok(c) ==> ca_roots(ca_certs@) is Some && c.config.t.roots@ =~= anchors_of(trust_anchors@) + ca_roots(ca_certs@)->Some_0'),
             Clause('N2_h2_and_nothing_else_is_offered', 'r matches Ok(c) ==> c.config.t.alpn_protocols@.len() == 1 && c.config.t.alpn_protocols@[0]@ == h2()'),
             Clause('N3_a_client_certificate_is_presented_exactly_when_an_identity_was_configured',
                    'r matches Ok(c) ==> (match identity { Some(i) => c.config.t.client_auth@ matches Some(a) && Some(a.certs) == pem_certs(i.cert.pem@) && Some(a.key) == pem_key(i.key@), None => c.config.t.client_auth@ is None })'),
             Clause('N4_the_peer_is_checked_against_this_domain', 'r matches Ok(c) ==> c.domain.t.name == domain@'),
             Clause('N5_the_http2_opt_out_is_the_callers', 'r matches Ok(c) ==> c.assume_http2 == assume_http2'),
             Clause('N6_an_unparsable_ca_certificate_is_an_error', 'ca_roots(ca_certs@) is None ==> r is Err'),
         ])
    u.fn(CT, 'connect', within=W, sig_edits=lt + [lambda t: t.sub_code('R12', r"AsyncRead \+ AsyncWrite \+ Send \+ Unpin \+ 'static", 'AsyncRead + AsyncWrite')],
         body_edits=[lambda t: t.sub_code('R17', r'alpn_protocol == Some\(ALPN_H2\)', 'verif_opt_bytes_eq(alpn_protocol, Some(ALPN_H2))')],
         ensures=[
             Clause('K1_a_connection_exists_only_after_a_handshake_under_the_configured_roots_and_domain',
                    'r matches Ok(b) ==> (b.tls@ matches Some(sess) && sess.config@ == self.config.t && sess.domain@.name == self.domain.t.name)'),
             Clause('K2_h2_was_negotiated_unless_the_caller_opted_out',
                    'r matches Ok(b) ==> (self.assume_http2 || (b.tls@ matches Some(sess) && sess.alpn matches Some(p) && p@ == h2()))'),
         ])
    u.close('}')
    # ---- the client-side configuration builder ----
    u.item(CC, 'struct', 'ClientTlsConfig', edits=[lambda t: t.sub_code('R12', r"TrustAnchor<'static>", 'TrustAnchor')])
    csrc = read_src(CC)
    body = csrc[csrc.index('pub struct ClientTlsConfig {'):]
    body = body[:body.index('\n}')]
    cfields = []
    skip = False
    for line in body.splitlines()[1:]:
        if '#[cfg(feature = "tls-native-roots")]' in line or '#[cfg(feature = "tls-webpki-roots")]' in line:
            skip = True
            continue
        m = re.match(r'\s*(\w+):', line)
        if m:
            if not skip:
                cfields.append(m.group(1))
            skip = False
    u.raw('// A-derive-03: #[derive(Default)] on ClientTlsConfig / ServerTlsConfig (dropped with the attributes): nothing configured\n'
          'impl Default for ClientTlsConfig { fn default() -> (r: Self) ensures r.domain is None && r.certs@.len() == 0 && r.trust_anchors@.len() == 0 && r.identity is None && !r.assume_http2 && !r.use_key_log '
          '{ ClientTlsConfig { domain: None, certs: Vec::new(), trust_anchors: Vec::new(), identity: None, assume_http2: false, use_key_log: false } } }')
    def keep(own):
        return ' && '.join('r.%s == self.%s' % (f, f) for f in cfields if f not in own)
    u._emit('impl ClientTlsConfig {'); u._open_header = 'impl ClientTlsConfig {'
    WC = 'impl ClientTlsConfig'
    vecs = [lambda t: t.sub_code('R12', r'impl IntoIterator<Item = Certificate>', 'Vec<Certificate>'),
            lambda t: t.sub_code('R12', r"impl IntoIterator<Item = TrustAnchor<'static>>", 'Vec<TrustAnchor>'),
            lambda t: t.sub_code('R12', r"TrustAnchor<'static>", 'TrustAnchor'), lambda t: t.sub_code('R12', r'impl Into<String>', 'String'),
            lambda t: t.sub_code('R12', r'crate::BoxError', 'BoxError')]
    ext = [lambda t: t.sub_code('R17', r'\bcerts\.extend\(', 'verif_vec_extend(&mut certs, '), lambda t: t.sub_code('R17', r'\b(self|this)\.trust_anchors\.extend\(', r'verif_vec_extend(&mut \1.trust_anchors, ')]
    u.fn(CC, 'new', within=WC, ensures=[Clause('C0_nothing_is_configured', 'r.domain is None && r.certs@.len() == 0 && r.trust_anchors@.len() == 0 && r.identity is None && !r.assume_http2')])
    SET = [('domain_name', ['domain'], 'r.domain matches Some(d) && d@ == domain_name@'),
           ('ca_certificate', ['certs'], 'r.certs@ == self.certs@.push(ca_certificate)'),
           ('ca_certificates', ['certs'], 'r.certs@ == self.certs@ + ca_certificates@'),
           ('trust_anchor', ['trust_anchors'], 'r.trust_anchors@ == self.trust_anchors@.push(trust_anchor)'),
           ('trust_anchors', ['trust_anchors'], 'r.trust_anchors@ == self.trust_anchors@ + trust_anchors@'),
           ('identity', ['identity'], 'r.identity == Some(identity)'),
           ('assume_http2', ['assume_http2'], 'r.assume_http2 == assume_http2'),
           ('use_key_log', ['use_key_log'], 'r.use_key_log')]
    for name, own, val in SET:
        u.fn(CC, name, within=WC, sig_edits=vecs, body_edits=ext,
             ensures=[Clause('C1_every_other_setting_is_kept', keep(own)), Clause('C2_the_setting_is_stored', val)])
    # with_enabled_roots starts from a FRESH configuration (settings made before it are dropped): odd, but every effect of that
    # is a stricter or failing connection, which C15 allows; no frame clause is demanded of it (see DESIGN.md, C15)
    u.fn(CC, 'with_enabled_roots', within=WC,
         ensures=[Clause('C3_no_root_or_opt_out_appears_from_nowhere', '(r.certs@ == self.certs@ || r.certs@.len() == 0) && (r.trust_anchors@ == self.trust_anchors@ || r.trust_anchors@.len() == 0) && (r.assume_http2 ==> self.assume_http2) && (r.identity is Some ==> r.identity == self.identity) && (r.domain is Some ==> r.domain == self.domain)')])
    u.fn(CC, 'into_tls_connector', within=WC, sig_edits=vecs,
         ensures=[
             Clause('T1_the_domain_checked_is_the_configured_one_else_the_uri_host',
                    'r matches Ok(c) ==> c.domain.t.name == (match self.domain { Some(d) => d@, None => uri.host->Some_0@ }) && (self.domain is None ==> uri.host is Some)'),
             Clause('T2_roots_identity_and_the_http2_opt_out_are_the_configured_ones',
                    '''r matches Ok(c) ==> ca_roots(self.certs@) is Some && c.config.t.roots@ =~= anchors_of(self.trust_anchors@) + ca_roots(self.certs@)->Some_0
                && c.assume_http2 == self.assume_http2 && (self.identity is None <==> c.config.t.client_auth@ is None)
                && c.config.t.alpn_protocols@.len() == 1 && c.config.t.alpn_protocols@[0]@ == h2()'''),
             Clause('T3_no_domain_at_all_is_an_error', '(self.domain is None && uri.host is None) ==> r is Err'),
         ])
    u.close('}')
    # ---- server ----
    u.item(SV, 'struct', 'TlsAcceptor')
    u._emit('impl TlsAcceptor {'); u._open_header = 'impl TlsAcceptor {'
    WA = 'impl TlsAcceptor'
    be = [lambda t: t.sub_code('R12', r'crate::BoxError', 'BoxError')]
    u.fn(SV, 'new', within=WA, sig_edits=be,
         body_edits=[lambda t: t.sub_code('R17', r'ALPN_H2\.into\(\)', 'verif_slice_to_vec(ALPN_H2)')],
         ensures=[
             Clause('A1_without_a_client_ca_no_client_certificate_is_asked_for', 'r matches Ok(a) ==> (client_ca_root is None ==> a.inner.t.client_verifier@ is None)'),
             Clause('A2_with_a_client_ca_clients_are_verified_against_it_and_only_optionally_if_asked',
                    '''r matches Ok(a) ==> (client_ca_root is Some ==> (a.inner.t.client_verifier@ is Some && pem_certs(client_ca_root->Some_0.pem@) is Some
                && a.inner.t.client_verifier@->Some_0.roots =~= certs_of(pem_certs(client_ca_root->Some_0.pem@)->Some_0) && a.inner.t.client_verifier@->Some_0.optional == client_auth_optional))'''),
             Clause('A3_the_server_presents_the_configured_identity_and_offers_h2',
                    '''r matches Ok(a) ==> (Some(a.inner.t.identity@.certs) == pem_certs(identity.cert.pem@) && Some(a.inner.t.identity@.key) == pem_key(identity.key@)
                && a.inner.t.alpn_protocols@.len() == 1 && a.inner.t.alpn_protocols@[0]@ == h2() && a.inner.t.ignore_client_order == ignore_client_order)'''),
             Clause('A4_an_unparsable_client_ca_is_an_error', '(client_ca_root is Some && pem_certs(client_ca_root->Some_0.pem@) is None) ==> r is Err'),
         ])
    u.fn(SV, 'accept', within=WA, sig_edits=be,
         closures={0: dict(params='e: IoError', ret='(x: BoxError)', ensures=[])} if False else None,
         body_edits=[lambda t: t.sub_code('R3', r'\.map_err\(Into::into\)', '.map_err(|e| BoxError::from(e))')],
         ensures=[Clause('A5_a_stream_exists_only_after_a_handshake_under_this_configuration', 'r matches Ok(s) ==> s.session.config@ == self.inner.t')])
    u.close('}')
    u.item(SC, 'struct', 'ServerTlsConfig')
    sfields = ['identity', 'client_ca_root', 'client_auth_optional', 'ignore_client_order', 'use_key_log']
    u.raw('impl Default for ServerTlsConfig { fn default() -> (r: Self) ensures r.identity is None && r.client_ca_root is None && !r.client_auth_optional && !r.ignore_client_order && !r.use_key_log '
          '{ ServerTlsConfig { identity: None, client_ca_root: None, client_auth_optional: false, ignore_client_order: false, use_key_log: false } } }')
    def skeep(own):
        return ' && '.join('r.%s == self.%s' % (f, f) for f in sfields if f != own)
    u._emit('impl ServerTlsConfig {'); u._open_header = 'impl ServerTlsConfig {'
    WS = 'impl ServerTlsConfig'
    u.fn(SC, 'new', within=WS, ensures=[Clause('S0_nothing_is_configured', 'r.identity is None && r.client_ca_root is None && !r.client_auth_optional')])
    for name, own, val in [('identity', 'identity', 'r.identity == Some(identity)'), ('client_ca_root', 'client_ca_root', 'r.client_ca_root == Some(cert)'),
                           ('client_auth_optional', 'client_auth_optional', 'r.client_auth_optional == optional'),
                           ('ignore_client_order', 'ignore_client_order', 'r.ignore_client_order == ignore_client_order'), ('use_key_log', 'use_key_log', 'r.use_key_log')]:
        u.fn(SC, name, within=WS, ensures=[Clause('S1_every_other_setting_is_kept', skeep(own)), Clause('S2_the_setting_is_stored', val)])
    u.fn(SC, 'tls_acceptor', within=WS, sig_edits=be, requires=['self.identity is Some'],
         ensures=[
             Clause('S3_client_authentication_is_what_was_configured',
                    '''r matches Ok(a) ==> (match self.client_ca_root {
                    None => a.inner.t.client_verifier@ is None,
                    Some(ca) => a.inner.t.client_verifier@ is Some && pem_certs(ca.pem@) is Some && a.inner.t.client_verifier@->Some_0.roots =~= certs_of(pem_certs(ca.pem@)->Some_0) && a.inner.t.client_verifier@->Some_0.optional == self.client_auth_optional,
                })'''),
             Clause('S4_h2_is_offered', 'r matches Ok(a) ==> a.inner.t.alpn_protocols@.len() == 1 && a.inner.t.alpn_protocols@[0]@ == h2()'),
         ])
    u.close('}')
    # ---- what the handler can see of the peer ----
    CN = 'tonic/src/transport/server/conn.rs'
    # the trait gets a ghost member: what a connect info says about its connection (implementations state it; callers see only this)
    u.item(CN, 'trait', 'Connected', edits=[lambda t: t.sub_code('R12', r"type ConnectInfo: Clone \+ Send \+ Sync \+ 'static;", 'type ConnectInfo;'),
                                            lambda t: t.sub_code('contract', r'fn connect_info\(&self\) -> Self::ConnectInfo;', 'spec fn info_ok(&self, i: Self::ConnectInfo) -> bool;\n    fn connect_info(&self) -> (r: Self::ConnectInfo) ensures self.info_ok(r);')])
    u.item(CN, 'struct', 'TlsConnectInfo', edits=[lambda t: t.sub_code('R12', r"CertificateDer<'static>", 'CertificateDer')])
    hdr = 'impl<T> Connected for TlsStream<T>'
    u._emit('impl<T: Connected> Connected for TlsStream<T> {\n    type ConnectInfo = TlsConnectInfo<T::ConnectInfo>;\n'
            '    // what C15 says the handler may rely on: exactly the verified peer certificates, and the inner connection info\n'
            '    open spec fn info_ok(&self, i: TlsConnectInfo<T::ConnectInfo>) -> bool { (i.certs is Some <==> self.session.peer is Some) && (i.certs matches Some(a) ==> a.t@ == self.session.peer->Some_0@) && self.io.info_ok(i.inner) }'); u._open_header = 'impl<T: Connected> Connected for TlsStream<T> {'
    u.fn(CN, 'connect_info', within=hdr,
         body_edits=[lambda t: t.sub_code('R17', r'certs\.to_owned\(\)\.into\(\)', 'verif_arc_vec(certs)')],
         closures={0: dict(params='certs: &[CertificateDer]', ret='(x: Arc<Vec<CertificateDer>>)', ensures=['x.t@ == certs@'])},
         ensures=[Clause('P1_the_handler_sees_exactly_the_verified_peer_certificates',
                         '(r.certs is Some <==> self.session.peer is Some) && (r.certs matches Some(a) ==> a.t@ == self.session.peer->Some_0@)')])
    u.close('}')
    u._emit('impl<T> TlsConnectInfo<T> {'); u._open_header = 'impl<T> TlsConnectInfo<T> {'
    u.fn(CN, 'peer_certs', within='impl<T> TlsConnectInfo<T>', sig_edits=[lambda t: t.sub_code('R12', r"CertificateDer<'static>", 'CertificateDer')],
         ensures=[Clause('P2_peer_certs_hands_them_out', 'r == self.certs')])
    u.close('}')
    server_io(u)
    peer_chain(u)
    # ---- the connector: https never falls back to plaintext (R28: the two nested async blocks of Connector::call, lifted) ----
    KN = 'tonic/src/transport/channel/service/connector.rs'
    ksrc = read_src(KN)
    kcode = vxlib.code_mask(ksrc)
    m = re.search(r'Box::pin\(async move \{\s*async \{', ksrc)
    if not m:
        raise Infra('connector.rs: `Box::pin(async move { async {` not found')
    ibo = m.end() - 1
    ibe = vxlib.match_brace(ksrc, kcode, ibo)
    tail = ksrc[ibe:]
    mt = re.match(r'\s*\.await\s*\.map_err\(ConnectError\)\s*\}\)', tail)
    if not mt:
        raise Infra('connector.rs: the inner block is not followed by `.await.map_err(ConnectError) })`')
    inner = ksrc[ibo:ibe]
    mc = re.search(r'fn call\(&mut self, uri: Uri\) -> Self::Future \{', ksrc)
    if not mc:
        raise Infra('connector.rs: Connector::call not found')
    cbe = vxlib.match_brace(ksrc, kcode, mc.end() - 1)
    blk_end = ibe + mt.end()
    call_txt = ksrc[mc.start():m.start()] + 'Box::pin(verif_connect(connect, tls, is_https))' + ksrc[blk_end:cbe]
    virt = ('impl<C> Connector<C> {\n    ' + call_txt + '\n}\n'
            'async fn verif_connect_inner<F: Future<Output = Result<PlainIo, BoxError>>>(connect: F, tls: Option<TlsConnector>, is_https: bool) -> Result<BoxedIo, crate::BoxError> ' + inner + '\n'
            'async fn verif_connect<F: Future<Output = Result<PlainIo, BoxError>>>(connect: F, tls: Option<TlsConnector>, is_https: bool) -> Result<BoxedIo, ConnectError> {\n'
            '    verif_connect_inner(connect, tls, is_https)' + mt.group(0).rstrip()[:-2].rstrip() + '\n}\n')
    VK = KN + '#R28'
    ov = dict(getattr(vxlib.TLS, 'override', None) or {})
    ov[VK] = virt
    saved_ov = getattr(vxlib.TLS, 'override', None)
    vxlib.TLS.override = ov
    u.rewrites.append(dict(item='Connector::call', rule='R28', old='Box::pin(async move { async { .. }.await.map_err(ConnectError) })', new='async fn verif_connect_inner(connect, tls, is_https) { .. } / async fn verif_connect(..) { verif_connect_inner(..).await.map_err(ConnectError) }'))
    try:
        kb = [lambda t: t.sub_code('R12', r'crate::BoxError', 'BoxError')]
        u.fn(VK, 'verif_connect_inner', display='Connector::call::inner', sig_edits=kb, body_edits=kb,
             ensures=[
                 Clause('X1_an_https_uri_without_a_tls_configuration_is_an_error_never_plaintext', '(is_https && tls is None) ==> r is Err'),
                 Clause('X2_an_https_connection_is_a_session_under_the_configured_connector',
                        '(is_https && r is Ok) ==> (tls is Some && r->Ok_0.tls@ is Some && r->Ok_0.tls@->Some_0.config@ == tls->Some_0.config.t && r->Ok_0.tls@->Some_0.domain@.name == tls->Some_0.domain.t.name && (tls->Some_0.assume_http2 || (r->Ok_0.tls@->Some_0.alpn is Some && r->Ok_0.tls@->Some_0.alpn->Some_0@ == h2())))'),
                 Clause('X3_a_plain_uri_gets_the_plain_stream', '(!is_https && r is Ok) ==> r->Ok_0.tls@ is None'),
             ])
        u.fn(VK, 'verif_connect', display='Connector::call::outer',
             body_edits=[lambda t: t.sub_code('R3', r'\.map_err\(ConnectError\)', '.map_err(|e| ConnectError(e))')],
             ensures=[Clause('X4_the_outer_block_only_wraps_the_error', 'connect_ok(is_https, tls, r)')])
        u.item(KN, 'struct', 'Connector')
        u.raw('// A-derive-04: #[derive(Clone)] on TlsConnector (dropped with the attributes): the same connector\nimpl Clone for TlsConnector { #[verifier::external_body] fn clone(&self) -> (r: Self) ensures r == *self { unimplemented!() } }')
        u.fn(KN, 'new', within='impl<C> Connector<C>', header='impl<C> Connector<C> {', close=True, display='Connector::new',
             ensures=[Clause('Y0_the_connector_holds_the_tls_configuration_it_was_given_or_none', 'r.tls == tls && r.inner == inner')])
        u.fn(KN, 'poll_ready', within='impl<C> Service<Uri> for Connector<C>', header='impl<C: UriService> Connector<C> {', close=True, display='Connector::poll_ready', props=['C14', 'C15'],
             sig_edits=[lambda t: t.sub_code('R9', r'Self::Error', 'ConnectError')],
             body_edits=[lambda t: t.sub_code('R17', r'ConnectError\(From::from\(err\)\)', 'ConnectError(BoxError::from(err))')],
             closures={0: dict(params='err: C::Error', ret='(x: ConnectError)', ensures=[])},
             ensures=[Clause('Y2_ready_exactly_when_the_wrapped_connector_is_ready_its_error_wrapped_as_a_connect_error',
                             '(r is Pending <==> old(self).inner.ready_now() is Pending) && (r matches Poll::Ready(Ok(_)) <==> old(self).inner.ready_now() matches Poll::Ready(Ok(_)))', ['C14', 'C15'])])
        u.fn(VK, 'call', within='impl<C> Connector<C>', header='impl<C: UriService> Connector<C> {', close=True, display='Connector::call',
             sig_edits=[lambda t: t.sub_code('R9', r'Self::Future', 'impl Future<Output = Result<BoxedIo, ConnectError>>')],
             body_edits=[lambda t: t.sub_code('R17', r'uri\.scheme_str\(\) == Some\("https"\)', 'verif_opt_str_eq(uri.scheme_str(), Some("https"))')],
             ensures=[Clause('Y1_whether_tls_is_used_is_decided_by_the_uri_scheme_alone_with_the_configured_connector',
                             'r.awaited() ==> connect_ok(is_https(uri), old(self).tls, r@)')])
    finally:
        vxlib.TLS.override = saved_ov
    # ---- Request::peer_certs: what a handler asks for ----
    RQ = 'tonic/src/request.rs'
    u.raw('''
// A-http-41: http::Extensions as a type map: get::<T>() is the entry stored under T, if any (only the entry this unit reads is modelled)
pub struct TcpConnectInfo { pub id: Ghost<int> }
pub struct Extensions { pub tls_info: Option<TlsConnectInfo<TcpConnectInfo>>, pub tcp_info: Option<TcpConnectInfo> }
pub trait ExtItem: Sized { spec fn pick(e: Extensions) -> Option<Self>; spec fn put(e: Extensions, v: Self) -> Extensions; }
impl ExtItem for TlsConnectInfo<TcpConnectInfo> {
    open spec fn pick(e: Extensions) -> Option<Self> { e.tls_info }
    open spec fn put(e: Extensions, v: Self) -> Extensions { Extensions { tls_info: Some(v), tcp_info: e.tcp_info } }
}
impl ExtItem for TcpConnectInfo {
    open spec fn pick(e: Extensions) -> Option<Self> { e.tcp_info }
    open spec fn put(e: Extensions, v: Self) -> Extensions { Extensions { tls_info: e.tls_info, tcp_info: Some(v) } }
}
impl Extensions {
    #[verifier::external_body]
    pub fn get<T: ExtItem>(&self) -> (r: Option<&T>) ensures r is Some <==> T::pick(*self) is Some, r matches Some(x) ==> T::pick(*self) == Some(*x) { unimplemented!() }
    // ... and insert::<T>(v) stores v under T, leaving every other entry alone
    #[verifier::external_body]
    pub fn insert<T: ExtItem>(&mut self, v: T) -> (r: Option<T>) ensures *final(self) == T::put(*old(self), v) { unimplemented!() }
}
pub struct MetadataMap { pub id: Ghost<int> }
''')
    u.item(RQ, 'struct', 'Request')
    u._emit('impl<T> Request<T> {'); u._open_header = 'impl<T> Request<T> {'
    u.fn(RQ, 'extensions', within='impl<T> Request<T>', ensures=[Clause('Q0_the_extensions', '*r == self.extensions')])
    u.fn(RQ, 'peer_certs', within='impl<T> Request<T>', sig_edits=[lambda t: t.sub_code('R12', r"CertificateDer<'static>", 'CertificateDer')],
         closures={0: dict(params='i: &TlsConnectInfo<TcpConnectInfo>', ret='(x: Option<Arc<Vec<CertificateDer>>>)', ensures=['x == i.certs'])},
         ensures=[Clause('Q1_the_handler_gets_the_certificates_recorded_for_the_connection',
                         'r == (match self.extensions.tls_info { Some(i) => i.certs, None => None })')])
    u.close('}')
    u.raw('''
pub proof fn lemma_ca_roots_none(cs: Seq<Certificate>, k: int)
    requires 0 <= k <= cs.len()
    ensures ca_roots(cs.take(k)) is None ==> ca_roots(cs) is None
    decreases cs.len() - k
{
    if k < cs.len() { assert(cs.take(k + 1).drop_last() =~= cs.take(k)); lemma_ca_roots_none(cs, k + 1); } else { assert(cs.take(k) =~= cs); }
}
''')
    return u
