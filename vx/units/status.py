"""U3 — tonic/src/status.rs: code tables, header encoding of a Status, total reading of peer headers, HTTP / HTTP2 mapping.
Carries C04 (and the status hand-off half of C02, the single grpc-status of C03, metadata in error statuses of C08)."""
from vxlib import Unit, Clause
from units import common

S = 'tonic/src/status.rs'





def build():
    u = Unit('status', ['C04'])
    common.http_base(u)
    common.metadata_core(u)
    common.status_decls(u)
    u._emit('impl Code {'); u._open_header = 'impl Code {'
    u.fn(S, 'from_i32', within='impl Code', nth=0, ensures=[Clause('T_from_i32_is_the_table', 'r == code_of_num(i as int)', ['C04', 'C02'])])
    u.fn(S, 'parse_err', within='impl Code', ensures=[Clause('unknown', 'r == Code::Unknown', ['C04', 'C02'])])
    u.fn(S, 'from_bytes', within='impl Code', # callees of from_header_map: they count for what its clause counts for
         ensures=[Clause('T_from_bytes_total_unknown_otherwise', 'r == code_of_bytes(bytes@)', ['C04', 'C02'])])
    u.fn(S, 'to_header_value', within='impl Code',
         body_start='        proof { reveal_strlit("0"); reveal_strlit("1"); reveal_strlit("2"); reveal_strlit("3"); reveal_strlit("4"); reveal_strlit("5"); reveal_strlit("6"); reveal_strlit("7"); reveal_strlit("8"); reveal_strlit("9"); reveal_strlit("10"); reveal_strlit("11"); reveal_strlit("12"); reveal_strlit("13"); reveal_strlit("14"); reveal_strlit("15"); reveal_strlit("16"); }',
         # a callee of add_header: its clause counts for every property that add_header's clauses count for
         ensures=[Clause('T_to_header_value_is_decimal_code', 'r@ =~= dec_text(code_num(self))', ['C04', 'C02', 'C03', 'C08', 'C12'])])
    u.close('}')
    u.fn(S, 'invalid_header_value_byte', sig_edits=[lambda t: t.sub_code('R12', r'<Error: fmt::Display>', '<Error>')],
         ensures=[Clause('internal', 'r.code == Code::Internal')])
    u.raw('''// A-core-44: str::trim is the text without its leading and trailing (Unicode) white space; str::is_empty
pub uninterp spec fn is_ws(c: char) -> bool;
pub assume_specification[ str::trim ](s: &str) -> (r: &str)
    ensures
        exists|i: int, j: int| 0 <= i <= j <= s@.len() && #[trigger] s@.subrange(i, j) == r@
            && (forall|k: int| 0 <= k < i ==> is_ws(s@[k])) && (forall|k: int| j <= k < s@.len() ==> is_ws(s@[k])),
        r@.len() > 0 ==> !is_ws(r@[0]) && !is_ws(r@.last());''')
    u.raw('// A-bytes-33: &Bytes derefs to the byte slice it holds (R17: the coercion in `&self.details` is spelled as a call)\n#[verifier::external_body]\npub fn verif_bytes_deref(b: &Bytes) -> (r: &[u8]) ensures r@ == b@ { unimplemented!() }')
    u._emit('impl Status {'); u._open_header = 'impl Status {'
    for cname, variant in common.CTORS:
        u.fn(S, cname, within='impl Status', nth=0, ensures=[Clause('code', common.CTOR % variant)])
    u.fn(S, 'new', within='impl Status', nth=0, ensures=[Clause('fields', 'r.code == code && r.details@.len() == 0 && r.metadata.headers@ == Map::<Seq<char>, Seq<Seq<u8>>>::empty()')])
    u.fn(S, 'with_details_and_metadata', within='impl Status', ensures=[Clause('fields', 'r.code == code && r.details == details && r.metadata == metadata', ['C04', 'C20'])])
    u.fn(S, 'with_details', within='impl Status', ensures=[Clause('fields', 'r.code == code && r.details == details && r.metadata.headers@ == Map::<Seq<char>, Seq<Seq<u8>>>::empty()')])
    u.fn(S, 'with_metadata', within='impl Status', ensures=[Clause('fields', 'r.code == code && r.details@.len() == 0 && r.metadata == metadata')])
    u.fn(S, 'code', within='impl Status', nth=0, ensures=[Clause('get', 'r == self.code', ['C04', 'C02'])])
    u.fn(S, 'message', within='impl Status', nth=0, ensures=[Clause('get', 'r@ == self.message@', ['C04', 'C02', 'C03', 'C08', 'C12'])])   # callee of add_header
    u.fn(S, 'metadata', within='impl Status', nth=0, ensures=[Clause('get', '*r == self.metadata')])
    u.fn(S, 'details', within='impl Status', nth=0, body_edits=[lambda t: t.sub_code('R17', r'&self\.details', 'verif_bytes_deref(&self.details)')], ensures=[Clause('get_the_details_bytes', 'r@ == self.details@', ['C04', 'C20'])])
    u.fn(S, 'metadata_mut', within='impl Status', nth=0, ensures=[Clause('get_mut', '*r == old(self).metadata && *final(r) == final(self).metadata && final(self).code == old(self).code && final(self).details == old(self).details')])
    for cn, lit in [('GRPC_STATUS', 'grpc-status'), ('GRPC_MESSAGE', 'grpc-message'), ('GRPC_STATUS_DETAILS', 'grpc-status-details-bin')]:
        u.exec_const(S, cn, ensures=[Clause('name', 'Self::%s@ == "%s"@' % (cn, lit))])
    u.fn(S, 'add_header', within='impl Status',
         body_start='        broadcast use axiom_pct_legal, axiom_b64_legal; proof { lemma_names_distinct(); }',
         ensures=[Clause(*c) for c in common.CONTRACTS['add_header']])
    u.fn(S, 'to_header_map', within='impl Status',
         ensures=[Clause(*c) for c in common.CONTRACTS['to_header_map']])
    u.fn(S, 'from_header_map', within='impl Status',
         body_start='        proof { lemma_names_distinct(); }',
         closures={0: dict(params='cow: CowS', ret='(x: String)', ensures=['x@ == cow.s@']),
                   1: dict(params='e: Vec<u8>', ret='(x: Bytes)', ensures=['x@ == e@'])},
         ensures=[Clause(*c) for c in common.CONTRACTS['from_header_map']])
    u.fn(S, 'into_http', within='impl Status',
         body_start='        proof { lemma_names_distinct(); }',
         sig_edits=[lambda t: t.sub_code('R12', r'<B: Default>', '<B: DefaultBody>')],
         hints=[('after', 'self.add_header(response.headers_mut()).unwrap();',
                 'proof { assert(is_reserved("content-type"@)); assert("content-type"@ != "grpc-status"@ && "content-type"@ != "grpc-message"@ && "content-type"@ != "grpc-status-details-bin"@); assert(response.headers@.contains_key("content-type"@)); }')],
         ensures=[Clause(*c) for c in common.CONTRACTS['into_http']])
    u.fn(S, 'code_from_h2', within='impl Status',
         ensures=[
             Clause('T_h2_reset_table', 'err.reason is Some && h2_constrained(err.reason->Some_0.0) ==> r == code_of_h2(err.reason->Some_0.0)'),
             Clause('T_h2_no_reason_unknown', 'err.reason is None ==> r == Code::Unknown'),
         ])
    u.fn(S, 'to_h2_error', within='impl Status',
         ensures=[Clause('T_to_h2', 'r.reason == Some(if self.code == Code::Cancelled { h2::Reason::CANCEL } else { h2::Reason::INTERNAL_ERROR })')])
    u.close('}')
    u.fn(S, 'infer_grpc_status',
         ensures=[Clause(*c) for c in common.CONTRACTS['infer_grpc_status']])
    return u
