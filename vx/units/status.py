"""U3 — tonic/src/status.rs: code tables, header encoding of a Status, total reading of peer headers, HTTP / HTTP2 mapping.
Carries C04 (and the status hand-off half of C02, the single grpc-status of C03, metadata in error statuses of C08)."""
from vxlib import Unit, Clause
from units import common

S = 'tonic/src/status.rs'

SPEC = r'''
// ---- independent tables (gRPC statuscodes.md / http-grpc-status-mapping.md / PROTOCOL-HTTP2.md), no tonic code ----
pub open spec fn code_num(c: Code) -> int {
    match c {
        Code::Ok => 0, Code::Cancelled => 1, Code::Unknown => 2, Code::InvalidArgument => 3, Code::DeadlineExceeded => 4,
        Code::NotFound => 5, Code::AlreadyExists => 6, Code::PermissionDenied => 7, Code::ResourceExhausted => 8,
        Code::FailedPrecondition => 9, Code::Aborted => 10, Code::OutOfRange => 11, Code::Unimplemented => 12,
        Code::Internal => 13, Code::Unavailable => 14, Code::DataLoss => 15, Code::Unauthenticated => 16,
    }
}
pub open spec fn code_of_num(i: int) -> Code {
    if i == 0 { Code::Ok } else if i == 1 { Code::Cancelled } else if i == 3 { Code::InvalidArgument } else if i == 4 { Code::DeadlineExceeded }
    else if i == 5 { Code::NotFound } else if i == 6 { Code::AlreadyExists } else if i == 7 { Code::PermissionDenied }
    else if i == 8 { Code::ResourceExhausted } else if i == 9 { Code::FailedPrecondition } else if i == 10 { Code::Aborted }
    else if i == 11 { Code::OutOfRange } else if i == 12 { Code::Unimplemented } else if i == 13 { Code::Internal }
    else if i == 14 { Code::Unavailable } else if i == 15 { Code::DataLoss } else if i == 16 { Code::Unauthenticated } else { Code::Unknown }
}
// decimal text of 0..=99 without leading zero
pub open spec fn dec_text(n: int) -> Seq<u8> {
    if n < 10 { seq![(48 + n) as u8] } else { seq![(48 + n / 10) as u8, (48 + n % 10) as u8] }
}
// the code a grpc-status value denotes: the decimal text of 0..=16, anything else is UNKNOWN
pub open spec fn code_of_bytes(b: Seq<u8>) -> Code {
    if b.len() == 1 && 48 <= b[0] <= 57 { code_of_num(b[0] - 48) }
    else if b.len() == 2 && b[0] == 49 && 48 <= b[1] <= 54 { code_of_num(10 + (b[1] - 48)) }
    else { Code::Unknown }
}
pub proof fn lemma_code_roundtrip(c: Code)
    ensures code_of_bytes(dec_text(code_num(c))) == c, code_of_num(code_num(c)) == c
{}
// http-grpc-status-mapping.md, as quoted in the property statement
pub open spec fn code_of_http(sc: http::StatusCode) -> Code {
    if sc.0 == 400 { Code::Internal } else if sc.0 == 401 { Code::Unauthenticated } else if sc.0 == 403 { Code::PermissionDenied }
    else if sc.0 == 404 { Code::Unimplemented } else if sc.0 == 429 || sc.0 == 502 || sc.0 == 503 || sc.0 == 504 { Code::Unavailable }
    else { Code::Unknown }
}
// h2 error code (RFC 7540 numbering) to gRPC code, PROTOCOL-HTTP2.md "Errors"; FRAME_SIZE_ERROR(6), STREAM_CLOSED(5) and
// HTTP_1_1_REQUIRED(13) are not named by the property statement and are left unconstrained here
pub open spec fn h2_constrained(r: u32) -> bool { r != 5 && r != 6 && r <= 12 }
pub open spec fn code_of_h2(r: u32) -> Code {
    if r == 8 { Code::Cancelled } else if r == 7 { Code::Unavailable } else if r == 11 { Code::ResourceExhausted }
    else if r == 12 { Code::PermissionDenied } else { Code::Internal }
}

// the three header names a status is spelled with
pub open spec fn status_names(k: Seq<char>) -> bool { k == "grpc-status"@ || k == "grpc-message"@ || k == "grpc-status-details-bin"@ }
'''

REL = r'''
// WRITING: what add_header must leave in the map (from the property: code as decimal, message percent-encoded, details
// base64 without padding, user metadata minus reserved names, everything else untouched)
pub open spec fn written(s: Status, pre: HMap, post: HMap) -> bool {
    &&& post.contains_key("grpc-status"@) && post["grpc-status"@] == seq![dec_text(code_num(s.code))]
    &&& s.message@.len() > 0 ==> post.contains_key("grpc-message"@) && post["grpc-message"@] == seq![pct_enc(utf8(s.message@))]
    &&& s.details@.len() > 0 ==> post.contains_key("grpc-status-details-bin"@) && post["grpc-status-details-bin"@] == seq![b64_enc(false, s.details@)]
    &&& forall|k: Seq<char>| !(k == "grpc-status"@) && !(k == "grpc-message"@ && s.message@.len() > 0) && !(k == "grpc-status-details-bin"@ && s.details@.len() > 0) ==>
            (#[trigger] post.contains_key(k) <==> ((s.metadata.headers@.contains_key(k) && !is_reserved(k)) || pre.contains_key(k)))
            && (post.contains_key(k) ==> post[k] == (if s.metadata.headers@.contains_key(k) && !is_reserved(k) { s.metadata.headers@[k] } else { pre[k] }))
}
// READING: total; what from_header_map must answer for ANY header map
pub open spec fn msg_ok(h: HMap) -> bool { !h.contains_key("grpc-message"@) || utf8_valid(pct_dec(h["grpc-message"@][0])) }
pub open spec fn det_ok(h: HMap) -> bool { !h.contains_key("grpc-status-details-bin"@) || b64_dec(h["grpc-status-details-bin"@][0]) is Some }
pub open spec fn read(h: HMap, r: Option<Status>) -> bool {
    &&& r is None <==> !h.contains_key("grpc-status"@)
    &&& r matches Some(st) ==> {
        &&& msg_ok(h) && det_ok(h) ==> {
            &&& st.code == code_of_bytes(h["grpc-status"@][0])
            &&& st.message@ == (if h.contains_key("grpc-message"@) { utf8_str(pct_dec(h["grpc-message"@][0])) } else { Seq::<char>::empty() })
            &&& st.details@ == (if h.contains_key("grpc-status-details-bin"@) { b64_dec(h["grpc-status-details-bin"@][0])->Some_0 } else { Seq::<u8>::empty() })
        }
        &&& !(msg_ok(h) && det_ok(h)) ==> st.code == Code::Unknown
        &&& st.metadata.headers@ =~= h.remove("grpc-status"@).remove("grpc-message"@).remove("grpc-status-details-bin"@)
    }
}
// ROUND TRIP (C04): a status written into an empty map and read back is the same status; its metadata comes back minus
// the reserved names. (Metadata that itself uses one of the three status header names is outside this lemma.)
pub proof fn lemma_status_roundtrip(s: Status, h: HMap, r: Option<Status>)
    requires
        written(s, Map::<Seq<char>, Seq<Seq<u8>>>::empty(), h), read(h, r),
        forall|k: Seq<char>| status_names(k) ==> !s.metadata.headers@.contains_key(k),
    ensures
        r is Some, r->Some_0.code == s.code, r->Some_0.message@ == s.message@, r->Some_0.details@ == s.details@,
        sanitized_of(r->Some_0.metadata.headers@, s.metadata.headers@),
{
    broadcast use axiom_pct_roundtrip, axiom_b64_roundtrip;
    lemma_names_distinct();
    lemma_utf8_roundtrip(s.message@);
    lemma_code_roundtrip(s.code);
    let st = r->Some_0;
    assert(status_names("grpc-status-details-bin"@) && status_names("grpc-message"@) && status_names("grpc-status"@));
    assert(!h.contains_key("grpc-message"@) <==> s.message@.len() == 0);
    assert(!h.contains_key("grpc-status-details-bin"@) <==> s.details@.len() == 0);
    assert(s.message@.len() == 0 ==> s.message@ =~= Seq::<char>::empty());
    assert(s.details@.len() == 0 ==> s.details@ =~= Seq::<u8>::empty());
    let rm = st.metadata.headers@;
    let sm = s.metadata.headers@;
    assert forall|k: Seq<char>| #[trigger] rm.contains_key(k) <==> (sm.contains_key(k) && !is_reserved(k)) by {
        if status_names(k) { assert(!sm.contains_key(k)); assert(!rm.contains_key(k)); }
        else { assert(rm.contains_key(k) <==> h.contains_key(k)); }
    }
    assert forall|k: Seq<char>| #[trigger] rm.contains_key(k) implies rm[k] == sm[k] by {
        assert(!status_names(k));
        assert(h.contains_key(k));
    }
}
'''

SHIMS = r'''
// A-h2-01: h2::Reason is a u32 newtype with the RFC 7540 constants; h2::Error::reason() is the reset reason if any
#[derive(PartialEq, Eq, Clone, Copy, Debug, Structural)]
pub struct Reason(pub u32);
impl Reason {
    pub const NO_ERROR: Reason = Reason(0);
    pub const PROTOCOL_ERROR: Reason = Reason(1);
    pub const INTERNAL_ERROR: Reason = Reason(2);
    pub const FLOW_CONTROL_ERROR: Reason = Reason(3);
    pub const SETTINGS_TIMEOUT: Reason = Reason(4);
    pub const STREAM_CLOSED: Reason = Reason(5);
    pub const FRAME_SIZE_ERROR: Reason = Reason(6);
    pub const REFUSED_STREAM: Reason = Reason(7);
    pub const CANCEL: Reason = Reason(8);
    pub const COMPRESSION_ERROR: Reason = Reason(9);
    pub const CONNECT_ERROR: Reason = Reason(10);
    pub const ENHANCE_YOUR_CALM: Reason = Reason(11);
    pub const INADEQUATE_SECURITY: Reason = Reason(12);
    pub const HTTP_1_1_REQUIRED: Reason = Reason(13);
}
pub mod h2 {
    pub use crate::Reason;
    pub struct Error { pub reason: Option<Reason> }
    impl Error {
        pub fn reason(&self) -> (r: Option<Reason>) ensures r == self.reason { self.reason }
    }
    impl vstd::std_specs::convert::FromSpecImpl<Reason> for Error {
        open spec fn obeys_from_spec() -> bool { true }
        open spec fn from_spec(v: Reason) -> Self { Error { reason: Some(v) } }
    }
    impl From<Reason> for Error { fn from(t: Reason) -> (r: Error) { Error { reason: Some(t) } } }
}
pub struct SourceBox { pub id: Ghost<int> }
// A-core-04: B::default() is some fixed value of B (the empty body)
pub trait DefaultBody: Sized { spec fn default_spec() -> Self; fn default() -> (r: Self) ensures r == Self::default_spec(); }
impl HasBytes for Vec<u8> { open spec fn bytes_view(&self) -> Seq<u8> { self@ } }
impl Bytes {
    // A-bytes-22: Bytes::copy_from_slice / From<Vec<u8>> keep the bytes
    #[verifier::external_body]
    pub fn copy_from_slice(s: &[u8]) -> (r: Bytes) ensures r@ == s@ { unimplemented!() }
}
impl vstd::std_specs::convert::FromSpecImpl<Vec<u8>> for Bytes {
    open spec fn obeys_from_spec() -> bool { true }
    open spec fn from_spec(v: Vec<u8>) -> Self { Bytes { v } }
}
impl From<Vec<u8>> for Bytes { fn from(v: Vec<u8>) -> (r: Bytes) { Bytes { v } } }
// A-bytes-23: &bytes[..] is the whole content
impl vstd::std_specs::core::IndexSpecImpl<core::ops::RangeFull> for Bytes {
    open spec fn index_req(&self, idx: &core::ops::RangeFull) -> bool { true }
}
impl core::ops::Index<core::ops::RangeFull> for Bytes {
    type Output = [u8];
    #[verifier::external_body]
    fn index(&self, r: core::ops::RangeFull) -> (o: &[u8]) ensures o@ == self@ { unimplemented!() }
}
// A-core-03: impl Into<String> for the message arguments (String, &str) keeps the text
pub trait IntoString { spec fn text(&self) -> Seq<char>; fn into(self) -> (r: String) ensures r@ == self.text(); }
impl IntoString for String { open spec fn text(&self) -> Seq<char> { self@ } fn into(self) -> (r: String) { self } }
impl<'a> IntoString for &'a str { open spec fn text(&self) -> Seq<char> { self@ }
    #[verifier::external_body] fn into(self) -> (r: String) { unimplemented!() } }
// A-pct-03: percent_encode is called with tonic's ENCODING_SET (CONTROLS + space " # % < > ` ? { }); that this set escapes every
// byte HeaderValue rejects (and '%') is checked on the real constant by the complete Kani harness kx::encoding_set
pub const ENCODING_SET: &'static AsciiSet = &AsciiSet { x: 0 };
pub exec const GRPC_CONTENT_TYPE: HeaderValue ensures GRPC_CONTENT_TYPE@ == ascii_bytes("application/grpc"@) { HeaderValue::from_static("application/grpc") }
'''


def build():
    u = Unit('status', ['C04'])
    common.http_base(u)
    common.metadata_core(u)
    u.item(S, 'enum', 'Code', derives='Clone, Copy, PartialEq, Eq, Structural')
    u.raw(SHIMS)
    u.raw(SPEC)
    u.item(S, 'struct', 'Status', edits=[lambda t: t.sub_code('R12', r"Option<Arc<dyn Error \+ Send \+ Sync \+ 'static>>", 'Option<SourceBox>')])

    u._emit('impl Code {'); u._open_header = 'impl Code {'
    u.fn(S, 'from_i32', within='impl Code', nth=0, ensures=[Clause('T_from_i32_is_the_table', 'r == code_of_num(i as int)')])
    u.fn(S, 'parse_err', within='impl Code', ensures=[Clause('unknown', 'r == Code::Unknown')])
    u.fn(S, 'from_bytes', within='impl Code', ensures=[Clause('T_from_bytes_total_unknown_otherwise', 'r == code_of_bytes(bytes@)')])
    u.fn(S, 'to_header_value', within='impl Code',
         body_start='        proof { reveal_strlit("0"); reveal_strlit("1"); reveal_strlit("2"); reveal_strlit("3"); reveal_strlit("4"); reveal_strlit("5"); reveal_strlit("6"); reveal_strlit("7"); reveal_strlit("8"); reveal_strlit("9"); reveal_strlit("10"); reveal_strlit("11"); reveal_strlit("12"); reveal_strlit("13"); reveal_strlit("14"); reveal_strlit("15"); reveal_strlit("16"); }',
         ensures=[Clause('T_to_header_value_is_decimal_code', 'r@ =~= dec_text(code_num(self))')])
    u.close('}')
    u.raw('''// A-fmt-10: Debug for Status is diagnostics only (needed by Result::unwrap's bound)
#[verifier::external]
impl core::fmt::Debug for Status { fn fmt(&self, f: &mut core::fmt::Formatter<'_>) -> core::fmt::Result { unimplemented!() } }
''')
    u.raw(REL)
    u.fn(S, 'invalid_header_value_byte', sig_edits=[lambda t: t.sub_code('R12', r'<Error: fmt::Display>', '<Error>')],
         ensures=[Clause('internal', 'r.code == Code::Internal')])
    u._emit('impl Status {'); u._open_header = 'impl Status {'
    for cname, variant in [('ok', 'Ok'), ('cancelled', 'Cancelled'), ('unknown', 'Unknown'), ('invalid_argument', 'InvalidArgument'),
                           ('deadline_exceeded', 'DeadlineExceeded'), ('not_found', 'NotFound'), ('already_exists', 'AlreadyExists'),
                           ('permission_denied', 'PermissionDenied'), ('resource_exhausted', 'ResourceExhausted'),
                           ('failed_precondition', 'FailedPrecondition'), ('aborted', 'Aborted'), ('out_of_range', 'OutOfRange'),
                           ('unimplemented', 'Unimplemented'), ('internal', 'Internal'), ('unavailable', 'Unavailable'),
                           ('data_loss', 'DataLoss'), ('unauthenticated', 'Unauthenticated')]:
        u.fn(S, cname, within='impl Status', nth=0, ensures=[Clause('code', 'r.code == Code::%s && r.details@.len() == 0 && r.metadata.headers@ == Map::<Seq<char>, Seq<Seq<u8>>>::empty()' % variant)])
    u.fn(S, 'new', within='impl Status', nth=0, ensures=[Clause('fields', 'r.code == code && r.details@.len() == 0 && r.metadata.headers@ == Map::<Seq<char>, Seq<Seq<u8>>>::empty()')])
    u.fn(S, 'with_details_and_metadata', within='impl Status', ensures=[Clause('fields', 'r.code == code && r.details == details && r.metadata == metadata')])
    u.fn(S, 'with_details', within='impl Status', ensures=[Clause('fields', 'r.code == code && r.details == details && r.metadata.headers@ == Map::<Seq<char>, Seq<Seq<u8>>>::empty()')])
    u.fn(S, 'with_metadata', within='impl Status', ensures=[Clause('fields', 'r.code == code && r.details@.len() == 0 && r.metadata == metadata')])
    u.fn(S, 'code', within='impl Status', nth=0, ensures=[Clause('get', 'r == self.code')])
    u.fn(S, 'message', within='impl Status', nth=0, ensures=[Clause('get', 'r@ == self.message@')])
    u.fn(S, 'metadata', within='impl Status', nth=0, ensures=[Clause('get', '*r == self.metadata')])
    for cn, lit in [('GRPC_STATUS', 'grpc-status'), ('GRPC_MESSAGE', 'grpc-message'), ('GRPC_STATUS_DETAILS', 'grpc-status-details-bin')]:
        u.exec_const(S, cn, ensures=[Clause('name', 'Self::%s@ == "%s"@' % (cn, lit))])
    u.fn(S, 'add_header', within='impl Status',
         body_start='        broadcast use axiom_pct_legal, axiom_b64_legal; proof { lemma_names_distinct(); }',
         ensures=[
             Clause('A1_never_fails_values_always_legal', 'r is Ok', ['C04', 'C03']),
             Clause('A2_written', 'written(*self, old(header_map)@, final(header_map)@)', ['C04', 'C03', 'C08', 'C02']),
         ])
    u.fn(S, 'to_header_map', within='impl Status',
         ensures=[Clause('M1_written_from_empty', 'r matches Ok(h) && written(*self, Map::<Seq<char>, Seq<Seq<u8>>>::empty(), h@)', ['C04', 'C03', 'C02'])])
    u.fn(S, 'from_header_map', within='impl Status',
         body_start='        proof { lemma_names_distinct(); }',
         closures={0: dict(params='cow: CowS', ret='(x: String)', ensures=['x@ == cow.s@']),
                   1: dict(params='e: Vec<u8>', ret='(x: Bytes)', ensures=['x@ == e@'])},
         ensures=[Clause('R1_total_and_exact', 'read(header_map@, r)', ['C04', 'C02'])])
    u.fn(S, 'into_http', within='impl Status',
         body_start='        proof { lemma_names_distinct(); }',
         sig_edits=[lambda t: t.sub_code('R12', r'<B: Default>', '<B: DefaultBody>')],
         hints=[('after', 'self.add_header(response.headers_mut()).unwrap();',
                 'proof { assert(is_reserved("content-type"@)); assert("content-type"@ != "grpc-status"@ && "content-type"@ != "grpc-message"@ && "content-type"@ != "grpc-status-details-bin"@); assert(response.headers@.contains_key("content-type"@)); }')],
         ensures=[
             Clause('H1_trailers_only_response_is_200_grpc', 'r.status == http::StatusCode::OK && r.headers@.contains_key("content-type"@) && r.headers@["content-type"@] == seq![ascii_bytes("application/grpc"@)]', ['C03', 'C04', 'C12']),
             Clause('H2_carries_exactly_this_status', 'written(self, Map::<Seq<char>, Seq<Seq<u8>>>::empty().insert("content-type"@, seq![ascii_bytes("application/grpc"@)]), r.headers@)', ['C03', 'C04', 'C12', 'C02']),
             Clause('H3_no_body', 'r.body == B::default_spec()', ['C03', 'C12']),
         ])
    u.fn(S, 'code_from_h2', within='impl Status',
         ensures=[
             Clause('T_h2_reset_table', 'err.reason is Some && h2_constrained(err.reason->Some_0.0) ==> r == code_of_h2(err.reason->Some_0.0)'),
             Clause('T_h2_no_reason_unknown', 'err.reason is None ==> r == Code::Unknown'),
         ])
    u.fn(S, 'to_h2_error', within='impl Status',
         ensures=[Clause('T_to_h2', 'r.reason == Some(if self.code == Code::Cancelled { h2::Reason::CANCEL } else { h2::Reason::INTERNAL_ERROR })')])
    u.close('}')
    u.fn(S, 'infer_grpc_status',
         ensures=[
             Clause('I1_status_from_trailers_wins',
                    '''trailers is Some && trailers->Some_0@.contains_key("grpc-status"@) ==> match r {
                Ok(()) => msg_ok(trailers->Some_0@) && det_ok(trailers->Some_0@) && code_of_bytes(trailers->Some_0@["grpc-status"@][0]) == Code::Ok,
                Err(Some(st)) => read(trailers->Some_0@, Some(st)) && st.code != Code::Ok,
                Err(None) => false,
            }''', ['C04', 'C02']),
             Clause('I2_http_status_table',
                    '''(trailers is None || !trailers->Some_0@.contains_key("grpc-status"@)) ==> match r {
                Ok(()) => false,
                Err(None) => status_code.0 == 200,
                Err(Some(st)) => status_code.0 != 200 && st.code == code_of_http(status_code),
            }''', ['C04']),
         ])
    return u
