"""U19 — tonic-reflection/src/server/v1.rs and v1alpha.rs: the request loop of the reflection service.  Every request of the
stream is answered, in order, by the lookup its MessageRequest variant names (file by name, file containing a symbol, the
service list; extensions are not supported), echoing host and request; a failing lookup sends that status and ends the stream;
v1 and v1alpha are verified against the same answer function.  Carries the service half of C19 (the index half is unit
reflection, linked here through the contracts of file_by_filename / symbol_by_name / list_services)."""
import re
import vxlib
from vxlib import Unit, Clause, read_src, Infra
from units import common

RQ = 'tonic/src/request.rs'
RS = 'tonic/src/response.rs'

SHIMS = r'''
// std::sync::Arc as a transparent box (A-std-arc-01): clone is the same value, deref reads it
pub struct Arc<T> { pub t: T }
impl<T> Arc<T> {
    pub fn new(t: T) -> (r: Arc<T>) ensures r.t == t { Arc { t } }
    #[verifier::external_body] pub fn clone(&self) -> (r: Arc<T>) ensures r == *self { unimplemented!() }
}
impl<T> core::ops::Deref for Arc<T> { type Target = T; fn deref(&self) -> (r: &T) ensures *r == self.t { &self.t } }
// ---- the index, seen through the contracts proved in unit reflection (A-tonic-refl-01: file_by_filename / symbol_by_name
// answer NOT_FOUND exactly for unknown names and otherwise the encoded indexed file; list_services is the service list) ----
pub struct ReflectionServiceState { pub id: Ghost<int> }
impl ReflectionServiceState {
    pub uninterp spec fn file_of(&self, name: Seq<char>) -> Option<Seq<u8>>;
    pub uninterp spec fn symbol_file(&self, symbol: Seq<char>) -> Option<Seq<u8>>;
    pub uninterp spec fn services(&self) -> Seq<Seq<char>>;
    #[verifier::external_body]
    pub fn file_by_filename(&self, filename: &str) -> (r: Result<Vec<u8>, Status>)
        ensures match self.file_of(filename@) { Some(b) => r matches Ok(v) && v@ == b, None => r matches Err(st) && st.code == Code::NotFound }
    { unimplemented!() }
    #[verifier::external_body]
    pub fn symbol_by_name(&self, symbol: &str) -> (r: Result<Vec<u8>, Status>)
        ensures match self.symbol_file(symbol@) { Some(b) => r matches Ok(v) && v@ == b, None => r matches Err(st) && st.code == Code::NotFound }
    { unimplemented!() }
    #[verifier::external_body]
    pub fn list_services(&self) -> (r: &[String])
        ensures r@.len() == self.services().len(), forall|i: int| 0 <= i < r@.len() ==> (#[trigger] r@[i])@ == self.services()[i]
    { unimplemented!() }
}
// ---- the request stream and the response channel ----
// A-tonic-decode-03: Streaming<T> + StreamExt::next seen as a cursor over the items the stream will yield (finite)
pub struct Streaming<T> { pub items: Ghost<Seq<Result<T, Status>>>, pub pos: Ghost<int> }
impl<T> Streaming<T> {
    #[verifier::external_body]
    pub async fn next(&mut self) -> (r: Option<Result<T, Status>>)
        ensures final(self).items == old(self).items,
            0 <= old(self).pos@ < old(self).items@.len() ==> r == Some(old(self).items@[old(self).pos@]) && final(self).pos@ == old(self).pos@ + 1,
            !(0 <= old(self).pos@ < old(self).items@.len()) ==> r is None && final(self).pos == old(self).pos,
    { unimplemented!() }
}
pub mod mpsc {
    use vstd::prelude::*;
    // A-tokio-02: mpsc channel: send appends to what the receiver will see (ghost log).  The spawned task owns the only sender,
    // so the log is threaded through a `&mut` receiver of send (the real send takes &self).
    // A-tokio-03: the receiving half outlives the task (send succeeds); if the client has gone, the real `expect("send")` panics
    // inside the spawned task - outside what is decided here
    pub struct Sender<T> { pub ch: Ghost<int>, pub sent: Ghost<Seq<T>> }
    pub struct Receiver<T> { pub ch: Ghost<int>, pub _t: core::marker::PhantomData<T> }
    #[derive(Debug)]
    pub struct SendError { pub x: u8 }
    #[verifier::external_body]
    pub fn channel<T>(n: usize) -> (r: (Sender<T>, Receiver<T>)) ensures r.0.ch == r.1.ch, r.0.sent@ == Seq::<T>::empty() { unimplemented!() }
    impl<T> Sender<T> {
        #[verifier::external_body]
        pub async fn send(&mut self, v: T) -> (r: Result<(), SendError>)
            ensures r is Ok, final(self).sent@ == old(self).sent@.push(v), final(self).ch == old(self).ch
        { unimplemented!() }
        // A-tokio-05: try_send does not wait: the value is in the channel exactly when it answers Ok (a full channel refuses it)
        #[verifier::external_body]
        pub fn try_send(&mut self, v: T) -> (r: Result<(), SendError>)
            ensures r is Ok ==> final(self).sent@ == old(self).sent@.push(v), r is Err ==> final(self).sent@ == old(self).sent@, final(self).ch == old(self).ch
        { unimplemented!() }
    }
}
pub mod tokio {
    // A-tokio-04: tokio::spawn runs the future as a task of its own (nothing of it is observable by the spawning function)
    #[verifier::external_body]
    pub fn spawn<F>(f: F) { }
}
pub mod tokio_stream { pub mod wrappers {
    use vstd::prelude::*;
    pub struct ReceiverStream<T> { pub rx: crate::mpsc::Receiver<T> }
    impl<T> ReceiverStream<T> { pub fn new(rx: crate::mpsc::Receiver<T>) -> (r: Self) ensures r.rx == rx { ReceiverStream { rx } } }
} }
pub mod tonic { pub use crate::{Request, Response, Status, Streaming}; }
'''


def pb_items(u, gen):
    def paths(t):
        t.sub_code('R25', r'::prost::alloc::string::String', 'String')
        t.sub_code('R25', r'::prost::alloc::vec::Vec', 'Vec')
    src = read_src(gen)
    cut = src.index('pub mod server_reflection_client')
    names = re.findall(r'^pub (struct|mod) (\w+)', src[:cut], re.M)
    for kind, name in names:
        u.item(gen, kind, name, edits=[paths])
    return [n for k, n in names if k == 'struct']


def version(u, ver):
    F = 'tonic-reflection/src/server/%s.rs' % ver
    GEN = 'tonic-reflection/src/generated/grpc_reflection_%s.rs' % ver
    u._emit('pub mod %s {\nuse super::*;' % ver)
    u._emit('pub mod pb_types {\nuse super::*;')
    structs = pb_items(u, GEN)
    u._emit('} // pb_types\npub use pb_types::*;\npub use pb_types::server_reflection_request::MessageRequest;\npub use pb_types::server_reflection_response::MessageResponse;')
    clones = structs + ['server_reflection_request::MessageRequest', 'server_reflection_response::MessageResponse']
    u.raw('// A-derive-02: #[derive(Clone)] / prost Default on the generated messages (dropped with the attributes): clone is the same\n'
          '// value, the default ExtensionNumberResponse is empty\n' +
          '\n'.join('impl Clone for %s { #[verifier::external_body] fn clone(&self) -> (r: Self) ensures r == *self { unimplemented!() } }' % c for c in clones) +
          '\nimpl Default for ExtensionNumberResponse { #[verifier::external_body] fn default() -> (r: Self) ensures r.base_type_name@.len() == 0 && r.extension_number@.len() == 0 { unimplemented!() } }\n')
    u.item(F, 'struct', 'ReflectionService')
    u.item(F, 'struct', 'ServerReflectionInfoStream')
    u.raw(r'''
// ---- what the service must answer (from the property: every name resolves to its file, unknown names get NOT_FOUND, the
// service list is the declared one; a request without a MessageRequest is INVALID_ARGUMENT; extensions are not indexed) ----
pub enum Ans { Fd(Seq<u8>), Ext, Services(Seq<Seq<char>>) }
pub open spec fn answer(st: ReflectionServiceState, rq: ServerReflectionRequest) -> Result<Ans, Code> {
    match rq.message_request {
        None => Err(Code::InvalidArgument),
        Some(MessageRequest::FileByFilename(s)) => match st.file_of(s@) { Some(b) => Ok(Ans::Fd(b)), None => Err(Code::NotFound) },
        Some(MessageRequest::FileContainingSymbol(s)) => match st.symbol_file(s@) { Some(b) => Ok(Ans::Fd(b)), None => Err(Code::NotFound) },
        Some(MessageRequest::FileContainingExtension(_)) => Err(Code::NotFound),
        Some(MessageRequest::AllExtensionNumbersOfType(_)) => Ok(Ans::Ext),
        Some(MessageRequest::ListServices(_)) => Ok(Ans::Services(st.services())),
    }
}
pub open spec fn is_reply(rq: ServerReflectionRequest, a: Ans, out: ServerReflectionResponse) -> bool {
    &&& out.valid_host@ == rq.host@
    &&& out.original_request == Some(rq)
    &&& match a {
        Ans::Fd(b) => out.message_response matches Some(MessageResponse::FileDescriptorResponse(f)) && f.file_descriptor_proto@.len() == 1 && f.file_descriptor_proto@[0]@ == b,
        Ans::Ext => out.message_response matches Some(MessageResponse::AllExtensionNumbersResponse(e)),
        Ans::Services(n) => out.message_response matches Some(MessageResponse::ListServicesResponse(l)) && l.service@.len() == n.len()
            && forall|i: int| 0 <= i < n.len() ==> (#[trigger] l.service@[i]).name@ == n[i],
    }
}
// the first request that ends the exchange: a stream error, or a request whose lookup fails
pub open spec fn stops_at(st: ReflectionServiceState, reqs: Seq<Result<ServerReflectionRequest, Status>>, i: int) -> bool {
    0 <= i < reqs.len() && (reqs[i] is Err || answer(st, reqs[i]->Ok_0) is Err)
}
pub open spec fn answered(st: ReflectionServiceState, reqs: Seq<Result<ServerReflectionRequest, Status>>, sent: Seq<Result<ServerReflectionResponse, Status>>, n: int) -> bool {
    0 <= n <= reqs.len() && n <= sent.len() && forall|j: int| 0 <= j < n ==> (!stops_at(st, reqs, j)
        && (#[trigger] sent[j]) is Ok && is_reply(reqs[j]->Ok_0, answer(st, reqs[j]->Ok_0)->Ok_0, sent[j]->Ok_0))
}
pub open spec fn outcome(st: ReflectionServiceState, reqs: Seq<Result<ServerReflectionRequest, Status>>, sent: Seq<Result<ServerReflectionResponse, Status>>) -> bool {
    exists|n: int| #[trigger] answered(st, reqs, sent, n) && (
        (n == reqs.len() && sent.len() == n)
        || (stops_at(st, reqs, n) && reqs[n] is Err && sent.len() == n)
        || (stops_at(st, reqs, n) && reqs[n] is Ok && sent.len() == n + 1 && sent[n] is Err && sent[n]->Err_0.code == answer(st, reqs[n]->Ok_0)->Err_0))
}
''')
    # R28: the async block handed to tokio::spawn becomes an async fn of the variables it captures; the sender goes in by `&mut` so
    # that the block's effect on the channel can be stated (see A-tokio-02)
    src = read_src(F)
    code = vxlib.code_mask(src)
    m = re.search(r'tokio::spawn\(async move \{', src)
    if not m:
        raise Infra('%s: `tokio::spawn(async move {` not found' % F)
    bo = m.end() - 1
    be = vxlib.match_brace(src, code, bo)
    if not src[be:].lstrip().startswith(');'):
        raise Infra('%s: spawn call does not end with `});`' % F)
    block = src[bo:be]
    stmt_end = src.index(');', be) + 2
    worker = ('\nasync fn verif_worker(req_rx: Streaming<ServerReflectionRequest>, resp_tx: &mut mpsc::Sender<Result<ServerReflectionResponse, Status>>, state: Arc<ReflectionServiceState>) '
              + block[:1] + '\n            let mut req_rx = req_rx;' + block[1:] + '\n')
    hoisted = src[:m.start()] + 'let mut verif_tx = resp_tx;\n        tokio::spawn(verif_worker(req_rx, &mut verif_tx, state));' + src[stmt_end:] + worker
    V = F + '#R28'
    ov = dict(getattr(vxlib.TLS, 'override', None) or {})
    ov[V] = hoisted
    vxlib.TLS.override = ov
    u.rewrites.append(dict(item='%s::server_reflection_info' % ver, rule='R28', old='tokio::spawn(async move { .. });', new='let mut verif_tx = resp_tx; tokio::spawn(verif_worker(req_rx, &mut verif_tx, state));  + async fn verif_worker(..) { .. }'))
    u._open_header = 'pub mod vacuity_%s { use crate::*; use crate::%s::*;' % (ver, ver)   # where the reachability twin of the worker is emitted
    u.fn(V, 'verif_worker', display='%s::worker' % ver,
         attrs=['#[verifier::loop_isolation(false)]'],
         requires=['req_rx.pos@ == 0', 'old(resp_tx).sent@.len() == 0'],
         closures={0: dict(params='fd: Vec<u8>', ret='(x: MessageResponse)', ensures=['x matches MessageResponse::FileDescriptorResponse(f) && f.file_descriptor_proto@.len() == 1 && f.file_descriptor_proto@[0] == fd']),
                   1: dict(params='fd: Vec<u8>', ret='(x: MessageResponse)', ensures=['x matches MessageResponse::FileDescriptorResponse(f) && f.file_descriptor_proto@.len() == 1 && f.file_descriptor_proto@[0] == fd']),
                   2: dict(params='s: &String', ret='(x: ServiceResponse)', ensures=['x.name@ == s@'])},
         hints=[('before', 'let Ok(req) = req else', '                let ghost i = req_rx.pos@ - 1; proof { assert(reqs[i] == req); }'),
                ('before', 'match resp_msg {', '                proof { assert(req == reqs[i]->Ok_0); }'),
                ('after', 'Err(status) => {', '                        let ghost sent0 = resp_tx.sent@; proof { assert(answered(st, reqs, sent0, i)); assert(forall|v: Result<ServerReflectionResponse, Status>| answered(st, reqs, #[trigger] sent0.push(v), i)); }')],
         body_start='            let ghost reqs = req_rx.items@; let ghost st = state.t;',
         loops={0: dict(invariant=['req_rx.items@ == reqs', '0 <= req_rx.pos@ <= reqs.len()', 'resp_tx.sent@.len() == req_rx.pos@', 'answered(st, reqs, resp_tx.sent@, req_rx.pos@)', 'state.t == st'],
                        decreases=['reqs.len() - req_rx.pos@'])},
         ensures=[Clause('W1_every_request_is_answered_in_order_by_the_lookup_it_names_until_the_first_failure',
                         'outcome(state.t, req_rx.items@, final(resp_tx).sent@)')])
    u._open_header = None
    u.fn(V, 'server_reflection_info', within='impl ServerReflection for ReflectionService',
         header='impl ReflectionService {', close=True, display='%s::server_reflection_info' % ver,
         sig_edits=[lambda t: t.sub_code('R9', r'Self::ServerReflectionInfoStream', 'ServerReflectionInfoStream')],
         requires=['req.message.pos@ == 0'],
         ensures=[Clause('I1_the_call_itself_succeeds_and_hands_back_the_response_stream', 'r is Ok')])
    u.vacuity_fns[-1]['header'] = 'pub mod vacuity_info_%s { use crate::*; use crate::%s::*; impl ReflectionService {' % (ver, ver)
    u._emit('impl ServerReflectionInfoStream {'); u._open_header = 'impl ServerReflectionInfoStream {'
    u.fn(F, 'new', within='impl ServerReflectionInfoStream', display='%s::ServerReflectionInfoStream::new' % ver,
         ensures=[Clause('I2_the_stream_reads_the_channel', 'r.inner.rx == resp_rx')])
    u.close('}')
    u._emit('} // mod %s' % ver)


def build():
    u = Unit('reflsvc', ['C19'])
    common.http_base(u)
    common.metadata_core(u, props_sanitize=('C08',))
    common.status_decls(u)
    common.status_assumed(u)
    u.item(RQ, 'struct', 'Request')
    u.item(RS, 'struct', 'Response')
    u.raw('pub use crate::httpmsg::Extensions;\n// A-http-35: Extensions::new is the empty type map\nimpl Extensions { pub uninterp spec fn empty_spec() -> Extensions; #[verifier::external_body] pub fn new() -> (r: Extensions) ensures r == Extensions::empty_spec() { unimplemented!() } }')
    u._emit('impl<T> Request<T> {'); u._open_header = 'impl<T> Request<T> {'
    u.fn(RQ, 'into_inner', within='impl<T> Request<T>', props=['aux'], ensures=[Clause('the_message', 'r == self.message', ['aux'])])
    u.close('}')
    u._emit('impl<T> Response<T> {'); u._open_header = 'impl<T> Response<T> {'
    u.fn(RS, 'new', within='impl<T> Response<T>', props=['aux'], ensures=[Clause('the_message', 'r.message == message', ['aux'])])
    u.close('}')
    u.raw(SHIMS)
    saved = getattr(vxlib.TLS, 'override', None)
    try:
        version(u, 'v1')
        version(u, 'v1alpha')
    finally:
        vxlib.TLS.override = saved
    return u
