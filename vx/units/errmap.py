"""U18 — tonic/src/status.rs (error -> Status) and tonic/src/service/recover_error.rs: what becomes of an error that travels up
the tower stack as a `Box<dyn Error>`.  A Status anywhere in the source chain is recovered with its code, message, details
and metadata; the deadline error TimeoutExpired becomes CANCELLED "Timeout expired"; ConnectError becomes UNAVAILABLE; an
HTTP/2 reset (top level, or as the source of a hyper error) is mapped by the table of C04; anything else is UNKNOWN (from_error)
or handed back (try_from_error).  RecoverError turns a recognised error into a trailers-only response spelling that status.
Carries parts of C09 (the cut-off status), C14 (UNAVAILABLE while no connection can be made), C04 (reset streams), C02 / C12
(a status raised inside the stack reaches the peer as that status)."""
import re
from vxlib import Unit, Clause, read_src, Infra
from units import common

S = 'tonic/src/status.rs'
RE = 'tonic/src/service/recover_error.rs'


def display_literal(struct):
    """the literal a unit struct's Display impl writes (taken from /repo on every run)"""
    src = read_src(S)
    m = re.search(r'impl fmt::Display for %s \{\s*fn fmt\(&self, f: &mut fmt::Formatter<\'_>\) -> fmt::Result \{\s*write!\(f, "([^"\\{}]*)"\)\s*\}\s*\}' % struct, src)
    if not m:
        raise Infra('Display impl of %s is not `write!(f, "<literal>")` any more' % struct)
    return m.group(1)


SHIMS = r'''
// ---- `dyn Error` as tonic's error mapping sees it (trait-object dynamism dropped, R12) ----
// A-std-error-01: a `dyn Error + 'static` value is one of the concrete error types the mapping can downcast to, or something
// else; `source()` is its cause; source chains are finite.  `downcast_ref::<T>()` / `Box::downcast::<T>()` succeed exactly
// for a value of type T.  (ConnectError's cause is its payload; that link is not needed by the functions under contract.)
pub struct ConnectError { pub id: Ghost<int> }
pub mod hyper {
    use vstd::prelude::*;
    // A-hyper-01: hyper::Error exposes is_timeout / is_canceled
    pub struct Error { pub timeout: bool, pub canceled: bool, pub id: Ghost<int> }
    impl Error {
        pub fn is_timeout(&self) -> (r: bool) ensures r == self.timeout { self.timeout }
        pub fn is_canceled(&self) -> (r: bool) ensures r == self.canceled { self.canceled }
    }
}
pub enum ErrKind { Status(Status), Timeout(TimeoutExpired), Connect(ConnectError), Hyper(hyper::Error), H2(h2::Error), Other }
pub struct DynError { pub kind: ErrKind, pub src: Option<Box<DynError>> }
pub trait ErrDowncast: Sized { spec fn pick(e: DynError) -> Option<Self>; }
impl ErrDowncast for Status { open spec fn pick(e: DynError) -> Option<Self> { match e.kind { ErrKind::Status(x) => Some(x), _ => None } } }
impl ErrDowncast for TimeoutExpired { open spec fn pick(e: DynError) -> Option<Self> { match e.kind { ErrKind::Timeout(x) => Some(x), _ => None } } }
impl ErrDowncast for ConnectError { open spec fn pick(e: DynError) -> Option<Self> { match e.kind { ErrKind::Connect(x) => Some(x), _ => None } } }
impl ErrDowncast for hyper::Error { open spec fn pick(e: DynError) -> Option<Self> { match e.kind { ErrKind::Hyper(x) => Some(x), _ => None } } }
impl ErrDowncast for h2::Error { open spec fn pick(e: DynError) -> Option<Self> { match e.kind { ErrKind::H2(x) => Some(x), _ => None } } }
impl DynError {
    #[verifier::external_body]
    pub fn downcast_ref<T: ErrDowncast>(&self) -> (r: Option<&T>)
        ensures r is None <==> T::pick(*self) is None, r matches Some(x) ==> T::pick(*self) == Some(*x)
    { unimplemented!() }
    #[verifier::external_body]
    pub fn source(&self) -> (r: Option<&DynError>)
        ensures r is None <==> self.src is None, r matches Some(x) ==> self.src matches Some(b) && *b == *x
    { unimplemented!() }
    pub fn is<T: ErrDowncast>(&self) -> (r: bool) ensures r == (T::pick(*self) is Some) { self.downcast_ref::<T>().is_some() }
    // A-fmt-04: Display of an error is some text (unconstrained)
    #[verifier::external_body]
    pub fn to_string(&self) -> (r: String) { unimplemented!() }
}
pub trait BoxDowncast: Sized {
    fn downcast<T: ErrDowncast>(self) -> (r: Result<Box<T>, Box<DynError>>);
}
impl BoxDowncast for Box<DynError> {
    #[verifier::external_body]
    fn downcast<T: ErrDowncast>(self) -> (r: Result<Box<T>, Box<DynError>>)
        ensures r is Err <==> T::pick(*self) is None, r matches Ok(x) ==> T::pick(*self) == Some(*x), r matches Err(e) ==> e == self
    { unimplemented!() }
}
pub open spec fn depth(e: DynError) -> nat decreases e { match e.src { Some(b) => 1 + depth(*b), None => 0 } }
// the error a Status keeps as its source: opaque (R12: Arc<dyn Error>), made from a boxed error or an h2 error
impl vstd::std_specs::convert::FromSpecImpl<Box<DynError>> for SourceBox {
    open spec fn obeys_from_spec() -> bool { false }
    open spec fn from_spec(v: Box<DynError>) -> Self { arbitrary() }
}
impl From<Box<DynError>> for SourceBox { #[verifier::external_body] fn from(v: Box<DynError>) -> (r: SourceBox) { unimplemented!() } }
impl SourceBox { #[verifier::external_body] pub fn of_h2(e: h2::Error) -> (r: SourceBox) { unimplemented!() } }
// A-core-27: Result::unwrap_or_else: the value, or what the closure makes of the error
pub assume_specification<T, E, F: FnOnce(E) -> T>[ Result::<T, E>::unwrap_or_else ](res: Result<T, E>, f: F) -> (r: T)
    requires res matches Err(e) ==> f.requires((e,)),
    ensures res matches Ok(t) ==> r == t, res matches Err(e) ==> f.ensures((e,), r);
// A-bytes-28: Bytes::clone keeps the bytes
impl Clone for Bytes { #[verifier::external_body] fn clone(&self) -> (r: Bytes) ensures r@ == self@ { unimplemented!() } }
impl ConnectError { #[verifier::external_body] pub fn to_string(&self) -> (r: String) { unimplemented!() } }
impl hyper::Error {
    #[verifier::external_body] pub fn to_string(&self) -> (r: String) { unimplemented!() }
    #[verifier::external_body]
    pub fn source(&self) -> (r: Option<&DynError>) ensures r is None <==> hyper_src(*self) is None, r matches Some(x) ==> hyper_src(*self) == Some(*x) { unimplemented!() }
}
pub uninterp spec fn hyper_src(h: hyper::Error) -> Option<DynError>;
'''

SPEC = r'''
// ---- what an error means (from the property statements; independent of the code) ----
// Known(c): the status has code c;  Same(s): it is the status s (code, message, details, metadata);  Any: recognised, code left open
pub enum Meaning { Same(Status), Known(Code), Any }
// a reset stream seen through hyper: the h2 error is hyper's direct cause
pub open spec fn hyper_reset(h: hyper::Error) -> Option<h2::Error> {
    match hyper_src(h) { Some(e) => match e.kind { ErrKind::H2(x) => Some(x), _ => None }, None => None }
}
pub open spec fn node_meaning(e: DynError) -> Option<Meaning> {
    match e.kind {
        ErrKind::Status(s) => Some(Meaning::Same(s)),
        ErrKind::Timeout(_) => Some(Meaning::Known(Code::Cancelled)),          // C09: a call cut off by its deadline is CANCELLED
        ErrKind::Connect(_) => Some(Meaning::Known(Code::Unavailable)),        // C14: no connection can be made: UNAVAILABLE
        ErrKind::Hyper(h) => if h.timeout || h.canceled { Some(Meaning::Any) }
            else { match hyper_reset(h) {                                        // C04: a reset stream is mapped by the h2 table
                Some(x) => if x.reason is Some && h2_constrained(x.reason->Some_0.0) { Some(Meaning::Known(code_of_h2(x.reason->Some_0.0))) } else { Some(Meaning::Any) },
                None => None } },
        _ => None,
    }
}
// the first error in the cause chain that means something
pub open spec fn chain_meaning(e: DynError) -> Option<Meaning> decreases e {
    match node_meaning(e) { Some(m) => Some(m), None => match e.src { Some(b) => chain_meaning(*b), None => None } }
}
pub open spec fn chain_is_timeout(e: DynError) -> bool decreases e {
    match node_meaning(e) { Some(m) => e.kind is Timeout, None => match e.src { Some(b) => chain_is_timeout(*b), None => false } }
}
pub open spec fn agrees(st: Status, m: Meaning) -> bool {
    match m {
        Meaning::Same(s) => st.code == s.code && st.message@ == s.message@ && st.details@ == s.details@ && st.metadata.headers@ == s.metadata.headers@,
        Meaning::Known(c) => st.code == c,
        Meaning::Any => true,
    }
}
// what the whole boxed error means: itself a Status, itself an HTTP/2 reset, else the chain
pub open spec fn box_meaning(e: DynError) -> Option<Meaning> {
    match e.kind {
        ErrKind::Status(s) => Some(Meaning::Same(s)),
        ErrKind::H2(x) => if x.reason is Some && h2_constrained(x.reason->Some_0.0) { Some(Meaning::Known(code_of_h2(x.reason->Some_0.0))) }
                          else if x.reason is None { Some(Meaning::Known(Code::Unknown)) } else { Some(Meaning::Any) },
        _ => chain_meaning(e),
    }
}
'''


RSHIMS = r"""
// ---- tower / futures / pin-project as the RecoverError layer uses them ----
pub use http::Response;
pub type BoxError = Box<DynError>;
// A-core-26: `impl<T> From<T> for T` is the identity (the `err.into()` of an error that already is a boxed error)
pub assume_specification<T>[<T as From<T>>::from](t: T) -> (r: T) ensures r == t;
// tower_service::Service with a ghost log of the requests the service has been called with (A-tower-01)
pub trait Service<Request> {
    type Future;
    type Error: IntoDynBox;
    spec fn log(&self) -> Seq<Request>;
    spec fn ready_now(&self) -> Poll<Result<(), Self::Error>>;
    // A-tower-03: poll_ready reports the readiness of the service (a ghost property of its state) and hands it no request
    fn poll_ready(&mut self, cx: &mut Context) -> (r: Poll<Result<(), Self::Error>>)
        ensures r == old(self).ready_now(), final(self).log() == old(self).log();
    fn call(&mut self, req: Request) -> (f: Self::Future)
        ensures final(self).log() == old(self).log().push(req);
}
// A-core-30: the inner service's error converts into the boxed error (`Into<BoxError>`); the value is some function of it
pub trait IntoDynBox: Sized { spec fn boxed(self) -> Box<DynError>; fn into(self) -> (r: Box<DynError>) ensures r == self.boxed(); }
impl<T, E> Poll<Result<T, E>> {
    // A-core-09: Poll::map_err maps the Err of a ready result
    #[verifier::external_body]
    pub fn map_err<U, G: FnOnce(E) -> U>(self, f: G) -> (r: Poll<Result<T, U>>)
        requires self matches Poll::Ready(Err(e)) ==> f.requires((e,))
        ensures
            self is Pending ==> r is Pending,
            self matches Poll::Ready(Ok(t)) ==> r == Poll::<Result<T, U>>::Ready(Ok(t)),
            self matches Poll::Ready(Err(e)) ==> r matches Poll::Ready(Err(u)) && f.ensures((e,), u),
    { unimplemented!() }
}
// R12: `F: Future<Output = Result<Response<B>, E>>` is written `F: HttpFuture<B>` with E = the boxed error (A-future-01: a ready
// result is one the future `resolves` to)
pub trait HttpFuture<B> {
    spec fn resolves(&self, x: Result<http::Response<B>, Box<DynError>>) -> bool;
    fn poll(&mut self, cx: &mut Context) -> (r: Poll<Result<http::Response<B>, Box<DynError>>>)
        ensures r matches Poll::Ready(x) ==> old(self).resolves(x);
}
pub struct PinMutF<'a, F> { pub p: &'a mut F }
impl<'a, F> PinMutF<'a, F> {
    pub fn poll<B>(self, cx: &mut Context) -> (r: Poll<Result<http::Response<B>, Box<DynError>>>) where F: HttpFuture<B>
        ensures r matches Poll::Ready(x) ==> old(self.p).resolves(x)
    { self.p.poll(cx) }
}
// A-pinproject-10: pin-project projections of recover_error's ResponseFuture / ResponseBody; Pin<&mut Option<B>>::as_pin_mut
pub struct ResponseFutureProj<'a, F> { pub inner: PinMutF<'a, F> }
impl<F> ResponseFuture<F> {
    #[verifier::external_body]
    pub fn project(&mut self) -> (r: ResponseFutureProj<'_, F>)
        ensures *r.inner.p == old(self).inner, *final(r.inner.p) == final(self).inner
    { unimplemented!() }
}
impl<T> http::Response<T> {
    // A-http-37: Response::map replaces the body, keeps the head
    #[verifier::external_body]
    pub fn map<U, G: FnOnce(T) -> U>(self, f: G) -> (r: http::Response<U>)
        requires f.requires((self.body,))
        ensures f.ensures((self.body,), r.body), r.status == self.status, r.version == self.version, r.headers == self.headers, r.extensions == self.extensions
    { unimplemented!() }
}
impl DefaultBody for () { open spec fn default_spec() -> Self { () } fn default() -> (r: Self) { () } }
pub trait FrameBody {
    type Data; type Error;
    spec fn polled(&self, r: Poll<Option<Result<http_body::Frame<Self::Data>, Self::Error>>>, post: &Self) -> bool;
    spec fn at_end(&self) -> bool;
    fn poll_frame(&mut self, cx: &mut Context) -> (r: Poll<Option<Result<http_body::Frame<Self::Data>, Self::Error>>>) ensures old(self).polled(r, final(self));
    fn is_end_stream(&self) -> (r: bool) ensures r == self.at_end();
}
pub mod http_body { pub struct Frame<T> { pub t: T } }
pub struct PinMutB<'a, B> { pub p: &'a mut B }
impl<'a, B: FrameBody> PinMutB<'a, B> {
    pub fn poll_frame(self, cx: &mut Context) -> (r: Poll<Option<Result<http_body::Frame<B::Data>, B::Error>>>) ensures old(self.p).polled(r, final(self.p)) { self.p.poll_frame(cx) }
}
pub struct PinMutOpt<'a, B> { pub p: &'a mut Option<B> }
impl<'a, B> PinMutOpt<'a, B> {
    #[verifier::external_body]
    pub fn as_pin_mut(self) -> (r: Option<PinMutB<'a, B>>)
        ensures (*old(self.p)) is None ==> r is None && (*final(self.p)) is None,
                (*old(self.p)) is Some ==> r is Some && *(r->Some_0).p == (*old(self.p))->Some_0 && (*final(self.p)) is Some && *final((r->Some_0).p) == (*final(self.p))->Some_0,
    { unimplemented!() }
}
pub struct ResponseBodyProj<'a, B> { pub inner: PinMutOpt<'a, B> }
impl<B> ResponseBody<B> {
    #[verifier::external_body]
    pub fn project(&mut self) -> (r: ResponseBodyProj<'_, B>) ensures *r.inner.p == old(self).inner, *final(r.inner.p) == final(self).inner { unimplemented!() }
}
"""

def model_text():
    """the `dyn Error` model and the meaning of errors, for units that link the contracts of this one"""
    a = SHIMS[:SHIMS.index('pub trait ErrDowncast')]
    b = 'pub uninterp spec fn hyper_src(h: hyper::Error) -> Option<DynError>;\n'
    return a + b + SPEC


def build():
    u = Unit('errmap', ['C09', 'C14', 'C04', 'C02', 'C08', 'C03'])
    common.http_base(u)
    common.metadata_core(u, props_sanitize=('C08',))
    common.status_decls(u)
    u.item(S, 'struct', 'TimeoutExpired')
    lit = display_literal('TimeoutExpired')
    u.raw(SHIMS + '// A-fmt-03: ToString through the Display impl of TimeoutExpired, which writes the literal found in /repo right now\n'
          'impl TimeoutExpired { #[verifier::external_body] pub fn to_string(&self) -> (r: String) ensures r@ == "%s"@ { unimplemented!() } }\n' % lit + SPEC)
    u.raw("""
// A-tonic-status-01: Status::into_http, PROVED on the real body in unit `status` (identical clause text); a callee contract here
impl Status {
    #[verifier::external_body]
    pub fn into_http<B: DefaultBody>(self) -> (r: http::Response<B>)
        ensures
            %s,
    { unimplemented!() }
    // A-tonic-status-02: Status::add_header, PROVED on the real body in unit `status` (identical clause text); not called by the
    // code of this unit as it stands, stated so that a variant of it that writes the status by hand is still decided
    #[verifier::external_body]
    pub fn add_header(&self, header_map: &mut HeaderMap) -> (r: Result<(), Status>)
        ensures
            %s,
    { unimplemented!() }
}
""" % (common._ens(common.CONTRACTS['into_http']), common._ens(common.CONTRACTS['add_header'])))
    def msg_string(t):
        t.sub_code('R12', r'impl Into<String>', 'impl IntoString')
    BOXERR = r"Box<dyn Error \+ Send \+ Sync \+ 'static>"
    def boxed(t):
        t.sub_code('R12', BOXERR, 'Box<DynError>')
        t.sub_code('R12', r"&\(dyn Error \+ 'static\)", '&DynError')
    EMPTYMD = common.EMPTY
    u._emit('impl Status {'); u._open_header = 'impl Status {'
    W = 'impl Status'
    u.fn(S, 'new', within=W, nth=0, sig_edits=[msg_string], ensures=[
        Clause('N1_a_new_status_has_this_code_and_message_and_nothing_else', 'r.code == code && r.message@ == message.text() && r.details@.len() == 0 && r.metadata.headers@ == %s && r.source is None' % EMPTYMD)])
    for ctor, code in common.CTORS:
        u.fn(S, ctor, within=W, nth=0, sig_edits=[msg_string], ensures=[
            Clause('N2_code_%s_with_this_message' % code, 'r.code == Code::%s && r.message@ == message.text() && r.details@.len() == 0 && r.metadata.headers@ == %s' % (code, EMPTYMD))])
    u.fn(S, 'with_details_and_metadata', within=W, sig_edits=[msg_string], ensures=[
        Clause('N3_stores_its_arguments', 'r.code == code && r.message@ == message.text() && r.details == details && r.metadata == metadata')])
    u.fn(S, 'with_details', within=W, sig_edits=[msg_string], ensures=[
        Clause('N3_stores_its_arguments', 'r.code == code && r.message@ == message.text() && r.details == details && r.metadata.headers@ == %s' % EMPTYMD)])
    u.fn(S, 'with_metadata', within=W, sig_edits=[msg_string], ensures=[
        Clause('N3_stores_its_arguments', 'r.code == code && r.message@ == message.text() && r.details@.len() == 0 && r.metadata == metadata')])
    H2K = 'err.reason is Some && h2_constrained(err.reason->Some_0.0)'
    u.fn(S, 'code_from_h2', within=W, ensures=[
        Clause('T_h2_reset_table', '%s ==> r == code_of_h2(err.reason->Some_0.0)' % H2K),
        Clause('T_h2_no_reason_unknown', 'err.reason is None ==> r == Code::Unknown')])
    u.fn(S, 'from_h2_error', within=W, sig_edits=[boxed],
         body_edits=[lambda t: t.sub_code('R12', r'Arc::new\(\*err\)', 'SourceBox::of_h2(*err)')],
         ensures=[Clause('X1_a_reset_is_mapped_by_the_h2_table', '(%s ==> r.code == code_of_h2(err.reason->Some_0.0)) && (err.reason is None ==> r.code == Code::Unknown)' % H2K),
                  Clause('X2_nothing_but_code_and_text', 'r.details@.len() == 0 && r.metadata.headers@ == %s' % EMPTYMD)])
    u.fn(S, 'from_hyper_error', within=W, sig_edits=[boxed],
         closures={0: dict(params='e: &DynError', ret="(x: Option<&h2::Error>)", ensures=['x is None <==> <h2::Error as ErrDowncast>::pick(*e) is None', 'x matches Some(y) ==> <h2::Error as ErrDowncast>::pick(*e) == Some(*y)'])},
         ensures=[Clause('Y1_some_exactly_for_a_keep_alive_timeout_a_cancellation_or_a_reset', 'r is Some <==> (err.timeout || err.canceled || hyper_reset(*err) is Some)'),
                  Clause('Y2_a_reset_seen_through_hyper_is_mapped_by_the_h2_table',
                         '(!err.timeout && !err.canceled && hyper_reset(*err) is Some && hyper_reset(*err)->Some_0.reason is Some && h2_constrained(hyper_reset(*err)->Some_0.reason->Some_0.0)) ==> (r matches Some(st) && st.code == code_of_h2(hyper_reset(*err)->Some_0.reason->Some_0.0))')])
    u.fn(S, 'try_from_error', within=W, sig_edits=[boxed],
         ensures=[Clause('E1_ok_exactly_when_the_error_means_something', 'r is Ok <==> box_meaning(*err) is Some'),
                  Clause('E2_the_status_is_what_the_error_means', 'r matches Ok(st) ==> agrees(st, box_meaning(*err)->Some_0)'),
                  Clause('E3_the_deadline_error_reads_timeout_expired', 'r matches Ok(st) ==> ((!(err.kind is Status) && !(err.kind is H2) && chain_is_timeout(*err)) ==> st.message@ == "Timeout expired"@)', ['C09']),
                  Clause('E4_an_unrecognised_error_is_handed_back', 'r matches Err(e) ==> e == err')])
    u.fn(S, 'from_error', within=W, sig_edits=[boxed],
         closures={0: dict(params='err: Box<DynError>', ret='(x: Status)', ensures=['x.code == Code::Unknown'])},
         ensures=[Clause('F1_a_recognised_error_becomes_what_it_means', 'box_meaning(*err) matches Some(m) ==> agrees(r, m)'),
                  Clause('F2_anything_else_is_unknown', 'box_meaning(*err) is None ==> r.code == Code::Unknown', ['C04'])])
    u.fn(S, 'from_error_generic', within=W,
         sig_edits=[lambda t: t.sub_code('R12', r"impl Into<Box<dyn Error \+ Send \+ Sync \+ 'static>>", 'Box<DynError>')],
         ensures=[Clause('G1_a_recognised_error_becomes_what_it_means', 'box_meaning(*err) matches Some(m) ==> agrees(r, m)'),
                  Clause('G2_anything_else_is_unknown', 'box_meaning(*err) is None ==> r.code == Code::Unknown', ['C04'])])
    u.fn(S, 'map_error', within=W,
         sig_edits=[lambda t: t.sub_code('R12', r'<E>\(err: E\)', '(err: Box<DynError>)'), lambda t: t.sub_code('R12', r'\bwhere\s+E: Into<Box<dyn Error \+ Send \+ Sync>>,', '')],
         body_edits=[lambda t: t.sub_code('R12', r'Box<dyn Error \+ Send \+ Sync>', 'Box<DynError>')],
         ensures=[Clause('G1_a_recognised_error_becomes_what_it_means', 'box_meaning(*err) matches Some(m) ==> agrees(r, m)'),
                  Clause('G2_anything_else_is_unknown', 'box_meaning(*err) is None ==> r.code == Code::Unknown', ['C04'])])
    u.close('}')
    u.fn(S, 'find_status_in_source_chain', sig_edits=[boxed],
         # the loop's own `err` shadows the parameter, and naming the parameter in the invariant crashes this Verus (mode checker):
         # the invariant talks about a ghost copy, and loop isolation is off so that `err0 == err` reaches the exits inside the loop
         attrs=['#[verifier::loop_isolation(false)]'], body_start='    let ghost err0 = err;',
         loops={0: dict(invariant=['source matches Some(e) ==> chain_meaning(*err0) == chain_meaning(*e) && chain_is_timeout(*err0) == chain_is_timeout(*e)',
                                   'source is None ==> chain_meaning(*err0) is None'],
                        decreases=['(match source { Some(e) => depth(*e) + 1, None => 0 })'])},
         ensures=[Clause('S1_some_exactly_when_an_error_in_the_chain_means_something', 'r is Some <==> chain_meaning(*err) is Some'),
                  Clause('S2_the_first_such_error_decides', 'r matches Some(st) ==> agrees(st, chain_meaning(*err)->Some_0)'),
                  Clause('S3_the_deadline_error_reads_timeout_expired', 'r matches Some(st) ==> (chain_is_timeout(*err) ==> st.message@ == "Timeout expired"@)', ['C09'])])
    # ---- the RecoverError layer: a recognised error leaves the stack as a trailers-only response spelling its status ----
    u.item(RE, 'struct', 'RecoverError')
    u.item(RE, 'struct', 'ResponseFuture')
    u.item(RE, 'struct', 'ResponseBody')
    u.raw(RSHIMS)
    u._emit('impl<S> RecoverError<S> {'); u._open_header = 'impl<S> RecoverError<S> {'
    u.fn(RE, 'new', within='impl<S> RecoverError<S>', ensures=[Clause('R0_wraps_the_service', 'r.inner == inner')])
    u.close('}')
    u._emit('impl<B> ResponseBody<B> {'); u._open_header = 'impl<B> ResponseBody<B> {'
    u.fn(RE, 'full', within='impl<B> ResponseBody<B>', ensures=[Clause('B0_full_holds_the_body', 'r.inner == Some(inner)')])
    u.fn(RE, 'empty', within='impl<B> ResponseBody<B>', ensures=[Clause('B0_empty_holds_nothing', 'r.inner is None')])
    u.close('}')
    u.fn(RE, 'poll_ready', within='impl<S, Req, ResBody> Service<Req> for RecoverError<S>', header='impl<S> RecoverError<S> {', close=True, display='RecoverError::poll_ready',
         sig_edits=[lambda t: t.sub_code('R9', r'Self::Error', 'Box<DynError>'), lambda t: t.sub_code('R12', r'fn poll_ready\(', 'fn poll_ready<Req>('),
                    lambda t: t.edit('R12', len(t.t.rstrip()), len(t.t.rstrip()), ' where S: Service<Req>')],
         body_edits=[lambda t: t.sub_code('R3', r'\.map_err\(Into::into\)', '.map_err(|e| IntoDynBox::into(e))')],
         closures={0: dict(params='e: S::Error', ret='(x: Box<DynError>)', ensures=['x == e.boxed()'])},
         ensures=[Clause('R0b_ready_exactly_when_the_wrapped_service_is_its_error_boxed_and_no_request_is_handed_on',
                         '''(match old(self).inner.ready_now() { Poll::Pending => r is Pending, Poll::Ready(Ok(_)) => r matches Poll::Ready(Ok(_)), Poll::Ready(Err(e)) => r == Poll::<Result<(), Box<DynError>>>::Ready(Err(e.boxed())) })
                && final(self).inner.log() == old(self).inner.log()''')])
    u.fn(RE, 'call', within='impl<S, Req, ResBody> Service<Req> for RecoverError<S>',
         header='impl<S> RecoverError<S> {', close=True,
         sig_edits=[lambda t: t.sub_code('R9', r'Self::Future', 'ResponseFuture<S::Future>'),
                    lambda t: t.sub_code('R12', r'fn call\(', 'fn call<Req>('),
                    lambda t: t.edit('R12', len(t.t.rstrip()), len(t.t.rstrip()), ' where S: Service<Req>')],
         ensures=[Clause('R1_the_request_reaches_the_inner_service_exactly_once', 'final(self).inner.log() == old(self).inner.log().push(req)', ['C02'])])
    CT = '%s.insert("content-type"@, %s)' % (common.EMPTY, common.CT)
    u.fn(RE, 'poll', within='impl<F, E, ResBody> Future for ResponseFuture<F>',
         header='impl<F> ResponseFuture<F> {', close=True,
         sig_edits=[lambda t: t.sub_code('R9', r'Self::Output', 'Result<Response<ResponseBody<ResBody>>, Box<DynError>>'),
                    lambda t: t.sub_code('R12', r'fn poll\(', 'fn poll<ResBody>('),
                    lambda t: t.edit('R12', len(t.t.rstrip()), len(t.t.rstrip()), ' where F: HttpFuture<ResBody>')],
         ensures=[
             Clause('P1_a_response_passes_with_its_body_wrapped',
                    'r matches Poll::Ready(Ok(out)) ==> ((exists|res: http::Response<ResBody>| old(self).inner.resolves(Ok(res)) && out.body.inner == Some(res.body) && out.headers == res.headers && out.status == res.status) || (exists|e: Box<DynError>| old(self).inner.resolves(Err(e)) && box_meaning(*e) is Some))', ['C02']),
             Clause('P2_a_recognised_error_becomes_a_trailers_only_response_spelling_its_status',
                    'r matches Poll::Ready(Ok(out)) ==> (out.body.inner is None ==> exists|e: Box<DynError>, st: Status| #![trigger old(self).inner.resolves(Err(e)), written(st, %s, out.headers@)] old(self).inner.resolves(Err(e)) && box_meaning(*e) is Some && agrees(st, box_meaning(*e)->Some_0) && out.status == http::StatusCode::OK && written(st, %s, out.headers@))' % (CT, CT), ['C09', 'C14', 'C04', 'C02', 'C03']),
             Clause('P3_an_unrecognised_error_is_passed_on', 'r matches Poll::Ready(Err(e)) ==> old(self).inner.resolves(Err(e)) && box_meaning(*e) is None'),
         ])
    BH = 'impl<B: FrameBody> ResponseBody<B> {'
    BW = 'impl<B> http_body::Body for ResponseBody<B>'
    fb = [lambda t: t.sub_code('R9', r'Self::Data', 'B::Data'), lambda t: t.sub_code('R9', r'Self::Error', 'B::Error')]
    u.fn(RE, 'poll_frame', within=BW, header=BH, close=False, sig_edits=fb, props=['C02'],
         ensures=[Clause('B1_an_error_response_has_no_body_frames', 'old(self).inner is None ==> (r matches Poll::Ready(None)) && final(self).inner is None', ['C02']),
                  Clause('B2_a_forwarded_body_is_forwarded_frame_by_frame', 'old(self).inner matches Some(b) ==> final(self).inner is Some && b.polled(r, &final(self).inner->Some_0)', ['C02'])])
    u.fn(RE, 'is_end_stream', within=BW, props=['C02'],
         ensures=[Clause('B3_end_of_stream', 'r == (match self.inner { None => true, Some(b) => b.at_end() })', ['C02'])])
    u.close('}')
    # ---- tonic::transport::Error (transport/error.rs): the wrapper Channel puts around what its service stack reports; what
    # matters to C14 / C09 is that the wrapped error stays reachable as its source(), so that the mapping above finds a
    # ConnectError / TimeoutExpired / Status inside it ----
    ER = 'tonic/src/transport/error.rs'
    u._emit('pub mod transport {\nuse super::*;\npub type Source = Box<DynError>;')
    u.item(ER, 'struct', 'Error')
    u.item(ER, 'struct', 'ErrorImpl')
    u.item(ER, 'enum', 'Kind')
    src = [lambda t: t.sub_code('R12', r'impl Into<Source>', 'Source'), lambda t: t.sub_code('R12', r'impl Into<crate::BoxError>', 'Source')]
    u._emit('impl Error {'); u._open_header = 'impl Error {'
    u.fn(ER, 'new', within='impl Error', display='transport::Error::new', ensures=[Clause('X1_an_error_of_this_kind_without_a_cause', 'r.inner.kind == kind && r.inner.source is None')])
    u.fn(ER, 'with', within='impl Error', sig_edits=src, display='transport::Error::with', ensures=[Clause('X2_the_cause_is_attached_the_kind_stays', 'r.inner.source == Some(source) && r.inner.kind == self.inner.kind')])
    u.fn(ER, 'from_source', within='impl Error', sig_edits=src, display='transport::Error::from_source',
         ensures=[Clause('X3_a_transport_error_whose_cause_is_the_wrapped_error', 'r.inner.kind is Transport && r.inner.source == Some(source)')])
    u.fn(ER, 'new_invalid_uri', within='impl Error', display='transport::Error::new_invalid_uri', ensures=[Clause('X4_kind', 'r.inner.kind is InvalidUri && r.inner.source is None')])
    u.fn(ER, 'new_invalid_user_agent', within='impl Error', display='transport::Error::new_invalid_user_agent', ensures=[Clause('X5_kind', 'r.inner.kind is InvalidUserAgent && r.inner.source is None')])
    u.fn(ER, 'source', within='impl StdError for Error', display='transport::Error::source',
         sig_edits=[lambda t: t.sub_code('R12', r"&\(dyn StdError \+ 'static\)", '&DynError')],
         body_edits=[lambda t: t.sub_code('R12', r" as &\(dyn StdError \+ 'static\)", '')],
         closures={0: dict(params='source: &Box<DynError>', ret='(x: &DynError)', ensures=['*x == **source'])},
         ensures=[Clause('X6_the_cause_reported_is_the_wrapped_error', '(r is None <==> self.inner.source is None) && (r matches Some(x) ==> self.inner.source matches Some(b) && *x == *b)')])
    u.close('}')
    u._emit('} // mod transport')
    return u
