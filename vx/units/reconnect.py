"""U8 — tonic/src/transport/channel/service/reconnect.rs: the reconnecting channel service as a state machine over ANY
history of connect failures / successes / dying connections (no bound on the history).  Carries C14 (partial)."""
from vxlib import Unit, Clause

R = 'tonic/src/transport/channel/service/reconnect.rs'

SHIMS = r'''
// crate::BoxError with a ghost tag saying where it came from
pub struct BoxError { pub id: Ghost<int> }
// A-tonic-err-02: `e.into()` / `?` conversions into BoxError are some function of the error
pub trait IntoBoxError: Sized { spec fn boxed(self) -> BoxError; fn into(self) -> (r: BoxError) ensures r == self.boxed(); }

// tower_service::Service with tower's own contract: call() may only follow a poll_ready() that returned Ready(Ok)
// (A-tower-03).  `ready_errs` counts the Ready(Err) answers of poll_ready (history variable).
pub trait Service<Request> {
    type Response;
    type Error;
    type Future;
    spec fn ready(&self) -> bool;
    spec fn ready_errs(&self) -> nat;
    fn poll_ready(&mut self, cx: &mut Context) -> (r: Poll<Result<(), Self::Error>>)
        ensures
            r matches Poll::Ready(Ok(_)) ==> final(self).ready(),
            r matches Poll::Ready(Err(_)) ==> final(self).ready_errs() == old(self).ready_errs() + 1,
            !(r matches Poll::Ready(Err(_))) ==> final(self).ready_errs() == old(self).ready_errs();
    fn call(&mut self, req: Request) -> (f: Self::Future)
        requires old(self).ready()
        ensures final(self).ready_errs() == old(self).ready_errs();
}
// tower::make::MakeService is blanket-implemented for every Service<Target>: make_service == call (A-tower-04)
pub trait MakeService<Target>: Service<Target> {
    fn make_service(&mut self, t: Target) -> (f: <Self as Service<Target>>::Future)
        requires old(self).ready()
        ensures final(self).ready_errs() == old(self).ready_errs();
}
impl<M: Service<Target>, Target> MakeService<Target> for M {
    fn make_service(&mut self, t: Target) -> (f: <Self as Service<Target>>::Future) { self.call(t) }
}
// core::future::Future: a ready result is one the future resolves to (A-future-03)
pub trait Future {
    type Output;
    spec fn resolves(&self, x: Self::Output) -> bool;
    fn poll(&mut self, cx: &mut Context) -> (r: Poll<Self::Output>)
        ensures r matches Poll::Ready(x) ==> old(self).resolves(x);
}
pub struct Pin<P> { pub p: P }
impl<'a, F: Future> Pin<&'a mut F> {
    pub fn new(p: &'a mut F) -> (r: Pin<&'a mut F>) ensures *r.p == *old(p), *final(r.p) == *final(p) { Pin { p } }
    pub fn poll(self, cx: &mut Context) -> (r: Poll<F::Output>)
        ensures r matches Poll::Ready(x) ==> old(self.p).resolves(x)
    { self.p.poll(cx) }
}
// A-std-clone-01: Target: Clone
pub trait CloneSpec: Sized { fn clone(&self) -> (r: Self) ensures r == *self; }
'''

FUT = r'''
pub enum InnerProj<'a, F> { Future(PinMutF<'a, F>), Error(&'a mut Option<BoxError>) }
pub struct PinMutF<'a, F> { pub p: &'a mut F }
pub struct RfProj<'a, F> { pub inner: &'a mut Inner<F> }
impl<F> ResponseFuture<F> {
    // A-pinproject-05: projections of ResponseFuture / Inner
    #[verifier::external_body]
    pub fn project(&mut self) -> (r: RfProj<'_, F>) ensures *r.inner == old(self).inner, *final(r.inner) == final(self).inner { unimplemented!() }
}
impl<F> Inner<F> {
    #[verifier::external_body]
    pub fn project(&mut self) -> (r: InnerProj<'_, F>)
        ensures
            (*old(self)) is Future ==> r is Future && *(r->Future_0).p == (*old(self))->Future_0 && (*final(self)) is Future && *final((r->Future_0).p) == (*final(self))->Future_0,
            (*old(self)) is Error ==> r is Error && *(r->Error_0) == (*old(self))->Error_0 && (*final(self)) is Error && *final(r->Error_0) == (*final(self))->Error_0,
    { unimplemented!() }
}
pub trait ResFuture<T, E> {
    spec fn resolves(&self, x: Result<T, E>) -> bool;
    fn poll(&mut self, cx: &mut Context) -> (r: Poll<Result<T, E>>) ensures r matches Poll::Ready(x) ==> old(self).resolves(x);
}
impl<'a, F> PinMutF<'a, F> {
    pub fn poll<T, E>(self, cx: &mut Context) -> (r: Poll<Result<T, E>>) where F: ResFuture<T, E>
        ensures r matches Poll::Ready(x) ==> old(self.p).resolves(x)
    { self.p.poll(cx) }
}
impl<T, E> Poll<Result<T, E>> {
    // A-core-09: Poll::map_err maps the Err of a ready result
    #[verifier::external_body]
    pub fn map_err<U, G: FnOnce(E) -> U>(self, f: G) -> (r: Poll<Result<T, U>>)
        requires self matches Poll::Ready(Err(e)) ==> f.requires((e,))
        ensures
            self is Pending ==> r is Pending,
            self matches Poll::Ready(Ok(t)) ==> r == Poll::<Result<T, U>>::Ready(Ok(t)),
            self matches Poll::Ready(Err(e)) ==> r matches Poll::Ready(Err(u)) && f.ensures((e,), u),
    { unimplemented!() }
}
'''

RDY = 'self.error is Some || (self.state matches State::Connected(svc) && svc.ready())'


def build():
    u = Unit('reconnect', ['C14'])
    u.prelude('base.rs')
    u._emit('#[allow(unused_macros)]')
    u.raw(SHIMS)
    u.raw('// R2 for `r?` inside poll_ready: the FromResidual desugaring with the error conversion\n')
    u.item(R, 'enum', 'State')
    u.item(R, 'struct', 'Reconnect', edits=[lambda t: t.sub_code('R12', r'\s*M::Error: Into<crate::BoxError>,', ''),
                                             lambda t: t.sub_code('R12', r'Option<crate::BoxError>', 'Option<BoxError>')])
    u.item(R, 'enum', 'Inner', edits=[lambda t: t.sub_code('R12', r'Option<crate::BoxError>', 'Option<BoxError>')])
    u.item(R, 'struct', 'ResponseFuture')
    u.raw(FUT)
    u._emit('impl<F> ResponseFuture<F> {'); u._open_header = 'impl<F> ResponseFuture<F> {'
    be = [lambda t: t.sub_code('R12', r'crate::BoxError', 'BoxError')]
    u.fn(R, 'new', within='impl<F> ResponseFuture<F>', ensures=[Clause('kind', 'r.inner == Inner::Future(inner)')])
    u.fn(R, 'error', within='impl<F> ResponseFuture<F>', sig_edits=be, ensures=[Clause('kind', 'r.inner == Inner::<F>::Error(Some(error))')])
    u.close('}')

    u.raw('''impl<M, Target, S> Reconnect<M, Target>
where
    M: Service<Target, Response = S>,
{
    // tower's contract for Reconnect itself: ready <=> a parked error waits to be handed out, or the connected service is ready
    pub open spec fn rdy<Request>(&self) -> bool where S: Service<Request> { %s }
}
''' % RDY)
    hdr = '''impl<M, Target, S> Reconnect<M, Target>
where
    M: Service<Target, Response = S>,
    M::Future: Future<Output = Result<S, M::Error>>,
    BoxError: From<M::Error>,
    Target: CloneSpec,
{'''
    def mg(name):
        return [lambda t: t.sub_code('R9', r'Self::Error', 'BoxError'), lambda t: t.sub_code('R9', r'Self::Future', 'ResponseFuture<S::Future>'),
                lambda t: t.sub_code('R12', r'fn %s\(' % name, 'fn %s<Request>(' % name),
                lambda t: t.edit('R12', len(t.t.rstrip()), len(t.t.rstrip()), ' where S: Service<Request>, BoxError: From<S::Error>')]
    u.fn(R, 'poll_ready', within='impl<M, Target, S, Request> Service<Request> for Reconnect<M, Target>', header=hdr, close=False,
         attrs=['#[verifier::exec_allows_no_decreases_clause]'], sig_edits=mg('poll_ready'), try_macro='vtry_box',
         loops={0: dict(
             invariant_except_break=['self.error is None'],
             invariant=['self.is_lazy == old(self).is_lazy', 'old(self).error is None',
                        'old(self).has_been_connected ==> self.has_been_connected',
                        'self.mk_service.ready_errs() >= old(self).mk_service.ready_errs()'],
             ensures=['self.error is Some', 'state is Idle', 'self.has_been_connected || self.is_lazy', 'self.is_lazy == old(self).is_lazy',
                      'self.mk_service.ready_errs() >= old(self).mk_service.ready_errs()'])},
         ensures=[
             Clause('E0_tower_contract_ready_means_callable', 'r matches Poll::Ready(Ok(_)) ==> final(self).rdy::<Request>()'),
             Clause('E1_parked_error_keeps_the_service_callable', 'old(self).error is Some ==> *final(self) == *old(self) && (r matches Poll::Ready(Ok(_)))'),
             Clause('E2_an_error_is_parked_only_for_lazy_or_previously_connected_channels_and_resets_to_idle',
                    'final(self).error is Some && old(self).error is None ==> (final(self).has_been_connected || final(self).is_lazy) && final(self).state is Idle && (r matches Poll::Ready(Ok(_)))'),
             Clause('E3_a_connect_failure_is_returned_at_once_only_by_an_eager_never_connected_channel',
                    '''r matches Poll::Ready(Err(_)) && final(self).mk_service.ready_errs() == old(self).mk_service.ready_errs()
                ==> !(final(self).has_been_connected || final(self).is_lazy) && final(self).error is None''', ['C14']),
             Clause('E4_is_lazy_never_changes_and_connected_is_sticky', 'final(self).is_lazy == old(self).is_lazy && (old(self).has_been_connected ==> final(self).has_been_connected)'),
             Clause('E5_ready_without_parked_error_means_connected_and_ready',
                    'r matches Poll::Ready(Ok(_)) && final(self).error is None ==> (final(self).state matches State::Connected(svc) && svc.ready()) && final(self).has_been_connected'),
         ])
    u.fn(R, 'call', within='impl<M, Target, S, Request> Service<Request> for Reconnect<M, Target>', sig_edits=mg('call'),
         requires=['old(self).rdy::<Request>()'],
         ensures=[
             Clause('K1_a_parked_error_is_handed_to_exactly_one_call', 'old(self).error matches Some(e) ==> r.inner == Inner::<S::Future>::Error(Some(e)) && final(self).error is None && final(self).state == old(self).state'),
             Clause('K2_otherwise_the_connected_service_is_called', 'old(self).error is None ==> r.inner is Future && final(self).error is None && final(self).state is Connected'),
             Clause('K3_nothing_else_changes', 'final(self).has_been_connected == old(self).has_been_connected && final(self).is_lazy == old(self).is_lazy && final(self).target == old(self).target && final(self).mk_service == old(self).mk_service'),
         ])
    u.close('}')
    u.fn(R, 'poll', within='impl<F, T, E> Future for ResponseFuture<F>', header='impl<F> ResponseFuture<F> {', close=True,
         sig_edits=[lambda t: t.sub_code('R9', r'Self::Output', 'Result<T, BoxError>'),
                    lambda t: t.sub_code('R12', r'fn poll\(', 'fn poll<T, E>('),
                    lambda t: t.edit('R12', len(t.t.rstrip()), len(t.t.rstrip()), ' where F: ResFuture<T, E>, BoxError: From<E>')],
         body_edits=[lambda t: t.sub_code('R3', r'\.map_err\(Into::into\)', '.map_err(|e| e.into())')],
         closures={0: dict(params='e: E', ret='(x: BoxError)', ensures=['call_ensures(<BoxError as From<E>>::from, (e,), x)'])},
         requires=['old(self).inner matches Inner::Error(e) ==> e is Some'],
         ensures=[
             Clause('F1_connect_error_is_the_result', 'old(self).inner matches Inner::Error(Some(e)) ==> r == Poll::Ready(Err::<T, BoxError>(e))'),
             Clause('F2_otherwise_the_inner_result', '''old(self).inner matches Inner::Future(f) ==> (r matches Poll::Ready(x) ==> match x {
                    Ok(v) => f.resolves(Ok(v)),
                    Err(b) => exists|e: E| f.resolves(Err(e)) && call_ensures(<BoxError as From<E>>::from, (e,), b),
                })'''),
         ])
    # Reconnect::new: a fresh channel service is idle, has never been connected, carries no parked error, and is lazy exactly if asked
    hdrn = 'impl<M, Target> Reconnect<M, Target> where M: Service<Target> {'
    u.fn(R, 'new', within='impl<M, Target> Reconnect<M, Target>', nth=0, header=hdrn, close=True, display='Reconnect::new',
         ensures=[Clause('N1_a_fresh_channel_service_is_idle_never_connected_and_lazy_exactly_if_asked',
                         'r.state is Idle && r.error is None && !r.has_been_connected && r.is_lazy == is_lazy && r.mk_service == mk_service && r.target == target')])
    # ---- Connection::{lazy, connect}: which of the two Reconnect behaviours a channel gets (connection.rs) ----
    CN = 'tonic/src/transport/channel/service/connection.rs'
    u._emit('pub mod connection {\nuse super::*;')
    u.raw("""
// A-tonic-conn-01: Connection::new (hyper client settings and the tower stack around Reconnect; not under contract) builds the
// channel service with the given laziness; ServiceExt::ready_oneshot drives it to readiness and hands the same service back
pub struct Endpoint { pub id: Ghost<int>, pub buffer_size: Option<usize>, pub executor: SharedExec, pub uri: EndpointType, pub connect_timeout: Option<Duration>, pub timeout: Option<Duration> }
pub enum EndpointType { Uri(Uri), Uds(String) }
pub struct Uri { pub id: Ghost<int> }
pub struct Duration { pub secs: u64, pub sub: u32 }
// A-derive-07: #[derive(Clone)] on Endpoint (dropped with the attributes): the same endpoint
impl Clone for Endpoint { #[verifier::external_body] fn clone(&self) -> (r: Self) ensures r == *self { unimplemented!() } }
// the connectors an endpoint builds (Endpoint::connector / http_connector / uds_connector: under contract in unit serverconfig as
// far as TLS goes, A-tonic-link-31; here opaque values) and hyper_timeout's wrapper around one
pub struct UserConnector<C> { pub c: C }
pub struct HttpConn { pub id: Ghost<int> }
pub struct UdsConn { pub id: Ghost<int> }
impl Endpoint {
    #[verifier::external_body] pub fn connector<C>(&self, c: C) -> (r: UserConnector<C>) { unimplemented!() }
    #[verifier::external_body] pub fn http_connector(&self) -> (r: UserConnector<HttpConn>) { unimplemented!() }
    #[verifier::external_body] pub fn uds_connector(&self, p: &str) -> (r: UserConnector<UdsConn>) { unimplemented!() }
}
// what bounds a connection attempt made through a connector: nothing that tonic adds for a user connector as it is
// (Endpoint::connector), the configured time for hyper_timeout's wrapper (A-hypertimeout-01: set_connect_timeout stores it)
pub trait Bounded { spec fn bound(&self) -> Option<Duration>; }
impl<C> Bounded for UserConnector<C> { open spec fn bound(&self) -> Option<Duration> { None } }
pub mod hyper_timeout {
    use super::*;
    pub struct TimeoutConnector<C> { pub c: C, pub connect_timeout: Ghost<Option<Duration>> }
    impl<C> TimeoutConnector<C> {
        #[verifier::external_body] pub fn new(c: C) -> (r: Self) ensures r.c == c, r.connect_timeout@ is None { unimplemented!() }
        #[verifier::external_body] pub fn set_connect_timeout(&mut self, d: Option<Duration>) ensures final(self).c == old(self).c, final(self).connect_timeout@ == d { unimplemented!() }
    }
    impl<C> Bounded for TimeoutConnector<C> { open spec fn bound(&self) -> Option<Duration> { self.connect_timeout@ } }
}
impl Copy for Duration {}
impl Clone for Duration { fn clone(&self) -> Self { *self } }
pub struct Connection { pub lazy: Ghost<bool>, pub endpoint: Ghost<Endpoint>, pub bound: Ghost<Option<Duration>> }
// A-tower-20: tower::buffer::Buffer::pair turns a service into a cloneable handle on it plus the worker future that drives it;
// SharedExec::execute spawns a future (an opaque call: that the worker runs is not stated)
pub struct SharedExec { pub id: Ghost<int> }
impl Clone for SharedExec { #[verifier::external_body] fn clone(&self) -> (r: Self) ensures r == *self { unimplemented!() } }
pub struct BufferWorker { pub drives: Ghost<Connection> }
impl SharedExec { #[verifier::external_body] pub fn execute(&self, w: BufferWorker) { unimplemented!() } }
pub struct Buffer { pub wraps: Ghost<Connection> }
impl Buffer {
    #[verifier::external_body]
    pub fn pair(svc: Connection, bound: usize) -> (r: (Buffer, BufferWorker)) ensures r.0.wraps@ == svc, r.1.drives@ == svc { unimplemented!() }
}
pub struct Error { pub source: BoxError }
impl Error { pub fn from_source(source: BoxError) -> (r: Error) ensures r.source == source { Error { source } } }
pub mod upper { pub use super::Error; }
impl Connection {
    #[verifier::external_body]
    pub fn new<C: Bounded>(connector: C, endpoint: Endpoint, is_lazy: bool) -> (r: Self) ensures r.lazy@ == is_lazy, r.endpoint@ == endpoint, r.bound@ == connector.bound() { unimplemented!() }
    #[verifier::external_body]
    pub async fn ready_oneshot(self) -> (r: Result<Self, BoxError>) ensures r matches Ok(c) ==> c == self { unimplemented!() }
}
""")
    gen = [lambda t: t.sub_code('R12', r'\bwhere\b[^{]*', ''), lambda t: t.sub_code('R12', r'crate::BoxError', 'BoxError'), lambda t: t.sub_code('R12', r'<C>\(', '<C: Bounded>(')]
    u._emit('impl Connection {'); u._open_header = 'impl Connection {'
    u.fn(CN, 'connect', within='impl Connection', sig_edits=gen,
         ensures=[Clause('L1_connect_builds_an_eager_channel_and_drives_it_to_readiness', 'r matches Ok(c) ==> !c.lazy@ && c.endpoint@ == endpoint && c.bound@ == connector.bound()')])
    u.fn(CN, 'lazy', within='impl Connection', sig_edits=gen,
         ensures=[Clause('L2_lazy_builds_a_lazy_channel', 'r.lazy@ && r.endpoint@ == endpoint && r.bound@ == connector.bound()')])
    u.close('}')
    # ---- Channel::{new, connect}: the public constructors pick lazy / eager (channel/mod.rs) ----
    CH = 'tonic/src/transport/channel/mod.rs'
    u.item(CH, 'const', 'DEFAULT_BUFFER_SIZE')
    u.item(CH, 'struct', 'Channel', edits=[lambda t: t.sub_code('R12', r"Buffer<Request<Body>, BoxFuture<'static, Result<Response<Body>, crate::BoxError>>>", 'Buffer')])
    chg = gen + [lambda t: t.sub_code('R12', r'super::Error', 'Error')]
    u._emit('impl Channel {'); u._open_header = 'impl Channel {'
    u.fn(CH, 'new', within='impl Channel', sig_edits=chg, body_edits=chg, display='Channel::new',
         closures={0: dict(params='e: BoxError', ret='(x: Error)', ensures=['x.source == e'])} if False else None,
         ensures=[Clause('H1_a_channel_made_without_connecting_is_lazy', 'r.svc.wraps@.lazy@ && r.svc.wraps@.endpoint@ == endpoint && r.svc.wraps@.bound@ == connector.bound()')])
    u.fn(CH, 'connect', within='impl Channel', sig_edits=chg, display='Channel::connect',
         body_edits=chg + [lambda t: t.sub_code('R3', r'\.map_err\(Error::from_source\)', '.map_err(|e| Error::from_source(e))')],
         closures={0: dict(params='e: BoxError', ret='(x: Error)', ensures=['x.source == e'])},
         ensures=[Clause('H2_a_connected_channel_is_eager_so_its_first_failure_was_reported_by_connect_itself', 'r matches Ok(ch) ==> !ch.svc.wraps@.lazy@ && ch.svc.wraps@.endpoint@ == endpoint && ch.svc.wraps@.bound@ == connector.bound()')])
    u.close('}')
    # ---- Endpoint::connect*: the four public ways to a Channel pick eager / lazy (endpoint.rs) ----
    EP = 'tonic/src/transport/channel/endpoint.rs'
    u._emit('impl Endpoint {'); u._open_header = 'impl Endpoint {'
    eg = gen + [lambda t: t.sub_code('R12', r'Result<Channel, Error>', 'Result<Channel, Error>')]
    sb = [lambda t: t.sub_code('R17', r'uds_filepath\.as_str\(\)', 'uds_filepath.as_str()')]
    eg2 = [e for e in eg[:2]] + [eg[3]]   # the user connector of connect_with_connector* is wrapped by Endpoint::connector first: no bound on C itself
    for name in ('connect', 'connect_with_connector'):
        bounded = [Clause('H5_a_connection_attempt_through_a_user_connector_is_bounded_by_the_configured_connect_timeout', 'r matches Ok(ch) ==> ch.svc.wraps@.bound@ == self.connect_timeout')] if name == 'connect_with_connector' else []
        u.fn(EP, name, within='impl Endpoint', sig_edits=eg2, display='Endpoint::' + name,
             ensures=[Clause('H3_an_eager_connect_yields_only_a_channel_whose_connection_was_driven_to_readiness', 'r matches Ok(ch) ==> !ch.svc.wraps@.lazy@ && ch.svc.wraps@.endpoint@ == *self')] + bounded)
    for name in ('connect_lazy', 'connect_with_connector_lazy'):
        bounded = [Clause('H6_a_connection_attempt_through_a_user_connector_is_bounded_by_the_configured_connect_timeout', 'r.svc.wraps@.bound@ == self.connect_timeout')] if name == 'connect_with_connector_lazy' else []
        u.fn(EP, name, within='impl Endpoint', sig_edits=eg2, display='Endpoint::' + name,
             ensures=[Clause('H4_a_lazy_connect_yields_a_lazy_channel', 'r.svc.wraps@.lazy@ && r.svc.wraps@.endpoint@ == *self')] + bounded)
    u.close('}')
    u._emit('} // mod connection')
    return u
