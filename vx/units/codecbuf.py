"""U24 — tonic/src/codec/buffer.rs: the two windows a codec reads and writes through.  DecodeBuf presents exactly the first
`len` bytes of the receive buffer - remaining / chunk / advance / copy_to_bytes never reach past them and consume them from the
front; EncodeBuf forwards every write to the send buffer unchanged.  Carries the buffer part of C01 (a message is handed to the
decoder as exactly its payload) and C07 (a decoder cannot be made to read past the frame)."""
from vxlib import Unit, Clause

B = 'tonic/src/codec/buffer.rs'

SHIMS = r'''
// A-bytes-30: BytesMut as a contiguous Buf / BufMut (chunk() is in the prelude): copy_to_bytes(n) / put_bytes as documented,
// remaining_mut() is usize::MAX - len
impl BytesMut {
    #[verifier::external_body]
    pub fn copy_to_bytes(&mut self, n: usize) -> (r: Bytes)
        requires n <= old(self)@.len()
        ensures r@ == old(self)@.take(n as int), final(self)@ == old(self)@.skip(n as int), final(self).reserve_bound == old(self).reserve_bound
    { unimplemented!() }
    #[verifier::external_body]
    pub fn put_bytes(&mut self, val: u8, cnt: usize) ensures final(self)@ == old(self)@ + Seq::new(cnt as nat, |i: int| val), final(self).reserve_bound == old(self).reserve_bound { unimplemented!() }
    #[verifier::external_body]
    pub fn remaining_mut(&self) -> (r: usize) ensures r as int == usize::MAX as int - self@.len() { unimplemented!() }
}
// A-bytes-31: BytesMut::chunk_mut hands out the spare (uninitialised) capacity after the written bytes; it writes nothing itself
pub struct UninitSlice { pub x: u8 }
impl BytesMut {
    #[verifier::external_body]
    pub fn chunk_mut(&mut self) -> (r: &mut UninitSlice) ensures final(self)@ == old(self)@, final(self).reserve_bound == old(self).reserve_bound { unimplemented!() }
}
// a bytes::Buf handed to EncodeBuf::put (possibly non-contiguous, A-bytes-29): all its bytes, their number, and its first chunk
pub trait SrcBuf: HasBytes {
    fn remaining(&self) -> (r: usize) ensures r == self.bytes_view().len();
    fn chunk(&self) -> (r: &[u8]) ensures r@.len() <= self.bytes_view().len(), r@ == self.bytes_view().take(r@.len() as int), self.bytes_view().len() > 0 ==> r@.len() > 0;
}
// assert!(c): panics unless c - under contract that is a precondition of the enclosing function (shadow macro: the condition
// is an `if` whose failing branch must be shown unreachable, so a call that could trip it does not verify)
#[allow(unused_macros)]
macro_rules! assert { ($c:expr) => { if !($c) { vstd::pervasive::unreached::<()>() } } }
'''


def build():
    u = Unit('codecbuf', ['C01', 'C07'])
    u.prelude('base.rs', 'bytes.rs')
    u.raw(SHIMS)
    u.item(B, 'struct', 'DecodeBuf')
    u.item(B, 'struct', 'EncodeBuf')
    u.raw('''impl<'a> DecodeBuf<'a> {
    pub open spec fn wf(&self) -> bool { self.len <= (*self.buf)@.len() }
    pub open spec fn payload(&self) -> Seq<u8> { (*self.buf)@.take(self.len as int) }
}
impl<'a> EncodeBuf<'a> {
    pub open spec fn written(&self) -> Seq<u8> { (*self.buf)@ }
}''')
    hd = "impl Buf for DecodeBuf<'_>"
    u._emit("impl<'a> DecodeBuf<'a> {"); u._open_header = "impl<'a> DecodeBuf<'a> {"
    u.fn(B, 'new', within="impl<'a> DecodeBuf<'a>", display='DecodeBuf::new',
         ensures=[Clause('D0_a_window_of_len_bytes_over_the_buffer', 'r.len == len && *r.buf == *old(buf) && *final(r.buf) == *final(buf)')])
    u.fn(B, 'remaining', within=hd, display='DecodeBuf::remaining', ensures=[Clause('D1_only_the_payload_is_readable', 'r == self.len')])
    u.fn(B, 'chunk', within=hd, display='DecodeBuf::chunk', requires=['self.wf()'],
         ensures=[Clause('D2_the_chunk_is_the_payload_and_never_reaches_past_it', 'r@ == self.payload()')])
    u.fn(B, 'advance', within=hd, display='DecodeBuf::advance', requires=['old(self).wf()', 'cnt <= old(self).len'],
         ensures=[Clause('D3_advance_consumes_from_the_front_of_the_payload',
                         'final(self).wf() && final(self).payload() =~= old(self).payload().skip(cnt as int) && (*final(self).buf)@ == (*old(self).buf)@.skip(cnt as int) && *final(final(self).buf) == *final(old(self).buf)')])
    u.fn(B, 'copy_to_bytes', within=hd, display='DecodeBuf::copy_to_bytes', requires=['old(self).wf()', 'len <= old(self).len'],
         ensures=[Clause('D4_copy_to_bytes_hands_out_the_front_of_the_payload',
                         'r@ =~= old(self).payload().take(len as int) && final(self).wf() && final(self).payload() =~= old(self).payload().skip(len as int) && *final(final(self).buf) == *final(old(self).buf)')])
    u.close('}')
    he = "impl BufMut for EncodeBuf<'_>"
    u._emit("impl<'a> EncodeBuf<'a> {"); u._open_header = "impl<'a> EncodeBuf<'a> {"
    PE = ['C01', 'C03']
    fr = '*final(final(self).buf) == *final(old(self).buf) && final(self).buf.reserve_bound == old(self).buf.reserve_bound'
    u.fn(B, 'new', within="impl<'a> EncodeBuf<'a>", display='EncodeBuf::new', props=PE,
         ensures=[Clause('E0_a_window_over_the_buffer', '*r.buf == *old(buf) && *final(r.buf) == *final(buf)', PE)])
    u.fn(B, 'reserve', within="impl EncodeBuf<'_>", display='EncodeBuf::reserve', props=PE, requires=['old(self).buf.reserve_bound@ < 0'],
         ensures=[Clause('E1_reserving_changes_no_byte', '(*final(self).buf)@ == (*old(self).buf)@ && ' + fr, PE)])
    u.fn(B, 'put_slice', within=he, display='EncodeBuf::put_slice', props=PE,
         ensures=[Clause('E3_a_write_appends_exactly_these_bytes', '(*final(self).buf)@ == (*old(self).buf)@ + src@ && ' + fr, PE)])
    u.fn(B, 'put_bytes', within=he, display='EncodeBuf::put_bytes', props=PE,
         ensures=[Clause('E4_a_fill_appends_exactly_cnt_copies', '(*final(self).buf)@ == (*old(self).buf)@ + Seq::new(cnt as nat, |i: int| val) && ' + fr, PE)])
    u.fn(B, 'remaining_mut', within=he, display='EncodeBuf::remaining_mut', props=PE,
         ensures=[Clause('E5_as_much_room_as_the_send_buffer_has', 'r as int == usize::MAX as int - self.written().len()', PE)])
    u.fn(B, 'advance_mut', within=he, display='EncodeBuf::advance_mut', props=PE, requires=['cnt <= old(self).buf.spare@'],   # the safety condition of this unsafe fn (BufMut::advance_mut)
         ensures=[Clause('E6_advancing_keeps_every_byte_written_so_far', '(*final(self).buf)@.len() == (*old(self).buf)@.len() + cnt && (*final(self).buf)@.take((*old(self).buf)@.len() as int) == (*old(self).buf)@ && ' + fr, PE)])
    u.fn(B, 'chunk_mut', within=he, display='EncodeBuf::chunk_mut', props=PE,
         ensures=[Clause('E7_handing_out_spare_capacity_writes_nothing', '(*final(self).buf)@ == (*old(self).buf)@ && ' + fr, PE)])
    u.fn(B, 'put', within=he, display='EncodeBuf::put', props=PE, sig_edits=[lambda t: t.sub_code('R12', r'T: Buf', 'T: SrcBuf')],
         ensures=[Clause('E8_a_buffer_is_appended_whole', '(*final(self).buf)@ == (*old(self).buf)@ + src.bytes_view() && ' + fr, PE)])
    u.close('}')
    return u
