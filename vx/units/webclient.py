"""U9a — tonic-web/src/call.rs, client side: frame walking (find_trailers, trailers_frame_len) and the response-decoding loop of
GrpcWebCall::poll_frame.  Carries C17 (partial: the header-block parser decode_trailers_frame is out of reach)."""
from vxlib import Unit, Clause

C = 'tonic-web/src/call.rs'

SHIMS = r'''
// ---- shims local to the grpc-web units ----
pub struct Status { pub code: u8, pub id: Ghost<int> }
impl Status {
    // A-status-01: Status::internal has code INTERNAL (13)
    #[verifier::external_body]
    pub fn internal<M>(m: M) -> (r: Status) ensures r.code == 13 { unimplemented!() }
}
// A-tonic-web-00: internal_error(e) = Status::internal(format!("tonic-web: {}", e))
#[verifier::external_body]
pub fn internal_error<E>(e: E) -> (r: Status) ensures r.code == 13 { unimplemented!() }
#[derive(Debug)]
pub struct HeaderMap { pub id: u64 }
impl HeaderMap {
    // A-http-01: HeaderMap::extend (contents not modelled in this unit)
    #[verifier::external_body]
    pub fn extend(&mut self, other: HeaderMap) { unimplemented!() }
}
// bytes::Buf for &[u8] (A-bytes-30): get_u8 / get_u32 read big-endian from the front and advance the slice
pub trait Buf: Sized {
    spec fn bytes(&self) -> Seq<u8>;
    fn get_u8(&mut self) -> (r: u8) requires old(self).bytes().len() >= 1, ensures r == old(self).bytes()[0], final(self).bytes() == old(self).bytes().skip(1);
    fn get_u32(&mut self) -> (r: u32) requires old(self).bytes().len() >= 4, ensures r as int == be32_val(old(self).bytes()), final(self).bytes() == old(self).bytes().skip(4);
}
impl<'a> Buf for &'a [u8] {
    open spec fn bytes(&self) -> Seq<u8> { (*self)@ }
    #[verifier::external_body] fn get_u8(&mut self) -> (r: u8) { unimplemented!() }
    #[verifier::external_body] fn get_u32(&mut self) -> (r: u32) { unimplemented!() }
}
// A-bytes-31: &bytes_mut[..] is the whole content (a slice never exceeds isize::MAX bytes)
impl vstd::std_specs::core::IndexSpecImpl<core::ops::RangeFull> for BytesMut {
    open spec fn index_req(&self, idx: &core::ops::RangeFull) -> bool { true }
}
impl core::ops::Index<core::ops::RangeFull> for BytesMut {
    type Output = [u8];
    #[verifier::external_body] fn index(&self, r: core::ops::RangeFull) -> (o: &[u8]) ensures o@ == self@, o@.len() <= 0x7fff_ffff_ffff_ffff { unimplemented!() }
}
// A-core-13: u32::from_be_bytes
#[verifier::external_body]
pub fn verif_u32_from_be_bytes(b: [u8; 4]) -> (r: u32) ensures r as int == be32_val(b@) { unimplemented!() }
#[derive(Debug)]
pub enum Frame<T> { Data(T), Trailers(HeaderMap) }
impl<T> Frame<T> {
    // A-httpbody-01/03: http_body::Frame is data or trailers
    pub fn data(t: T) -> (r: Self) ensures r == Frame::Data(t) { Frame::Data(t) }
    pub fn trailers(t: HeaderMap) -> (r: Self) ensures r == Frame::<T>::Trailers(t) { Frame::Trailers(t) }
    pub fn is_data(&self) -> (r: bool) ensures r == (self is Data) { match self { Frame::Data(_) => true, _ => false } }
    pub fn is_trailers(&self) -> (r: bool) ensures r == (self is Trailers) { match self { Frame::Trailers(_) => true, _ => false } }
    pub fn into_data(self) -> (r: Result<T, Frame<T>>) ensures self is Data ==> r is Ok && r->Ok_0 == self->Data_0 { match self { Frame::Data(b) => Ok(b), f => Err(f) } }
    pub fn into_trailers(self) -> (r: Result<HeaderMap, Frame<T>>) ensures self is Trailers ==> r is Ok && r->Ok_0 == self->Trailers_0 { match self { Frame::Trailers(b) => Ok(b), f => Err(f) } }
}
'''

WALK = r'''
// ---- what a grpc-web response body is (PROTOCOL-WEB.md): message frames (flag 0/1) then a trailers frame (flag 0x80) ----
pub enum Walk { Trailer(int), Incomplete, Done(int), Bad }
// walk complete message frames from position pos
pub open spec fn walk(s: Seq<u8>, pos: int) -> Walk
    decreases s.len() - pos
{
    if pos < 0 || s.len() - pos < 5 { Walk::Done(pos) }
    else if s[pos] == 0x80 { Walk::Trailer(pos) }
    else if s[pos] > 1 { Walk::Bad }
    else {
        let n = be32_val(s.skip(pos + 1));
        if n < 0 || pos + 5 + n > s.len() { Walk::Incomplete } else { walk(s, pos + 5 + n) }
    }
}
// s is nothing but complete message frames
pub open spec fn msg_frames(s: Seq<u8>) -> bool { walk(s, 0) == Walk::Done(s.len() as int) }
pub proof fn lemma_walk_bounds(s: Seq<u8>, pos: int)
    requires 0 <= pos <= s.len()
    ensures match walk(s, pos) {
        Walk::Trailer(n) => pos <= n && n + 5 <= s.len() && s[n] == 0x80,
        Walk::Done(n) => pos <= n <= s.len() && s.len() - n < 5,
        _ => true,
    }
    decreases s.len() - pos
{
    if s.len() - pos >= 5 && s[pos] != 0x80 && s[pos] <= 1 {
        let n = be32_val(s.skip(pos + 1));
        if !(n < 0 || pos + 5 + n > s.len()) {
            lemma_walk_bounds(s, pos + 5 + n);
        }
    }
}
// the bytes before the point where the walk stops are complete message frames on their own
pub proof fn lemma_walk_prefix(s: Seq<u8>, pos: int, n: int)
    requires 0 <= pos <= s.len(), walk(s, pos) == Walk::Trailer(n) || walk(s, pos) == Walk::Done(n)
    ensures pos <= n <= s.len(), walk(s.take(n), pos) == Walk::Done(n)
    decreases s.len() - pos
{
    lemma_walk_bounds(s, pos);
    let t = s.take(n);
    if s.len() - pos >= 5 && s[pos] != 0x80 && s[pos] <= 1 {
        let m = be32_val(s.skip(pos + 1));
        if !(m < 0 || pos + 5 + m > s.len()) {
            lemma_walk_bounds(s, pos + 5 + m);
            lemma_walk_prefix(s, pos + 5 + m, n);
            assert(t.skip(pos + 1)[0] == s.skip(pos + 1)[0] && t.skip(pos + 1)[1] == s.skip(pos + 1)[1] && t.skip(pos + 1)[2] == s.skip(pos + 1)[2] && t.skip(pos + 1)[3] == s.skip(pos + 1)[3]);
            assert(be32_val(t.skip(pos + 1)) == m);
            assert(t[pos] == s[pos]);
        }
    }
}
'''

BODY = r'''
// The inner (HTTP/1.1) response body with a ghost history: DATA bytes delivered so far and whether it reported its end.
pub trait WebBody {
    spec fn received(&self) -> Seq<u8>;
    spec fn ended(&self) -> bool;
    // A-http-body-02: a body delivers finitely many frames: the (ghost) number still to come.  It is what makes "no busy loop"
    // (C17) a checkable statement: every turn of the decoding loop must consume buffered bytes or a frame of the body
    spec fn frames_left(&self) -> nat;
}
pub struct PinMut<'a, S> { pub p: &'a mut S }
pub struct GrpcWebCallProj<'a, B> {
    pub inner: PinMut<'a, B>, pub buf: &'a mut BytesMut, pub decoded: &'a mut BytesMut, pub direction: &'a mut Direction,
    pub encoding: &'a mut Encoding, pub client: &'a mut bool, pub trailers: &'a mut Option<HeaderMap>, pub inner_done: &'a mut bool,
}
impl<B> GrpcWebCall<B> {
    // A-pinproject-06: pin-project's generated projection of GrpcWebCall
    #[verifier::external_body]
    pub fn project(&mut self) -> (r: GrpcWebCallProj<'_, B>)
        ensures *r.inner.p == old(self).inner, *final(r.inner.p) == final(self).inner,
            *r.buf == old(self).buf, *final(r.buf) == final(self).buf,
            *r.decoded == old(self).decoded, *final(r.decoded) == final(self).decoded,
            *r.direction == old(self).direction, *final(r.direction) == final(self).direction,
            *r.encoding == old(self).encoding, *final(r.encoding) == final(self).encoding,
            *r.client == old(self).client, *final(r.client) == final(self).client,
            *r.trailers == old(self).trailers, *final(r.trailers) == final(self).trailers,
            *r.inner_done == old(self).inner_done, *final(r.inner_done) == final(self).inner_done,
    { unimplemented!() }
    // Pin::as_mut on Pin<&mut Self>: a reborrow
    pub fn as_mut(&mut self) -> (r: &mut Self) ensures *r == *old(self), *final(r) == *final(self) { self }
}
impl<B: WebBody> GrpcWebCall<B> {
    // representation invariant of the client decoder: the flag says exactly whether the inner body has ended
    pub open spec fn wf(&self) -> bool { self.inner_done == self.inner.ended() && self.decoded.reserve_bound@ < 0 }
    // A-cut-01: the Encode / server-Decode / Empty directions of poll_frame are an opaque call here; under contract in unit webserver (PF1-PF4)
    #[verifier::external_body]
    pub fn verif_other_directions(&mut self, cx: &mut Context) -> (r: Poll<Option<Result<Frame<Bytes>, Status>>>)
        requires !(old(self).client && old(self).direction == Direction::Decode)
    { unimplemented!() }
    // A-tonic-web-02 (PROVED in unit webserver, clauses N1/N2 of poll_decode; linked here as a callee contract): poll_decode in
    // binary mode (Encoding::None) forwards the inner body's frames with ALL their bytes copied
    // (self.project().inner.poll_frame(cx).map_ok(..copy_to_bytes..).map_err(internal_error)); it must not be called once
    // the inner body has ended
    #[verifier::external_body]
    pub fn poll_decode(&mut self, cx: &mut Context) -> (r: Poll<Option<Result<Frame<Bytes>, Status>>>)
        requires !old(self).inner.ended()
        ensures
            final(self).decoded == old(self).decoded, final(self).trailers == old(self).trailers, final(self).inner_done == old(self).inner_done,
            final(self).client == old(self).client, final(self).direction == old(self).direction, final(self).encoding == old(self).encoding,
            final(self).buf == old(self).buf,
            match r {
                Poll::Ready(Some(Ok(Frame::Data(d)))) => final(self).inner.received() == old(self).inner.received() + d@ && !final(self).inner.ended(),
                Poll::Ready(None) => final(self).inner.received() == old(self).inner.received() && final(self).inner.ended(),
                _ => final(self).inner.received() == old(self).inner.received() && !final(self).inner.ended(),
            },
            // A-cut-01b: a frame handed up by poll_decode cost at least one frame of the inner body; nothing else adds frames
            r matches Poll::Ready(Some(_)) ==> final(self).inner.frames_left() < old(self).inner.frames_left(),
            final(self).inner.frames_left() <= old(self).inner.frames_left(),
    { unimplemented!() }
}
// A-tonic-web-01: decode_trailers_frame parses the HTTP/1 header block of one complete trailers frame; WHAT it returns is
// specified and proved in unit webtrailers (clauses D0/D1 + the round-trip lemma); this loop only needs that it is total
#[verifier::external_body]
pub fn decode_trailers_frame(buf: Bytes) -> (r: Result<Option<HeaderMap>, Status>) { unimplemented!() }
// a run of complete trailers frames
pub open spec fn trailer_frames(t: Seq<u8>) -> bool
    decreases t.len()
{
    t.len() == 0 || (t.len() >= 5 && t[0] == 0x80 && 0 <= be32_val(t.skip(1)) && 5 + be32_val(t.skip(1)) <= t.len() && trailer_frames(t.skip(5 + be32_val(t.skip(1)))))
}
pub proof fn lemma_trailer_frames_push(t: Seq<u8>, f: Seq<u8>)
    requires trailer_frames(t), f.len() >= 5, f[0] == 0x80, 0 <= be32_val(f.skip(1)), 5 + be32_val(f.skip(1)) == f.len()
    ensures trailer_frames(t + f)
    decreases t.len()
{
    reveal_with_fuel(trailer_frames, 2);
    if t.len() == 0 {
        assert(t + f =~= f);
        assert(f.skip(5 + be32_val(f.skip(1))) =~= Seq::<u8>::empty());
        assert(trailer_frames(f.skip(5 + be32_val(f.skip(1)))));
    } else {
        let m = be32_val(t.skip(1));
        let n = 5 + m;
        let s = t + f;
        assert(t.len() >= 5);
        assert(s.skip(1)[0] == t.skip(1)[0] && s.skip(1)[1] == t.skip(1)[1] && s.skip(1)[2] == t.skip(1)[2] && s.skip(1)[3] == t.skip(1)[3]);
        assert(be32_val(s.skip(1)) == m);
        assert(s[0] == 0x80);
        assert(s.skip(n) =~= t.skip(n) + f);
        lemma_trailer_frames_push(t.skip(n), f);
        assert(trailer_frames(s.skip(n)));
    }
}
'''


def build():
    u = Unit('webclient', ['C17'])
    u.fn_guard('tonic-web/src/call.rs', 'internal_error', 'fn internal_error(e: impl std::fmt::Display) -> Status { Status::internal(format!("tonic-web: {}", e)) }', why='A-tonic-web-00')
    u.prelude('base.rs', 'wire.rs', 'bytes.rs')
    u.raw(SHIMS)
    u.raw(WALK)
    u.item(C, 'const', 'GRPC_HEADER_SIZE')
    u.item(C, 'const', 'GRPC_WEB_TRAILERS_BIT')
    u.item(C, 'enum', 'FindTrailers')
    u.item(C, 'enum', 'Direction', derives='Copy, Clone, PartialEq, Structural')
    u.item(C, 'enum', 'Encoding', derives='Copy, Clone, PartialEq, Structural')
    u.item(C, 'struct', 'GrpcWebCall')

    u.fn(C, 'find_trailers',
         requires=['buf@.len() <= 0x7fff_ffff_ffff_ffff'],
         loops={0: dict(invariant=['len <= buf@.len()', 'temp_buf@ == buf@.skip(len as int)', 'buf@.len() <= 0x7fff_ffff_ffff_ffff',
                                   'walk(buf@, 0) == walk(buf@, len as int)'],
                        decreases=['buf@.len() - len'])},
         hints=[('after', 'let msg_len = temp_buf.get_u32();', 'proof { assert(buf@.skip(len as int).skip(1) =~= buf@.skip(len as int + 1)); }')],
         ensures=[
             Clause('W1_result_is_the_frame_walk_of_the_buffer',
                    '''match walk(buf@, 0) {
                Walk::Trailer(n) => r == Ok::<FindTrailers, Status>(FindTrailers::Trailer(n as usize)),
                Walk::Done(n) => r == Ok::<FindTrailers, Status>(FindTrailers::Done(n as usize)),
                Walk::Incomplete => r == Ok::<FindTrailers, Status>(FindTrailers::IncompleteBuf),
                Walk::Bad => r matches Err(st) && st.code == 13,
            }'''),
         ])
    u.fn(C, 'trailers_frame_len',
         body_edits=[lambda t: t.sub_code('R17', r'u32::from_be_bytes\(', 'verif_u32_from_be_bytes(')],
         ensures=[
             Clause('L1_some_iff_the_whole_frame_is_buffered',
                    'r is Some <==> (buf@.len() >= 5 && 5 + be32_val(buf@.skip(1)) <= buf@.len())'),
             Clause('L2_length_is_header_plus_declared_length', 'r matches Some(n) ==> n == 5 + be32_val(buf@.skip(1))'),
         ])
    u.raw(BODY)
    W = 'old(self).decoded@ + final(self).inner.received().skip(old(self).inner.received().len() as int)'
    CL = 'old(self).client && old(self).direction == Direction::Decode'
    u.fn(C, 'poll_frame', within='impl<B> Body for GrpcWebCall<B>',
         header='impl<B: WebBody> GrpcWebCall<B> {', close=True,
         attrs=['#[verifier::loop_isolation(false)]'],
         sig_edits=[lambda t: t.sub_code('R9', r'Self::Data', 'Bytes'), lambda t: t.sub_code('R9', r'Self::Error', 'Status')],
         body_edits=[
             # the non-client directions are other functions' business (unit webserver): cut here by contract
             lambda t: t.sub_code('R12', r'match self\.direction \{\s*Direction::Decode => self\.poll_decode\(cx\),\s*Direction::Encode => self\.poll_encode\(cx\),\s*Direction::Empty => Poll::Ready\(None\),\s*\}', 'self.verif_other_directions(cx)'),
         ],
         closures={0: dict(params='trailers: HeaderMap', ret='(x: Result<Frame<Bytes>, Status>)', ensures=['x == Ok::<Frame<Bytes>, Status>(Frame::Trailers(trailers))'])},
         requires=['old(self).wf()', CL, 'old(self).decoded@.len() + old(self).inner.received().len() <= 0x3fff_ffff_ffff_ffff'],
         hints=[('after', 'let mut me = self.as_mut();', 'let ghost fut_me = *final(me); let ghost mut tcons = Seq::<u8>::empty(); proof { assert(me.inner.received().skip(me.inner.received().len() as int) =~= Seq::<u8>::empty()); assert(me.decoded@ + Seq::<u8>::empty() =~= me.decoded@); assert(tcons + me.decoded@ =~= me.decoded@); }'),
                ('before', 'match ready!(me.as_mut().poll_decode(cx)) {', 'let ghost r_before = me.inner.received(); let ghost d_before = me.decoded@; let ghost n0 = old(self).inner.received().len() as int;'),
                ('after', '.put(incoming_buf.into_data().unwrap());', 'proof { let r2 = me.inner.received(); assert(r2.skip(n0) =~= r_before.skip(n0) + r2.skip(r_before.len() as int)); assert(r2.take(n0) =~= old(self).inner.received()); assert((old(self).decoded@ + r_before.skip(n0)) + r2.skip(r_before.len() as int) =~= old(self).decoded@ + (r_before.skip(n0) + r2.skip(r_before.len() as int))); assert((tcons + d_before) + r2.skip(r_before.len() as int) =~= tcons + (d_before + r2.skip(r_before.len() as int))); }'),
                ('after', 'if let Some(frame_len) = trailers_frame_len(&buf[..]) {', 'let ghost old_buf = buf@; proof { lemma_walk_bounds(buf@, 0); }'),
                ('before', 'return Poll::Ready(Some(Ok(Frame::data(buf.split', 'proof { lemma_walk_bounds(buf@, 0); lemma_walk_prefix(buf@, 0, len as int); }', 0),
                ('before', 'return Poll::Ready(Some(Ok(Frame::data(buf.split', 'proof { lemma_walk_bounds(buf@, 0); lemma_walk_prefix(buf@, 0, len as int); }', 1),
                ('after', 'let frame = buf.split_to(frame_len).freeze();', 'proof { assert(frame@.skip(1)[0] == old_buf.skip(1)[0] && frame@.skip(1)[1] == old_buf.skip(1)[1] && frame@.skip(1)[2] == old_buf.skip(1)[2] && frame@.skip(1)[3] == old_buf.skip(1)[3]); lemma_trailer_frames_push(tcons, frame@); assert((tcons + frame@) + buf@ =~= tcons + (frame@ + buf@)); assert(frame@ + buf@ =~= old_buf); tcons = tcons + frame@; }')],
         loops={0: dict(invariant=[
             'me.wf()', 'me.client && me.direction == Direction::Decode',
             'me.inner.received().len() >= old(self).inner.received().len()',
             'me.inner.received().take(old(self).inner.received().len() as int) == old(self).inner.received()',
             'trailer_frames(tcons)',
             'old(self).decoded@ + me.inner.received().skip(old(self).inner.received().len() as int) == tcons + me.decoded@',
             '*final(me) == fut_me',
         ],
             # no busy loop: every turn consumes a frame of the body, or buffered bytes, or notices the end of the body
             decreases=['me.inner.frames_left()', 'me.decoded@.len()', '(if me.inner_done { 0int } else { 1int })'])},
         ensures=[
             Clause('C0_invariant_kept', 'final(self).wf() && final(self).client == old(self).client && final(self).direction == old(self).direction'),
             Clause('C1_history_only_grows', 'final(self).inner.received().len() >= old(self).inner.received().len() && final(self).inner.received().take(old(self).inner.received().len() as int) == old(self).inner.received()'),
             Clause('C2_data_is_exactly_the_complete_message_frames_buffered_nothing_lost',
                    f'''r matches Poll::Ready(Some(Ok(Frame::Data(d)))) ==> d@.len() > 0 && msg_frames(d@)
                && exists|t: Seq<u8>| trailer_frames(t) && {W} == t + d@ + final(self).decoded@'''),
             Clause('C3_clean_end_only_when_everything_was_consumed_and_the_body_ended',
                    f'''(r matches Poll::Ready(None) || r matches Poll::Ready(Some(Ok(Frame::Trailers(_))))) ==> final(self).inner.ended() && final(self).decoded@.len() == 0
                && trailer_frames({W})'''),
             Clause('C4_pending_loses_nothing',
                    f'''r is Pending ==> exists|t: Seq<u8>| trailer_frames(t) && {W} == t + final(self).decoded@'''),
             Clause('C5_trailers_frame_ends_the_stream', 'r matches Poll::Ready(Some(Ok(Frame::Trailers(_)))) ==> final(self).trailers is None'),
         ])
    return u
