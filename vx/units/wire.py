"""U0 — spec-level theory of the length-prefixed wire format (no tonic code): the independent decoder `parse`
inverts `wire`, and is a function of the concatenation of the input only (chunking independence)."""
from vxlib import Unit

THEORY = r'''
pub type Msg = (u8, Seq<u8>);
pub open spec fn frame_m(m: Msg) -> Seq<u8> { frame(m.0, m.1) }
pub open spec fn wire(ms: Seq<Msg>) -> Seq<u8> decreases ms.len() {
    if ms.len() == 0 { Seq::<u8>::empty() } else { frame_m(ms[0]) + wire(ms.skip(1)) }
}
pub open spec fn first(s: Seq<u8>) -> Msg { (s[0], first_payload(s)) }
// the independent decoder: the maximal sequence of complete frames, and what is left over
pub open spec fn parse(s: Seq<u8>) -> Seq<Msg> decreases s.len() {
    if !complete(s) { Seq::<Msg>::empty() } else { seq![first(s)] + parse(after_first(s)) }
}
pub open spec fn rest(s: Seq<u8>) -> Seq<u8> decreases s.len() {
    if !complete(s) { s } else { rest(after_first(s)) }
}
pub open spec fn small(ms: Seq<Msg>) -> bool { forall|i: int| 0 <= i < ms.len() ==> (#[trigger] ms[i]).1.len() < 0x1_0000_0000 }

pub proof fn lemma_hdr_len_nonneg(s: Seq<u8>) requires s.len() >= 5 ensures 0 <= hdr_len(s) < 0x1_0000_0000
{
    let t = s.skip(1);
    lemma_be32_bytes(t[0], t[1], t[2], t[3]);
}

pub proof fn lemma_frame_head(m: Msg, t: Seq<u8>)
    requires m.1.len() < 0x1_0000_0000
    ensures complete(frame_m(m) + t), first(frame_m(m) + t) == m, after_first(frame_m(m) + t) == t
{
    let s = frame_m(m) + t;
    let n = m.1.len() as int;
    assert(s.len() == 5 + n + t.len());
    lemma_hdr_prefix(m.0, n, m.1 + t);
    lemma_hdr_subrange(m.0, n, m.1 + t, n);
    assert(s =~= hdr(m.0, n) + (m.1 + t));
    assert(hdr_len(s) == n);
    assert(s.subrange(5, 5 + n) =~= m.1);
    assert(s.skip(5 + n) =~= t);
}

// round trip: the independent decoder inverts the wire format, with anything after it kept as rest
pub proof fn lemma_parse_wire(ms: Seq<Msg>, t: Seq<u8>)
    requires small(ms)
    ensures parse(wire(ms) + t) == ms + parse(t), rest(wire(ms) + t) == rest(t)
    decreases ms.len()
{
    if ms.len() == 0 {
        assert(wire(ms) + t =~= t);
        assert(ms + parse(t) =~= parse(t));
    } else {
        let m = ms[0];
        let tail = ms.skip(1);
        assert(small(tail)) by { assert forall|i: int| 0 <= i < tail.len() implies (#[trigger] tail[i]).1.len() < 0x1_0000_0000 by { assert(tail[i] == ms[i + 1]); } }
        assert(wire(ms) + t =~= frame_m(m) + (wire(tail) + t));
        lemma_frame_head(m, wire(tail) + t);
        lemma_parse_wire(tail, t);
        assert(seq![m] + (tail + parse(t)) =~= ms + parse(t));
    }
}

// chunking: appending more input never changes frames that were already complete
pub proof fn lemma_parse_append(u: Seq<u8>, c: Seq<u8>)
    ensures parse(u + c) == parse(u) + parse(rest(u) + c), rest(u + c) == rest(rest(u) + c)
    decreases u.len()
{
    if !complete(u) {
        assert(parse(u) + parse(rest(u) + c) =~= parse(u + c));
    } else {
        lemma_hdr_len_nonneg(u);
        let s = u + c;
        assert(s.skip(1)[0] == u.skip(1)[0]);
        assert(s.skip(1)[1] == u.skip(1)[1]);
        assert(s.skip(1)[2] == u.skip(1)[2]);
        assert(s.skip(1)[3] == u.skip(1)[3]);
        assert(hdr_len(s) == hdr_len(u));
        assert(complete(s));
        assert(first(s).1 =~= first(u).1);
        assert(after_first(s) =~= after_first(u) + c);
        lemma_parse_append(after_first(u), c);
        assert(parse(u + c) =~= parse(u) + parse(rest(u) + c));
    }
}

// a clean body is exactly a sequence of frames: nothing is left over, whatever follows is parsed independently
pub proof fn lemma_wire_roundtrip(ms: Seq<Msg>)
    requires small(ms)
    ensures parse(wire(ms)) == ms, rest(wire(ms)) == Seq::<u8>::empty()
{
    lemma_parse_wire(ms, Seq::<u8>::empty());
    assert(wire(ms) + Seq::<u8>::empty() =~= wire(ms));
    assert(ms + parse(Seq::<u8>::empty()) =~= ms);
}
'''


def build():
    u = Unit('wire', ['C01', 'C03'])
    u.prelude('base.rs', 'wire.rs')
    u.raw(THEORY)
    return u
