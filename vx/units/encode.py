"""U1 — encoder side: tonic/src/codec/encode.rs.
Carries C01 (framing, schedule independence), C03 (wire conformance, single trailers), C06 (send limit, no collateral loss),
C02 (status hand-off into trailers)."""
import re
from vxlib import Unit, Clause, r20_let_intro
from units import common

E = 'tonic/src/codec/encode.rs'

SHIMS = r'''
// ---- shims local to the encoder unit ----
pub struct EncodeBuf<'a> { pub buf: &'a mut BytesMut }
// Codec-side contract (ASSUMED about the user's Encoder, e.g. ProstEncoder): encode() appends exactly ser(item) to the
// buffer when ser_ok(item), otherwise fails having at most appended bytes.
pub trait Encoder {
    type Item;
    type Error;
    spec fn ser(item: Self::Item) -> Seq<u8>;
    spec fn ser_ok(item: Self::Item) -> bool;
    // A-codec-03: Encoder::encode contract
    fn encode(&mut self, item: Self::Item, dst: &mut EncodeBuf<'_>) -> (r: Result<(), Self::Error>)
        ensures
            r is Ok <==> Self::ser_ok(item),
            r is Ok ==> (*final(dst).buf)@ == (*old(dst).buf)@ + Self::ser(item),
            (*final(dst).buf)@.take((*old(dst).buf)@.len() as int) == (*old(dst).buf)@, (*final(dst).buf)@.len() >= (*old(dst).buf)@.len(),
            *final(final(dst).buf) == *final(old(dst).buf),
            final(dst).buf.reserve_bound == old(dst).buf.reserve_bound;
    // A-codec-04: Encoder::buffer_settings has no side effect
    fn buffer_settings(&self) -> (r: BufferSettings) ensures sane(r);
}

pub trait Stream { type Item; }
// A-stream-01: tokio_stream::adapters::Fuse<U>: a stream with a ghost log of everything it has yielded; after it has
// reported its end it keeps reporting the end and is not polled again.
pub struct Fuse<U: Stream> { pub inner: U, pub log: Ghost<Seq<U::Item>>, pub done: Ghost<bool>, pub polls_after_done: Ghost<nat> }
pub struct PinMut<'a, S> { pub p: &'a mut S }
impl<'a, U: Stream> PinMut<'a, Fuse<U>> {
    pub fn as_mut(&mut self) -> (r: PinMut<'_, Fuse<U>>)
        ensures *r.p == *old(self).p, *final(r.p) == *final(self).p, *final(final(self).p) == *final(old(self).p)
    { PinMut { p: &mut *self.p } }
    #[verifier::external_body]
    pub fn poll_next(self, cx: &mut Context) -> (r: Poll<Option<U::Item>>)
        ensures
            old(self.p).done@ ==> r == Poll::<Option<U::Item>>::Ready(None) && final(self.p).log@ == old(self.p).log@ && final(self.p).done@,
            r matches Poll::Ready(Some(x)) ==> final(self.p).log@ == old(self.p).log@.push(x) && final(self.p).done@ == old(self.p).done@,
            r matches Poll::Ready(None) ==> final(self.p).log@ == old(self.p).log@ && final(self.p).done@,
            r is Pending ==> final(self.p).log@ == old(self.p).log@ && final(self.p).done@ == old(self.p).done@,
    { unimplemented!() }
}
'''

SPECS = r'''
impl<'a> EncodeBuf<'a> {
    pub fn new(buf: &'a mut BytesMut) -> (r: Self)
        ensures *r.buf == *old(buf), *final(r.buf) == *final(buf)
    { EncodeBuf { buf } }
}
pub open spec fn send_limit(max_message_size: Option<usize>) -> int {
    match max_message_size { Some(l) => l as int, None => usize::MAX as int }
}
// What the protocol says must happen to one message (PROTOCOL-HTTP2.md + the property statement): either a frame or a status code
pub open spec fn item_result<T: Encoder>(enc: Option<CompressionEncoding>, max: Option<usize>, it: T::Item) -> Result<Seq<u8>, Code> {
    if !T::ser_ok(it) { Err(Code::Internal) }
    else if enc is Some && !compress_ok(enc->Some_0, T::ser(it)) { Err(Code::Internal) }
    else {
        let payload = match enc { Some(e) => compress_spec(e, T::ser(it)), None => T::ser(it) };
        if payload.len() > send_limit(max) { Err(Code::OutOfRange) }
        else if payload.len() > u32::MAX { Err(Code::ResourceExhausted) }
        else { Ok(frame(flag_of(enc), payload)) }
    }
}
pub open spec fn good<T: Encoder>(enc: Option<CompressionEncoding>, max: Option<usize>, x: Result<T::Item, Status>) -> bool {
    x matches Ok(it) && item_result::<T>(enc, max, it) is Ok
}
pub open spec fn bytes_of<T: Encoder>(enc: Option<CompressionEncoding>, max: Option<usize>, x: Result<T::Item, Status>) -> Seq<u8> {
    if good::<T>(enc, max, x) { item_result::<T>(enc, max, x->Ok_0)->Ok_0 } else { Seq::<u8>::empty() }
}
// concatenation of the frames of the good items
#[verifier::opaque]
pub open spec fn wire_of<T: Encoder>(enc: Option<CompressionEncoding>, max: Option<usize>, items: Seq<Result<T::Item, Status>>) -> Seq<u8>
    decreases items.len()
{
    if items.len() == 0 { Seq::<u8>::empty() } else { wire_of::<T>(enc, max, items.drop_last()) + bytes_of::<T>(enc, max, items.last()) }
}
pub open spec fn all_good<T: Encoder>(enc: Option<CompressionEncoding>, max: Option<usize>, items: Seq<Result<T::Item, Status>>) -> bool {
    forall|i: int| 0 <= i < items.len() ==> good::<T>(enc, max, #[trigger] items[i])
}
// the status an item that is not good ends the stream with
pub open spec fn failure_matches<T: Encoder>(enc: Option<CompressionEncoding>, max: Option<usize>, x: Result<T::Item, Status>, st: Status) -> bool {
    match x { Err(s) => st == s, Ok(it) => item_result::<T>(enc, max, it) matches Err(c) && st.code == c }
}
pub proof fn lemma_wire_push<T: Encoder>(enc: Option<CompressionEncoding>, max: Option<usize>, items: Seq<Result<T::Item, Status>>, x: Result<T::Item, Status>)
    ensures wire_of::<T>(enc, max, items.push(x)) == wire_of::<T>(enc, max, items) + bytes_of::<T>(enc, max, x)
{
    reveal_with_fuel(wire_of, 2);
    assert(items.push(x).drop_last() =~= items);
}
pub proof fn lemma_wire_empty<T: Encoder>(enc: Option<CompressionEncoding>, max: Option<usize>, items: Seq<Result<T::Item, Status>>)
    requires items.len() == 0
    ensures wire_of::<T>(enc, max, items) =~= Seq::<u8>::empty()
{
    reveal_with_fuel(wire_of, 1);
}
'''

STEP = r'''
impl<T, U> EncodedBytes<T, U>
where
    T: Encoder<Error = Status>,
    U: Stream<Item = Result<T::Item, Status>>,
{
    pub open spec fn consumed(&self, pre: &Self) -> Seq<Result<T::Item, Status>> { self.source.log@.skip(pre.source.log@.len() as int) }
    // A-pinproject-01: pin-project's generated projection of EncodedBytes (field-wise reborrow)
    #[verifier::external_body]
    pub fn project(&mut self) -> (r: EncodedBytesProj<'_, T, U>)
        ensures
            *r.source.p == old(self).source, *final(r.source.p) == final(self).source,
            *r.encoder == old(self).encoder, *final(r.encoder) == final(self).encoder,
            *r.compression_encoding == old(self).compression_encoding, *final(r.compression_encoding) == final(self).compression_encoding,
            *r.max_message_size == old(self).max_message_size, *final(r.max_message_size) == final(self).max_message_size,
            *r.buf == old(self).buf, *final(r.buf) == final(self).buf,
            *r.uncompression_buf == old(self).uncompression_buf, *final(r.uncompression_buf) == final(self).uncompression_buf,
            *r.error == old(self).error, *final(r.error) == final(self).error,
    { unimplemented!() }
}
pub struct EncodedBytesProj<'a, T, U: Stream> {
    pub source: PinMut<'a, Fuse<U>>,
    pub encoder: &'a mut T,
    pub compression_encoding: &'a mut Option<CompressionEncoding>,
    pub max_message_size: &'a mut Option<usize>,
    pub buf: &'a mut BytesMut,
    pub uncompression_buf: &'a mut BytesMut,
    pub error: &'a mut Option<Status>,
}
// The step relation of EncodedBytes::poll_next (one call), over the ghost log of the message source.
#[verifier::opaque]
pub open spec fn enc_step<T, U>(pre: EncodedBytes<T, U>, post: EncodedBytes<T, U>, r: Poll<Option<Result<Bytes, Status>>>) -> bool
where T: Encoder<Error = Status>, U: Stream<Item = Result<T::Item, Status>>
{
    let enc = pre.compression_encoding;
    let max = pre.max_message_size;
    let c = post.consumed(&pre);
    &&& post.compression_encoding == enc && post.max_message_size == max
    &&& pre.source.log@.len() <= post.source.log@.len() && post.source.log@.take(pre.source.log@.len() as int) == pre.source.log@
    &&& match pre.error {
        Some(e) => r == Poll::Ready(Some(Err::<Bytes, Status>(e))) && post.error is None && post.buf@ == pre.buf@ && c.len() == 0,
        None => match r {
            Poll::Pending => pre.buf@.len() == 0 && post.buf@.len() == 0 && c.len() == 0 && post.error is None && !post.source.done@,
            Poll::Ready(None) => pre.buf@.len() == 0 && post.buf@.len() == 0 && c.len() == 0 && post.error is None && post.source.done@,
            Poll::Ready(Some(Ok(bytes))) => {
                &&& bytes@.len() > 0 && post.buf@.len() == 0
                &&& bytes@ =~= pre.buf@ + wire_of::<T>(enc, max, c)
                &&& c.len() > 0 ==> all_good::<T>(enc, max, c.drop_last())
                &&& if c.len() > 0 && !good::<T>(enc, max, c.last()) {
                        post.error matches Some(st) && failure_matches::<T>(enc, max, c.last(), st)
                    } else { post.error is None }
            },
            Poll::Ready(Some(Err(st))) => {
                &&& pre.buf@.len() == 0 && post.buf@.len() == 0 && post.error is None
                &&& c.len() == 1 && !good::<T>(enc, max, c[0]) && failure_matches::<T>(enc, max, c[0], st)
            },
        },
    }
}
'''

TRACE = r'''
// ---- whole-stream statement (C01, second sentence): batching / readiness independence of the encoder ----
// Any finite history of EncodedBytes::poll_next calls - however the source's readiness interleaves with the polls, however
// the yield threshold cuts the output into chunks - emits, chunk after chunk, exactly the wire image of the items consumed
// so far (minus what is still buffered).  The step relation is the PROVED postcondition of the real poll_next.
pub open spec fn emitted_of(r: Poll<Option<Result<Bytes, Status>>>) -> Seq<u8> {
    match r { Poll::Ready(Some(Ok(b))) => b@, _ => Seq::<u8>::empty() }
}
pub open spec fn concat_emitted(rs: Seq<Poll<Option<Result<Bytes, Status>>>>, n: int) -> Seq<u8>
    decreases n
{
    if n <= 0 || n > rs.len() { Seq::<u8>::empty() } else { concat_emitted(rs, n - 1) + emitted_of(rs[n - 1]) }
}
pub open spec fn enc_trace<T, U>(ss: Seq<EncodedBytes<T, U>>, rs: Seq<Poll<Option<Result<Bytes, Status>>>>) -> bool
where T: Encoder<Error = Status>, U: Stream<Item = Result<T::Item, Status>>
{
    ss.len() == rs.len() + 1 && forall|i: int| 0 <= i < rs.len() ==> #[trigger] enc_step(ss[i], ss[i + 1], rs[i])
}
pub proof fn lemma_wire_concat<T: Encoder>(enc: Option<CompressionEncoding>, max: Option<usize>, a: Seq<Result<T::Item, Status>>, b: Seq<Result<T::Item, Status>>)
    ensures wire_of::<T>(enc, max, a + b) == wire_of::<T>(enc, max, a) + wire_of::<T>(enc, max, b)
    decreases b.len()
{
    if b.len() == 0 {
        lemma_wire_empty::<T>(enc, max, b);
        assert(a + b =~= a);
        assert(wire_of::<T>(enc, max, a) + Seq::<u8>::empty() =~= wire_of::<T>(enc, max, a));
    } else {
        lemma_wire_concat::<T>(enc, max, a, b.drop_last());
        assert(a + b =~= (a + b.drop_last()).push(b.last()));
        lemma_wire_push::<T>(enc, max, a + b.drop_last(), b.last());
        assert(b =~= b.drop_last().push(b.last()));
        lemma_wire_push::<T>(enc, max, b.drop_last(), b.last());
        assert((wire_of::<T>(enc, max, a) + wire_of::<T>(enc, max, b.drop_last())) + bytes_of::<T>(enc, max, b.last())
            =~= wire_of::<T>(enc, max, a) + (wire_of::<T>(enc, max, b.drop_last()) + bytes_of::<T>(enc, max, b.last())));
    }
}
pub proof fn lemma_enc_schedule_independent<T, U>(ss: Seq<EncodedBytes<T, U>>, rs: Seq<Poll<Option<Result<Bytes, Status>>>>, n: int)
where T: Encoder<Error = Status>, U: Stream<Item = Result<T::Item, Status>>
    requires enc_trace(ss, rs), 0 <= n <= rs.len()
    ensures
        ss[n].compression_encoding == ss[0].compression_encoding && ss[n].max_message_size == ss[0].max_message_size,
        ss[0].source.log@.len() <= ss[n].source.log@.len() && ss[n].source.log@.take(ss[0].source.log@.len() as int) == ss[0].source.log@,
        concat_emitted(rs, n) + ss[n].buf@ == ss[0].buf@ + wire_of::<T>(ss[0].compression_encoding, ss[0].max_message_size, ss[n].source.log@.skip(ss[0].source.log@.len() as int)),
    decreases n
{
    let enc = ss[0].compression_encoding; let max = ss[0].max_message_size; let l0 = ss[0].source.log@.len() as int;
    if n == 0 {
        lemma_wire_empty::<T>(enc, max, ss[0].source.log@.skip(l0));
        assert(ss[0].source.log@.take(l0) =~= ss[0].source.log@);
        assert(concat_emitted(rs, 0) + ss[0].buf@ =~= ss[0].buf@ + Seq::<u8>::empty());
    } else {
        lemma_enc_schedule_independent(ss, rs, n - 1);
        let i0 = n - 1;
        assert(enc_step(ss[i0], ss[i0 + 1], rs[i0]));
        reveal(enc_step);
        let pre = ss[n - 1]; let post = ss[n]; let r = rs[n - 1];
        let c = post.consumed(&pre);
        let before = pre.source.log@.skip(l0);
        assert(post.source.log@.skip(l0) =~= before + c);
        assert(post.source.log@.take(l0) =~= ss[0].source.log@);
        lemma_wire_concat::<T>(enc, max, before, c);
        if c.len() == 0 { lemma_wire_empty::<T>(enc, max, c); }
        if c.len() == 1 && !good::<T>(enc, max, c[0]) {
            lemma_wire_empty::<T>(enc, max, c.drop_last()); lemma_wire_push::<T>(enc, max, c.drop_last(), c[0]); assert(c =~= c.drop_last().push(c[0]));
        }
        let W0 = wire_of::<T>(enc, max, before); let Wc = wire_of::<T>(enc, max, c);
        assert(concat_emitted(rs, n) == concat_emitted(rs, n - 1) + emitted_of(r));
        assert(concat_emitted(rs, n) + post.buf@ =~= ss[0].buf@ + (W0 + Wc)) by {
            assert((concat_emitted(rs, n - 1) + emitted_of(r)) + post.buf@ =~= concat_emitted(rs, n - 1) + (emitted_of(r) + post.buf@));
            assert(emitted_of(r) + post.buf@ =~= pre.buf@ + Wc);
            assert(concat_emitted(rs, n - 1) + (pre.buf@ + Wc) =~= (concat_emitted(rs, n - 1) + pre.buf@) + Wc);
            assert((ss[0].buf@ + W0) + Wc =~= ss[0].buf@ + (W0 + Wc));
        }
    }
}
'''

BODY_SHIMS = r'''
// http_body::Frame<Bytes>
pub enum Frame<T> { Data(T), Trailers(HeaderMap) }
impl<T> Frame<T> {
    // A-httpbody-03: Frame::data / Frame::trailers constructors
    pub fn data(t: T) -> (r: Self) ensures r == Frame::Data(t) { Frame::Data(t) }
    pub fn trailers(t: HeaderMap) -> (r: Self) ensures r == Frame::<T>::Trailers(t) { Frame::Trailers(t) }
}
// A-core-02: `impl<T> From<T> for Poll<T>` is Poll::Ready
impl<T> vstd::std_specs::convert::FromSpecImpl<T> for Poll<T> {
    open spec fn obeys_from_spec() -> bool { true }
    open spec fn from_spec(v: T) -> Self { Poll::Ready(v) }
}
impl<T> From<T> for Poll<T> { fn from(t: T) -> (r: Poll<T>) { Poll::Ready(t) } }
// the trailers block of a finished server body: written(st) for the status the stream ended with
pub open spec fn end_block(err: Option<Status>, h: HMap) -> bool {
    exists|st: Status| #[trigger] written(st, Map::<Seq<char>, Seq<Seq<u8>>>::empty(), h) && (err matches Some(e) ==> st == e) && (err is None ==> st.code == Code::Ok)
}
pub open spec fn error_block<T, U>(pre: EncodedBytes<T, U>, post: EncodedBytes<T, U>, h: HMap) -> bool
    where T: Encoder<Error = Status>, U: Stream<Item = Result<T::Item, Status>>
{
    exists|st: Status| #[trigger] written(st, Map::<Seq<char>, Seq<Seq<u8>>>::empty(), h) && enc_step(pre, post, Poll::Ready(Some(Err(st))))
}
pub struct EncodeBodyProj<'a, T, U: Stream> { pub inner: &'a mut EncodedBytes<T, U>, pub state: &'a mut EncodeState }
impl<T, U: Stream> EncodeBody<T, U> {
    // A-pinproject-02: pin-project's generated projection of EncodeBody
    #[verifier::external_body]
    pub fn project(&mut self) -> (r: EncodeBodyProj<'_, T, U>)
        ensures *r.inner == old(self).inner, *final(r.inner) == final(self).inner, *r.state == old(self).state, *final(r.state) == final(self).state
    { unimplemented!() }
}
'''


def build():
    u = Unit('encode', ['C01', 'C03', 'C06'])
    common.http_base(u)
    u.prelude('wire.rs')
    common.metadata_core(u)
    common.status_decls(u)
    common.status_assumed(u)
    u.item('tonic/src/codec/compression.rs', 'enum', 'CompressionEncoding', derives='Clone, Copy, PartialEq, Eq')
    u.prelude('codec_specs.rs', 'codec.rs')
    u.const_guard('tonic/src/codec/mod.rs', 'HEADER_SIZE', 'const HEADER_SIZE: usize = std::mem::size_of::<u8>() + std::mem::size_of::<u32>();', 'pub const HEADER_SIZE: usize = 5;')
    u.item('tonic/src/codec/mod.rs', 'const', 'DEFAULT_MAX_SEND_MESSAGE_SIZE')
    u.raw(SHIMS)
    u.raw(SPECS)

    lim = 'send_limit(max_message_size)'
    u.fn(E, 'finish_encoding',
         requires=['old(buf)@.len() >= 5'],
         ensures=[
             Clause('L1_error_iff_over_limit', f'r is Err <==> (old(buf)@.len() - 5 > {lim} || old(buf)@.len() - 5 > u32::MAX)', ['C06', 'C03']),
             Clause('L2_error_codes', f'r matches Err(st) ==> final(buf)@ == old(buf)@ && (if old(buf)@.len() - 5 > {lim} {{ st.code == Code::OutOfRange }} else {{ st.code == Code::ResourceExhausted }})', ['C06']),
             Clause('W1_header_layout', 'r is Ok ==> final(buf)@ =~= frame(flag_of(compression_encoding), old(buf)@.skip(5))', ['C01', 'C03', 'C02']),
         ])

    u.fn(E, 'encode_item',
         body_start='    broadcast use lemma_take_all, lemma_skip_skip, lemma_add_skip, lemma_add_take;',
         closures={0: dict(params='err: Status', ret='(x: Status)', ensures=['x.code == Code::Internal']),
                   1: dict(params='err: IoError', ret='(x: Status)', ensures=['x.code == Code::Internal']),
                   2: dict(params='err: Status', ret='(x: Status)', ensures=['x.code == Code::Internal'])},
         hints=[('before', 'finish_encoding(compression_encoding, max_message_size',
                 'proof { let payload = match compression_encoding { Some(e) => compress_spec(e, T::ser(item)), None => T::ser(item) }; assert(buf@.take(offset as int) =~= old(buf)@); assert(buf@.skip(offset as int).skip(5) =~= payload); }')],
         requires=['old(buf).reserve_bound@ < 0', 'sane(buffer_settings)'],
         ensures=[
             Clause('I1_function_of_spec',
                    '''match item_result::<T>(compression_encoding, max_message_size, item) {
                Ok(f) => r is Ok && final(buf)@ =~= old(buf)@ + f,
                Err(c) => r matches Err(st) && st.code == c,
            }''', ['C01', 'C03', 'C06', 'C02']),   # callee of poll_next (C02)
             Clause('I2_earlier_bytes_never_disturbed', 'final(buf)@.len() >= old(buf)@.len() && final(buf)@.take(old(buf)@.len() as int) == old(buf)@ && final(buf).reserve_bound == old(buf).reserve_bound', ['C01', 'C06']),
         ])

    u.item(E, 'struct', 'EncodedBytes', edits=[lambda t: t.sub_code('R12', r'EncodedBytes<T, U>', 'EncodedBytes<T, U: Stream>')])
    u.raw(STEP)
    u.item(E, 'enum', 'Role')
    u.item(E, 'struct', 'EncodeState')
    u.item(E, 'struct', 'EncodeBody', edits=[lambda t: t.sub_code('R12', r'EncodeBody<T, U>', 'EncodeBody<T, U: Stream>')])
    u.raw(TRACE, props=['C01', 'C03'])
    u.raw(BODY_SHIMS)
    # ---- constructors: which role / compression / limit a body is built with ----
    u.item('tonic/src/codec/compression.rs', 'enum', 'SingleMessageCompressionOverride', derives='Clone, Copy, PartialEq, Eq, Structural')
    import vxlib as _vx
    if not re.search(r'#\[default\]\s*Inherit\b', _vx.read_src('tonic/src/codec/compression.rs')):
        # the shim below (A-derive-02) spells out derive(Default); if the source no longer says so the unit cannot decide
        raise _vx.Infra('SingleMessageCompressionOverride: #[default] is no longer on Inherit (text guard of shim A-derive-02)')
    u.raw('''// A-derive-02: #[derive(Default)] with #[default] on Inherit
impl SingleMessageCompressionOverride { pub fn default() -> (r: Self) ensures r == SingleMessageCompressionOverride::Inherit { SingleMessageCompressionOverride::Inherit } }
// A-stream-02: StreamExt::fuse wraps the stream; nothing has been yielded yet
pub trait FuseExt: Stream + Sized {
    fn fuse(self) -> (r: Fuse<Self>) ensures r.inner == self, r.log@ == Seq::<Self::Item>::empty(), !r.done@;
}
impl<U: Stream> FuseExt for U { #[verifier::external_body] fn fuse(self) -> (r: Fuse<Self>) { unimplemented!() } }
pub open spec fn fresh_encoder<T, U: Stream>(e: EncodedBytes<T, U>, encoder: T, source: U, compression: Option<CompressionEncoding>, max: Option<usize>) -> bool {
    e.encoder == encoder && e.source.inner == source && e.source.log@ == Seq::<U::Item>::empty() && !e.source.done@
        && e.compression_encoding == compression && e.max_message_size == max && e.buf@ == Seq::<u8>::empty() && e.error is None
}
''')
    CP = ['C02', 'C03', 'C05', 'C06']
    u.fn(E, 'new', within='impl<T: Encoder, U: Stream> EncodedBytes<T, U>', header='impl<T: Encoder, U: Stream> EncodedBytes<T, U> {', close=True, props=CP,
         ensures=[Clause('B0_fresh_encoder_with_the_given_settings_and_the_per_message_override_applied',
                         'fresh_encoder(r, encoder, source, if compression_override == SingleMessageCompressionOverride::Disable { None } else { compression_encoding }, max_message_size)')])
    u._emit('impl<T: Encoder, U: Stream> EncodeBody<T, U> {'); u._open_header = 'impl<T: Encoder, U: Stream> EncodeBody<T, U> {'
    W = 'impl<T: Encoder, U: Stream> EncodeBody<T, U>'
    u.fn(E, 'new_client', within=W, props=CP,
         ensures=[Clause('B1_client_body_never_owes_trailers_and_uses_the_configured_compression_and_limit',
                         'r.state.role is Client && r.state.error is None && !r.state.is_end_stream && fresh_encoder(r.inner, encoder, source, compression_encoding, max_message_size)')])
    u.fn(E, 'new_server', within=W, props=CP,
         ensures=[Clause('B2_server_body_owes_trailers',
                         'r.state.role is Server && r.state.error is None && !r.state.is_end_stream && fresh_encoder(r.inner, encoder, source, if compression_override == SingleMessageCompressionOverride::Disable { None } else { compression_encoding }, max_message_size)')])
    u.close('}')

    hint = ('proof { let x = source.p.log@.last(); assert(source.p.log@ =~= log_before.push(x)); '
            'assert(source.p.log@.skip(n0) =~= log_before.skip(n0).push(x)); lemma_wire_push::<T>(enc0, max0, log_before.skip(n0), x); '
            'assert(source.p.log@.skip(n0).drop_last() =~= log_before.skip(n0)); assert(source.p.log@.take(n0) =~= log_before.take(n0)); }')
    u.fn(E, 'poll_next', within='impl<T, U> Stream for EncodedBytes<T, U>',
         header='''impl<T, U> EncodedBytes<T, U>
where
    T: Encoder<Error = Status>,
    U: Stream<Item = Result<T::Item, Status>>,
{''', close=True,
         attrs=['#[verifier::exec_allows_no_decreases_clause]', '#[verifier::loop_isolation(false)]'],
         sig_edits=[lambda t: t.sub_code('R9', r'Self::Item', 'Result<Bytes, Status>')],
         requires=['old(self).buf.reserve_bound@ < 0'],
         body_start='        broadcast use lemma_take_all; reveal(enc_step);',
         hints=[('before', 'let buffer_settings = encoder.buffer_settings();',
                 'let ghost fut_src = *final(source.p); let ghost n0 = source.p.log@.len() as int; let ghost buf0 = buf@; let ghost enc0 = *compression_encoding; let ghost max0 = *max_message_size; proof { lemma_wire_empty::<T>(enc0, max0, source.p.log@.skip(n0)); }'),
                ('before', 'match source.as_mut().poll_next(cx) {', 'let ghost log_before = source.p.log@;'),
                ('after', 'Poll::Ready(Some(Ok(item))) => {', hint),
                ('after', 'buf.truncate(offset);', 'proof { assert(!good::<T>(enc0, max0, source.p.log@.last())); assert(bytes_of::<T>(enc0, max0, source.p.log@.last()) =~= Seq::<u8>::empty()); assert(buf@ =~= buf0 + wire_of::<T>(enc0, max0, log_before.skip(n0))); assert(buf@ =~= buf0 + wire_of::<T>(enc0, max0, source.p.log@.skip(n0))); }', 0, [('before', '*error = Some(status);', 0), ('before', 'return Poll::Ready(Some(Ok(buf.split_to(buf.len()).freeze())));', 1)]),
                ('before', 'return Poll::Ready(Some(Err(status)));', 'proof { assert(source.p.log@.take(n0) =~= source.p.log@); }'),
                ('after', '*error = Some(status);', 'proof { assert(buf@ == buf0 + wire_of::<T>(enc0, max0, source.p.log@.skip(n0))); assert(buf@.take(buf@.len() as int) =~= buf@); assert(buf@ == old(self).buf@ + wire_of::<T>(old(self).compression_encoding, old(self).max_message_size, source.p.log@.skip(old(self).source.log@.len() as int))); assert(*compression_encoding == enc0); assert(*final(source.p) == fut_src); }'),
                ('before', 'if buf.len() >= buffer_settings.yield_threshold {', 'proof { assert(good::<T>(enc0, max0, source.p.log@.last())); }'),
                ('after', 'Poll::Ready(Some(Err(status))) => {', hint),
                ],
         loops={0: dict(invariant=[
             '*error is None', '*compression_encoding == enc0', '*max_message_size == max0', 'n0 <= source.p.log@.len()',
             'all_good::<T>(enc0, max0, source.p.log@.skip(n0))', 'buf0 == old(self).buf@', 'n0 == old(self).source.log@.len()',
             'enc0 == old(self).compression_encoding', 'max0 == old(self).max_message_size', 'old(self).error is None',
             'source.p.log@.len() > n0 ==> buf@.len() > 0', 'source.p.log@.take(n0) =~= old(self).source.log@', '*final(source.p) == fut_src',
             'buf@ == buf0 + wire_of::<T>(enc0, max0, source.p.log@.skip(n0))',
             'buf.reserve_bound@ < 0',
         ])},
         ensures=[Clause('STEP_enc_step', 'enc_step(*old(self), *final(self), r)', ['C01', 'C03', 'C06', 'C02'])])   # callee of EncodeBody::poll_frame (C02)

    u.fn(E, 'trailers', within='impl EncodeState', header='impl EncodeState {', close=True,
         ensures=[
             Clause('T1_client_never', 'old(self).role is Client ==> r is None && *final(self) == *old(self)', ['C03']),
             Clause('T2_at_most_once', 'old(self).role is Server && old(self).is_end_stream ==> r is None && *final(self) == *old(self)', ['C03']),
             Clause('T3_server_trailers_end_stream', 'old(self).role is Server && !old(self).is_end_stream ==> r is Some && final(self).is_end_stream && final(self).role is Server', ['C03']),
             Clause('T4_trailers_carry_the_status', 'r matches Some(Ok(h)) ==> end_block(old(self).error, h@)', ['C02', 'C03']),
         ])

    OI, FI = 'old(self).inner', 'final(self).inner'
    u.fn(E, 'poll_frame', within='impl<T, U> Body for EncodeBody<T, U>',
         header='''impl<T, U> EncodeBody<T, U>
where
    T: Encoder<Error = Status>,
    U: Stream<Item = Result<T::Item, Status>>,
{''', close=True,
         sig_edits=[lambda t: t.sub_code('R9', r'Self::Data', 'Bytes'), lambda t: t.sub_code('R9', r'Self::Error', 'Status')],
         body_edits=[lambda t: r20_let_intro(t, 'vtry!(status.to_header_map())', 'verif_h')],
         hints=[('after', 'let verif_h = vtry!(status.to_header_map());', 'proof { assert(written(status, %s, verif_h@)); assert(error_block(old(self).inner, *self_proj.inner, verif_h@)); }' % common.EMPTY)],
         closures={0: dict(params='t: Result<HeaderMap, Status>', ret='(x: Result<Frame<Bytes>, Status>)',
                           ensures=['t matches Ok(h) ==> x == Ok::<Frame<Bytes>, Status>(Frame::Trailers(h))', 't matches Err(e) ==> x == Err::<Frame<Bytes>, Status>(e)'])},
         requires=['old(self).inner.buf.reserve_bound@ < 0'],
         ensures=[
             Clause('W1_client_body_never_carries_trailers', 'old(self).state.role is Client ==> !(r matches Poll::Ready(Some(Ok(Frame::Trailers(_)))))', ['C03']),
             Clause('W2_trailers_at_most_once_and_end_the_stream', 'r matches Poll::Ready(Some(Ok(Frame::Trailers(_)))) ==> !old(self).state.is_end_stream && final(self).state.is_end_stream', ['C03']),
             Clause('W3_nothing_after_trailers', 'old(self).state.is_end_stream ==> r == Poll::<Option<Result<Frame<Bytes>, Status>>>::Ready(None) && *final(self) == *old(self)', ['C03']),
             Clause('W4_data_is_the_encoder_chunk', f'!old(self).state.is_end_stream ==> (r matches Poll::Ready(Some(Ok(Frame::Data(d)))) ==> enc_step({OI}, {FI}, Poll::Ready(Some(Ok(d)))) && final(self).state == old(self).state)', ['C01', 'C03', 'C06']),
             Clause('W5_pending', f'!old(self).state.is_end_stream && r is Pending ==> enc_step({OI}, {FI}, Poll::Pending) && final(self).state == old(self).state', ['C01', 'C03']),
             Clause('W6_server_status_becomes_the_trailers', f'''!old(self).state.is_end_stream && old(self).state.role is Server ==> (r matches Poll::Ready(Some(Ok(Frame::Trailers(h)))) ==>
                error_block({OI}, {FI}, h@) || (enc_step({OI}, {FI}, Poll::Ready(None)) && end_block(old(self).state.error, h@)))''', ['C02', 'C03', 'C06']),
             Clause('W7_client_error_is_a_body_error', f'!old(self).state.is_end_stream && old(self).state.role is Client ==> (r matches Poll::Ready(Some(Err(st))) ==> enc_step({OI}, {FI}, Poll::Ready(Some(Err(st)))))', ['C03', 'C06']),
             Clause('W8_clean_end_only_for_clients', f'!old(self).state.is_end_stream ==> (r matches Poll::Ready(None) ==> old(self).state.role is Client && enc_step({OI}, {FI}, Poll::Ready(None)))', ['C03']),
             Clause('W9_role_never_changes', 'final(self).state.role == old(self).state.role', ['C03']),
         ])
    # is_end_stream: the body claims to be over only after the trailers went out (a premature `true` makes the transport stop polling:
    # the grpc-status would be lost)
    u.fn(E, 'is_end_stream', within='impl<T, U> Body for EncodeBody<T, U>', header='impl<T, U: Stream> EncodeBody<T, U> {', close=True, props=['C03', 'C02'],
         ensures=[Clause('W10_the_body_claims_its_end_exactly_once_the_trailers_went_out', 'r == self.state.is_end_stream', ['C03', 'C02'])])
    return u
