"""U9b — tonic-web server side: call.rs (response encoding: data passthrough / base64, trailers frame layout; request decoding:
base64 carry) and service.rs (request classification, status table, header coercion).  Carries C16 (partial)."""
import re
from vxlib import Unit, Clause, r19_merge_guard_arms
from units import common

C = 'tonic-web/src/call.rs'
S = 'tonic-web/src/service.rs'

SHIMS = r'''
// ---- shims local to the grpc-web server unit ----
pub struct Status { pub code: u8, pub id: Ghost<int> }
impl Status {
    // A-status-01: Status::internal has code INTERNAL (13)
    #[verifier::external_body]
    pub fn internal<M>(m: M) -> (r: Status) ensures r.code == 13 { unimplemented!() }
}
// A-tonic-web-00: internal_error(e) = Status::internal(format!("tonic-web: {}", e))
#[verifier::external_body]
pub fn internal_error<E>(e: E) -> (r: Status) ensures r.code == 13 { unimplemented!() }
#[derive(Debug)]
pub enum Frame<T> { Data(T), Trailers(HeaderMap) }
impl<T> Frame<T> {
    // A-httpbody-01/03: http_body::Frame is data or trailers
    pub fn data(t: T) -> (r: Self) ensures r == Frame::Data(t) { Frame::Data(t) }
    pub fn trailers(t: HeaderMap) -> (r: Self) ensures r == Frame::<T>::Trailers(t) { Frame::Trailers(t) }
    pub fn is_data(&self) -> (r: bool) ensures r == (self is Data) { match self { Frame::Data(_) => true, _ => false } }
    pub fn is_trailers(&self) -> (r: bool) ensures r == (self is Trailers) { match self { Frame::Trailers(_) => true, _ => false } }
    pub fn into_data(self) -> (r: Result<T, Frame<T>>) ensures self is Data ==> r is Ok && r->Ok_0 == self->Data_0 { match self { Frame::Data(b) => Ok(b), f => Err(f) } }
    pub fn into_trailers(self) -> (r: Result<HeaderMap, Frame<T>>) ensures self is Trailers ==> r is Ok && r->Ok_0 == self->Trailers_0 { match self { Frame::Trailers(b) => Ok(b), f => Err(f) } }
}
// A-fmt-11: Debug for HeaderMap is diagnostics only
#[verifier::external]
impl core::fmt::Debug for HeaderMap { fn fmt(&self, f: &mut core::fmt::Formatter<'_>) -> core::fmt::Result { unimplemented!() } }
// A-core-15: Result::unwrap_or_else(|_| unreachable!()) on an Ok value is the value (closure never runs)
pub assume_specification<T, E, F: FnOnce(E) -> T>[ Result::<T, E>::unwrap_or_else ](res: Result<T, E>, f: F) -> (r: T)
    requires res matches Err(e) ==> f.requires((e,)),
    ensures res matches Ok(t) ==> r == t, res matches Err(e) ==> f.ensures((e,), r);
impl Bytes {
    // A-bytes-25: Buf::copy_to_bytes(remaining) takes everything; Bytes: From<Vec<u8>> / From<String>
    #[verifier::external_body]
    pub fn copy_to_bytes(&mut self, n: usize) -> (r: Bytes) requires n <= old(self)@.len() ensures r@ == old(self)@.take(n as int), final(self)@ == old(self)@.skip(n as int) { unimplemented!() }
}
/*ROWSPEC*/
pub open spec fn trailer_block(h: HMap) -> Seq<u8> { block_of(hmap_entries(h)) }
// A-tonic-web-04: a trailers header block stays below 4 GiB (HeaderMap holds at most 2^15 entries of bounded size)
pub broadcast axiom fn axiom_trailer_block_small(h: HMap) ensures (#[trigger] trailer_block(h)).len() <= u32::MAX;
// folding a step that appends one row per item yields init + block_of(items) (induction over fold_rel)
pub proof fn lemma_fold_block<'a, F: Fn(Vec<u8>, (&'a HeaderName, &'a HeaderValue)) -> Vec<u8>>(f: F, s: Seq<(Seq<char>, Seq<u8>)>, init: Vec<u8>, r: Vec<u8>)
    requires
        fold_rel(f, s, init, r),
        forall|b: Vec<u8>, k: &'a HeaderName, v: &'a HeaderValue, b2: Vec<u8>| #[trigger] f.ensures((b, (k, v)), b2) ==> b2@ == b@ + trailer_row((k@, v@)),
    ensures r@ == init@ + block_of(s)
    decreases s.len()
{
    if s.len() == 0 {
        assert(r@ =~= init@ + block_of(s));
    } else {
        let (k, v, mid): (&'a HeaderName, &'a HeaderValue, Vec<u8>) = choose|k: &'a HeaderName, v: &'a HeaderValue, mid: Vec<u8>|
            k@ == s.last().0 && v@ == s.last().1 && fold_rel(f, s.drop_last(), init, mid) && #[trigger] f.ensures((mid, (k, v)), r);
        lemma_fold_block(f, s.drop_last(), init, mid);
        assert((k@, v@) == s.last());
        assert(r@ =~= init@ + block_of(s));
    }
}
// A-bytes-28: <Vec<u8> as BufMut>::put_slice appends
pub trait VecBufMut { fn put_slice(&mut self, s: &[u8]) ensures final(self).vb() == old(self).vb() + s@; spec fn vb(&self) -> Seq<u8>; }
impl VecBufMut for Vec<u8> {
    open spec fn vb(&self) -> Seq<u8> { self@ }
    #[verifier::external_body] fn put_slice(&mut self, s: &[u8]) { unimplemented!() }
}
impl HeaderName {
    // A-http-16: <HeaderName as AsRef<[u8]>>::as_ref is the (lower-case ASCII) name
    #[verifier::external_body]
    pub fn as_ref(&self) -> (r: &[u8]) ensures r@ == ascii_bytes(self@) { unimplemented!() }
}
// A-core-07 (R15): a byte-string literal b"lit" has the bytes of the ASCII literal
#[verifier::external_body]
pub fn verif_bytes_lit(s: &'static str) -> (r: &'static [u8]) ensures r@ == ascii_bytes(s@) { unimplemented!() }
'''

BODY = r'''
// The inner body with a ghost history (A-httpbody-04): frames delivered so far
pub trait InnerBody {
    spec fn ended(&self) -> bool;
    // the frame most recently delivered by poll_frame
    spec fn last(&self) -> Option<Frame<BufData>>;
    // all DATA bytes delivered so far
    spec fn received(&self) -> Seq<u8>;
}
// what the grpc-web layer must emit for one frame of the gRPC response (PROTOCOL-WEB.md): DATA unchanged, trailers as one
// 0x80 frame; the text variant is the base64 of that
pub open spec fn web_image(enc: Encoding, f: Frame<BufData>) -> Seq<u8> {
    let raw = match f {
        Frame::Data(d) => d@,
        Frame::Trailers(t) => seq![0x80u8] + be32(trailer_block(t@).len() as int) + trailer_block(t@),
    };
    if enc == Encoding::Base64 { b64_enc(true, raw) } else { raw }
}
pub struct PinMut<'a, S> { pub p: &'a mut S }
impl<'a, B: InnerBody> PinMut<'a, B> {
    #[verifier::external_body]
    pub fn poll_frame(self, cx: &mut Context) -> (r: Poll<Option<Result<Frame<BufData>, Status>>>)
        ensures r matches Poll::Ready(None) ==> final(self.p).ended(), r matches Poll::Ready(Some(Ok(f))) ==> final(self.p).last() == Some(f),
            match r { Poll::Ready(Some(Ok(Frame::Data(d)))) => final(self.p).received() == old(self.p).received() + d@, _ => final(self.p).received() == old(self.p).received() },
    { unimplemented!() }
}
impl<T, E> Poll<Option<Result<T, E>>> {
    // A-core-16: Poll<Option<Result>>::map_ok / map_err map inside Ready(Some(..))
    #[verifier::external_body]
    pub fn map_ok<U, G: FnOnce(T) -> U>(self, f: G) -> (r: Poll<Option<Result<U, E>>>)
        requires self matches Poll::Ready(Some(Ok(t))) ==> f.requires((t,))
        ensures self is Pending ==> r is Pending, self matches Poll::Ready(None) ==> r matches Poll::Ready(None),
            self matches Poll::Ready(Some(Err(e))) ==> r == Poll::<Option<Result<U, E>>>::Ready(Some(Err(e))),
            self matches Poll::Ready(Some(Ok(t))) ==> r matches Poll::Ready(Some(Ok(u))) && f.ensures((t,), u),
    { unimplemented!() }
    #[verifier::external_body]
    pub fn map_err<U, G: FnOnce(E) -> U>(self, f: G) -> (r: Poll<Option<Result<T, U>>>)
        requires self matches Poll::Ready(Some(Err(e))) ==> f.requires((e,))
        ensures self is Pending ==> r is Pending, self matches Poll::Ready(None) ==> r matches Poll::Ready(None),
            self matches Poll::Ready(Some(Ok(t))) ==> r == Poll::<Option<Result<T, U>>>::Ready(Some(Ok(t))),
            self matches Poll::Ready(Some(Err(e))) ==> r matches Poll::Ready(Some(Err(u))) && f.ensures((e,), u),
    { unimplemented!() }
}
impl<T> Frame<T> {
    // A-httpbody-05: Frame::map_data maps the data of a DATA frame, keeps trailers
    #[verifier::external_body]
    pub fn map_data<U, G: FnOnce(T) -> U>(self, f: G) -> (r: Frame<U>)
        requires self matches Frame::Data(d) ==> f.requires((d,))
        ensures self matches Frame::Data(d) ==> r matches Frame::Data(u) && f.ensures((d,), u), self matches Frame::Trailers(t) ==> r == Frame::<U>::Trailers(t),
    { unimplemented!() }
}
pub struct GrpcWebCallProj<'a, B> {
    pub inner: PinMut<'a, B>, pub buf: &'a mut BytesMut, pub decoded: &'a mut BytesMut, pub direction: &'a mut Direction,
    pub encoding: &'a mut Encoding, pub client: &'a mut bool, pub trailers: &'a mut Option<HeaderMap>, pub inner_done: &'a mut bool,
}
impl<B> GrpcWebCall<B> {
    // A-pinproject-06: pin-project's generated projection of GrpcWebCall
    #[verifier::external_body]
    pub fn project(&mut self) -> (r: GrpcWebCallProj<'_, B>)
        ensures *r.inner.p == old(self).inner, *final(r.inner.p) == final(self).inner,
            *r.buf == old(self).buf, *final(r.buf) == final(self).buf,
            *r.decoded == old(self).decoded, *final(r.decoded) == final(self).decoded,
            *r.direction == old(self).direction, *final(r.direction) == final(self).direction,
            *r.encoding == old(self).encoding, *final(r.encoding) == final(self).encoding,
            *r.client == old(self).client, *final(r.client) == final(self).client,
            *r.trailers == old(self).trailers, *final(r.trailers) == final(self).trailers,
            *r.inner_done == old(self).inner_done, *final(r.inner_done) == final(self).inner_done,
    { unimplemented!() }
    pub fn as_mut(&mut self) -> (r: &mut Self) ensures *r == *old(self), *final(r) == *final(self) { self }
}
'''


def build():
    u = Unit('webserver', ['C16'])
    u.fn_guard('tonic-web/src/call.rs', 'internal_error', 'fn internal_error(e: impl std::fmt::Display) -> Status { Status::internal(format!("tonic-web: {}", e)) }', why='A-tonic-web-00')
    common.http_base(u)
    u.prelude('wire.rs')
    u.raw(SHIMS.replace('/*ROWSPEC*/', common.TRAILER_ROW_SPEC))
    u.item(C, 'const', 'FRAME_HEADER_SIZE')
    u.item(C, 'const', 'GRPC_WEB_TRAILERS_BIT')
    u.item(C, 'enum', 'Direction', derives='Copy, Clone, PartialEq, Structural')
    u.item(C, 'enum', 'Encoding', derives='Copy, Clone, PartialEq, Structural')
    u.item(C, 'struct', 'GrpcWebCall')
    u.raw(BODY)

    def anf(t):
        # R20 (A-normal form): `RECV.fold(INIT, |..| {..})` as the tail expression becomes
        # `let step = |..| {..}; let folded = RECV.fold(INIT, step); <hint> folded` (creating the closure first has no effect)
        import vxlib
        code = vxlib.code_mask(t.t)
        m = re.search(r'\.fold\(\s*(Vec::new\(\)),\s*(\|)', t.t)
        o = t.t.index('{'); c = t.t.rindex('}')
        if not m:
            t.lost.append('R20 anchor .fold(Vec::new(), |..|')
            return
        cs = m.start(2)
        bo = t.t.index('{', t.t.index('|', cs + 1))
        be = vxlib.match_brace(t.t, code, bo)
        closure = t.t[cs:be]
        t.edit('S-hint', c, c, """;
    proof {
        lemma_fold_block(step, hmap_entries(trailers@), init, folded);
        assert(folded@ =~= block_of(hmap_entries(trailers@)));
    }
    folded
""")
        t.edit('R20', cs, be, 'step', 'let-introduction of the closure argument')
        t.edit('R20', m.start(1), m.end(1), 'init', 'let-introduction of the initial accumulator')
        t.edit('R20', o + 1, o + 1, ' let init = Vec::new();\n    let step = ' + closure + ';\n    let folded =', 'let-introduction of the tail expression')
    u.fn(C, 'encode_trailers',
         body_edits=[lambda t: t.sub_code('R15', r'b"((?:[^"\\]|\\.)*)"', r'verif_bytes_lit("\1")'),
                     lambda t: t.sub_code('R11', r'\(key, value\)\| \{', 'kv| { let (key, value) = kv;'),
                     anf],
         closures={0: dict(params="mut acc: Vec<u8>, kv: (&HeaderName, &HeaderValue)", ret='(o: Vec<u8>)',
                           ensures=['o@ =~= acc@ + trailer_row((kv.0@, kv.1@))'])},
         hints=[('before', 'acc.put_slice(key.as_ref());', '        proof { reveal_strlit("\\r\\n"); assert(ascii_bytes("\\r\\n"@) =~= seq![13u8, 10u8]); }')],
         ensures=[Clause('T0_header_block_lists_every_trailer_row_in_order', 'r@ == trailer_block(trailers@)')])
    u.fn(C, 'make_trailers_frame',
         requires=['trailer_block(trailers@).len() <= u32::MAX'],
         ensures=[Clause('T1_trailers_frame_is_0x80_be32_len_block',
                         'r@ == seq![0x80u8] + be32(trailer_block(trailers@).len() as int) + trailer_block(trailers@)')])

    u._emit('impl<B> GrpcWebCall<B> {'); u._open_header = 'impl<B> GrpcWebCall<B> {'
    u.fn(C, 'max_decodable', within='impl<B> GrpcWebCall<B>', ensures=[Clause('multiple_of_four', 'r == (self.buf@.len() / 4) * 4')])
    u.fn(C, 'decode_chunk', within='impl<B> GrpcWebCall<B>',
         closures={0: dict(params='decoded: Vec<u8>', ret='(x: Option<Bytes>)', ensures=['x is Some && x->Some_0@ == decoded@'])},
         ensures=[
             Clause('D1_short_carry_waits', 'old(self).buf@.len() < 4 ==> (r matches Ok(None)) && *final(self) == *old(self)'),
             Clause('D2_decodes_the_largest_multiple_of_four_prefix_and_carries_the_rest',
                    '''old(self).buf@.len() >= 4 ==> ({
                let n = ((old(self).buf@.len() / 4) * 4) as int;
                &&& final(self).buf@ == old(self).buf@.skip(n)
                &&& match b64_dec(old(self).buf@.take(n)) { Some(d) => (r matches Ok(Some(b)) && b@ == d), None => (r matches Err(st) && st.code == 13) }
            })'''),
             Clause('D3_frame', 'final(self).decoded == old(self).decoded && final(self).trailers == old(self).trailers && final(self).inner == old(self).inner && final(self).encoding == old(self).encoding && final(self).direction == old(self).direction && final(self).client == old(self).client'),
         ])
    u.close('}')
    hdr = 'impl<B: InnerBody> GrpcWebCall<B> {'
    unreach = dict(params='_e: Frame<BufData>', ret='(x: BufData)', requires=['false'])
    unreach_h = dict(params='_e: Frame<BufData>', ret='(x: HeaderMap)', requires=['false'])
    u.fn(C, 'poll_encode', within='impl<B> GrpcWebCall<B>', nth=0, header=hdr, close=False,
         body_start='        broadcast use axiom_bytes_of_string, axiom_trailer_block_small, lemma_take_all;',
         closures={0: unreach, 1: unreach_h},
         ensures=[
             Clause('E1_each_inner_frame_becomes_its_grpc_web_image',
                    '''r matches Poll::Ready(Some(Ok(Frame::Data(out)))) ==> final(self).inner.last() is Some && out@ == web_image(old(self).encoding, final(self).inner.last()->Some_0)'''),
             Clause('E2_never_emits_http_trailers', '!(r matches Poll::Ready(Some(Ok(Frame::Trailers(_)))))'),
             Clause('E3_end_only_when_the_inner_body_ended', 'r matches Poll::Ready(None) ==> final(self).inner.ended()'),
             Clause('E4_frame', 'final(self).encoding == old(self).encoding && final(self).direction == old(self).direction && final(self).client == old(self).client'),
         ])
    W = 'old(self).buf@ + final(self).inner.received().skip(old(self).inner.received().len() as int)'
    u.fn(C, 'poll_decode', within='impl<B> GrpcWebCall<B>', nth=0, body_edits=[r19_merge_guard_arms], props=['C16', 'C17'],
         attrs=['#[verifier::exec_allows_no_decreases_clause]', '#[verifier::loop_isolation(false)]'],
         closures={0: unreach,
                   1: dict(params='f: Frame<BufData>', ret='(x: Frame<Bytes>)', ensures=['match f { Frame::Data(d) => x matches Frame::Data(o) && o@ == d@, Frame::Trailers(t) => x == Frame::<Bytes>::Trailers(t) }']),
                   2: dict(params='mut d: BufData', ret='(x: Bytes)', ensures=['x@ =~= d@'])},
         hints=[('before', 'self.as_mut().decode_chunk()', 'let ghost b0 = self.buf@; let ghost r0 = self.inner.received();')],
         loops={0: dict(invariant=[
             'self.encoding == Encoding::Base64',
             'self.inner.received().len() >= old(self).inner.received().len()',
             'self.inner.received().take(old(self).inner.received().len() as int) == old(self).inner.received()',
             'self.buf@ == old(self).buf@ + self.inner.received().skip(old(self).inner.received().len() as int)',
         ])},
         ensures=[
             Clause('N1_binary_mode_forwards_every_inner_frame_with_all_of_its_bytes',
                    '''old(self).encoding == Encoding::None ==> final(self).buf == old(self).buf && match r {
                        Poll::Ready(Some(Ok(Frame::Data(o)))) => (final(self).inner.last() matches Some(Frame::Data(d)) && o@ == d@) && final(self).inner.received() == old(self).inner.received() + o@,
                        Poll::Ready(Some(Ok(Frame::Trailers(t)))) => final(self).inner.last() == Some(Frame::<BufData>::Trailers(t)) && final(self).inner.received() == old(self).inner.received(),
                        Poll::Ready(None) => final(self).inner.ended() && final(self).inner.received() == old(self).inner.received(),
                        _ => final(self).inner.received() == old(self).inner.received() }''', ['C16', 'C17']),
             Clause('N2_binary_mode_touches_nothing_else',
                    '''old(self).encoding == Encoding::None ==> final(self).decoded == old(self).decoded && final(self).trailers == old(self).trailers && final(self).inner_done == old(self).inner_done
                        && final(self).client == old(self).client && final(self).direction == old(self).direction && final(self).encoding == old(self).encoding''', ['C16', 'C17']),
             Clause('B1_text_request_bytes_are_decoded_in_order_nothing_lost',
                    f'''r matches Poll::Ready(Some(Ok(Frame::Data(b)))) ==> old(self).encoding == Encoding::Base64 ==> ({{ let w = {W}; let n = ((w.len() / 4) * 4) as int;
                    w.len() >= 4 && b64_dec(w.take(n)) == Some(b@) && final(self).buf@ == w.skip(n) }})'''),
             Clause('B2_clean_end_only_with_nothing_left_over', f'old(self).encoding == Encoding::Base64 && (r matches Poll::Ready(None)) ==> final(self).inner.ended() && ({W}).len() == 0'),
             Clause('B3_pending_keeps_the_carry', f'old(self).encoding == Encoding::Base64 && r is Pending ==> final(self).buf@ == {W} && ({W}).len() < 4'),
         ])
    u.close('}')
    def cut_client_loop(t):
        # R12 (cut by contract): the client-side response-decoding loop of poll_frame is unit webclient's business; here the
        # block `if self.client && self.direction == Direction::Decode { .. }` keeps its condition and its body becomes a call of
        # an opaque function, so that the DISPATCH (which direction runs which function) is what is verified
        import vxlib
        code = vxlib.code_mask(t.t)
        m = re.search(r'if self\.client && self\.direction == Direction::Decode \{', t.t)
        if not m:
            t.lost.append('R12 anchor: client decode block of poll_frame')
            return
        end = vxlib.match_brace(t.t, code, m.end() - 1)
        t.edit('R12', m.end(), end - 1, ' return self.verif_client_decode(cx); ', 'client loop cut by contract')
    u.raw('''impl<B: InnerBody> GrpcWebCall<B> {
    // A-cut-02: the client-side decoding loop of poll_frame is an opaque call here; it is under contract in unit webclient
    #[verifier::external_body]
    pub fn verif_client_decode(&mut self, cx: &mut Context) -> (r: Poll<Option<Result<Frame<Bytes>, Status>>>)
        requires old(self).client && old(self).direction == Direction::Decode
    { unimplemented!() }
}
''')
    u.fn(C, 'poll_frame', within='impl<B> Body for GrpcWebCall<B>', header=hdr, close=True, body_edits=[cut_client_loop],
         sig_edits=[lambda t: t.sub_code('R9', r'Self::Data', 'Bytes'), lambda t: t.sub_code('R9', r'Self::Error', 'Status')],
         requires=['!(old(self).client && old(self).direction == Direction::Decode)'],
         ensures=[
             Clause('PF1_a_response_body_is_encoded', """old(self).direction == Direction::Encode ==> (r matches Poll::Ready(Some(Ok(Frame::Data(out)))) ==> final(self).inner.last() is Some && out@ == web_image(old(self).encoding, final(self).inner.last()->Some_0))
                        && !(r matches Poll::Ready(Some(Ok(Frame::Trailers(_))))) && (r matches Poll::Ready(None) ==> final(self).inner.ended())"""),
             Clause('PF2_a_binary_request_body_is_forwarded', """old(self).direction == Direction::Decode && old(self).encoding == Encoding::None ==> match r {
                        Poll::Ready(Some(Ok(Frame::Data(o)))) => (final(self).inner.last() matches Some(Frame::Data(d)) && o@ == d@) && final(self).inner.received() == old(self).inner.received() + o@,
                        Poll::Ready(None) => final(self).inner.ended(),
                        _ => true }"""),
             Clause('PF3_a_text_request_body_is_decoded', "old(self).direction == Direction::Decode && old(self).encoding == Encoding::Base64 ==> (r matches Poll::Ready(Some(Ok(Frame::Data(b)))) ==> ({ let w = %s; let n = ((w.len() / 4) * 4) as int; w.len() >= 4 && b64_dec(w.take(n)) == Some(b@) && final(self).buf@ == w.skip(n) })) && ((r matches Poll::Ready(None)) ==> final(self).inner.ended() && (%s).len() == 0)" % (W, W)),
             Clause('PF4_an_empty_body_ends_at_once', 'old(self).direction == Direction::Empty ==> (r matches Poll::Ready(None))'),
         ])
    return u
