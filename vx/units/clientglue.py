"""U11a — tonic/src/client/grpc.rs: the client dispatcher.  Request head construction (prepare_request: C03 wire headers, C05
which of the two configured sets is advertised / applied, C08 user metadata only through sanitisation), response head
analysis (create_response: trailers-only detection, request of the right Streaming flavour), and the four call shapes
(streaming / client_streaming / unary / server_streaming) as sequential async code over an assumed transport and an assumed
`Streaming` stream interface.  Carries the client half of C02."""
import re
from vxlib import Unit, Clause
from units import common

G = 'tonic/src/client/grpc.rs'
RQ = 'tonic/src/request.rs'
RS = 'tonic/src/response.rs'
CO = 'tonic/src/codec/compression.rs'

URI = r'''
pub use crate::httpmsg::{Extensions, Uri};
impl Extensions {
    pub uninterp spec fn empty_spec() -> Extensions;
    #[verifier::external_body]
    pub fn new() -> (r: Extensions) ensures r == Extensions::empty_spec() { unimplemented!() }
}
// ---- http::uri (A-http-uri-01): a Uri is (scheme+authority, optional path-and-query); into_parts / from_parts move them ----
pub struct PathAndQuery { pub s: Ghost<Seq<char>> }
pub struct UriParts { pub origin: Ghost<int>, pub path_and_query: Option<PathAndQuery>, pub from_uri: Ghost<bool> }
#[derive(Debug)]
pub struct InvalidUriParts { pub x: u8 }
#[derive(Debug)]
pub struct InvalidUri { pub x: u8 }
impl PathAndQuery {
    pub open spec fn view(&self) -> Seq<char> { self.s@ }
    pub uninterp spec fn path_of(s: Seq<char>) -> Seq<char>;
    #[verifier::external_body]
    pub fn path(&self) -> (r: &str) ensures r@ == Self::path_of(self@) { unimplemented!() }
    // as_str() is the whole text (path and, if there is one, `?query`)
    #[verifier::external_body]
    pub fn as_str(&self) -> (r: &str) ensures r@ == self@ { unimplemented!() }
}
// R17: `pnq != "/"`
#[verifier::external_body]
pub fn verif_pq_ne(p: &PathAndQuery, s: &str) -> (r: bool) ensures r == (p@ != s@) { unimplemented!() }
impl Uri {
    pub uninterp spec fn origin_of(&self) -> int;
    pub uninterp spec fn pq_of(&self) -> Option<Seq<char>>;
    #[verifier::external_body]
    pub fn clone(&self) -> (r: Uri) ensures r == *self { unimplemented!() }
    #[verifier::external_body]
    pub fn into_parts(self) -> (r: UriParts)
        ensures r.origin@ == self.origin_of(), r.from_uri@, match self.pq_of() { Some(s) => r.path_and_query matches Some(p) && p@ == s, None => r.path_and_query is None }
    { unimplemented!() }
    // from_parts of the parts of a valid Uri whose path-and-query was (re)set is valid (A-http-uri-02)
    #[verifier::external_body]
    pub fn from_parts(p: UriParts) -> (r: Result<Uri, InvalidUriParts>)
        ensures p.from_uri@ && p.path_and_query is Some ==> (r matches Ok(u) && u.origin_of() == p.origin@ && u.pq_of() == Some(p.path_and_query->Some_0@))
    { unimplemented!() }
    #[verifier::external_body]
    pub fn default() -> (r: Uri) { unimplemented!() }
}
// A-http-uri-03: "<prefix path><path>" parses as a PathAndQuery spelling exactly that text (format! + str::parse)
pub struct PathText { pub s: Ghost<Seq<char>> }
#[verifier::external_body]
pub fn verif_join_path(a: &str, b: PathAndQuery) -> (r: PathText) ensures r.s@ == a@ + b@ { unimplemented!() }
impl PathText {
    #[verifier::external_body]
    pub fn parse(&self) -> (r: Result<PathAndQuery, InvalidUri>) ensures r matches Ok(p) && p@ == self.s@ { unimplemented!() }
}
'''

CODEC = r'''
// ---- crate::codec::compression: contracts PROVED in unit compression / by the Kani harnesses, linked as callee contracts ----
pub open spec fn enc_name(e: CompressionEncoding) -> Seq<char> {
    match e { CompressionEncoding::Gzip => "gzip"@, CompressionEncoding::Deflate => "deflate"@, CompressionEncoding::Zstd => "zstd"@ }
}
pub open spec fn wanted(h: HMap) -> Option<Seq<u8>> { if h.contains_key("grpc-encoding"@) { Some(h["grpc-encoding"@][0]) } else { None } }
impl EnabledCompressionEncodings {
    pub open spec fn enabled(&self, e: CompressionEncoding) -> bool {
        self.inner@[0] == Some(e) || self.inner@[1] == Some(e) || self.inner@[2] == Some(e)
    }
    pub open spec fn none_enabled(&self) -> bool { self.inner@[0] is None && self.inner@[1] is None && self.inner@[2] is None }
    pub open spec fn accept_value(&self) -> Seq<u8> {
        let a = |i: int| match self.inner@[i] { Some(e) => ascii_bytes(enc_name(e)) + seq![44u8], None => Seq::<u8>::empty() };
        a(0) + a(1) + a(2) + ascii_bytes("identity"@)
    }
    // A-tonic-compression-01 (proved: compression::into_accept_encoding_header_value A1/A2)
    #[verifier::external_body]
    pub fn into_accept_encoding_header_value(self) -> (r: Option<http::HeaderValue>)
        ensures r is None <==> self.none_enabled(), r matches Some(v) ==> v@ == self.accept_value()
    { unimplemented!() }
    // reachable configurations: a packed prefix without duplicates (what Default + enable/pop can build)
    pub open spec fn wf(&self) -> bool {
        let s = self.inner@;
        (s[0] is Some || s[1] is None) && (s[1] is Some || s[2] is None) && (s[0] is None || (s[0] != s[1] && s[0] != s[2])) && (s[1] is None || s[1] != s[2])
    }
    // proved by kani::cfg_enable (all reachable slot states x all encodings): well-formedness is kept, the encoding is enabled
    // afterwards, no other encoding changes
    #[verifier::external_body]
    pub fn enable(&mut self, encoding: CompressionEncoding)
        requires old(self).wf()
        ensures final(self).wf(), final(self).enabled(encoding),
            forall|e: CompressionEncoding| e != encoding ==> (final(self).enabled(e) == old(self).enabled(e)),
    { unimplemented!() }
}
impl CompressionEncoding {
    // A-tonic-compression-02 (proved: compression::into_header_value)
    #[verifier::external_body]
    pub fn into_header_value(self) -> (r: http::HeaderValue) ensures r@ == ascii_bytes(enc_name(self)) { unimplemented!() }
    // A-tonic-compression-03 (proved: compression::from_encoding_header Q1..Q5)
    #[verifier::external_body]
    pub fn from_encoding_header(map: &http::HeaderMap, enabled_encodings: EnabledCompressionEncodings) -> (r: Result<Option<CompressionEncoding>, Status>)
        ensures
            (wanted(map@) is None || wanted(map@) == Some(ascii_bytes("identity"@))) ==> r matches Ok(None),
            r matches Ok(Some(e)) ==> wanted(map@) == Some(ascii_bytes(enc_name(e))) && enabled_encodings.enabled(e),
            forall|e: CompressionEncoding| wanted(map@) == Some(ascii_bytes(enc_name(e))) && enabled_encodings.enabled(e) ==> r == Ok::<Option<CompressionEncoding>, Status>(Some(e)),
            r matches Err(st) ==> st.code == Code::Unimplemented,
            wanted(map@) is Some && wanted(map@) != Some(ascii_bytes("identity"@))
                && (forall|e: CompressionEncoding| !(wanted(map@) == Some(ascii_bytes(enc_name(e))) && enabled_encodings.enabled(e))) ==> r is Err,
    { unimplemented!() }
}
'''

BODY = r'''
// tonic::body::Body is type-erased: Body::new(b) is known only as "the erasure of b" (A-tonic-body-01)
pub struct Body { pub of: Ghost<int> }
pub uninterp spec fn erased<B>(b: B) -> int;
impl Body {
    #[verifier::external_body]
    pub fn new<B>(b: B) -> (r: Body) ensures r.of@ == erased(b) { unimplemented!() }
}
'''

STREAM = r'''
// ---- crate::codec::Streaming seen by the dispatcher: which decoder / body it wraps and in which mode (its decoding
// functions are under contract in unit decode).
// A-tonic-decode-01: Streaming::new stores its arguments; nothing is buffered yet (PROVED on the real body in unit decode, clause C1;
// linked here as a callee contract)
pub struct Streaming<T> { pub decoder: Ghost<int>, pub body: Ghost<int>, pub direction: Direction, pub encoding: Option<CompressionEncoding>,
    pub max_message_size: Option<usize>, pub _t: core::marker::PhantomData<T> }
pub uninterp spec fn erased_decoder<D>(d: D) -> int;
impl<T> Streaming<T> {
    #[verifier::external_body]
    fn new<B, D>(decoder: D, body: B, direction: Direction, encoding: Option<CompressionEncoding>, max_message_size: Option<usize>) -> (r: Self)
        ensures r.decoder@ == erased_decoder(decoder), r.body@ == erased(body), r.direction == direction, r.encoding == encoding, r.max_message_size == max_message_size
    { unimplemented!() }
}
'''

ASYNC_CODEC = r'''
#[allow(unused_macros)]
macro_rules! pin { ($e:expr) => { $e } }
use core::future::Future;
use vstd::future::FutureAdditionalSpecFns;
// ---- what the dispatcher talks to (assumed interfaces) ----
// crate::codec::Codec: encoder() / decoder() hand out the codec's two halves (A-codec-05)
pub trait Codec {
    type Encode; type Decode; type Encoder; type Decoder;
    spec fn enc_id(&self) -> int;
    spec fn dec_id(&self) -> int;
    fn encoder(&mut self) -> (r: Self::Encoder) ensures erased_encoder(r) == old(self).enc_id(), final(self).dec_id() == old(self).dec_id(), final(self).enc_id() == old(self).enc_id();
    fn decoder(&mut self) -> (r: Self::Decoder) ensures erased_decoder(r) == old(self).dec_id(), final(self).dec_id() == old(self).dec_id(), final(self).enc_id() == old(self).enc_id();
}
pub uninterp spec fn erased_encoder<E>(e: E) -> int;
// crate::codec::EncodeBody::new_client (PROVED in unit encode, clause B1): a client-role body over the given encoder and
// source with the given compression and limit; seen here through what it was built from
pub struct EncodeBody<E, S> { pub encoder: E, pub source: S, pub compression: Option<CompressionEncoding>, pub max_message_size: Option<usize>, pub client: bool }
impl<E, S> EncodeBody<E, S> {
    #[verifier::external_body]
    pub fn new_client(encoder: E, source: S, compression_encoding: Option<CompressionEncoding>, max_message_size: Option<usize>) -> (r: Self)
        ensures r.encoder == encoder, r.source == source, r.compression == compression_encoding, r.max_message_size == max_message_size, r.client
    { unimplemented!() }
}
// tokio_stream: `s.map(Ok)` wraps every item in Ok; `once(m)` is the one-item stream (A-stream-03)
pub struct OkStream<S> { pub inner: S }
pub struct Once<M> { pub item: M }
pub trait Stream { type Item; }
pub trait StreamMapOk: Stream + Sized { fn map<F: FnOnce(Self::Item) -> Result<Self::Item, Status>>(self, f: F) -> (r: OkStream<Self>) ensures r.inner == self; }
impl<S: Stream> StreamMapOk for S { #[verifier::external_body] fn map<F: FnOnce(Self::Item) -> Result<Self::Item, Status>>(self, f: F) -> (r: OkStream<Self>) { unimplemented!() } }
impl<M> Stream for Once<M> { type Item = M; }
pub mod tokio_stream {
    pub use super::*;
    pub fn once<M>(m: M) -> (r: Once<M>) ensures r.item == m { Once { item: m } }
}
'''

GENERIC = r'''
// the transport's error type converts into a boxed error (`T::Error: Into<BoxError>`): that conversion, as a value of the
// `dyn Error` model of unit errmap
pub uninterp spec fn boxed<E>(e: E) -> DynError;
impl Status {
    // A-tonic-status-02: Status::from_error_generic turns a transport error into a status: the status `generic(e)`, which is
    // what the boxed error means (clauses G1 / G2 of unit errmap, PROVED there on the real body for a boxed error; linked here
    // as a callee contract through `boxed`)
    pub uninterp spec fn generic<E>(e: E) -> Status;
    #[verifier::external_body]
    pub fn from_error_generic<E>(e: E) -> (r: Status)
        ensures r == Status::generic(e),
            box_meaning(boxed(e)) matches Some(m) ==> agrees(r, m),
            box_meaning(boxed(e)) is None ==> r.code == Code::Unknown
    { unimplemented!() }
}
// the same two clauses about the spec-level value (from_error_generic(e) IS generic(e))
pub broadcast axiom fn axiom_generic_means<E>(e: E)
    ensures box_meaning(boxed(e)) matches Some(m) ==> agrees(#[trigger] Status::generic(e), m),
            box_meaning(boxed(e)) is None ==> Status::generic(e).code == Code::Unknown;
'''

STREAM_API = r'''
// ---- the response stream as the dispatcher uses it (A-tonic-decode-02): try_next() drives Streaming::poll_next to its next
// item, trailers() drains the stream and hands out the trailing metadata; both are functions of the stream state, which
// (conceptually) contains everything the transport will still deliver.  Their per-poll behaviour is proved in unit decode.
// A-core-24: core::future::Ready<T> as an opaque future type
#[verifier::external_type_specification]
#[verifier::external_body]
#[verifier::reject_recursive_types(T)]
pub struct ExReady<T>(core::future::Ready<T>);
impl<T> Streaming<T> {
    pub uninterp spec fn nxt(self) -> (Result<Option<T>, Status>, Streaming<T>);
    pub uninterp spec fn trl(self) -> (Result<Option<MetadataMap>, Status>, Streaming<T>);
    #[verifier::external_body]
    pub fn try_next(&mut self) -> (f: core::future::Ready<Result<Option<T>, Status>>)
        ensures f@ == old(self).nxt().0, *final(self) == old(self).nxt().1
    { unimplemented!() }
    #[verifier::external_body]
    pub fn trailers(&mut self) -> (f: core::future::Ready<Result<Option<MetadataMap>, Status>>)
        ensures f@ == old(self).trl().0, *final(self) == old(self).trl().1
    { unimplemented!() }
}
'''

GRPCSVC = r'''
// crate::client::GrpcService: the transport.  Ghost log of the requests it was handed; `answer()` is what the most recent
// call's future resolves to (A-tower-06)
pub trait GrpcService<ReqBody> {
    type ResponseBody;
    type Error;
    type Future: Future<Output = Result<http::Response<Self::ResponseBody>, Self::Error>>;
    spec fn log(&self) -> Seq<http::Request<ReqBody>>;
    spec fn answer(&self) -> Result<http::Response<Self::ResponseBody>, Self::Error>;
    fn call(&mut self, request: http::Request<ReqBody>) -> (f: Self::Future)
        ensures final(self).log() == old(self).log().push(request), f@ == final(self).answer();
}
'''

NEGO = r'''
pub open spec fn encoding_refused(h: HMap, accept: EnabledCompressionEncodings) -> bool {
    wanted(h) is Some && wanted(h) != Some(ascii_bytes("identity"@)) && (forall|e: CompressionEncoding| !(wanted(h) == Some(ascii_bytes(enc_name(e))) && accept.enabled(e)))
}
pub open spec fn negotiated(h: HMap, enc: Option<CompressionEncoding>, accept: EnabledCompressionEncodings) -> bool {
    match enc { Some(e) => wanted(h) == Some(ascii_bytes(enc_name(e))) && accept.enabled(e), None => wanted(h) is None || wanted(h) == Some(ascii_bytes("identity"@)) }
}
'''

CRSPEC = r'''
// what the dispatcher must make of a response head (C02: trailers-only responses; C05: refusal of an encoding not enabled)
pub open spec fn response_outcome<M2, D, RB>(cfg: GrpcConfig, decoder: D, response: http::Response<RB>, r: Result<Response<Streaming<M2>>, Status>) -> bool {
    let h = response.headers@;
    if encoding_refused(h, cfg.accept_compression_encodings) {
        r matches Err(st) && st.code == Code::Unimplemented
    } else if h.contains_key("grpc-status"@) {
        // Trailers-Only: the status is in the headers; an error is returned at once, OK gives a stream that expects no more
        match r {
            Err(st) => read(h, Some(st)) && st.code != Code::Ok,
            Ok(resp) => (exists|st: Status| #[trigger] read(h, Some(st)) && st.code == Code::Ok) && resp.metadata.headers@ == h && resp.extensions == response.extensions
                && resp.message.direction == Direction::EmptyResponse && resp.message.body@ == erased(response.body) && resp.message.decoder@ == erased_decoder(decoder),
        }
    } else {
        r matches Ok(resp) && resp.metadata.headers@ == h && resp.extensions == response.extensions
            && resp.message.direction == Direction::Response(response.status) && resp.message.body@ == erased(response.body) && resp.message.decoder@ == erased_decoder(decoder)
            && negotiated(h, resp.message.encoding, cfg.accept_compression_encodings) && resp.message.max_message_size == cfg.max_decoding_message_size
    }
}
'''

PREP = r'''
// what the transport must be handed for a call: the gRPC request head (PROTOCOL-HTTP2.md "Requests") around the user's metadata
pub open spec fn prepared_headers(h: HMap, user: HMap, send: Option<CompressionEncoding>, accept: EnabledCompressionEncodings) -> bool {
    &&& h.contains_key("te"@) && h["te"@] == seq![ascii_bytes("trailers"@)]
    &&& h.contains_key("content-type"@) && h["content-type"@] == seq![ascii_bytes("application/grpc"@)]
    &&& send matches Some(e) ==> h.contains_key("grpc-encoding"@) && h["grpc-encoding"@] == seq![ascii_bytes(enc_name(e))]
    &&& !accept.none_enabled() ==> h.contains_key("grpc-accept-encoding"@) && h["grpc-accept-encoding"@] == seq![accept.accept_value()]
    &&& forall|k: Seq<char>| k != "te"@ && k != "content-type"@ && !(send is Some && k == "grpc-encoding"@) && !(!accept.none_enabled() && k == "grpc-accept-encoding"@)
            ==> (#[trigger] h.contains_key(k) <==> (user.contains_key(k) && !is_reserved(k))) && (h.contains_key(k) ==> h[k] == user[k])
}
'''


def build():
    u = Unit('clientglue', ['C02'])
    common.http_base(u)
    common.metadata_core(u)
    common.status_decls(u)
    common.status_assumed(u)
    from units import errmap
    u.item('tonic/src/status.rs', 'struct', 'TimeoutExpired')
    u.raw('// ---- the `dyn Error` model and the meaning of errors (unit errmap), for the transport error of a call ----\n' + errmap.model_text())
    u.raw(URI)
    u.item(CO, 'enum', 'CompressionEncoding', derives='Clone, Copy, PartialEq, Eq, Structural')
    u.item(CO, 'struct', 'EnabledCompressionEncodings', derives='Clone, Copy')
    u._emit('pub mod codec { pub mod compression { use crate::*;')
    u.item(CO, 'const', 'ENCODING_HEADER')
    u.item(CO, 'const', 'ACCEPT_ENCODING_HEADER')
    u._emit('pub use crate::{CompressionEncoding, EnabledCompressionEncodings}; } }')
    u.raw(CODEC)
    u.raw('pub use crate::header::{CONTENT_TYPE, TE};\n')

    # ---- tonic::Request / Response (the real functions again: they are the head plumbing of every call) ----
    u.item(RQ, 'struct', 'Request')
    u.item(RQ, 'enum', 'SanitizeHeaders')
    u.item(RS, 'struct', 'Response')
    P = ['C02', 'C03', 'C08']
    u._emit('impl<T> Request<T> {'); u._open_header = 'impl<T> Request<T> {'
    u.fn(RQ, 'into_parts', within='impl<T> Request<T>', props=P, ensures=[Clause('fields', 'r.0 == self.metadata && r.1 == self.extensions && r.2 == self.message')])
    u.fn(RQ, 'into_http', within='impl<T> Request<T>', props=P,
         ensures=[
             Clause('Q1_head_is_what_was_asked', 'r.uri == uri && r.method == method && r.version == version && r.body == self.message && r.extensions == self.extensions'),
             Clause('Q2_sanitized_when_asked', 'sanitize_headers is Yes ==> sanitized_of(r.headers@, self.metadata.headers@)'),
             Clause('Q3_untouched_otherwise', 'sanitize_headers is No ==> r.headers@ == self.metadata.headers@'),
         ])
    u.fn(RQ, 'map', within='impl<T> Request<T>', props=P,
         requires=['f.requires((self.message,))'],
         ensures=[Clause('M1_only_the_message_changes', 'f.ensures((self.message,), r.message) && r.metadata == self.metadata && r.extensions == self.extensions')])
    u.close('}')

    u.raw(BODY)
    u._emit('impl MetadataMap {'); u._open_header = 'impl MetadataMap {'
    u.fn('tonic/src/metadata/map.rs', 'merge', within='impl MetadataMap', props=['C02', 'C08'],
         ensures=[Clause('M1_union_other_wins', 'final(self).headers@ == old(self).headers@.union_prefer_right(other.headers@)')])
    u.close('}')
    u.item(G, 'struct', 'GrpcConfig')
    u.raw(PREP)
    u._emit('impl GrpcConfig {'); u._open_header = 'impl GrpcConfig {'
    u.fn(G, 'prepare_request', within='impl GrpcConfig',
         body_edits=[lambda t: t.sub_code('R17', r'format!\("\{\}\{\}", ([^,]+), path\)', r'verif_join_path(\1, path)'),
                     lambda t: t.sub_code('R17', r'pnq != "/"', 'verif_pq_ne(pnq, "/")')],
         body_start='        proof { lemma_names_distinct(); }',
         ensures=[
             Clause('PR1_post_over_http2_with_the_users_message_and_extensions',
                    'r.method == http::Method::POST && r.version == http::Version::HTTP_2 && r.body == request.message && r.extensions == request.extensions', ['C02', 'C03']),
             Clause('PR2_grpc_request_headers_around_the_sanitized_user_metadata',
                    'prepared_headers(r.headers@, request.metadata.headers@, self.send_compression_encodings, self.accept_compression_encodings)', ['C02', 'C03', 'C05', 'C08']),
             Clause('PR3_path_is_the_method_path_under_the_origin',
                    '''r.uri.origin_of() == self.origin.origin_of() && r.uri.pq_of() == Some(match self.origin.pq_of() {
                        Some(p) => if p != "/"@ { PathAndQuery::path_of(p) + path@ } else { path@ },
                        None => path@ })''', ['C03']),
         ])
    u.close('}')

    D = 'tonic/src/codec/decode.rs'
    u.item(D, 'enum', 'Direction', derives='PartialEq, Eq, Structural')
    u.raw(STREAM)
    u._emit('impl<T> Streaming<T> {'); u._open_header = 'impl<T> Streaming<T> {'
    nob = [lambda t: t.sub_code('R12', r'\bwhere\s+B: HttpBody[^{]*', '')]
    u.fn(D, 'new_response', within='impl<T> Streaming<T>', sig_edits=nob, props=['C02', 'C05', 'C06'],   # callee of create_response: encoding and size limit pass through it
         ensures=[Clause('N1_expects_the_status_in_trailers', 'r.direction == Direction::Response(status_code) && r.encoding == encoding && r.max_message_size == max_message_size && r.body@ == erased(body) && r.decoder@ == erased_decoder(decoder)')])
    u.fn(D, 'new_empty', within='impl<T> Streaming<T>', sig_edits=nob, props=['C02', 'C05', 'C06'],
         ensures=[Clause('N2_expects_nothing_more', 'r.direction == Direction::EmptyResponse && r.body@ == erased(body) && r.decoder@ == erased_decoder(decoder)')])
    u.fn(D, 'new_request', within='impl<T> Streaming<T>', sig_edits=nob,
         ensures=[Clause('N3_request_stream', 'r.direction == Direction::Request && r.encoding == encoding && r.max_message_size == max_message_size && r.body@ == erased(body) && r.decoder@ == erased_decoder(decoder)')])
    u.close('}')

    u._emit('impl<T> Response<T> {'); u._open_header = 'impl<T> Response<T> {'
    u.fn(RS, 'from_http', within='impl<T> Response<T>', props=P, ensures=[Clause('nothing_dropped', 'r.metadata.headers@ == res.headers@ && r.message == res.body && r.extensions == res.extensions')])
    u.fn(RS, 'into_parts', within='impl<T> Response<T>', props=P, ensures=[Clause('fields', 'r.0 == self.metadata && r.1 == self.message && r.2 == self.extensions')])
    u.fn(RS, 'from_parts', within='impl<T> Response<T>', props=P, ensures=[Clause('fields', 'r.metadata == metadata && r.extensions == extensions && r.message == message')])
    u.close('}')

    u.item(G, 'struct', 'Grpc')
    u.raw(NEGO)
    u.raw(CRSPEC)
    u.raw('''impl<T> http::Response<T> {
    // A-http-37: Response::map replaces the body, keeps the head
    #[verifier::external_body]
    pub fn map<U, G: FnOnce(T) -> U>(self, f: G) -> (r: http::Response<U>)
        requires f.requires((self.body,))
        ensures f.ensures((self.body,), r.body), r.status == self.status, r.version == self.version, r.headers == self.headers, r.extensions == self.extensions
    { unimplemented!() }
}
''')
    u.raw('''impl EnabledCompressionEncodings {
    // A-derive-03: #[derive(Default)] on EnabledCompressionEncodings: every slot None
    #[verifier::external_body]
    pub fn default() -> (r: Self) ensures r.none_enabled(), r.wf() { unimplemented!() }
}
''')
    u._emit('impl<T> Grpc<T> {'); u._open_header = 'impl<T> Grpc<T> {'
    CF = ['C05', 'C06', 'C02']
    u.fn(G, 'with_origin', within='impl<T> Grpc<T>', props=CF,
         ensures=[Clause('G1_fresh_client_compresses_nothing_accepts_nothing_and_has_no_limits',
                         'r.inner == inner && r.config.origin == origin && r.config.send_compression_encodings is None && r.config.accept_compression_encodings.none_enabled() && r.config.accept_compression_encodings.wf() && r.config.max_decoding_message_size is None && r.config.max_encoding_message_size is None')])
    u.fn(G, 'new', within='impl<T> Grpc<T>', props=CF, display='Grpc::new',
         ensures=[Clause('G0_a_new_client_compresses_nothing_accepts_nothing_and_has_no_limits',
                         'r.inner == inner && r.config.send_compression_encodings is None && r.config.accept_compression_encodings.none_enabled() && r.config.accept_compression_encodings.wf() && r.config.max_decoding_message_size is None && r.config.max_encoding_message_size is None')])
    u.fn(G, 'send_compressed', within='impl<T> Grpc<T>', props=CF,
         ensures=[Clause('G2_send_encoding_is_the_one_given_nothing_else_changes',
                         'r.config.send_compression_encodings == Some(encoding) && r.config.accept_compression_encodings == self.config.accept_compression_encodings && r.config.origin == self.config.origin && r.config.max_decoding_message_size == self.config.max_decoding_message_size && r.config.max_encoding_message_size == self.config.max_encoding_message_size && r.inner == self.inner')])
    u.fn(G, 'accept_compressed', within='impl<T> Grpc<T>', props=CF,
         requires=['self.config.accept_compression_encodings.wf()'],
         ensures=[Clause('G3_accept_set_gains_exactly_that_encoding_send_side_untouched',
                         'r.config.accept_compression_encodings.wf() && r.config.accept_compression_encodings.enabled(encoding) && (forall|e: CompressionEncoding| e != encoding ==> r.config.accept_compression_encodings.enabled(e) == self.config.accept_compression_encodings.enabled(e)) && r.config.send_compression_encodings == self.config.send_compression_encodings && r.config.origin == self.config.origin && r.config.max_decoding_message_size == self.config.max_decoding_message_size && r.config.max_encoding_message_size == self.config.max_encoding_message_size && r.inner == self.inner')])
    u.fn(G, 'max_decoding_message_size', within='impl<T> Grpc<T>', props=CF,
         ensures=[Clause('G4_decoding_limit_only', 'r.config.max_decoding_message_size == Some(limit) && r.config.max_encoding_message_size == self.config.max_encoding_message_size && r.config.send_compression_encodings == self.config.send_compression_encodings && r.config.accept_compression_encodings == self.config.accept_compression_encodings && r.inner == self.inner')])
    u.fn(G, 'max_encoding_message_size', within='impl<T> Grpc<T>', props=CF,
         ensures=[Clause('G5_encoding_limit_only', 'r.config.max_encoding_message_size == Some(limit) && r.config.max_decoding_message_size == self.config.max_decoding_message_size && r.config.send_compression_encodings == self.config.send_compression_encodings && r.config.accept_compression_encodings == self.config.accept_compression_encodings && r.inner == self.inner')])
    u.fn(G, 'create_response', within='impl<T> Grpc<T>',
         sig_edits=[lambda t: t.sub_code('R12', r'fn create_response<M2>\(', 'fn create_response<M2, D, RB>('),
                    lambda t: t.sub_code('R12', r"decoder: impl Decoder<Item = M2, Error = Status> \+ Send \+ 'static", 'decoder: D'),
                    lambda t: t.sub_code('R12', r'http::Response<T::ResponseBody>', 'http::Response<RB>'),
                    lambda t: t.sub_code('R12', r'\bwhere\s+T: GrpcService<Body>[^{]*', '')],
         closures={0: dict(params='body: RB', ret='(o: Streaming<M2>)',
                           ensures=['o.body@ == erased(body) && o.decoder@ == erased_decoder(decoder)',
                                    'expect_additional_trailers ==> o.direction == Direction::Response(status_code) && o.encoding == encoding && o.max_message_size == self.config.max_decoding_message_size',
                                    '!expect_additional_trailers ==> o.direction == Direction::EmptyResponse'])},
         ensures=[Clause('CR_response_head_is_interpreted_as_the_protocol_says', 'response_outcome(self.config, decoder, response, r)', ['C02', 'C05'])])

    u.close('}')
    u.raw(ASYNC_CODEC)
    u.raw(GENERIC)
    u.raw(GRPCSVC)
    u.raw(STREAM_API)
    u.raw('''
// the request the transport is handed for a call with this user request
pub open spec fn sent_request<S, C: Codec>(q: http::Request<Body>, cfg: GrpcConfig, request: Request<S>, path: PathAndQuery, codec: C) -> bool {
    &&& q.method == http::Method::POST && q.version == http::Version::HTTP_2 && q.extensions == request.extensions
    &&& prepared_headers(q.headers@, request.metadata.headers@, cfg.send_compression_encodings, cfg.accept_compression_encodings)
    &&& exists|b: EncodeBody<C::Encoder, OkStream<S>>| q.body.of@ == #[trigger] erased(b) && erased_encoder(b.encoder) == codec.enc_id() && b.source.inner == request.message
            && b.compression == cfg.send_compression_encodings && b.max_message_size == cfg.max_encoding_message_size && b.client
}
''')
    u.raw('''
// outcome of the exchange with the transport: its error becomes the call's error; a response head is interpreted by create_response
pub open spec fn call_outcome<M2, C: Codec, RB, E>(cfg: GrpcConfig, codec: C, answer: Result<http::Response<RB>, E>, r: Result<Response<Streaming<M2>>, Status>) -> bool {
    match answer {
        Err(e) => r == Err::<Response<Streaming<M2>>, Status>(Status::generic(e)),
        Ok(resp) => exists|d: C::Decoder| erased_decoder(d) == codec.dec_id() && #[trigger] response_outcome(cfg, d, resp, r),
    }
}
// what a single-response call makes of the response stream (C02: "success only if the handler succeeded, otherwise an error
// carrying the handler's code, message and details and every metadata entry the handler attached")
pub open spec fn unary_outcome<M2>(r0: Result<Response<Streaming<M2>>, Status>, r: Result<Response<M2>, Status>) -> bool {
    match r0 {
        Err(e) => r == Err::<Response<M2>, Status>(e),
        Ok(resp0) => {
            let (first, s1) = resp0.message.nxt();
            match first {
                // the stream failed before the first message: that status, with the initial metadata merged into its metadata
                Err(st) => r matches Err(st2) && st2.code == st.code && st2.message == st.message && st2.details == st.details
                    && st2.metadata.headers@ == st.metadata.headers@.union_prefer_right(resp0.metadata.headers@),
                Ok(None) => r matches Err(st2) && st2.code == Code::Internal,
                Ok(Some(m)) => match s1.trl().0 {
                    Err(st) => r == Err::<Response<M2>, Status>(st),
                    Ok(None) => r matches Ok(x) && x.message == m && x.metadata.headers@ == resp0.metadata.headers@ && x.extensions == resp0.extensions,
                    Ok(Some(t)) => r matches Ok(x) && x.message == m && x.metadata.headers@ == resp0.metadata.headers@.union_prefer_right(t.headers@) && x.extensions == resp0.extensions,
                },
            }
        },
    }
}
''')
    u.raw('''
// C14 / C09 on the client: a call whose transport fails returns the status the error means - UNAVAILABLE while no connection
// can be made (a ConnectError in the cause chain), CANCELLED when the locally configured deadline cut it off
pub proof fn lemma_transport_error_is_what_it_means<M2, C: Codec, RB, E>(cfg: GrpcConfig, codec: C, e: E, r: Result<Response<Streaming<M2>>, Status>)
    requires call_outcome::<M2, C, RB, E>(cfg, codec, Err(e), r)
    ensures
        r is Err,
        box_meaning(boxed(e)) matches Some(m) ==> agrees(r->Err_0, m),
        (!(boxed(e).kind is Status) && !(boxed(e).kind is H2) && chain_meaning(boxed(e)) == Some(Meaning::Known(Code::Unavailable))) ==> r->Err_0.code == Code::Unavailable,
        (!(boxed(e).kind is Status) && !(boxed(e).kind is H2) && chain_meaning(boxed(e)) == Some(Meaning::Known(Code::Cancelled))) ==> r->Err_0.code == Code::Cancelled,
        box_meaning(boxed(e)) is None ==> r->Err_0.code == Code::Unknown,
{
    broadcast use axiom_generic_means;
}
''', props=['C02', 'C09', 'C14'])
    u._emit('impl<T> Grpc<T> {'); u._open_header = 'impl<T> Grpc<T> {'
    AW = [lambda t: t.sub_code('R12', r'\bwhere\s+T: GrpcService<Body>[^{]*', 'where T: GrpcService<Body>, C: Codec<Encode = M1, Decode = M2>, S: Stream<Item = M1>')]
    def hoist_encoder(t):
        # R20: `codec.encoder()` is evaluated inside a closure that Request::map calls exactly once, at once (clause M1 of the
        # real Request::map); it is hoisted in front of the statement so the closure captures no mutable reference
        a = t.find_code('codec.encoder()')
        st = t.find_code('let request = request')
        if a < 0 or st < 0 or st > a:
            t.lost.append('R20 anchor codec.encoder() inside `let request = request.map(..)`')
            return
        t.edit('R20', a, a + len('codec.encoder()'), 'verif_encoder', 'hoisted out of the immediately-invoked closure')
        ls = t.t.rfind('\n', 0, st) + 1
        t.edit('R20', ls, ls, '        let verif_encoder = codec.encoder();\n', 'hoisted out of the immediately-invoked closure')
    u.fn(G, 'streaming', within='impl<T> Grpc<T>', sig_edits=AW, body_edits=[hoist_encoder],
         closures={0: dict(params='s: S', ret='(o: EncodeBody<C::Encoder, OkStream<S>>)',
                           ensures=['o.encoder == verif_encoder && o.source.inner == s && o.compression == self.config.send_compression_encodings && o.max_message_size == self.config.max_encoding_message_size && o.client'])},
         ensures=[
             Clause('S1_the_transport_is_called_exactly_once_with_the_prepared_grpc_request',
                    'final(self).inner.log().len() == old(self).inner.log().len() + 1 && final(self).inner.log().drop_last() == old(self).inner.log() && sent_request(final(self).inner.log().last(), old(self).config, request, path, codec)'),
             Clause('S2_transport_error_becomes_the_call_error_and_a_response_head_is_interpreted_as_the_protocol_says',
                    'call_outcome(old(self).config, codec, final(self).inner.answer(), r)', ['C02', 'C09', 'C14']),
             Clause('S4_configuration_untouched', 'final(self).config == old(self).config'),
         ])
    ONE = 'final(self).inner.log().len() == old(self).inner.log().len() + 1 && final(self).inner.log().drop_last() == old(self).inner.log()'
    u.fn(G, 'client_streaming', within='impl<T> Grpc<T>', sig_edits=AW,
         closures={0: dict(params='mut status: Status', ret='(o: Status)',
                           ensures=['o.code == status.code && o.message == status.message && o.details == status.details && o.metadata.headers@ == status.metadata.headers@.union_prefer_right(parts.headers@)']),
                   1: dict(params='', ret='(o: Status)', ensures=['o.code == Code::Internal'])},
         ensures=[
             Clause('CS1_the_transport_is_called_exactly_once_with_the_prepared_grpc_request', ONE + ' && sent_request(final(self).inner.log().last(), old(self).config, request, path, codec)'),
             Clause('CS2_first_message_then_trailers_or_the_error_with_all_metadata',
                    'exists|r0: Result<Response<Streaming<M2>>, Status>| #[trigger] call_outcome(old(self).config, codec, final(self).inner.answer(), r0) && unary_outcome(r0, r)', ['C02', 'C09', 'C14']),
             Clause('CS3_configuration_untouched', 'final(self).config == old(self).config'),
         ])
    AW1 = [lambda t: t.sub_code('R12', r'\bwhere\s+T: GrpcService<Body>[^{]*', 'where T: GrpcService<Body>, C: Codec<Encode = M1, Decode = M2>')]
    ONCE = 'Request { metadata: request.metadata, message: Once { item: request.message }, extensions: request.extensions }'
    u.fn(G, 'unary', within='impl<T> Grpc<T>', sig_edits=AW1,
         closures={0: dict(params='m: M1', ret='(o: Once<M1>)', ensures=['o.item == m'])},
         ensures=[
             Clause('U1_one_request_message', ONE + ' && sent_request(final(self).inner.log().last(), old(self).config, ' + ONCE + ', path, codec)'),
             Clause('U2_outcome_as_for_a_single_response_call',
                    'exists|r0: Result<Response<Streaming<M2>>, Status>| #[trigger] call_outcome(old(self).config, codec, final(self).inner.answer(), r0) && unary_outcome(r0, r)', ['C02', 'C09', 'C14']),
         ])
    u.fn(G, 'server_streaming', within='impl<T> Grpc<T>', sig_edits=AW1,
         closures={0: dict(params='m: M1', ret='(o: Once<M1>)', ensures=['o.item == m'])},
         ensures=[
             Clause('SS1_one_request_message', ONE + ' && sent_request(final(self).inner.log().last(), old(self).config, ' + ONCE + ', path, codec)'),
             Clause('SS2_outcome_as_for_a_streaming_call', 'call_outcome(old(self).config, codec, final(self).inner.answer(), r)'),
         ])
    u.close('}')
    u.fn(G, 'clone', within='impl<T: Clone> Clone for Grpc<T>', header='impl<T: Clone> Clone for Grpc<T> {', close=True, props=['C05', 'C06', 'C02'], display='Grpc::clone', vacuity=False,
         ensures=[Clause('G9_a_cloned_client_has_the_same_configuration', 'r.config == self.config && cloned(self.inner, r.inner)')])
    return u
