"""U23 — tonic/src/body.rs: the type-erased body.  An empty body has no frames and is at its end; a wrapping body forwards
poll_frame / is_end_stream to the body it wraps.  Body::new collapses a body that is already at its end into the empty body, hands a tonic Body or an
already boxed body through unchanged (the `dyn Any` downcasts) and boxes anything else.  Carries the body plumbing of C02 / C03: what the erased body yields is what the wrapped body yields."""
from vxlib import Unit, Clause

B = 'tonic/src/body.rs'

SHIMS = r'''
// http_body::Body seen through one poll (A-httpbody-06): some relation `polled` between the state before, the result and the state
// after; UnsyncBoxBody<Bytes, Status> is such a body (A-httpbody-08: boxing does not change what the body yields)
pub mod http_body { pub struct Frame<T> { pub t: T } pub struct SizeHint { pub lower: u64, pub upper: Option<u64> } }
pub struct Status { pub code: u8 }
pub struct BoxBody { pub id: Ghost<int> }
impl BoxBody {
    pub uninterp spec fn polled(&self, r: Poll<Option<Result<http_body::Frame<Bytes>, Status>>>, post: &Self) -> bool;
    pub uninterp spec fn at_end(&self) -> bool;
    #[verifier::external_body]
    pub fn is_end_stream(&self) -> (r: bool) ensures r == self.at_end() { unimplemented!() }
}
// Pin::new(body).poll_frame(cx) on the boxed body (A-pinproject-11)
pub struct PinMutBox<'a> { pub p: &'a mut BoxBody }
pub struct Pin;
impl Pin { pub fn new(b: &mut BoxBody) -> (r: PinMutBox<'_>) ensures *r.p == *old(b), *final(r.p) == *final(b) { PinMutBox { p: b } } }
impl<'a> PinMutBox<'a> {
    #[verifier::external_body]
    pub fn poll_frame(self, cx: &mut Context) -> (r: Poll<Option<Result<http_body::Frame<Bytes>, Status>>>) ensures old(self.p).polled(r, final(self.p)) { unimplemented!() }
}
// the body handed to Body::new (any http_body::Body<Data = Bytes>): whether it is at its end, whether it already is a tonic Body /
// a boxed body (what the `dyn Any` downcasts find out, A-core-50), and its boxed form (A-httpbody-09: map_err + boxed_unsync box
// the body; the frames are those of the body, errors go through Status::map_error)
pub trait SrcBody: Sized {
    spec fn at_end(&self) -> bool;
    spec fn as_tonic(&self) -> Option<Body>;
    spec fn as_boxed(&self) -> Option<BoxBody>;
    spec fn boxed(&self) -> BoxBody;
    fn is_end_stream(&self) -> (r: bool) ensures r == self.at_end();
}
// A-core-50: <dyn Any>::downcast_mut::<Option<T>>(&mut Some(body)) succeeds exactly when the body IS a T
#[verifier::external_body]
pub fn verif_downcast_tonic<B: SrcBody>(b: &mut Option<B>) -> (r: Option<&mut Option<Body>>)
    requires *old(b) is Some
    ensures r is Some <==> old(b)->Some_0.as_tonic() is Some, r matches Some(o) ==> *o == old(b)->Some_0.as_tonic(), r is None ==> *final(b) == *old(b)
{ unimplemented!() }
// A-core-50 (as above, for an already boxed body)
#[verifier::external_body]
pub fn verif_downcast_boxed<B: SrcBody>(b: &mut Option<B>) -> (r: Option<&mut Option<BoxBody>>)
    requires *old(b) is Some
    ensures r is Some <==> old(b)->Some_0.as_boxed() is Some, r matches Some(o) ==> *o == old(b)->Some_0.as_boxed(), r is None ==> *final(b) == *old(b)
{ unimplemented!() }
// A-httpbody-09 (see above)
#[verifier::external_body]
pub fn verif_erase<B: SrcBody>(b: B) -> (r: BoxBody) ensures r == b.boxed() { unimplemented!() }
'''


def build():
    u = Unit('tbody', ['C02', 'C03'])
    u.prelude('base.rs', 'bytes.rs')
    u.raw(SHIMS)
    u.item(B, 'enum', 'Kind')
    u.item(B, 'struct', 'Body')
    u._emit('impl Body {'); u._open_header = 'impl Body {'
    u.fn(B, 'from_kind', within='impl Body', ensures=[Clause('B0_a_body_of_this_kind', 'r.kind == kind')])
    u.fn(B, 'empty', within='impl Body', ensures=[Clause('B1_the_empty_body', 'r.kind is Empty')])
    u.fn(B, 'new', within='impl Body', display='Body::new',
         sig_edits=[lambda t: t.sub_code('R12', r"B: http_body::Body<Data = bytes::Bytes> \+ Send \+ 'static,\s*B::Error: Into<crate::BoxError>,", 'B: SrcBody,')],
         body_edits=[lambda t: t.sub_code('R17', r'<dyn std::any::Any>::downcast_mut::<Option<Body>>\(&mut body\)', 'verif_downcast_tonic(&mut body)'),
                     lambda t: t.sub_code('R17', r'<dyn std::any::Any>::downcast_mut::<Option<BoxBody>>\(&mut body\)', 'verif_downcast_boxed(&mut body)'),
                     lambda t: t.sub_code('R17', r'body\s*\.unwrap\(\)\s*\.map_err\(crate::Status::map_error\)\s*\.boxed_unsync\(\)', 'verif_erase(body.unwrap())')],
         ensures=[Clause('B5_a_body_already_at_its_end_becomes_the_empty_body', 'body.at_end() ==> r.kind is Empty'),
                  Clause('B6_otherwise_the_erased_body_is_the_given_body_boxed_at_most_once',
                         '''!body.at_end() ==> (match (body.as_tonic(), body.as_boxed()) {
                    (Some(t), _) => r == t,
                    (None, Some(bx)) => r.kind == Kind::Wrap(bx),
                    (None, None) => r.kind == Kind::Wrap(body.boxed()),
                })''')])
    u.fn(B, 'default', within='impl Default for Body', display='Body::default', ensures=[Clause('B7_the_default_body_is_empty', 'r.kind is Empty')])
    u.close('}')
    hdr = 'impl http_body::Body for Body'
    se = [lambda t: t.sub_code('R9', r'Self::Data', 'Bytes'), lambda t: t.sub_code('R9', r'Self::Error', 'Status'),
          lambda t: t.sub_code('R12', r'std::task::Context', 'Context'), lambda t: t.sub_code('R12', r'bytes::Bytes', 'Bytes'), lambda t: t.sub_code('R12', r'crate::Status', 'Status')]
    u._emit('impl Body {'); u._open_header = 'impl Body {'
    u.fn(B, 'poll_frame', within=hdr, sig_edits=se,
         ensures=[Clause('B2_an_empty_body_has_no_frames', 'old(self).kind is Empty ==> (r matches Poll::Ready(None)) && final(self).kind is Empty'),
                  Clause('B3_a_wrapping_body_yields_exactly_what_the_wrapped_body_yields', 'old(self).kind matches Kind::Wrap(b) ==> final(self).kind is Wrap && b.polled(r, &final(self).kind->Wrap_0)')])
    u.fn(B, 'is_end_stream', within=hdr,
         ensures=[Clause('B4_end_of_stream', 'r == (match self.kind { Kind::Empty => true, Kind::Wrap(b) => b.at_end() })')])
    u.close('}')
    return u
