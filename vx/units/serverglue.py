"""U11b — tonic/src/server/grpc.rs: the server handler.  Request analysis (which of the two configured encoding sets is
consulted, refusal, the Streaming handed to the service), the single-message request shapes (map_request_unary), response
construction (map_response: trailers-only for an error status, otherwise the gRPC response head around the handler's
metadata and an encoder body in the server role) and the four call shapes as sequential async code over an assumed
service interface.  Carries the server half of C02, and the plumbing parts of C03 / C05 / C06 / C08."""
import re
from vxlib import Unit, Clause
from units import common
from units import clientglue as cg

G = 'tonic/src/server/grpc.rs'
RQ = 'tonic/src/request.rs'
RS = 'tonic/src/response.rs'
CO = 'tonic/src/codec/compression.rs'
D = 'tonic/src/codec/decode.rs'

EXT = r'''
pub use crate::httpmsg::Extensions;
impl Extensions {
    pub uninterp spec fn empty_spec() -> Extensions;
    #[verifier::external_body]
    pub fn new() -> (r: Extensions) ensures r == Extensions::empty_spec() { unimplemented!() }
    // A-http-40: Extensions::get::<T>() is the value of type T stored in the type map, if any
    pub uninterp spec fn get_spec<T>(&self) -> Option<T>;
    #[verifier::external_body]
    pub fn get<T>(&self) -> (r: Option<&T>) ensures match self.get_spec::<T>() { Some(v) => r matches Some(x) && *x == v, None => r is None } { unimplemented!() }
    // A-http-40b: Extensions::insert::<T>(v) stores v under T (what it does to the entries of other types is not stated)
    #[verifier::external_body]
    pub fn insert<T>(&mut self, v: T) -> (r: Option<T>) ensures final(self).get_spec::<T>() == Some(v) { unimplemented!() }
}
'''

SERVER_CODEC = r'''
impl CompressionEncoding {
    // A-tonic-compression-04 (proved: compression::from_accept_encoding_header P1..P3): only an encoding that is enabled in the
    // given set and offered by the request's grpc-accept-encoding; nothing when the set is empty
    pub uninterp spec fn offered(h: HMap, e: CompressionEncoding) -> bool;
    #[verifier::external_body]
    pub fn from_accept_encoding_header(map: &http::HeaderMap, enabled_encodings: EnabledCompressionEncodings) -> (r: Option<CompressionEncoding>)
        ensures r matches Some(e) ==> enabled_encodings.enabled(e) && Self::offered(map@, e), enabled_encodings.none_enabled() ==> r is None,
    { unimplemented!() }
}
// crate::codec::EncodeBody::new_server (PROVED in unit encode, clause B2)
// A-derive-02: #[derive(Default)] with #[default] on Inherit (text guard in the unit)
impl core::default::Default for SingleMessageCompressionOverride { fn default() -> (r: Self) ensures r == SingleMessageCompressionOverride::Inherit { SingleMessageCompressionOverride::Inherit } }
impl<E, S> EncodeBody<E, S> {
    #[verifier::external_body]
    pub fn new_server(encoder: E, source: S, compression_encoding: Option<CompressionEncoding>, compression_override: SingleMessageCompressionOverride, max_message_size: Option<usize>) -> (r: Self)
        ensures r.encoder == encoder, r.source == source, r.max_message_size == max_message_size, !r.client,
            r.compression == (if compression_override == SingleMessageCompressionOverride::Disable { None } else { compression_encoding }),
    { unimplemented!() }
}
'''

SVC = r'''
// ---- the application's handler (A-tonic-service-01): its answer is some function of the handler and of the request it is
// called with (so a contract that equates tonic's response with the image of `respond(the right request)` pins down WHICH
// request the handler was given); the four traits differ only in the request / response message shapes
pub trait UnaryService<R> {
    type Response;
    type Future: Future<Output = Result<Response<Self::Response>, Status>>;
    spec fn respond(&self, request: Request<R>) -> Result<Response<Self::Response>, Status>;
    fn call(&mut self, request: Request<R>) -> (f: Self::Future) ensures f@ == old(self).respond(request);
}
pub trait ServerStreamingService<R> {
    type Response;
    type ResponseStream: Stream<Item = Result<Self::Response, Status>>;
    type Future: Future<Output = Result<Response<Self::ResponseStream>, Status>>;
    spec fn respond(&self, request: Request<R>) -> Result<Response<Self::ResponseStream>, Status>;
    fn call(&mut self, request: Request<R>) -> (f: Self::Future) ensures f@ == old(self).respond(request);
}
pub trait ClientStreamingService<R> {
    type Response;
    type Future: Future<Output = Result<Response<Self::Response>, Status>>;
    spec fn respond(&self, request: Request<Streaming<R>>) -> Result<Response<Self::Response>, Status>;
    fn call(&mut self, request: Request<Streaming<R>>) -> (f: Self::Future) ensures f@ == old(self).respond(request);
}
pub trait StreamingService<R> {
    type Response;
    type ResponseStream: Stream<Item = Result<Self::Response, Status>>;
    type Future: Future<Output = Result<Response<Self::ResponseStream>, Status>>;
    spec fn respond(&self, request: Request<Streaming<R>>) -> Result<Response<Self::ResponseStream>, Status>;
    fn call(&mut self, request: Request<Streaming<R>>) -> (f: Self::Future) ensures f@ == old(self).respond(request);
}
'''

REQ = r'''
// the response encoding: only one the server may send AND the request offers (C05)
pub open spec fn chosen(h: HMap, send: EnabledCompressionEncodings, enc: Option<CompressionEncoding>) -> bool {
    (enc matches Some(e) ==> send.enabled(e) && CompressionEncoding::offered(h, e)) && (send.none_enabled() ==> enc is None)
}
// the Streaming the handler (or map_request_unary) reads the request messages from
pub open spec fn request_stream<M, B, C: Codec>(s: Streaming<M>, g: Grpc<C>, request: http::Request<B>) -> bool {
    s.direction == Direction::Request && negotiated(request.headers@, s.encoding, g.accept_compression_encodings) && s.max_message_size == g.max_decoding_message_size
        && s.body@ == erased(request.body) && s.decoder@ == g.codec.dec_id()
}
// what the handler is given for a streaming-request call: every header as metadata (nothing is stripped on receipt)
pub open spec fn streaming_request<M, B, C: Codec>(g: Grpc<C>, request: http::Request<B>, r: Result<Request<Streaming<M>>, Status>) -> bool {
    if encoding_refused(request.headers@, g.accept_compression_encodings) { r matches Err(st) && st.code == Code::Unimplemented }
    else { r matches Ok(q) && q.metadata.headers@ == request.headers@ && q.extensions == request.extensions && request_stream(q.message, g, request) }
}
// ... and for a single-message request: the first message, the trailing metadata merged into the headers; no message is INTERNAL
pub open spec fn unary_request<M, B, C: Codec>(g: Grpc<C>, request: http::Request<B>, r: Result<Request<M>, Status>) -> bool {
    if encoding_refused(request.headers@, g.accept_compression_encodings) { r matches Err(st) && st.code == Code::Unimplemented }
    else {
        exists|s0: Streaming<M>| #[trigger] request_stream(s0, g, request) && ({
            let (first, s1) = s0.nxt();
            match first {
                Err(st) => r == Err::<Request<M>, Status>(st),
                Ok(None) => r matches Err(st) && st.code == Code::Internal,
                Ok(Some(m)) => match s1.trl().0 {
                    Err(st) => r == Err::<Request<M>, Status>(st),
                    Ok(None) => r matches Ok(q) && q.message == m && q.metadata.headers@ == request.headers@ && q.extensions == request.extensions,
                    Ok(Some(t)) => r matches Ok(q) && q.message == m && q.metadata.headers@ == request.headers@.union_prefer_right(t.headers@) && q.extensions == request.extensions,
                },
            }
        })
    }
}
'''

RESP = r'''
// the gRPC response for a handler outcome (PROTOCOL-HTTP2.md "Responses"): an error status is a Trailers-Only response; a
// successful handler response is 200 / HTTP/2 / application/grpc, announces grpc-encoding exactly when an encoding was
// chosen, carries the handler's metadata minus the reserved names, and its body is the handler's stream behind a
// server-role encoder (which owes the trailers: unit encode)
pub open spec fn ok_response_headers(h: HMap, user: HMap, enc: Option<CompressionEncoding>) -> bool {
    &&& h.contains_key("content-type"@) && h["content-type"@] == seq![ascii_bytes("application/grpc"@)]
    &&& enc matches Some(e) ==> h.contains_key("grpc-encoding"@) && h["grpc-encoding"@] == seq![ascii_bytes(enc_name(e))]
    &&& forall|k: Seq<char>| k != "content-type"@ && !(enc is Some && k == "grpc-encoding"@)
            ==> (#[trigger] h.contains_key(k) <==> (user.contains_key(k) && !is_reserved(k))) && (h.contains_key(k) ==> h[k] == user[k])
}
pub open spec fn status_response(out: http::Response<Body>, st: Status) -> bool {
    &&& out.status == http::StatusCode::OK && out.body.of@ == empty_body()
    &&& written(st, Map::<Seq<char>, Seq<Seq<u8>>>::empty().insert("content-type"@, seq![ascii_bytes("application/grpc"@)]), out.headers@)
}
pub open spec fn handler_response<B, E>(out: http::Response<Body>, resp: Response<B>, enc_id: int, enc: Option<CompressionEncoding>,
    ov: SingleMessageCompressionOverride, max: Option<usize>) -> bool
{
    &&& out.status == http::StatusCode::OK && out.version == http::Version::HTTP_2 && out.extensions == resp.extensions
    &&& ok_response_headers(out.headers@, resp.metadata.headers@, enc)
    &&& exists|b: EncodeBody<E, B>| out.body.of@ == #[trigger] erased(b) && erased_encoder(b.encoder) == enc_id && b.source == resp.message
            && b.compression == (if ov == SingleMessageCompressionOverride::Disable { None } else { enc }) && b.max_message_size == max && !b.client
}
'''


CFG_SAME = 'final(self).accept_compression_encodings == old(self).accept_compression_encodings && final(self).send_compression_encodings == old(self).send_compression_encodings && final(self).max_decoding_message_size == old(self).max_decoding_message_size && final(self).max_encoding_message_size == old(self).max_encoding_message_size && final(self).codec.enc_id() == old(self).codec.enc_id() && final(self).codec.dec_id() == old(self).codec.dec_id()'


def hoist_decoder(t):
    # R20: `self.codec.decoder()` sits inside a closure that http::Request::map calls exactly once, at once; it is hoisted in
    # front of the statement so that the closure captures no mutable reference
    a = t.find_code('self.codec.decoder()')
    st = t.find_code('let request = request.map(')
    if a < 0 or st < 0 or st > a:
        t.lost.append('R20 anchor self.codec.decoder() inside `let request = request.map(..)`')
        return
    t.edit('R20', a, a + len('self.codec.decoder()'), 'verif_decoder', 'hoisted out of the immediately-invoked closure')
    ls = t.t.rfind('\n', 0, st) + 1
    t.edit('R20', ls, ls, '        let verif_decoder = self.codec.decoder();\n', 'hoisted out of the immediately-invoked closure')


def build():
    u = Unit('serverglue', ['C02'])
    common.http_base(u)
    common.metadata_core(u)
    common.status_decls(u)
    common.status_assumed(u)
    u.raw(EXT)
    u.item(CO, 'enum', 'CompressionEncoding', derives='Clone, Copy, PartialEq, Eq, Structural')
    u.item(CO, 'struct', 'EnabledCompressionEncodings', derives='Clone, Copy')
    u._emit('pub mod codec { pub mod compression { use crate::*;')
    u.item(CO, 'const', 'ENCODING_HEADER')
    u.item(CO, 'const', 'ACCEPT_ENCODING_HEADER')
    u._emit('pub use crate::{CompressionEncoding, EnabledCompressionEncodings}; } }')
    u.raw(cg.CODEC)
    u.raw('''pub open spec fn seen(e: CompressionEncoding, n: int) -> bool { (n > 0 && e == CompressionEncoding::Gzip) || (n > 1 && e == CompressionEncoding::Deflate) || (n > 2 && e == CompressionEncoding::Zstd) }
impl EnabledCompressionEncodings {
    // A-tonic-cfg-02: linked callee contract, proved by kani::cfg_is_enabled
    #[verifier::external_body]
    pub fn is_enabled(&self, encoding: CompressionEncoding) -> (r: bool) ensures r == self.enabled(encoding) { unimplemented!() }
}
''')
    u._emit('impl CompressionEncoding {'); u._open_header = 'impl CompressionEncoding {'
    u.exec_const(CO, 'ENCODINGS', props=['C05'], ensures=[Clause('T1_all_three_encodings_in_preference_order',
                 'Self::ENCODINGS@.len() == 3 && Self::ENCODINGS@[0] == CompressionEncoding::Gzip && Self::ENCODINGS@[1] == CompressionEncoding::Deflate && Self::ENCODINGS@[2] == CompressionEncoding::Zstd')])
    u.close('}')
    u.raw('''impl EnabledCompressionEncodings {
    // A-derive-03: #[derive(Default)] on EnabledCompressionEncodings: every slot None
    #[verifier::external_body]
    pub fn default() -> (r: Self) ensures r.none_enabled(), r.wf() { unimplemented!() }
}
''')
    u.raw(cg.BODY.replace('impl Body {', 'pub uninterp spec fn empty_body() -> int;\nimpl DefaultBody for Body { open spec fn default_spec() -> Self { Body { of: Ghost(empty_body()) } } #[verifier::external_body] fn default() -> (r: Self) { unimplemented!() } }\nimpl Body {'))

    # ---- tonic::Request / Response plumbing (the real functions) ----
    u.item(RQ, 'struct', 'Request')
    u.item(RS, 'struct', 'Response')
    P = ['C02', 'C03', 'C08']
    u._emit('impl<T> Request<T> {'); u._open_header = 'impl<T> Request<T> {'
    u.fn(RQ, 'from_http_parts', within='impl<T> Request<T>', props=P, ensures=[Clause('fields', 'r.metadata.headers@ == parts.headers@ && r.message == message && r.extensions == parts.extensions')])
    u.fn(RQ, 'from_http', within='impl<T> Request<T>', props=P, ensures=[Clause('nothing_dropped', 'r.metadata.headers@ == http.headers@ && r.message == http.body && r.extensions == http.extensions')])
    u.fn(RQ, 'into_inner', within='impl<T> Request<T>', props=P, ensures=[Clause('message', 'r == self.message')])
    u.fn(RQ, 'get_ref', within='impl<T> Request<T>', props=P, ensures=[Clause('message', '*r == self.message')])
    u.fn(RQ, 'metadata', within='impl<T> Request<T>', props=P, ensures=[Clause('field', '*r == self.metadata')])
    u.fn(RQ, 'metadata_mut', within='impl<T> Request<T>', props=P,
         ensures=[Clause('borrow', '*r == old(self).metadata && *final(r) == final(self).metadata && final(self).message == old(self).message && final(self).extensions == old(self).extensions')])
    u.close('}')
    u._emit('impl<T> Response<T> {'); u._open_header = 'impl<T> Response<T> {'
    u.fn(RS, 'into_http', within='impl<T> Response<T>', props=P,
         ensures=[
             Clause('P1_grpc_response_head', 'r.status == http::StatusCode::OK && r.version == http::Version::HTTP_2 && r.body == self.message && r.extensions == self.extensions', ['C03', 'C02']),
             Clause('P2_user_metadata_minus_reserved', 'sanitized_of(r.headers@, self.metadata.headers@)', ['C08', 'C03', 'C02']),
         ])
    u.fn(RS, 'extensions', within='impl<T> Response<T>', props=P, ensures=[Clause('field', '*r == self.extensions')])
    u.fn(RS, 'extensions_mut', within='impl<T> Response<T>', props=['C05'],
         ensures=[Clause('borrow_ext', '*r == old(self).extensions && *final(r) == final(self).extensions && final(self).message == old(self).message && final(self).metadata == old(self).metadata', ['C05'])])
    u.fn(RS, 'disable_compression', within='impl<T> Response<T>', props=['C05'], display='Response::disable_compression',
         body_edits=[lambda t: t.sub_code('R12', r'crate::codec::compression::SingleMessageCompressionOverride', 'SingleMessageCompressionOverride')],
         ensures=[Clause('D1_the_opt_out_is_recorded_for_this_response_and_nothing_else_changes',
                         'final(self).extensions.get_spec::<SingleMessageCompressionOverride>() == Some(SingleMessageCompressionOverride::Disable) && final(self).message == old(self).message && final(self).metadata == old(self).metadata', ['C05'])])
    EMPTYMAP = 'Map::<Seq<char>, Seq<Seq<u8>>>::empty()'
    u.fn(RS, 'new', within='impl<T> Response<T>', props=P, ensures=[Clause('fresh', 'r.message == message && r.metadata.headers@ == %s && r.extensions == Extensions::empty_spec()' % EMPTYMAP)])
    u.fn(RS, 'into_inner', within='impl<T> Response<T>', props=P, ensures=[Clause('message', 'r == self.message')])
    u.fn(RS, 'get_ref', within='impl<T> Response<T>', props=P, ensures=[Clause('message', '*r == self.message')])
    u.fn(RS, 'metadata', within='impl<T> Response<T>', props=P, ensures=[Clause('field', '*r == self.metadata')])
    u.fn(RS, 'map', within='impl<T> Response<T>', props=P, requires=['f.requires((self.message,))'],
         ensures=[Clause('M1_only_the_message_changes', 'f.ensures((self.message,), r.message) && r.metadata == self.metadata && r.extensions == self.extensions')])
    u.close('}')
    u._emit('impl MetadataMap {'); u._open_header = 'impl MetadataMap {'
    u.fn('tonic/src/metadata/map.rs', 'merge', within='impl MetadataMap', props=['C02', 'C08'],
         ensures=[Clause('M1_union_other_wins', 'final(self).headers@ == old(self).headers@.union_prefer_right(other.headers@)')])
    u.close('}')

    u.item(D, 'enum', 'Direction', derives='PartialEq, Eq, Structural')
    u.raw(cg.STREAM)
    u._emit('impl<T> Streaming<T> {'); u._open_header = 'impl<T> Streaming<T> {'
    nob = [lambda t: t.sub_code('R12', r'\bwhere\s+B: HttpBody[^{]*', '')]
    u.fn(D, 'new_request', within='impl<T> Streaming<T>', sig_edits=nob, props=['C02', 'C05', 'C06'],   # callee of map_request_*: encoding (C05) and size limit (C06) are passed through it
         ensures=[Clause('N3_request_stream', 'r.direction == Direction::Request && r.encoding == encoding && r.max_message_size == max_message_size && r.body@ == erased(body) && r.decoder@ == erased_decoder(decoder)')])
    u.close('}')
    u.item(CO, 'enum', 'SingleMessageCompressionOverride', derives='Clone, Copy, PartialEq, Eq, Structural')
    import vxlib as _vx
    if not re.search(r'#\[default\]\s*Inherit\b', _vx.read_src(CO)):
        raise _vx.Infra('SingleMessageCompressionOverride: #[default] is no longer on Inherit (text guard of shim A-derive-02)')
    u.raw(cg.ASYNC_CODEC)
    u.raw(cg.STREAM_API)
    u.raw(cg.NEGO)
    u.raw(SERVER_CODEC)
    u.raw(RESP)
    u.raw('''impl<T> http::Request<T> {
    // A-http-37: Request::map replaces the body, keeps the head
    #[verifier::external_body]
    pub fn map<U, G: FnOnce(T) -> U>(self, f: G) -> (r: http::Request<U>)
        requires f.requires((self.body,))
        ensures f.ensures((self.body,), r.body), r.method == self.method, r.version == self.version, r.uri == self.uri, r.headers == self.headers, r.extensions == self.extensions
    { unimplemented!() }
}
''')

    u.macro(G, 't')
    u.item(G, 'struct', 'Grpc')
    u.raw(SVC)
    u.raw(REQ)
    hdr = 'impl<T> Grpc<T>\nwhere\n    T: Codec,\n{'
    W = 'impl<T> Grpc<T>'
    u._emit(hdr); u._open_header = hdr
    CF = ['C05', 'C06', 'C02']
    SAME = lambda skip: ' && '.join('r.%s == self.%s' % (f, f) for f in ['codec', 'accept_compression_encodings', 'send_compression_encodings', 'max_decoding_message_size', 'max_encoding_message_size'] if f != skip)
    u.fn(G, 'new', within=W, props=CF,
         ensures=[Clause('G1_fresh_handler_accepts_and_sends_identity_only_no_limits',
                         'r.codec == codec && r.accept_compression_encodings.none_enabled() && r.accept_compression_encodings.wf() && r.send_compression_encodings.none_enabled() && r.send_compression_encodings.wf() && r.max_decoding_message_size is None && r.max_encoding_message_size is None')])
    u.fn(G, 'accept_compressed', within=W, props=CF, requires=['self.accept_compression_encodings.wf()'],
         ensures=[Clause('G2_accept_set_gains_that_encoding_nothing_else_changes',
                         'r.accept_compression_encodings.wf() && r.accept_compression_encodings.enabled(encoding) && (forall|e: CompressionEncoding| e != encoding ==> r.accept_compression_encodings.enabled(e) == self.accept_compression_encodings.enabled(e)) && ' + SAME('accept_compression_encodings'))])
    u.fn(G, 'send_compressed', within=W, props=CF, requires=['self.send_compression_encodings.wf()'],
         ensures=[Clause('G3_send_set_gains_that_encoding_nothing_else_changes',
                         'r.send_compression_encodings.wf() && r.send_compression_encodings.enabled(encoding) && (forall|e: CompressionEncoding| e != encoding ==> r.send_compression_encodings.enabled(e) == self.send_compression_encodings.enabled(e)) && ' + SAME('send_compression_encodings'))])
    u.fn(G, 'max_decoding_message_size', within=W, props=CF, ensures=[Clause('G4_decoding_limit_only', 'r.max_decoding_message_size == Some(limit) && ' + SAME('max_decoding_message_size'))])
    u.fn(G, 'max_encoding_message_size', within=W, props=CF, ensures=[Clause('G5_encoding_limit_only', 'r.max_encoding_message_size == Some(limit) && ' + SAME('max_encoding_message_size'))])
    u.fn(G, 'apply_max_message_size_config', within=W, props=CF,
         ensures=[Clause('G6_given_limits_are_applied_absent_ones_keep_the_current_value',
                         'r.max_decoding_message_size == (if max_decoding_message_size is Some { max_decoding_message_size } else { self.max_decoding_message_size }) && r.max_encoding_message_size == (if max_encoding_message_size is Some { max_encoding_message_size } else { self.max_encoding_message_size }) && r.codec == self.codec && r.accept_compression_encodings == self.accept_compression_encodings && r.send_compression_encodings == self.send_compression_encodings')])
    u.fn(G, 'apply_compression_config', within=W, props=CF,
         requires=['self.accept_compression_encodings.wf()', 'self.send_compression_encodings.wf()'],
         body_edits=[lambda t: t.sub_code('R22', r'for &encoding in CompressionEncoding::ENCODINGS \{', 'let verif_encs = CompressionEncoding::ENCODINGS; for verif_e in verif_encs { let encoding = *verif_e;')],
         hints=[('before', 'if accept_encodings.is_enabled(encoding) {', '            proof { assert(it.index@ == 0 || it.index@ == 1 || it.index@ == 2); assert(encoding == verif_encs@[it.index@ as int]); assert(forall|e: CompressionEncoding| e != encoding ==> seen(e, it.index@ + 1) == seen(e, it.index@ as int)); assert(seen(encoding, it.index@ + 1)); }')],
         loops={0: dict(iter='it', invariant=[
             'it.seq().len() == 3 && *it.seq()[0] == CompressionEncoding::Gzip && *it.seq()[1] == CompressionEncoding::Deflate && *it.seq()[2] == CompressionEncoding::Zstd',
             'verif_encs@.len() == 3 && verif_encs@[0] == CompressionEncoding::Gzip && verif_encs@[1] == CompressionEncoding::Deflate && verif_encs@[2] == CompressionEncoding::Zstd',
             'forall|k: int| 0 <= k < 3 ==> *(#[trigger] it.seq()[k]) == verif_encs@[k]',
             'this.accept_compression_encodings.wf() && this.send_compression_encodings.wf()',
             'this.codec == self.codec && this.max_decoding_message_size == self.max_decoding_message_size && this.max_encoding_message_size == self.max_encoding_message_size',
             'this.accept_compression_encodings.enabled(CompressionEncoding::Gzip) <==> (self.accept_compression_encodings.enabled(CompressionEncoding::Gzip) || (accept_encodings.enabled(CompressionEncoding::Gzip) && seen(CompressionEncoding::Gzip, it.index@ as int)))',
             'this.accept_compression_encodings.enabled(CompressionEncoding::Deflate) <==> (self.accept_compression_encodings.enabled(CompressionEncoding::Deflate) || (accept_encodings.enabled(CompressionEncoding::Deflate) && seen(CompressionEncoding::Deflate, it.index@ as int)))',
             'this.accept_compression_encodings.enabled(CompressionEncoding::Zstd) <==> (self.accept_compression_encodings.enabled(CompressionEncoding::Zstd) || (accept_encodings.enabled(CompressionEncoding::Zstd) && seen(CompressionEncoding::Zstd, it.index@ as int)))',
             'this.send_compression_encodings.enabled(CompressionEncoding::Gzip) <==> (self.send_compression_encodings.enabled(CompressionEncoding::Gzip) || (send_encodings.enabled(CompressionEncoding::Gzip) && seen(CompressionEncoding::Gzip, it.index@ as int)))',
             'this.send_compression_encodings.enabled(CompressionEncoding::Deflate) <==> (self.send_compression_encodings.enabled(CompressionEncoding::Deflate) || (send_encodings.enabled(CompressionEncoding::Deflate) && seen(CompressionEncoding::Deflate, it.index@ as int)))',
             'this.send_compression_encodings.enabled(CompressionEncoding::Zstd) <==> (self.send_compression_encodings.enabled(CompressionEncoding::Zstd) || (send_encodings.enabled(CompressionEncoding::Zstd) && seen(CompressionEncoding::Zstd, it.index@ as int)))',
         ])},
         ensures=[Clause('G7_both_sets_gain_exactly_the_encodings_of_the_given_configuration',
                         '(r.accept_compression_encodings.enabled(CompressionEncoding::Gzip) <==> (self.accept_compression_encodings.enabled(CompressionEncoding::Gzip) || accept_encodings.enabled(CompressionEncoding::Gzip))) && (r.accept_compression_encodings.enabled(CompressionEncoding::Deflate) <==> (self.accept_compression_encodings.enabled(CompressionEncoding::Deflate) || accept_encodings.enabled(CompressionEncoding::Deflate))) && (r.accept_compression_encodings.enabled(CompressionEncoding::Zstd) <==> (self.accept_compression_encodings.enabled(CompressionEncoding::Zstd) || accept_encodings.enabled(CompressionEncoding::Zstd))) && (r.send_compression_encodings.enabled(CompressionEncoding::Gzip) <==> (self.send_compression_encodings.enabled(CompressionEncoding::Gzip) || send_encodings.enabled(CompressionEncoding::Gzip))) && (r.send_compression_encodings.enabled(CompressionEncoding::Deflate) <==> (self.send_compression_encodings.enabled(CompressionEncoding::Deflate) || send_encodings.enabled(CompressionEncoding::Deflate))) && (r.send_compression_encodings.enabled(CompressionEncoding::Zstd) <==> (self.send_compression_encodings.enabled(CompressionEncoding::Zstd) || send_encodings.enabled(CompressionEncoding::Zstd))) && r.codec == self.codec && r.max_decoding_message_size == self.max_decoding_message_size && r.max_encoding_message_size == self.max_encoding_message_size')])
    u.fn(G, 'request_encoding_if_supported', within=W, props=['C05', 'C02'],
         ensures=[Clause('E1_the_request_encoding_is_checked_against_the_ACCEPT_set',
                         '''(encoding_refused(request.headers@, self.accept_compression_encodings) ==> (r matches Err(st) && st.code == Code::Unimplemented))
                            && (r matches Ok(enc) ==> negotiated(request.headers@, enc, self.accept_compression_encodings))
                            && (!encoding_refused(request.headers@, self.accept_compression_encodings) ==> r is Ok)''')])
    u.fn(G, 'map_response', within=W, props=['C02', 'C03', 'C05', 'C08'],
         sig_edits=[lambda t: t.sub_code('R12', r'Result<crate::Response<B>, Status>', 'Result<Response<B>, Status>'),
                    lambda t: t.sub_code('R12', r'\bwhere\s+B: Stream<Item = Result<T::Encode, Status>>[^{]*', 'where B: Stream<Item = Result<T::Encode, Status>>')],
         body_start='        proof { lemma_names_distinct(); }',
         ensures=[
             Clause('MR1_an_error_status_is_a_trailers_only_response', 'response matches Err(st) ==> status_response(r, st)'),
             Clause('MR2_a_handler_response_is_the_grpc_response_head_around_its_metadata_and_a_server_encoder_over_its_stream',
                    'response matches Ok(resp) ==> handler_response::<B, T::Encoder>(r, resp, old(self).codec.enc_id(), accept_encoding, compression_override, max_message_size)'),
             Clause('MR3_configuration_untouched', 'final(self).accept_compression_encodings == old(self).accept_compression_encodings && final(self).send_compression_encodings == old(self).send_compression_encodings && final(self).max_decoding_message_size == old(self).max_decoding_message_size && final(self).max_encoding_message_size == old(self).max_encoding_message_size && final(self).codec.enc_id() == old(self).codec.enc_id() && final(self).codec.dec_id() == old(self).codec.dec_id()'),
         ])
    u.fn(G, 'map_request_streaming', within=W, props=['C02', 'C05', 'C06'],
         sig_edits=[lambda t: t.sub_code('R12', r'\bwhere\s+B: HttpBody[^{]*', '')],
         body_edits=[hoist_decoder],
         closures={0: dict(params='body: B', ret='(o: Streaming<T::Decode>)',
                           ensures=['o.direction == Direction::Request && o.encoding == encoding && o.max_message_size == self.max_decoding_message_size && o.body@ == erased(body) && o.decoder@ == erased_decoder(verif_decoder)'])},
         ensures=[Clause('RS1_refusal_or_every_header_as_metadata_and_a_request_stream_with_the_negotiated_settings', 'streaming_request(*old(self), request, r)'),
                  Clause('RS2_configuration_untouched', CFG_SAME)])
    AWS = lambda extra: [lambda t: t.sub_code('R12', r'\bwhere\s+(?:S: \w+Service<[^{]*|B: HttpBody[^{]*)', extra)]
    u.fn(G, 'map_request_unary', within=W, props=['C02', 'C05', 'C06'], sig_edits=AWS(''),
         closures={0: dict(params='', ret='(o: Status)', ensures=['o.code == Code::Internal'])},
         hints=[('before', 'let message = stream', '        let ghost s0 = stream; proof { assert(request_stream(s0, *old(self), request)); }')],
         ensures=[Clause('RU1_first_message_with_all_request_metadata_or_the_error', 'unary_request(*old(self), request, r)'),
                  Clause('RU2_configuration_untouched', CFG_SAME)])
    u.close('}')

    u.raw('''
// ---- outcome of a call: what tonic answers, in terms of what the handler answers to the request tonic hands it ----
// an error (from request analysis or from the handler) is a Trailers-Only response; a handler response goes through
// map_response with an encoding the server may send and the request offers
pub open spec fn answered<X, C: Codec>(out: http::Response<Body>, g: Grpc<C>, h: HMap, res: Result<Response<X>, Status>, ov: SingleMessageCompressionOverride) -> bool {
    match res {
        Err(st) => status_response(out, st),
        Ok(resp) => exists|enc: Option<CompressionEncoding>| chosen(h, g.send_compression_encodings, enc) && #[trigger] handler_response::<X, C::Encoder>(out, resp, g.codec.enc_id(), enc, ov, g.max_encoding_message_size),
    }
}
// A-http-40 use: a handler may ask for one response not to be compressed through the response extensions
pub open spec fn override_of<B, E>(res: Result<Response<B>, E>) -> SingleMessageCompressionOverride {
    match res { Ok(resp) => match resp.extensions.get_spec::<SingleMessageCompressionOverride>() { Some(o) => o, None => SingleMessageCompressionOverride::Inherit }, Err(_) => SingleMessageCompressionOverride::Inherit }
}
pub open spec fn once_ok<M>(res: Result<Response<M>, Status>) -> Result<Response<Once<Result<M, Status>>>, Status> {
    match res { Ok(resp) => Ok(Response { metadata: resp.metadata, message: Once { item: Ok(resp.message) }, extensions: resp.extensions }), Err(st) => Err(st) }
}
''')
    u._emit(hdr); u._open_header = hdr
    CALL = ['C02', 'C03', 'C05']
    once2 = {0: dict(params='r: Response<T::Encode>', ret='(o: Response<Once<Result<T::Encode, Status>>>)',
                     ensures=['o.metadata == r.metadata && o.extensions == r.extensions && o.message.item == Ok::<T::Encode, Status>(r.message)']),
             1: dict(params='m: T::Encode', ret='(o: Once<Result<T::Encode, Status>>)', ensures=['o.item == Ok::<T::Encode, Status>(m)'])}
    u.fn(G, 'unary', within=W, props=CALL,
         sig_edits=AWS('where S: UnaryService<T::Decode, Response = T::Encode>'), closures=once2,
         ensures=[Clause('SU1_the_handler_gets_the_first_request_message_with_all_request_metadata_and_its_answer_or_status_is_what_goes_out',
                         '''exists|rq: Result<Request<T::Decode>, Status>| #[trigger] unary_request(*old(self), req, rq) && match rq {
                                Err(st) => status_response(r, st),
                                Ok(request) => answered(r, *old(self), req.headers@, once_ok(service.respond(request)), override_of(service.respond(request))) }''')])
    u.fn(G, 'server_streaming', within=W, props=CALL,
         sig_edits=AWS('where S: ServerStreamingService<T::Decode, Response = T::Encode>'),
         ensures=[Clause('SS1_the_handler_gets_the_first_request_message_and_its_stream_or_status_is_what_goes_out',
                         '''exists|rq: Result<Request<T::Decode>, Status>| #[trigger] unary_request(*old(self), req, rq) && match rq {
                                Err(st) => status_response(r, st),
                                Ok(request) => answered(r, *old(self), req.headers@, service.respond(request), SingleMessageCompressionOverride::Inherit) }''')])
    u.fn(G, 'client_streaming', within=W, props=CALL,
         sig_edits=AWS('where S: ClientStreamingService<T::Decode, Response = T::Encode>'), closures=once2,
         ensures=[Clause('SC1_the_handler_gets_the_request_stream_with_all_request_metadata_and_its_answer_or_status_is_what_goes_out',
                         '''exists|rq: Result<Request<Streaming<T::Decode>>, Status>| #[trigger] streaming_request(*old(self), req, rq) && match rq {
                                Err(st) => status_response(r, st),
                                Ok(request) => answered(r, *old(self), req.headers@, once_ok(service.respond(request)), override_of(service.respond(request))) }''')])
    u.fn(G, 'streaming', within=W, props=CALL,
         sig_edits=AWS('where S: StreamingService<T::Decode, Response = T::Encode>'),
         ensures=[Clause('SB1_the_handler_gets_the_request_stream_and_its_stream_or_status_is_what_goes_out',
                         '''exists|rq: Result<Request<Streaming<T::Decode>>, Status>| #[trigger] streaming_request(*old(self), req, rq) && match rq {
                                Err(st) => status_response(r, st),
                                Ok(request) => answered(r, *old(self), req.headers@, service.respond(request), SingleMessageCompressionOverride::Inherit) }''')])
    u.close('}')

    u.fn(G, 'compression_override_from_response', props=['C05'],
         sig_edits=[lambda t: t.sub_code('R12', r'Result<crate::Response<B>, E>', 'Result<Response<B>, E>')],
         closures={0: dict(params='response: &Response<B>', ret='(o: Option<SingleMessageCompressionOverride>)',
                           ensures=['o == response.extensions.get_spec::<SingleMessageCompressionOverride>()'])},
         ensures=[Clause('O1_override_only_when_the_handler_asked_for_it', 'r == override_of(*res)')])
    return u
