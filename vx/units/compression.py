"""U4 — tonic/src/codec/compression.rs: negotiation (pick the response encoding, accept/refuse the request encoding) and the
compress()/decompress() wrappers around flate2/zstd.  Carries C05; the EnabledCompressionEncodings slot algebra (iterator
adapters Verus rejects) is decided by the complete Kani harnesses in kx/."""
from vxlib import Unit, Clause, r15_bytes_match
from units import common

C = 'tonic/src/codec/compression.rs'

SPEC = r'''
pub open spec fn enc_name(e: CompressionEncoding) -> Seq<char> {
    match e { CompressionEncoding::Gzip => "gzip"@, CompressionEncoding::Deflate => "deflate"@, CompressionEncoding::Zstd => "zstd"@ }
}
pub open spec fn enc_of_name(s: Seq<char>) -> Option<CompressionEncoding> {
    if s == "gzip"@ { Some(CompressionEncoding::Gzip) } else if s == "deflate"@ { Some(CompressionEncoding::Deflate) }
    else if s == "zstd"@ { Some(CompressionEncoding::Zstd) } else { None }
}
// EnabledCompressionEncodings seen through its slots.  The contracts of its methods below are PROVED on the real code by
// complete Kani harnesses (all 4^3 slot states x 3 encodings): kx/harnesses/compression_cfg.rs
impl EnabledCompressionEncodings {
    pub open spec fn enabled(&self, e: CompressionEncoding) -> bool {
        self.inner@[0] == Some(e) || self.inner@[1] == Some(e) || self.inner@[2] == Some(e)
    }
    pub open spec fn none_enabled(&self) -> bool { self.inner@[0] is None && self.inner@[1] is None && self.inner@[2] is None }
    // "name,name,identity" for the enabled encodings in slot order
    pub open spec fn accept_value(&self) -> Seq<u8> {
        let a = |i: int| match self.inner@[i] { Some(e) => ascii_bytes(enc_name(e)) + seq![44u8], None => Seq::<u8>::empty() };
        a(0) + a(1) + a(2) + ascii_bytes("identity"@)
    }
    // is_enabled / is_empty: callee contracts discharged on the real code by the complete Kani harnesses kani::cfg_is_enabled /
    // kani::cfg_is_empty (all slot states x all encodings)
    #[verifier::external_body]
    pub fn is_enabled(&self, encoding: CompressionEncoding) -> (r: bool) ensures r == self.enabled(encoding) { unimplemented!() }
    #[verifier::external_body]
    pub fn is_empty(&self) -> (r: bool) ensures r == self.none_enabled() { unimplemented!() }
}
// ---- into_accept_encoding_header_value: `self.inner.into_iter().flatten()` (R17) is the Some-entries in slot order ----
pub open spec fn flat(s: Seq<Option<CompressionEncoding>>) -> Seq<CompressionEncoding> decreases s.len() {
    if s.len() == 0 { Seq::empty() } else { match s.last() { Some(x) => flat(s.drop_last()).push(x), None => flat(s.drop_last()) } }
}
// A-core-21: array::IntoIter + Iterator::flatten over Options yields the Some values in order
#[verifier::external_body]
pub fn verif_flatten_options(a: [Option<CompressionEncoding>; 3]) -> (r: Vec<CompressionEncoding>) ensures r@ == flat(a@) { unimplemented!() }
// A-std-str-05: str::as_bytes of an ASCII string is its characters as bytes
pub open spec fn is_ascii(s: Seq<char>) -> bool { forall|i: int| 0 <= i < s.len() ==> (#[trigger] s[i] as u32) < 128 }
#[verifier::external_body]
pub fn verif_ascii_bytes(s: &str) -> (r: &[u8]) ensures is_ascii(s@) ==> r@ == ascii_bytes(s@) { unimplemented!() }
#[verifier::external_body]
pub fn verif_bytes_lit(s: &'static str) -> (r: &'static [u8]) ensures r@ == ascii_bytes(s@) { unimplemented!() }
// A-core-43: <[u8]>::trim_ascii is the slice without its leading and trailing ASCII whitespace
pub open spec fn is_ascii_ws(b: u8) -> bool { b == 9 || b == 10 || b == 12 || b == 13 || b == 32 }
pub assume_specification[ <[u8]>::trim_ascii ](s: &[u8]) -> (r: &[u8])
    ensures
        exists|i: int, j: int| 0 <= i <= j <= s@.len() && #[trigger] s@.subrange(i, j) == r@
            && (forall|k: int| 0 <= k < i ==> is_ascii_ws(s@[k])) && (forall|k: int| j <= k < s@.len() ==> is_ascii_ws(s@[k])),
        r@.len() > 0 ==> !is_ascii_ws(r@[0]) && !is_ascii_ws(r@.last());
pub open spec fn names_of(s: Seq<CompressionEncoding>) -> Seq<u8> decreases s.len() {
    if s.len() == 0 { Seq::<u8>::empty() } else { names_of(s.drop_last()) + ascii_bytes(enc_name(s.last())) + seq![44u8] }
}
pub proof fn lemma_enc_name_bytes(e: CompressionEncoding)
    ensures is_ascii(enc_name(e)), legal_value(ascii_bytes(enc_name(e))), ascii_bytes(enc_name(e)).len() > 0,
        is_ascii("identity"@), legal_value(ascii_bytes("identity"@)),
{
    reveal_strlit("gzip"); reveal_strlit("deflate"); reveal_strlit("zstd"); reveal_strlit("identity");
    assert(ascii_bytes("gzip"@) =~= seq![103u8, 122, 105, 112]);
    assert(ascii_bytes("deflate"@) =~= seq![100u8, 101, 102, 108, 97, 116, 101]);
    assert(ascii_bytes("zstd"@) =~= seq![122u8, 115, 116, 100]);
    assert(ascii_bytes("identity"@) =~= seq![105u8, 100, 101, 110, 116, 105, 116, 121]);
}
pub proof fn lemma_names_legal(s: Seq<CompressionEncoding>)
    ensures legal_value(names_of(s)), names_of(s).len() == 0 <==> s.len() == 0
    decreases s.len()
{
    if s.len() > 0 { lemma_names_legal(s.drop_last()); lemma_enc_name_bytes(s.last()); }
}
// the fold over the flattened slots is the slot-wise definition the negotiation clauses use
pub proof fn lemma_accept_value(c: EnabledCompressionEncodings)
    ensures names_of(flat(c.inner@)) + ascii_bytes("identity"@) == c.accept_value(), flat(c.inner@).len() == 0 <==> c.none_enabled()
{
    let s = c.inner@;
    assert(s.len() == 3);
    let s2 = s.drop_last(); let s1 = s2.drop_last(); let s0 = s1.drop_last();
    assert(s0.len() == 0);
    assert(flat(s0) =~= Seq::empty());
    assert(s1.last() == s[0] && s2.last() == s[1] && s.last() == s[2]);
    let a = |i: int| match c.inner@[i] { Some(e) => ascii_bytes(enc_name(e)) + seq![44u8], None => Seq::<u8>::empty() };
    assert(names_of(flat(s0)) =~= Seq::<u8>::empty());
    assert(names_of(flat(s1)) =~= a(0)) by { if s[0] is Some { assert(flat(s1).drop_last() =~= flat(s0)); } }
    assert(names_of(flat(s2)) =~= a(0) + a(1)) by { if s[1] is Some { assert(flat(s2).drop_last() =~= flat(s1)); } }
    assert(names_of(flat(s)) =~= a(0) + a(1) + a(2)) by { if s[2] is Some { assert(flat(s).drop_last() =~= flat(s2)); } }
    assert(names_of(flat(s)) + ascii_bytes("identity"@) =~= c.accept_value());
}
// A-std-split-01: split_by_comma(s) = s.split(',').map(str::trim): the comma separated, trimmed tokens of s, in order;
// find_map answers f's first Some over them
pub uninterp spec fn comma_tokens(s: Seq<char>) -> Seq<Seq<char>>;
pub struct SplitByComma<'a> { pub s: &'a str }
#[verifier::external_body]
pub fn split_by_comma(s: &str) -> (r: SplitByComma<'_>) ensures r.s@ == s@ { unimplemented!() }
impl<'a> SplitByComma<'a> {
    #[verifier::external_body]
    pub fn find_map<B, F: FnMut(&'a str) -> Option<B>>(self, f: F) -> (r: Option<B>)
        requires forall|t: &'a str| f.requires((t,)),
        ensures
            r matches Some(b) ==> exists|i: int, t: &'a str| 0 <= i < comma_tokens(self.s@).len() && comma_tokens(self.s@)[i] == t@ && f.ensures((t,), Some(b))
                && forall|j: int, u: &'a str| 0 <= j < i && comma_tokens(self.s@)[j] == u@ ==> f.ensures((u,), None::<B>),
            r is None ==> forall|j: int, u: &'a str| 0 <= j < comma_tokens(self.s@).len() && comma_tokens(self.s@)[j] == u@ ==> f.ensures((u,), None::<B>),
    { unimplemented!() }
}
// A-core-07 (R15): `a == b"lit"` for an ASCII literal: byte-slice equality with the bytes of the literal
#[verifier::external_body]
pub fn verif_bytes_eq(a: &[u8], lit: &str) -> (r: bool) ensures r == (a@ == ascii_bytes(lit@)) { unimplemented!() }
pub proof fn lemma_enc_names()
    ensures
        ascii_bytes("gzip"@) != ascii_bytes("deflate"@), ascii_bytes("gzip"@) != ascii_bytes("zstd"@), ascii_bytes("deflate"@) != ascii_bytes("zstd"@),
        ascii_bytes("identity"@) != ascii_bytes("gzip"@), ascii_bytes("identity"@) != ascii_bytes("deflate"@), ascii_bytes("identity"@) != ascii_bytes("zstd"@),
{
    reveal_strlit("gzip"); reveal_strlit("deflate"); reveal_strlit("zstd"); reveal_strlit("identity");
    assert(ascii_bytes("gzip"@).len() == 4); assert(ascii_bytes("deflate"@).len() == 7); assert(ascii_bytes("zstd"@).len() == 4); assert(ascii_bytes("identity"@).len() == 8);
    assert(ascii_bytes("gzip"@)[0] == 103u8); assert(ascii_bytes("zstd"@)[0] == 122u8);
}
// MetadataValue / MetadataMap::insert as used for the refusal status (A-tonic-meta-01; the generic key plumbing is in unit metadata)
pub struct MetadataValue { pub inner: HeaderValue }
impl MetadataValue {
    pub fn unchecked_from_header_value(value: HeaderValue) -> (r: Self) ensures r.inner@ == value@ { MetadataValue { inner: value } }
    #[verifier::external_body]
    pub fn from_static(src: &'static str) -> (r: Self) ensures r.inner@ == ascii_bytes(src@) { unimplemented!() }
}
impl MetadataMap {
    #[verifier::external_body]
    pub fn insert(&mut self, key: &'static str, val: MetadataValue) -> (r: Option<MetadataValue>)
        ensures final(self).headers@ == old(self).headers@.insert(key@, seq![val.inner@])
    { unimplemented!() }
}
impl BytesMut {
    // A-bytes-13: BufMut::writer wraps the buffer
    pub fn writer(&mut self) -> (r: Writer<'_>) ensures *r.buf == *old(self), *final(r.buf) == *final(self) { Writer { buf: self } }
}
// A-bytes-14: &bytes_mut[a..b] is the subrange (panics when out of range)
impl vstd::std_specs::core::IndexSpecImpl<core::ops::Range<usize>> for BytesMut {
    open spec fn index_req(&self, idx: &core::ops::Range<usize>) -> bool { idx.start <= idx.end && idx.end <= self@.len() }
}
impl core::ops::Index<core::ops::Range<usize>> for BytesMut {
    type Output = [u8];
    #[verifier::external_body]
    fn index(&self, r: core::ops::Range<usize>) -> (o: &[u8]) ensures o@ == self@.subrange(r.start as int, r.end as int) { unimplemented!() }
}
impl vstd::std_specs::core::IndexSpecImpl<core::ops::RangeFull> for BytesMut {
    open spec fn index_req(&self, idx: &core::ops::RangeFull) -> bool { true }
}
impl core::ops::Index<core::ops::RangeFull> for BytesMut {
    type Output = [u8];
    #[verifier::external_body]
    fn index(&self, r: core::ops::RangeFull) -> (o: &[u8]) ensures o@ == self@ { unimplemented!() }
}
impl vstd::std_specs::core::IndexSpecImpl<core::ops::RangeTo<usize>> for BytesMut {
    open spec fn index_req(&self, idx: &core::ops::RangeTo<usize>) -> bool { idx.end <= self@.len() }
}
impl core::ops::Index<core::ops::RangeTo<usize>> for BytesMut {
    type Output = [u8];
    #[verifier::external_body]
    fn index(&self, r: core::ops::RangeTo<usize>) -> (o: &[u8]) ensures o@ == self@.subrange(0, r.end as int) { unimplemented!() }
}
impl vstd::std_specs::core::IndexSpecImpl<core::ops::RangeFrom<usize>> for BytesMut {
    open spec fn index_req(&self, idx: &core::ops::RangeFrom<usize>) -> bool { idx.start <= self@.len() }
}
impl core::ops::Index<core::ops::RangeFrom<usize>> for BytesMut {
    type Output = [u8];
    #[verifier::external_body]
    fn index(&self, r: core::ops::RangeFrom<usize>) -> (o: &[u8]) ensures o@ == self@.subrange(r.start as int, self@.len() as int) { unimplemented!() }
}
// A-flate2-01 / A-zstd-01: the reader adaptors of flate2 and zstd yield the coder's image of their input (or fail)
pub mod flate2 {
    pub struct Compression { pub level: u32 }
    impl Compression { pub fn new(level: u32) -> (r: Compression) { Compression { level } } }
}
pub mod zstd { pub const DEFAULT_COMPRESSION_LEVEL: i32 = 3; }
pub struct GzEncoder<'a> { pub input: &'a [u8] }
pub struct ZlibEncoder<'a> { pub input: &'a [u8] }
pub struct Encoder<'a> { pub input: &'a [u8] }
pub struct GzDecoder<'a> { pub input: &'a [u8] }
pub struct ZlibDecoder<'a> { pub input: &'a [u8] }
pub struct Decoder<'a> { pub input: &'a [u8] }
impl<'a> GzEncoder<'a> { pub fn new(r: &'a [u8], level: flate2::Compression) -> (e: Self) ensures e.input@ == r@ { GzEncoder { input: r } } }
impl<'a> ZlibEncoder<'a> { pub fn new(r: &'a [u8], level: flate2::Compression) -> (e: Self) ensures e.input@ == r@ { ZlibEncoder { input: r } } }
impl<'a> Encoder<'a> {
    #[verifier::external_body]
    pub fn new(r: &'a [u8], level: i32) -> (e: Result<Self, std::io::Error>) ensures e matches Ok(x) ==> x.input@ == r@, e is Err ==> !zstd_ok(r@) { unimplemented!() }
}
impl<'a> GzDecoder<'a> { pub fn new(r: &'a [u8]) -> (e: Self) ensures e.input@ == r@ { GzDecoder { input: r } } }
impl<'a> ZlibDecoder<'a> { pub fn new(r: &'a [u8]) -> (e: Self) ensures e.input@ == r@ { ZlibDecoder { input: r } } }
impl<'a> Decoder<'a> {
    #[verifier::external_body]
    pub fn new(r: &'a [u8]) -> (e: Result<Self, std::io::Error>) ensures e matches Ok(x) ==> x.input@ == r@, e is Err ==> zstd_dec(r@) is None { unimplemented!() }
}
impl<'a> ReadSpec for GzEncoder<'a> { open spec fn yields(&self) -> Option<Seq<u8>> { if gz_ok(self.input@) { Some(gz_enc(self.input@)) } else { None } } }
impl<'a> ReadSpec for ZlibEncoder<'a> { open spec fn yields(&self) -> Option<Seq<u8>> { if zlib_ok(self.input@) { Some(zlib_enc(self.input@)) } else { None } } }
impl<'a> ReadSpec for Encoder<'a> { open spec fn yields(&self) -> Option<Seq<u8>> { if zstd_ok(self.input@) { Some(zstd_enc(self.input@)) } else { None } } }
impl<'a> ReadSpec for GzDecoder<'a> { open spec fn yields(&self) -> Option<Seq<u8>> { gz_dec(self.input@) } }
impl<'a> ReadSpec for ZlibDecoder<'a> { open spec fn yields(&self) -> Option<Seq<u8>> { zlib_dec(self.input@) } }
impl<'a> ReadSpec for Decoder<'a> { open spec fn yields(&self) -> Option<Seq<u8>> { zstd_dec(self.input@) } }
// what the property says about the request / response encoding check
pub open spec fn wanted(h: HMap) -> Option<Seq<u8>> { if h.contains_key("grpc-encoding"@) { Some(h["grpc-encoding"@][0]) } else { None } }
'''


def build():
    u = Unit('compression', ['C05'])
    u.fn_guard('tonic/src/codec/compression.rs', 'split_by_comma', "fn split_by_comma(s: &str) -> impl Iterator<Item = &str> { s.split(',').map(|s| s.trim()) }", why='A-std-split-01')
    common.http_base(u)
    common.metadata_core(u)
    common.status_decls(u)
    common.status_assumed(u)
    u.item(C, 'enum', 'CompressionEncoding', derives='Clone, Copy, PartialEq, Eq, Structural')
    u.item(C, 'struct', 'EnabledCompressionEncodings', derives='Clone, Copy')
    u.item(C, 'const', 'ENCODING_HEADER')
    u.item(C, 'const', 'ACCEPT_ENCODING_HEADER')
    u.prelude('codec_specs.rs')
    u.item(C, 'struct', 'CompressionSettings', derives='Clone, Copy')
    u.raw(SPEC)
    u._emit('impl CompressionEncoding {'); u._open_header = 'impl CompressionEncoding {'
    u.fn(C, 'as_str', within='impl CompressionEncoding', ensures=[Clause('name', 'r@ == enc_name(self)', ['C05', 'C03'])])   # callee of into_header_value (C03)
    u.fn(C, 'from_accept_encoding_header', within='impl CompressionEncoding',
         closures={0: dict(params='value: &str', ret='(o: Option<CompressionEncoding>)',
                           ensures=['o matches Some(e) ==> value@ == enc_name(e) && enabled_encodings.enabled(e)'])},
         ensures=[
             Clause('P1_only_an_encoding_configured_for_sending', 'r matches Some(e) ==> enabled_encodings.enabled(e)', ['C05']),
             Clause('P2_only_an_encoding_the_request_offers',
                    '''r matches Some(e) ==> map@.contains_key("grpc-accept-encoding"@) && visible_ascii(map@["grpc-accept-encoding"@][0])
                && exists|i: int| 0 <= i < comma_tokens(bytes_as_chars(map@["grpc-accept-encoding"@][0])).len()
                    && #[trigger] comma_tokens(bytes_as_chars(map@["grpc-accept-encoding"@][0]))[i] == enc_name(e)''', ['C05']),
             Clause('P3_nothing_configured_means_identity', 'enabled_encodings.none_enabled() ==> r is None', ['C05']),
         ])
    u.fn(C, 'from_encoding_header', within='impl CompressionEncoding',
         body_edits=[r15_bytes_match,
                     lambda t: t.sub_code('R3', r'\.map\(MetadataValue::unchecked_from_header_value\)', '.map(|e| MetadataValue::unchecked_from_header_value(e))')],
         body_start='        proof { lemma_enc_names(); lemma_names_distinct(); }',
         closures={0: dict(params='e: HeaderValue', ret='(x: MetadataValue)', ensures=['x.inner@ == e@']),
                   1: dict(params='', ret='(x: MetadataValue)', ensures=['x.inner@ == ascii_bytes("identity"@)'])},
         ensures=[
             Clause('Q1_absent_or_identity_is_uncompressed',
                    '(wanted(map@) is None || wanted(map@) == Some(ascii_bytes("identity"@))) ==> r matches Ok(None)', ['C05']),
             Clause('Q2_accepted_only_when_enabled_for_receiving',
                    'r matches Ok(Some(e)) ==> wanted(map@) == Some(ascii_bytes(enc_name(e))) && enabled_encodings.enabled(e)', ['C05']),
             Clause('Q3_enabled_encoding_is_accepted',
                    'forall|e: CompressionEncoding| wanted(map@) == Some(ascii_bytes(enc_name(e))) && enabled_encodings.enabled(e) ==> r == Ok::<Option<CompressionEncoding>, Status>(Some(e))', ['C05']),
             Clause('Q4_refusal_is_unimplemented_and_lists_exactly_the_enabled_encodings',
                    '''r matches Err(st) ==> st.code == Code::Unimplemented && st.metadata.headers@.contains_key("grpc-accept-encoding"@)
                && st.metadata.headers@["grpc-accept-encoding"@] == seq![if enabled_encodings.none_enabled() { ascii_bytes("identity"@) } else { enabled_encodings.accept_value() }]''', ['C05']),
             Clause('Q5_everything_else_is_refused',
                    '''wanted(map@) is Some && wanted(map@) != Some(ascii_bytes("identity"@))
                && (forall|e: CompressionEncoding| !(wanted(map@) == Some(ascii_bytes(enc_name(e))) && enabled_encodings.enabled(e))) ==> r is Err''', ['C05']),
         ])
    u.fn(C, 'into_header_value', within='impl CompressionEncoding', ensures=[Clause('value', 'r@ == ascii_bytes(enc_name(self))', ['C05', 'C03'])])
    u.close('}')

    u._emit('impl EnabledCompressionEncodings {'); u._open_header = 'impl EnabledCompressionEncodings {'
    u.fn(C, 'into_accept_encoding_header_value', within='impl EnabledCompressionEncodings',
         body_edits=[lambda t: t.sub_code('R17', r'self\.inner\.into_iter\(\)\.flatten\(\)', 'verif_flatten_options(self.inner)'),
                     lambda t: t.sub_code('R17', r'encoding\.as_str\(\)\.as_bytes\(\)', 'verif_ascii_bytes(encoding.as_str())'),
                     lambda t: t.sub_code('R15', r'b"([a-z]+)"', r'verif_bytes_lit("\1")')],
         body_start='        proof { lemma_accept_value(self); lemma_names_legal(flat(self.inner@)); }',
         loops={0: dict(iter='it', invariant=[
             'it.seq() == flat(self.inner@)',
             'value@ == names_of(flat(self.inner@).take(it.index@ as int))',
             'value.reserve_bound@ < 0'])},
         hints=[('before', 'value.put_slice(verif_ascii_bytes', '            proof { lemma_enc_name_bytes(encoding); assert(it.seq().take(it.index@ + 1).drop_last() =~= it.seq().take(it.index@ as int)); }'),
                ('before', 'if value.is_empty()', '        proof { assert(flat(self.inner@).take(flat(self.inner@).len() as int) =~= flat(self.inner@)); lemma_enc_name_bytes(CompressionEncoding::Gzip); }'),
                ('before', 'Some(http::HeaderValue::from_maybe_shared', '        proof { assert(legal_value(value@)); }')],
         ensures=[
             Clause('A1_none_iff_nothing_is_enabled', 'r is None <==> self.none_enabled()', ['C05']),
             Clause('A2_advertises_exactly_the_enabled_encodings_then_identity', 'r matches Some(v) ==> v@ == self.accept_value()', ['C05']),
         ])
    u.close('}')

    take = 'old(decompressed_buf)@.take(len as int)'
    u.fn(C, 'compress',
         requires=['len <= old(decompressed_buf)@.len()', 'settings.buffer_growth_interval > 0', 'old(out_buf).reserve_bound@ < 0',
                   'len as int + settings.buffer_growth_interval as int <= usize::MAX as int'],
         hints=[('before', 'let capacity =', 'proof { let g = buffer_growth_interval as int; let l = len as int; assert((l / g) * g <= l && (l / g + 1) * g == (l / g) * g + g) by (nonlinear_arith) requires g > 0, l >= 0; }')],
         ensures=[
             Clause('K1_ok_iff_the_coder_succeeds', f'r is Ok <==> compress_ok(settings.encoding, {take})', ['C05', 'C01', 'C03']),
             Clause('K2_appends_exactly_the_named_coders_image', f'r is Ok ==> final(out_buf)@ == old(out_buf)@ + compress_spec(settings.encoding, {take})', ['C05', 'C01', 'C03']),
             Clause('K3_earlier_output_untouched', 'final(out_buf)@.take(old(out_buf)@.len() as int) == old(out_buf)@ && final(out_buf)@.len() >= old(out_buf)@.len() && final(out_buf).reserve_bound == old(out_buf).reserve_bound', ['C01', 'C06']),
         ])
    ctake = 'old(compressed_buf)@.take(len as int)'
    u.fn(C, 'decompress',
         requires=['len <= old(compressed_buf)@.len()', 'settings.buffer_growth_interval > 0', 'old(out_buf).reserve_bound@ < 0', 'len <= usize::MAX / 4',
                   '2 * len as int + settings.buffer_growth_interval as int <= usize::MAX as int'],
         hints=[('before', 'let capacity =', 'proof { let g = buffer_growth_interval as int; let l = estimate_decompressed_len as int; assert((l / g) * g <= l && (l / g + 1) * g == (l / g) * g + g) by (nonlinear_arith) requires g > 0, l >= 0; }')],
         ensures=[
             Clause('D1_ok_gives_the_named_coders_inverse', f'''r is Ok ==> decompress_spec(settings.encoding, {ctake}) is Some
            && final(out_buf)@ == old(out_buf)@ + decompress_spec(settings.encoding, {ctake})->Some_0
            && final(compressed_buf)@ == old(compressed_buf)@.skip(len as int)''', ['C05', 'C01', 'C07']),
             Clause('D2_err_only_for_undecodable_input', f'r is Err ==> decompress_spec(settings.encoding, {ctake}) is None', ['C07', 'C01']),
             Clause('D3_frame', 'final(compressed_buf).reserve_bound == old(compressed_buf).reserve_bound && final(out_buf).reserve_bound == old(out_buf).reserve_bound', ['C06']),
         ])
    return u
