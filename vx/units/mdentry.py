"""the entry API of tonic/src/metadata/map.rs (part of unit `metadata`): MetadataMap::{entry, entry_bin, generic_entry}, the five
AsMetadataKey::entry impls, Entry / VacantEntry / OccupiedEntry and ValueIterMut::next.  What C08 says of it: a typed entry is
only ever a handle on a name of its own side of the partition (so no value of the other encoding can be read or written
through it), and what is written through it is the value it was given."""
from vxlib import Unit, Clause

MP = 'tonic/src/metadata/map.rs'

HENTRY = r'''
// A-http-32: http::header::Entry: a handle on one name of a HeaderMap.  `name` is that name, `vals` the values stored under it
// (none for a vacant entry); each operation acts on `vals` as the HeaderMap operation of that name acts on the values of the
// name.  That the map holds `vals` under `name` once the handle is gone is http's side and not stated here.
pub struct HOccupied<'a> { pub name: HeaderName, pub vals: Ghost<Seq<Seq<u8>>>, pub m: &'a mut HeaderMap }
pub struct HVacant<'a> { pub name: HeaderName, pub m: &'a mut HeaderMap }
pub enum HEntry<'a> { Occupied(HOccupied<'a>), Vacant(HVacant<'a>) }
pub struct HValueDrain<'a> { pub rest: Ghost<Seq<Seq<u8>>>, pub m: &'a mut HeaderMap }
pub struct HValueIterMut<'a> { pub rest: Ghost<Seq<Seq<u8>>>, pub m: &'a mut HeaderMap }
pub open spec fn hentry_at(h: HEntry<'_>, m: HMap, n: Seq<char>) -> bool {
    match h {
        HEntry::Occupied(o) => m.contains_key(n) && o.name@ == n && o.vals@ == m[n],
        HEntry::Vacant(v) => !m.contains_key(n) && v.name@ == n,
    }
}
impl HeaderMap {
    #[verifier::external_body]
    pub fn entry<K: AsHeaderName>(&mut self, k: K) -> (r: HEntry<'_>) ensures hentry_at(r, old(self)@, k.hname()) { unimplemented!() }
}
impl<'a> HVacant<'a> {
    #[verifier::external_body] pub fn key(&self) -> (r: &HeaderName) ensures r@ == self.name@ { unimplemented!() }
    #[verifier::external_body] pub fn into_key(self) -> (r: HeaderName) ensures r@ == self.name@ { unimplemented!() }
    #[verifier::external_body] pub fn insert(self, v: HeaderValue) -> (r: &'a mut HeaderValue) ensures (*r)@ == v@ { unimplemented!() }
    #[verifier::external_body] pub fn insert_entry(self, v: HeaderValue) -> (r: HOccupied<'a>) ensures r.name@ == self.name@, r.vals@ == seq![v@] { unimplemented!() }
}
impl<'a> HOccupied<'a> {
    #[verifier::external_body] pub fn key(&self) -> (r: &HeaderName) ensures r@ == self.name@ { unimplemented!() }
    #[verifier::external_body] pub fn get(&self) -> (r: &HeaderValue) requires self.vals@.len() > 0 ensures r@ == self.vals@[0] { unimplemented!() }
    #[verifier::external_body]
    pub fn get_mut(&mut self) -> (r: &mut HeaderValue) requires old(self).vals@.len() > 0
        ensures (*r)@ == old(self).vals@[0], final(self).vals@ == old(self).vals@.update(0, (*final(r))@), final(self).name@ == old(self).name@
    { unimplemented!() }
    #[verifier::external_body] pub fn into_mut(self) -> (r: &'a mut HeaderValue) requires self.vals@.len() > 0 ensures (*r)@ == self.vals@[0] { unimplemented!() }
    #[verifier::external_body]
    pub fn insert(&mut self, v: HeaderValue) -> (r: HeaderValue) requires old(self).vals@.len() > 0
        ensures r@ == old(self).vals@[0], final(self).vals@ == seq![v@], final(self).name@ == old(self).name@
    { unimplemented!() }
    #[verifier::external_body]
    pub fn insert_mult(&mut self, v: HeaderValue) -> (r: HValueDrain<'_>)
        ensures r.rest@ == old(self).vals@, final(self).vals@ == seq![v@], final(self).name@ == old(self).name@
    { unimplemented!() }
    #[verifier::external_body]
    pub fn append(&mut self, v: HeaderValue) ensures final(self).vals@ == old(self).vals@.push(v@), final(self).name@ == old(self).name@ { unimplemented!() }
    #[verifier::external_body] pub fn remove(self) -> (r: HeaderValue) requires self.vals@.len() > 0 ensures r@ == self.vals@[0] { unimplemented!() }
    #[verifier::external_body]
    pub fn remove_entry(self) -> (r: (HeaderName, HeaderValue)) requires self.vals@.len() > 0 ensures r.0@ == self.name@, r.1@ == self.vals@[0] { unimplemented!() }
    #[verifier::external_body]
    pub fn remove_entry_mult(self) -> (r: (HeaderName, HValueDrain<'a>)) ensures r.0@ == self.name@, r.1.rest@ == self.vals@ { unimplemented!() }
    #[verifier::external_body] pub fn iter(&self) -> (r: HValueIter<'_>) ensures r.rest@ == self.vals@ { unimplemented!() }
    #[verifier::external_body] pub fn iter_mut(&mut self) -> (r: HValueIterMut<'_>) ensures r.rest@ == old(self).vals@ { unimplemented!() }
}
impl<'a> HValueIterMut<'a> {
    #[verifier::external_body]
    pub fn next(&mut self) -> (r: Option<&'a mut HeaderValue>)
        ensures
            old(self).rest@.len() == 0 ==> r is None && final(self).rest@ == old(self).rest@,
            old(self).rest@.len() > 0 ==> (r matches Some(v) && (*v)@ == old(self).rest@[0] && final(self).rest@ == old(self).rest@.skip(1)),
    { unimplemented!() }
}
// A-std-string-02: String::as_bytes is the UTF-8 encoding of the text (as vstd states for str::as_bytes)
pub assume_specification[ String::as_bytes ](s: &String) -> (r: &[u8]) ensures r@ == vstd::utf8::encode_utf8(s@);
// A-http-28: HeaderName::from_bytes keeps the spelling of a name apart from lower-casing it
pub broadcast axiom fn axiom_parse_lower(s: Seq<char>)
    ensures #[trigger] HeaderName::parse(vstd::utf8::encode_utf8(s)) matches Some(n) ==> n == lower(s);
// the typed handles: what C08 needs of them is their representation invariant - the name is on the side of the type
impl<'a, VE: ValueEncoding> OccupiedEntry<'a, VE> {
    pub open spec fn wf(&self) -> bool { VE::valid_key(self.inner.name@) && self.inner.vals@.len() > 0 }
}
impl<'a, VE: ValueEncoding> VacantEntry<'a, VE> {
    pub open spec fn wf(&self) -> bool { VE::valid_key(self.inner.name@) }
}
impl<'a, VE: ValueEncoding> Entry<'a, VE> {
    pub open spec fn wf(&self) -> bool { match *self { Entry::Occupied(e) => e.wf(), Entry::Vacant(e) => e.wf() } }
    pub open spec fn name(&self) -> Seq<char> { match *self { Entry::Occupied(e) => e.inner.name@, Entry::Vacant(e) => e.inner.name@ } }
    // the entry is the slot of name n in map m
    pub open spec fn at(&self, m: HMap, n: Seq<char>) -> bool {
        match *self {
            Entry::Occupied(o) => m.contains_key(n) && o.inner.name@ == n && o.inner.vals@ == m[n],
            Entry::Vacant(v) => !m.contains_key(n) && v.inner.name@ == n,
        }
    }
}
'''

# the `entry` member of the sealed key trait (spliced into the trait text of MAPSHIM)
TRAIT_ENTRY = '''        // a handle on the slot of the name - and only for a key of this side of the partition
        fn entry(self, map: &mut MetadataMap) -> (r: Result<HEntry<'_>, InvalidMetadataKey>)
            requires self.key_inv(), hmap_wf(old(map).headers@)
            ensures
                !self.key_ok() ==> r is Err,
                r matches Ok(h) ==> VE::valid_key(self.key_name()) && hentry_at(h, old(map).headers@, self.key_name());
'''


def entry_fn(u, within, display, str_key):
    sig = [lambda t: t.sub_code('R12', r"Entry<'_, HeaderValue>", "HEntry<'_>")]
    be = [lambda t: t.sub_code('R12', r'http::header::HeaderName::from_bytes', 'HeaderName::from_bytes')]
    bs = '        proof { VE::law_case(self@); }' if str_key else None
    if str_key:
        bs = '        broadcast use axiom_parse_lower; proof { VE::law_case(self@); }'
    u.fn(MP, 'entry', within=within, nth=0, sig_edits=sig, body_edits=be, body_start=bs, display='as_metadata_key::Sealed for %s::entry' % display)


def structs(u):
    ty = [lambda t: t.sub_code('R12', r"http::header::VacantEntry<'a, http::header::HeaderValue>", "HVacant<'a>"),
          lambda t: t.sub_code('R12', r"http::header::OccupiedEntry<'a, http::header::HeaderValue>", "HOccupied<'a>"),
          lambda t: t.sub_code('R12', r"http::header::ValueDrain<'a, http::header::HeaderValue>", "HValueDrain<'a>"),
          lambda t: t.sub_code('R12', r"http::header::ValueIterMut<'a, http::header::HeaderValue>", "HValueIterMut<'a>"),
          lambda t: t.sub_code('R12', r'PhantomData<VE>', 'core::marker::PhantomData<VE>')]
    rr = ['#[verifier::reject_recursive_types(VE)]']
    u.item(MP, 'struct', 'VacantEntry', edits=ty, attrs=rr)
    u.item(MP, 'struct', 'OccupiedEntry', edits=ty, attrs=rr)
    u.item(MP, 'enum', 'Entry', attrs=rr)
    u.item(MP, 'struct', 'ValueDrain', edits=ty, attrs=rr)
    u.item(MP, 'struct', 'ValueIterMut', edits=ty, attrs=rr)
    u.raw(HENTRY)


def api(u):
    """everything after the key-trait impls"""
    u._emit('impl MetadataMap {'); u._open_header = 'impl MetadataMap {'
    ge = [lambda t: t.sub_code('R12', r'http::header::Entry::', 'HEntry::')]
    for name, enc in (('generic_entry', 'VE'), ('entry', 'Ascii'), ('entry_bin', 'Binary')):
        ve = enc if enc == 'VE' else '<%s as ValueEncoding>' % enc
        u.fn(MP, name, within='impl MetadataMap', nth=0, body_edits=ge, display='MetadataMap::' + name,
             requires=['key.key_inv()', 'hmap_wf(old(self).headers@)'],
             ensures=[Clause('T1_a_key_of_the_other_side_is_refused', '!key.key_ok() ==> r is Err'),
                      Clause('T2_the_entry_is_the_slot_of_that_name_and_the_name_is_on_this_side',
                             'r matches Ok(e) ==> e.wf() && %s::valid_key(key.key_name()) && e.at(old(self).headers@, key.key_name())' % ve)])
    u.close('}')
    hdr = "impl<'a, VE: ValueEncoding> Entry<'a, VE> {"
    W = hdr[:-2]
    u._emit(hdr); u._open_header = hdr
    nouse = []
    first = 'match self { Entry::Occupied(e) => e.inner.vals@[0], Entry::Vacant(_) => %s }'
    u.fn(MP, 'or_insert', within=W, body_edits=nouse, display='Entry::or_insert', requires=['self.wf()'],
         ensures=[Clause('Y1_the_first_value_already_there_else_the_given_one', '(*r).inner@ == (' + first % 'default.inner@' + ')')])
    u.fn(MP, 'or_insert_with', within=W, body_edits=nouse, display='Entry::or_insert_with', requires=['self.wf()', 'default.requires(())'],
         ensures=[Clause('Y2_the_first_value_already_there_else_the_one_the_closure_makes',
                         'match self { Entry::Occupied(e) => (*r).inner@ == e.inner.vals@[0], Entry::Vacant(_) => exists|v: MetadataValue<VE>| default.ensures((), v) && (*r).inner@ == v.inner@ }')])
    u.fn(MP, 'key', within=W, display='Entry::key', requires=['self.wf()'],
         body_edits=nouse + [lambda t: t.sub_code('R31', r'match \*self \{', 'match self {'), lambda t: t.sub_code('R31', r'\(ref e\)', '(e)')],
         ensures=[Clause('Y3_the_key_of_the_slot_typed_on_its_own_side', 'r.inner@ == self.name() && r.wf()')])
    u.close('}')
    hdr = "impl<'a, VE: ValueEncoding> VacantEntry<'a, VE> {"
    W = hdr[:-2]
    u._emit(hdr); u._open_header = hdr
    u.fn(MP, 'key', within=W, display='VacantEntry::key', requires=['self.wf()'], ensures=[Clause('X1_the_key_of_the_slot_typed_on_its_own_side', 'r.inner@ == self.inner.name@ && r.wf()')])
    u.fn(MP, 'into_key', within=W, display='VacantEntry::into_key', requires=['self.wf()'], ensures=[Clause('X2_the_key_of_the_slot_typed_on_its_own_side', 'r.inner@ == self.inner.name@ && r.wf()')])
    u.fn(MP, 'insert', within=W, display='VacantEntry::insert', requires=['self.wf()'], ensures=[Clause('X3_the_value_written_is_the_one_given', '(*r).inner@ == value.inner@')])
    u.fn(MP, 'insert_entry', within=W, display='VacantEntry::insert_entry', requires=['self.wf()'],
         ensures=[Clause('X4_the_new_entry_is_a_handle_of_the_same_encoding_on_the_same_name_holding_the_given_value',
                         'r.wf() && r.inner.name@ == self.inner.name@ && r.inner.vals@ == seq![value.inner@]')])
    u.close('}')
    hdr = "impl<'a, VE: ValueEncoding> OccupiedEntry<'a, VE> {"
    W = hdr[:-2]
    u._emit(hdr); u._open_header = hdr
    keep = 'final(self).wf() && final(self).inner.name@ == old(self).inner.name@'
    u.fn(MP, 'key', within=W, display='OccupiedEntry::key', requires=['self.wf()'], ensures=[Clause('O1_the_key_of_the_slot_typed_on_its_own_side', 'r.inner@ == self.inner.name@ && r.wf()')])
    u.fn(MP, 'get', within=W, display='OccupiedEntry::get', requires=['self.wf()'], ensures=[Clause('O2_the_first_value', 'r.inner@ == self.inner.vals@[0]')])
    u.fn(MP, 'get_mut', within=W, display='OccupiedEntry::get_mut', requires=['old(self).wf()'],
         ensures=[Clause('O3_the_first_value_and_what_is_written_through_it_lands_there', '(*r).inner@ == old(self).inner.vals@[0] && final(self).inner.vals@ == old(self).inner.vals@.update(0, (*final(r)).inner@) && ' + keep)])
    u.fn(MP, 'into_mut', within=W, display='OccupiedEntry::into_mut', requires=['self.wf()'], ensures=[Clause('O4_the_first_value', '(*r).inner@ == self.inner.vals@[0]')])
    u.fn(MP, 'insert', within=W, display='OccupiedEntry::insert', requires=['old(self).wf()'],
         ensures=[Clause('O5_the_given_value_replaces_all_values_and_the_old_first_one_is_returned', 'r.inner@ == old(self).inner.vals@[0] && final(self).inner.vals@ == seq![value.inner@] && ' + keep)])
    u.fn(MP, 'insert_mult', within=W, display='OccupiedEntry::insert_mult', requires=['old(self).wf()'],
         ensures=[Clause('O6_the_given_value_replaces_all_values_which_are_handed_back_in_order', 'r.inner.rest@ == old(self).inner.vals@ && final(self).inner.vals@ == seq![value.inner@] && ' + keep)])
    u.fn(MP, 'append', within=W, display='OccupiedEntry::append', requires=['old(self).wf()'],
         ensures=[Clause('O7_the_given_value_goes_after_the_existing_ones', 'final(self).inner.vals@ == old(self).inner.vals@.push(value.inner@) && ' + keep)])
    u.fn(MP, 'remove', within=W, display='OccupiedEntry::remove', requires=['self.wf()'], ensures=[Clause('O8_the_first_value', 'r.inner@ == self.inner.vals@[0]')])
    u.fn(MP, 'remove_entry', within=W, display='OccupiedEntry::remove_entry', requires=['self.wf()'],
         ensures=[Clause('O9_key_typed_on_its_own_side_and_first_value', 'r.0.inner@ == self.inner.name@ && r.0.wf() && r.1.inner@ == self.inner.vals@[0]')])
    u.fn(MP, 'remove_entry_mult', within=W, display='OccupiedEntry::remove_entry_mult', requires=['self.wf()'],
         ensures=[Clause('O10_key_typed_on_its_own_side_and_all_values_in_order', 'r.0.inner@ == self.inner.name@ && r.0.wf() && r.1.inner.rest@ == self.inner.vals@')])
    u.fn(MP, 'iter', within=W, display='OccupiedEntry::iter', requires=['self.wf()'],
         ensures=[Clause('O11_every_value_of_the_slot_in_order', 'r.inner matches Some(it) && it.rest@ == self.inner.vals@')])
    u.fn(MP, 'iter_mut', within=W, display='OccupiedEntry::iter_mut', requires=['old(self).wf()'],
         ensures=[Clause('O12_every_value_of_the_slot_in_order', 'r.inner.rest@ == old(self).inner.vals@')])
    u.close('}')
    u.fn(MP, 'next', within="impl<'a, VE: ValueEncoding> Iterator for ValueIterMut<'a, VE>", header="impl<'a, VE: ValueEncoding> ValueIterMut<'a, VE> {", close=True,
         display='ValueIterMut::next', sig_edits=[lambda t: t.sub_code('R9', r'Self::Item', "&'a mut MetadataValue<VE>")],
         body_edits=[lambda t: t.sub_code('R3', r'\.map\(MetadataValue::unchecked_from_mut_header_value_ref\)', '.map(|e| MetadataValue::unchecked_from_mut_header_value_ref(e))')],
         closures={0: dict(params='e: &mut HeaderValue', ret='(x: &mut MetadataValue<VE>)', ensures=['(*x).inner@ == (*old(e))@'])},
         ensures=[Clause('O13_values_come_out_in_order_unchanged',
                         'old(self).inner.rest@.len() > 0 ==> (r matches Some(v) && (*v).inner@ == old(self).inner.rest@[0] && final(self).inner.rest@ == old(self).inner.rest@.skip(1))'),
                  Clause('O14_end', 'old(self).inner.rest@.len() == 0 ==> r is None')])
