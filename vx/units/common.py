"""pieces shared by several units (each unit still regenerates and re-verifies them from /repo)"""
from vxlib import Unit, Clause

MM = 'tonic/src/metadata/map.rs'

RESERVED_SPEC = r'''
// The reserved names, taken from the property statement (C08): te, user-agent, content-type, grpc-status, grpc-message,
// grpc-message-type
pub open spec fn is_reserved(k: Seq<char>) -> bool {
    k == "te"@ || k == "user-agent"@ || k == "content-type"@ || k == "grpc-message"@ || k == "grpc-message-type"@ || k == "grpc-status"@
}
// r is m without the reserved names; every other name keeps its values, in order
pub open spec fn sanitized_of(r: HMap, m: HMap) -> bool {
    &&& forall|k: Seq<char>| #[trigger] r.contains_key(k) <==> (m.contains_key(k) && !is_reserved(k))
    &&& forall|k: Seq<char>| #[trigger] r.contains_key(k) ==> r[k] == m[k]
}
pub proof fn lemma_names_distinct()
    ensures
        !is_reserved("grpc-status-details-bin"@), !is_reserved("grpc-encoding"@), !is_reserved("grpc-accept-encoding"@),
        !is_reserved("grpc-timeout"@),
        "grpc-status"@ != "grpc-message"@, "grpc-status"@ != "grpc-status-details-bin"@, "grpc-message"@ != "grpc-status-details-bin"@,
        "content-type"@ != "grpc-status"@, "content-type"@ != "grpc-message"@, "content-type"@ != "grpc-status-details-bin"@,
        "te"@ != "content-type"@, "grpc-encoding"@ != "grpc-accept-encoding"@, "grpc-encoding"@ != "content-type"@,
        "grpc-accept-encoding"@ != "content-type"@, "te"@ != "grpc-encoding"@, "te"@ != "grpc-accept-encoding"@,
{
    reveal_strlit("te"); reveal_strlit("user-agent"); reveal_strlit("content-type"); reveal_strlit("grpc-message");
    reveal_strlit("grpc-message-type"); reveal_strlit("grpc-status"); reveal_strlit("grpc-status-details-bin");
    reveal_strlit("grpc-encoding"); reveal_strlit("grpc-accept-encoding"); reveal_strlit("grpc-timeout");
    assert("te"@.len() == 2); assert("user-agent"@.len() == 10); assert("content-type"@.len() == 12); assert("grpc-message"@.len() == 12);
    assert("grpc-message-type"@.len() == 17); assert("grpc-status"@.len() == 11); assert("grpc-status-details-bin"@.len() == 23);
    assert("grpc-encoding"@.len() == 13); assert("grpc-accept-encoding"@.len() == 20); assert("grpc-timeout"@.len() == 12);
    assert("content-type"@[0] == 'c'); assert("grpc-message"@[0] == 'g'); assert("grpc-timeout"@[5] == 't'); assert("grpc-message"@[5] == 'm');
    assert("content-type"@[1] == 'o'); assert("grpc-timeout"@[1] == 'r');
}
'''

DERIVES = r'''
impl MetadataMap {
    // A-derive-01: #[derive(Clone)] on MetadataMap is field-wise
    pub fn clone(&self) -> (r: Self) ensures r.headers@ == self.headers@ { MetadataMap { headers: self.headers.clone() } }
}
'''


def http_base(u: Unit):
    u.prelude('base.rs', 'bytes.rs', 'http.rs', 'httpmsg.rs', 'encodings.rs')


def metadata_core(u: Unit, props_sanitize=('C08', 'C03', 'C04', 'C12')):
    """the real MetadataMap struct, its reserved-name table and the straight-line constructors"""
    u.raw(RESERVED_SPEC)
    u.item(MM, 'struct', 'MetadataMap')
    u.raw(DERIVES)
    u._emit('impl MetadataMap {')
    u._open_header = 'impl MetadataMap {'
    idx = ' || '.join('Self::GRPC_RESERVED_HEADERS@[%d]@ == k' % i for i in range(6))
    u.exec_const(MM, 'GRPC_RESERVED_HEADERS', props=list(props_sanitize), ensures=[
        Clause('T1_six_names', 'Self::GRPC_RESERVED_HEADERS@.len() == 6'),
        Clause('T2_only_reserved_names', 'forall|j: int| 0 <= j < 6 ==> is_reserved(#[trigger] Self::GRPC_RESERVED_HEADERS@[j]@)'),
        Clause('T3_every_reserved_name_listed', 'forall|k: Seq<char>| is_reserved(k) ==> (%s)' % idx),
    ])
    u.fn(MM, 'new', within='impl MetadataMap', props=list(props_sanitize),
         ensures=[('empty', 'r.headers@ == Map::<Seq<char>, Seq<Seq<u8>>>::empty()')])
    u.fn(MM, 'with_capacity', within='impl MetadataMap', props=list(props_sanitize),
         ensures=[('empty', 'r.headers@ == Map::<Seq<char>, Seq<Seq<u8>>>::empty()')])
    u.fn(MM, 'from_headers', within='impl MetadataMap', props=list(props_sanitize),
         ensures=[('same', 'r.headers@ == headers@')])
    u.fn(MM, 'into_headers', within='impl MetadataMap', props=list(props_sanitize),
         ensures=[('same', 'r@ == self.headers@')])
    u.fn(MM, 'len', within='impl MetadataMap', props=list(props_sanitize), ensures=[('bounded', 'r <= 32768')])
    seq = lambda i: 'it.seq()[%d]@ == k' % i
    u.fn(MM, 'into_sanitized_headers', within='impl MetadataMap', props=list(props_sanitize),
         body_start='        let ghost h0 = self.headers@;',
         loops={0: dict(iter='it', invariant=[
             'it.seq().len() == 6',
             'forall|j: int| 0 <= j < 6 ==> is_reserved(#[trigger] it.seq()[j]@)',
             'forall|k: Seq<char>| is_reserved(k) ==> (%s)' % ' || '.join(seq(i) for i in range(6)),
             'forall|k: Seq<char>| #[trigger] this.headers@.contains_key(k) <==> (h0.contains_key(k) && !(%s))'
             % ' || '.join('(it.index@ > %d && %s)' % (i, seq(i)) for i in range(6)),
             'forall|k: Seq<char>| #[trigger] this.headers@.contains_key(k) ==> this.headers@[k] == h0[k]',
         ])},
         ensures=[Clause('S1_reserved_names_stripped_everything_else_kept', 'sanitized_of(r@, self.headers@)')])
    u.close('}')
